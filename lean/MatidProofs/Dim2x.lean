/-
The bonds of the doubled cell are the bonds of the cell with their lattice offset reduced modulo 2 (C09, `mic_2x_edges`):
in the minimum-image table of the 2× supercell the copy (m, i) of atom i and the copy (m', j) of atom j are bonded exactly
when SOME lattice image n ≡ m' − m (mod 2) of atom j is bonded to atom i in the original cell.  This identifies the bonding
graph of the supercell with the derived (covering) graph of the voltage graph of the cell, to which the covering theorem
applies.  Exact arithmetic; uses the assembled exactness theorem of the displacement tensor (C10).
-/
import MatidProofs.GeomAssemble

namespace Matid.Dim2x
open Matid.Geom

/-- the doubled cell: periodic vectors doubled -/
def cell2 (cell : Cell) (pbc : Pbc) : Cell :=
  { a := if pbc.x then V3.smul 2 cell.a else cell.a, b := if pbc.y then V3.smul 2 cell.b else cell.b,
    c := if pbc.z then V3.smul 2 cell.c else cell.c }

/-- a copy index: 0 or 1 along periodic axes, 0 along the others -/
def isCopy (pbc : Pbc) (m : Int × Int × Int) : Prop :=
  (m.1 = 0 ∨ (pbc.x = true ∧ m.1 = 1)) ∧ (m.2.1 = 0 ∨ (pbc.y = true ∧ m.2.1 = 1)) ∧ (m.2.2 = 0 ∨ (pbc.z = true ∧ m.2.2 = 1))

def half (per : Bool) (x : Rat) : Rat := if per then x / 2 else x

/-- fractional coordinates in the doubled cell of the point with fractional coordinates f in the cell -/
def frac2 (pbc : Pbc) (f : V3) : V3 := (half pbc.x f.1, half pbc.y f.2.1, half pbc.z f.2.2)

theorem toCartesian_cell2 (cell : Cell) (pbc : Pbc) (f : V3) : toCartesian (cell2 cell pbc) (frac2 pbc f) = toCartesian cell f := by
  obtain ⟨⟨a1, a2, a3⟩, ⟨b1, b2, b3⟩, ⟨c1, c2, c3⟩⟩ := cell
  obtain ⟨f1, f2, f3⟩ := f
  cases hx : pbc.x <;> cases hy : pbc.y <;> cases hz : pbc.z <;>
    simp only [toCartesian, cell2, frac2, half, hx, hy, hz, V3.add, V3.smul, Prod.mk.injEq, if_true, if_false, Bool.false_eq_true] <;>
    refine ⟨?_, ?_, ?_⟩ <;> ring

theorem comb_cell2 (cell : Cell) (pbc : Pbc) (t : Int × Int × Int) (ht : admissible pbc t) :
    Cell.comb (cell2 cell pbc) t = Cell.comb cell (2 * t.1, 2 * t.2.1, 2 * t.2.2) := by
  obtain ⟨⟨a1, a2, a3⟩, ⟨b1, b2, b3⟩, ⟨c1, c2, c3⟩⟩ := cell
  obtain ⟨t1, t2, t3⟩ := t
  obtain ⟨h1, h2, h3⟩ := ht
  simp only at h1 h2 h3
  cases hx : pbc.x <;> cases hy : pbc.y <;> cases hz : pbc.z <;>
    simp only [hx, hy, hz, forall_const, Bool.false_eq_true, IsEmpty.forall_iff] at h1 h2 h3 <;>
    simp only [Cell.comb, cell2, hx, hy, hz, V3.add, V3.smul, Prod.mk.injEq, if_true, if_false, Bool.false_eq_true] <;>
    (try subst h1) <;> (try subst h2) <;> (try subst h3) <;>
    refine ⟨?_, ?_, ?_⟩ <;> push_cast <;> ring

theorem det_cell2 (cell : Cell) (pbc : Pbc) (h : cell.det ≠ 0) : (cell2 cell pbc).det ≠ 0 := by
  obtain ⟨⟨a1, a2, a3⟩, ⟨b1, b2, b3⟩, ⟨c1, c2, c3⟩⟩ := cell
  simp only [Cell.det, V3.dot, V3.cross] at h ⊢
  cases hx : pbc.x <;> cases hy : pbc.y <;> cases hz : pbc.z <;>
    simp only [cell2, hx, hy, hz, V3.smul, if_true, if_false, Bool.false_eq_true] <;>
    intro hcon <;> apply h <;> nlinarith [hcon]

theorem insideCell_frac2 (pbc : Pbc) (s : V3) (m : Int × Int × Int) (hs : insideCell pbc s) (hm : isCopy pbc m) :
    insideCell pbc (frac2 pbc (s.1 + m.1, s.2.1 + m.2.1, s.2.2 + m.2.2)) := by
  obtain ⟨h1, h2, h3⟩ := hs
  obtain ⟨m1, m2, m3⟩ := hm
  refine ⟨?_, ?_, ?_⟩
  · intro hx
    obtain ⟨a, b⟩ := h1 hx
    simp only [frac2, half, hx, if_true]
    rcases m1 with h | ⟨_, h⟩ <;> rw [h] <;> push_cast <;> constructor <;> linarith
  · intro hy
    obtain ⟨a, b⟩ := h2 hy
    simp only [frac2, half, hy, if_true]
    rcases m2 with h | ⟨_, h⟩ <;> rw [h] <;> push_cast <;> constructor <;> linarith
  · intro hz
    obtain ⟨a, b⟩ := h3 hz
    simp only [frac2, half, hz, if_true]
    rcases m3 with h | ⟨_, h⟩ <;> rw [h] <;> push_cast <;> constructor <;> linarith

/-- fractional point shifted by a copy index -/
def shiftF (s : V3) (m : Int × Int × Int) : V3 := (s.1 + m.1, s.2.1 + m.2.1, s.2.2 + m.2.2)

/-- the image distance in the doubled cell between copy (m, i) and copy (m', j) at supercell offset t is the image distance in the
cell between i and j at offset m' − m + 2t -/
theorem imageDist2_cell2 (cell : Cell) (pbc : Pbc) (s u : V3) (m m' t : Int × Int × Int) (ht : admissible pbc t) :
    imageDist2 (cell2 cell pbc) (toCartesian cell (shiftF s m)) (toCartesian cell (shiftF u m')) t =
    imageDist2 cell (toCartesian cell s) (toCartesian cell u) (m'.1 - m.1 + 2 * t.1, m'.2.1 - m.2.1 + 2 * t.2.1, m'.2.2 - m.2.2 + 2 * t.2.2) := by
  unfold imageDist2
  rw [comb_cell2 cell pbc t ht]
  congr 1
  obtain ⟨⟨a1, a2, a3⟩, ⟨b1, b2, b3⟩, ⟨c1, c2, c3⟩⟩ := cell
  obtain ⟨s1, s2, s3⟩ := s
  obtain ⟨u1, u2, u3⟩ := u
  obtain ⟨m1, m2, m3⟩ := m
  obtain ⟨n1, n2, n3⟩ := m'
  obtain ⟨t1, t2, t3⟩ := t
  simp only [toCartesian, shiftF, Cell.comb, V3.sub, V3.add, V3.smul, Prod.mk.injEq]
  refine ⟨?_, ?_, ?_⟩ <;> push_cast <;> ring

/-- **bonds of the doubled cell = bonds of the cell modulo 2.**  Non-singular cell; atoms i and j of the cell with fractional
coordinates s, u in [0,1) along the periodic axes; copy indices m, m'; the doubled structure `pos2` stores the copy (m', j) at
index J; cutoff c > 0 and bonding reach 0 ≤ σ ≤ c (σ = threshold + r_i + r_j).  Then the table of the doubled cell has a finite
entry ≤ σ² between copy (m, i) and index J exactly when some admissible lattice offset n with n ≡ m' − m (mod 2) brings atom j
within σ of atom i. -/
theorem bonded_2x_iff (cell : Cell) (pbc : Pbc) (hdet : cell.det ≠ 0) (c σ : Rat) (hc : 0 < c) (hσ0 : 0 ≤ σ) (hσc : σ ≤ c)
    (pos2 : List V3) (cl2 : CellList) (hcl : tensorCellList pos2 (cell2 cell pbc) pbc (some c) = .ok cl2)
    (s u : V3) (hs : insideCell pbc s) (hu : insideCell pbc u) (m m' : Int × Int × Int) (hm : isCopy pbc m) (hm' : isCopy pbc m')
    (J : Nat) (hJ : pos2[J]? = some (toCartesian cell (shiftF u m'))) :
    (∃ e, pairEntry cl2 (toCartesian cell (shiftF s m)) J = some e ∧ e.dist2 ≤ σ * σ) ↔
    (∃ n : Int × Int × Int, admissible pbc n ∧
      (∃ t : Int × Int × Int, admissible pbc t ∧ n = (m'.1 - m.1 + 2 * t.1, m'.2.1 - m.2.1 + 2 * t.2.1, m'.2.2 - m.2.2 + 2 * t.2.2)) ∧
      imageDist2 cell (toCartesian cell s) (toCartesian cell u) n ≤ σ * σ) := by
  have hdet2 := det_cell2 cell pbc hdet
  have hin1 := insideCell_frac2 pbc s m hs hm
  have hin2 := insideCell_frac2 pbc u m' hu hm'
  have hP : toCartesian (cell2 cell pbc) (frac2 pbc (shiftF s m)) = toCartesian cell (shiftF s m) := toCartesian_cell2 cell pbc _
  have hQ : toCartesian (cell2 cell pbc) (frac2 pbc (shiftF u m')) = toCartesian cell (shiftF u m') := toCartesian_cell2 cell pbc _
  have hJ' : pos2[J]? = some (toCartesian (cell2 cell pbc) (frac2 pbc (shiftF u m'))) := by rw [hQ]; exact hJ
  obtain ⟨hsome, hnone⟩ := tensor_entry_exact_finite pos2 (cell2 cell pbc) pbc c hc hdet2 cl2 hcl J
    (frac2 pbc (shiftF s m)) (frac2 pbc (shiftF u m')) hJ' hin1 hin2
  rw [hP, hQ] at hsome hnone
  have hσ2 : σ * σ ≤ c * c := by nlinarith
  -- admissibility of n = m' − m + 2t
  have hadm : ∀ t, admissible pbc t → admissible pbc (m'.1 - m.1 + 2 * t.1, m'.2.1 - m.2.1 + 2 * t.2.1, m'.2.2 - m.2.2 + 2 * t.2.2) := by
    intro t ht
    obtain ⟨t1, t2, t3⟩ := ht
    obtain ⟨a1, a2, a3⟩ := hm
    obtain ⟨b1, b2, b3⟩ := hm'
    refine ⟨?_, ?_, ?_⟩
    · intro hx
      have := t1 hx
      rcases a1 with h | ⟨h', _⟩ <;> rcases b1 with g | ⟨g', _⟩ <;> simp_all
    · intro hy
      have := t2 hy
      rcases a2 with h | ⟨h', _⟩ <;> rcases b2 with g | ⟨g', _⟩ <;> simp_all
    · intro hz
      have := t3 hz
      rcases a3 with h | ⟨h', _⟩ <;> rcases b3 with g | ⟨g', _⟩ <;> simp_all
  constructor
  · rintro ⟨e, he, hle⟩
    obtain ⟨hne, himg, _, _⟩ := hsome e he
    obtain ⟨t, ht⟩ := List.exists_mem_of_ne_nil _ hne
    obtain ⟨hta, hdist⟩ := himg t ht
    rw [imageDist2_cell2 cell pbc s u m m' t hta] at hdist
    exact ⟨_, hadm t hta, ⟨t, hta, rfl⟩, by rw [← hdist]; exact hle⟩
  · rintro ⟨n, _, ⟨t, hta, rfl⟩, hle⟩
    rw [← imageDist2_cell2 cell pbc s u m m' t hta] at hle
    cases he : pairEntry cl2 (toCartesian cell (shiftF s m)) J with
    | none =>
      exfalso
      have := (hnone.mp he) t hta
      exact absurd (le_trans hle hσ2) (not_le.mpr this)
    | some e =>
      obtain ⟨_, _, _, hmin⟩ := hsome e he
      exact ⟨e, rfl, le_trans (hmin t hta) hle⟩

end Matid.Dim2x
