/- Partition property of the Wyckoff-set assembly (model: Matid.Select.formSets). -/
import MatidModel.Select
import Mathlib.Data.List.Basic
import Mathlib.Data.List.Sort
import Mathlib.Tactic.Linarith

namespace Matid.Select

theorem mem_insertSorted (x v : Nat) : ∀ l : List Nat, v ∈ insertSorted x l ↔ v = x ∨ v ∈ l
  | [] => by simp [insertSorted]
  | y :: ys => by
    simp only [insertSorted]
    split
    · simp
    · split
      · rename_i h; have : x = y := by simpa using h
        subst this; simp
      · simp [mem_insertSorted x v ys]; tauto

theorem insertSorted_sorted (x : Nat) : ∀ l : List Nat, l.Pairwise (· < ·) → (insertSorted x l).Pairwise (· < ·)
  | [], _ => by simp [insertSorted]
  | y :: ys, h => by
    have hy := (List.pairwise_cons.mp h)
    simp only [insertSorted]
    split
    · rename_i hxy
      exact List.pairwise_cons.mpr ⟨fun a ha => by
        rcases List.mem_cons.mp ha with rfl | ha
        · exact hxy
        · exact lt_trans hxy (hy.1 a ha), h⟩
    · split
      · exact h
      · rename_i h1 h2
        have hlt : y < x := by
          have : x ≠ y := by simpa using h2
          omega
        exact List.pairwise_cons.mpr ⟨fun a ha => by
          rcases (mem_insertSorted x a ys).mp ha with rfl | ha
          · exact hlt
          · exact hy.1 a ha, insertSorted_sorted x ys hy.2⟩

theorem sortedSet_aux (l : List Nat) : ∀ acc : List Nat, acc.Pairwise (· < ·) →
    (l.foldl (fun acc x => insertSorted x acc) acc).Pairwise (· < ·) ∧
    ∀ v, v ∈ l.foldl (fun acc x => insertSorted x acc) acc ↔ v ∈ l ∨ v ∈ acc := by
  induction l with
  | nil => intro acc h; simp [h]
  | cons x xs ih =>
    intro acc h
    simp only [List.foldl_cons]
    obtain ⟨s, m⟩ := ih (insertSorted x acc) (insertSorted_sorted x acc h)
    refine ⟨s, fun v => ?_⟩
    rw [m v, mem_insertSorted]
    simp only [List.mem_cons]; tauto

theorem mem_sortedSet (l : List Nat) (v : Nat) : v ∈ sortedSet l ↔ v ∈ l := by
  have := (sortedSet_aux l [] List.Pairwise.nil).2 v
  simpa [sortedSet] using this

theorem sortedSet_nodup (l : List Nat) : (sortedSet l).Nodup := by
  have := (sortedSet_aux l [] List.Pairwise.nil).1
  exact this.imp (fun h => Nat.ne_of_lt h)

theorem mem_indicesOf (equiv : List Nat) (v i : Nat) : i ∈ indicesOf equiv v ↔ equiv[i]? = some v := by
  simp only [indicesOf, List.mem_map, List.mem_filter, beq_iff_eq]
  constructor
  · rintro ⟨⟨x, j⟩, ⟨hm, hx⟩, rfl⟩
    have := List.mem_zipIdx_iff_getElem?.mp hm
    simp only at hx this
    rw [← hx]; exact this
  · intro h
    exact ⟨(v, i), ⟨List.mem_zipIdx_iff_getElem?.mpr h, rfl⟩, rfl⟩

/-- the sets partition the atoms: atom i lies in the set of its own label and in no other set -/
theorem sets_partition (equiv : List Nat) (i : Nat) (hi : i < equiv.length) :
    ∃ s ∈ formSets equiv, i ∈ s.2 ∧ ∀ s' ∈ formSets equiv, i ∈ s'.2 → s' = s := by
  refine ⟨(equiv[i], indicesOf equiv equiv[i]), ?_, ?_, ?_⟩
  · simp only [formSets, List.mem_map]
    exact ⟨equiv[i], (mem_sortedSet _ _).mpr (List.getElem_mem hi), rfl⟩
  · exact (mem_indicesOf _ _ _).mpr (by simp [hi])
  · intro s' hs' hmem
    simp only [formSets, List.mem_map] at hs'
    obtain ⟨v, _, rfl⟩ := hs'
    have := (mem_indicesOf _ _ _).mp hmem
    have hv : v = equiv[i] := by
      rw [List.getElem?_eq_getElem hi] at this
      exact (Option.some.inj this).symm
    rw [hv]

/-- every atom of a set carries the set's equivalence label, and the set labels are pairwise different -/
theorem sets_labels (equiv : List Nat) :
    (∀ s ∈ formSets equiv, ∀ i ∈ s.2, equiv[i]? = some s.1) ∧ ((formSets equiv).map (·.1)).Nodup := by
  constructor
  · intro s hs i hi
    simp only [formSets, List.mem_map] at hs
    obtain ⟨v, _, rfl⟩ := hs
    exact (mem_indicesOf _ _ _).mp hi
  · have : (formSets equiv).map (·.1) = sortedSet equiv := by simp [formSets, List.map_map, Function.comp_def]
    rw [this]; exact sortedSet_nodup equiv

/-- no set is empty: every label of the list is carried by some atom -/
theorem sets_nonempty (equiv : List Nat) : ∀ s ∈ formSets equiv, s.2 ≠ [] := by
  intro s hs
  simp only [formSets, List.mem_map] at hs
  obtain ⟨v, hv, rfl⟩ := hs
  obtain ⟨i, hi, e⟩ := List.getElem_of_mem ((mem_sortedSet _ _).mp hv)
  intro hnil
  have : i ∈ indicesOf equiv v := (mem_indicesOf _ _ _).mpr (by simp [hi, e])
  simp only at hnil
  rw [hnil] at this
  cases this

end Matid.Select
