/- Freshness of the SymmetryAnalyzer caches over all operation histories (model: MatidModel/AnalyzerCache.lean). -/
import MatidModel.AnalyzerCache

namespace Matid.Analyzer

/-- every filled cache belongs to the current structure and is one of the attributes the getters assign -/
def Fresh (r : Rule) (s : AState) : Prop := ∀ p ∈ s.cache, p.2 = s.sys ∧ p.1 ∈ r.cached

theorem lookup_some_mem (c : List (String × Nat)) (f : String) (v : Nat) (h : lookup c f = some v) :
    ∃ p ∈ c, p.1 = f ∧ p.2 = v := by
  unfold lookup at h
  cases hf : c.find? (fun p => p.1 == f) with
  | none => rw [hf] at h; cases h
  | some p =>
    rw [hf] at h
    simp only [Option.map_some, Option.some.injEq] at h
    exact ⟨p, List.mem_of_find?_eq_some hf, by simpa using List.find?_some hf, h⟩

theorem fill_fresh (r : Rule) (sys : Nat) (c : List (String × Nat)) (f : String) (hf : f ∈ r.cached)
    (h : ∀ p ∈ c, p.2 = sys ∧ p.1 ∈ r.cached) : ∀ p ∈ fill sys c f, p.2 = sys ∧ p.1 ∈ r.cached := by
  unfold fill
  split
  · exact h
  · intro p hp
    rcases List.mem_cons.mp hp with rfl | hp
    · exact ⟨rfl, hf⟩
    · exact h p hp

theorem foldl_fill_fresh (r : Rule) (sys : Nat) (fs : List String) (c : List (String × Nat))
    (hfs : ∀ f ∈ fs, f ∈ r.cached) (h : ∀ p ∈ c, p.2 = sys ∧ p.1 ∈ r.cached) :
    ∀ p ∈ fs.foldl (fill sys) c, p.2 = sys ∧ p.1 ∈ r.cached := by
  induction fs generalizing c with
  | nil => simpa using h
  | cons f fs ih =>
    simp only [List.foldl_cons]
    exact ih _ (fun g hg => hfs g (List.mem_cons_of_mem _ hg)) (fill_fresh r sys c f (hfs f List.mem_cons_self) h)

/-- with an unconditional reset that covers every attribute the getters assign, set_system leaves no cache behind -/
theorem clear_empty_of_ok (r : Rule) (hok : r.ok = true) (c : List (String × Nat)) (hc : ∀ p ∈ c, p.1 ∈ r.cached) :
    clear r c = [] := by
  unfold Rule.ok at hok
  simp only [Bool.and_eq_true, List.all_eq_true, Bool.or_eq_true] at hok
  obtain ⟨h1, h2⟩ := hok
  unfold clear
  rw [if_pos h1]
  apply List.filter_eq_nil_iff.mpr
  intro p hp
  have := h2 p.1 (hc p hp)
  rcases this with h | h
  · have hm : p.1 ∈ r.reset := by simpa using h
    simp [hm]
  · have hm : p.1 ∈ r.system := by simpa using h
    simp [hm]

def opOk (r : Rule) : Op → Prop
  | .setSystem _ => True
  | .get fs => ∀ f ∈ fs, f ∈ r.cached

theorem step_fresh (r : Rule) (hok : r.ok = true) (s : AState) (op : Op) (hop : opOk r op) (h : Fresh r s) :
    Fresh r (step r s op).1 := by
  cases op with
  | setSystem v =>
    simp only [step, Fresh]
    rw [clear_empty_of_ok r hok s.cache (fun p hp => (h p hp).2)]
    intro p hp; cases hp
  | get fs =>
    simp only [step, Fresh]
    exact foldl_fill_fresh r s.sys fs s.cache hop h

/-- what a getter reports belongs to the structure currently set -/
theorem step_out_current (r : Rule) (s : AState) (fs : List String) (hfs : ∀ f ∈ fs, f ∈ r.cached) (h : Fresh r s) :
    ∀ o ∈ (step r s (.get fs)).2, o.2 = s.sys := by
  intro o ho
  simp only [step, List.mem_map] at ho
  obtain ⟨f, _, rfl⟩ := ho
  simp only
  cases hl : lookup (fs.foldl (fill s.sys) s.cache) f with
  | none => rfl
  | some v =>
    obtain ⟨p, hp, _, hv⟩ := lookup_some_mem _ f v hl
    have := foldl_fill_fresh r s.sys fs s.cache hfs h p hp
    simp only [Option.getD_some]
    rw [← hv]; exact this.1

/-- the structure version in force when the k-th operation of a history runs -/
def sysAfter (v0 : Nat) : List Op → Nat
  | [] => v0
  | .setSystem v :: ops => sysAfter v ops
  | .get _ :: ops => sysAfter v0 ops

theorem run_fresh (r : Rule) (hok : r.ok = true) (s : AState) (ops : List Op) (hops : ∀ op ∈ ops, opOk r op)
    (h : Fresh r s) : Fresh r (run r s ops).1 := by
  induction ops generalizing s with
  | nil => simpa [run] using h
  | cons op ops ih =>
    simp only [run]
    exact ih _ (fun o ho => hops o (List.mem_cons_of_mem _ ho)) (step_fresh r hok s op (hops op List.mem_cons_self) h)

/-- **every getter call of every history reports content of the structure set by the latest set_system** -/
theorem run_outputs_current (r : Rule) (hok : r.ok = true) (s : AState) (ops : List Op)
    (hops : ∀ op ∈ ops, opOk r op) (h : Fresh r s) (pre : List Op) (fs : List String) (post : List Op)
    (hsplit : ops = pre ++ .get fs :: post) :
    ∀ o ∈ ((run r s ops).2.getD pre.length []), o.2 = sysAfter s.sys pre := by
  subst hsplit
  induction pre generalizing s with
  | nil =>
    simp only [List.nil_append, run, List.length_nil, List.getD_cons_zero, sysAfter]
    exact step_out_current r s fs (hops (.get fs) (by simp)) h
  | cons op pre ih =>
    have hop : opOk r op := hops op (by simp)
    have hf' := step_fresh r hok s op hop h
    have hrest : ∀ o ∈ pre ++ .get fs :: post, opOk r o := fun o ho => hops o (by simp at ho ⊢; right; exact ho)
    have := ih (step r s op).1 hf' hrest
    simp only [List.cons_append, run, List.length_cons, List.getD_cons_succ]
    cases op with
    | setSystem v => simpa [sysAfter, step] using this
    | get gs => simpa [sysAfter, step] using this

theorem init_fresh (r : Rule) (v : Nat) : Fresh r (init v) := by
  intro p hp; cases hp

end Matid.Analyzer
