/- Soundness, relative completeness and uniqueness for the model of get_positions_within_basis (MatidModel/WithinBasis.lean),
and completeness of the all-corner variant. -/
import MatidModel.WithinBasis
import MatidProofs.GeomAssemble

namespace Matid.WithinBasis
open Matid.Geom

/-! ### integer ranges and scanned offsets -/

theorem mem_intRange (lo hi k : Int) : k ∈ intRange lo hi ↔ lo ≤ k ∧ k ≤ hi := by
  simp only [intRange, List.mem_map, List.mem_range]
  constructor
  · rintro ⟨j, hj, rfl⟩; omega
  · intro ⟨h1, h2⟩; exact ⟨(k - lo).toNat, by omega, by omega⟩

theorem intRange_nodup (lo hi : Int) : (intRange lo hi).Nodup := by
  unfold intRange
  exact (List.nodup_range).map (fun a b h => by simpa using h)

def admissibleF (pbc : Pbc) (f : Int × Int × Int) : Prop :=
  (pbc.x = false → f.1 = 0) ∧ (pbc.y = false → f.2.1 = 0) ∧ (pbc.z = false → f.2.2 = 0)

def inBox (r : Ranges) (f : Int × Int × Int) : Prop :=
  r.a.1 ≤ f.1 ∧ f.1 ≤ r.a.2 ∧ r.b.1 ≤ f.2.1 ∧ f.2.1 ≤ r.b.2 ∧ r.c.1 ≤ f.2.2 ∧ f.2.2 ≤ r.c.2

theorem mem_directions (pbc : Pbc) (r : Ranges) (f : Int × Int × Int) :
    f ∈ directions pbc r ↔ inBox r f ∧ admissibleF pbc f := by
  obtain ⟨f1, f2, f3⟩ := f
  simp only [directions, List.mem_filter, List.mem_flatMap, List.mem_map, mem_intRange, Prod.mk.injEq, inBox, admissibleF,
    Bool.and_eq_true, Bool.or_eq_true, beq_iff_eq]
  constructor
  · rintro ⟨⟨i, hi, j, hj, k, hk, rfl, rfl, rfl⟩, ⟨hx, hy⟩, hz⟩
    refine ⟨⟨hi.1, hi.2, hj.1, hj.2, hk.1, hk.2⟩, ?_, ?_, ?_⟩
    · intro h; rcases hx with h0 | h1; exact h0; rw [h] at h1; cases h1
    · intro h; rcases hy with h0 | h1; exact h0; rw [h] at h1; cases h1
    · intro h; rcases hz with h0 | h1; exact h0; rw [h] at h1; cases h1
  · rintro ⟨⟨a1, a2, b1, b2, c1, c2⟩, hx, hy, hz⟩
    refine ⟨⟨f1, ⟨a1, a2⟩, f2, ⟨b1, b2⟩, f3, ⟨c1, c2⟩, rfl, rfl, rfl⟩, ⟨?_, ?_⟩, ?_⟩
    · cases h : pbc.x with
      | true => exact Or.inr rfl
      | false => exact Or.inl (hx h)
    · cases h : pbc.y with
      | true => exact Or.inr rfl
      | false => exact Or.inl (hy h)
    · cases h : pbc.z with
      | true => exact Or.inr rfl
      | false => exact Or.inl (hz h)

theorem directions_nodup (pbc : Pbc) (r : Ranges) : (directions pbc r).Nodup := by
  unfold directions
  apply List.Nodup.filter
  -- nested flatMap over nodup ranges with injective tuple formation
  have hc := intRange_nodup r.c.1 r.c.2
  have hb := intRange_nodup r.b.1 r.b.2
  have ha := intRange_nodup r.a.1 r.a.2
  rw [List.nodup_flatMap]
  refine ⟨?_, ?_⟩
  · intro i _
    rw [List.nodup_flatMap]
    refine ⟨?_, ?_⟩
    · intro j _
      exact hc.map (fun a b h => by simpa using h)
    · apply List.Pairwise.imp_of_mem ?_ hb
      intro j j' _ _ hne
      simp only [Function.onFun, List.disjoint_left, List.mem_map]
      rintro x ⟨k, _, rfl⟩ ⟨k', _, h⟩
      simp only [Prod.mk.injEq] at h
      exact hne h.2.1.symm
  · apply List.Pairwise.imp_of_mem ?_ ha
    intro i i' _ _ hne
    simp only [Function.onFun, List.disjoint_left, List.mem_flatMap, List.mem_map]
    rintro x ⟨j, _, k, _, rfl⟩ ⟨j', _, k', _, h⟩
    simp only [Prod.mk.injEq] at h
    exact hne h.1.symm

/-! ### one image -/

/-- the inside test of the code for one relative position -/
def insideTest (basis : Cell) (tol : Rat) (mask : Mask) (rel : V3) : Bool :=
  (!mask.a || within rel.1 (V3.norm2 basis.a) tol) && (!mask.b || within rel.2.1 (V3.norm2 basis.b) tol)
    && (!mask.c || within rel.2.2 (V3.norm2 basis.c) tol)

theorem mem_scanImage (positions : List V3) (cell basis : Cell) (origin : V3) (tol : Rat) (mask : Mask) (f : Int × Int × Int)
    (d : Found) :
    d ∈ scanImage positions cell basis origin tol mask f ↔
      ∃ p, positions[d.index]? = some p ∧ toScaled basis (V3.sub (V3.add p (Cell.comb cell f)) origin) = some d.rel ∧
        insideTest basis tol mask d.rel = true ∧ d.factor = f := by
  unfold scanImage
  simp only [List.mem_filterMap]
  constructor
  · rintro ⟨⟨p, i⟩, hmem, h⟩
    simp only at h
    cases hs : toScaled basis (V3.sub (V3.add p (Cell.comb cell f)) origin) with
    | none => simp [hs] at h
    | some rel =>
      simp only [hs] at h
      split at h
      · rename_i hin
        cases h
        exact ⟨p, List.mem_zipIdx_iff_getElem?.mp hmem, hs, hin, rfl⟩
      · cases h
  · rintro ⟨p, hp, hs, hin, hf⟩
    refine ⟨(p, d.index), List.mem_zipIdx_iff_getElem?.mpr hp, ?_⟩
    simp only [hs]
    unfold insideTest at hin
    rw [if_pos hin]
    obtain ⟨i, r, g⟩ := d
    simp only at hf
    subst hf
    rfl

/-! ### the whole function -/

/-- **soundness**: every reported entry is an atom of the structure, shifted by an integer cell offset that vanishes along
non-periodic axes and lies in the scanned box, whose coordinates relative to (origin, basis) are the reported ones and pass
the padded inside test -/
theorem within_basis_sound (positions : List V3) (cell : Cell) (pbc : Pbc) (basis : Cell) (origin : V3) (tol : Rat) (mask : Mask)
    (l : List Found) (h : positionsWithinBasis positions cell pbc basis origin tol mask = some l) :
    ∃ r, rangesOf cell (cornersCoded basis origin) = some r ∧ ∀ d ∈ l,
      ∃ p, positions[d.index]? = some p ∧ toScaled basis (V3.sub (V3.add p (Cell.comb cell d.factor)) origin) = some d.rel ∧
        insideTest basis tol mask d.rel = true ∧ admissibleF pbc d.factor ∧ inBox r d.factor := by
  unfold positionsWithinBasis at h
  split at h
  · cases h
  · cases hr : rangesOf cell (cornersCoded basis origin) with
    | none => simp [hr] at h
    | some r =>
      simp only [hr, Option.some.injEq] at h
      subst h
      refine ⟨r, rfl, ?_⟩
      intro d hd
      simp only [List.mem_flatMap] at hd
      obtain ⟨f, hf, hdf⟩ := hd
      obtain ⟨p, hp, hs, hin, hfac⟩ := (mem_scanImage _ _ _ _ _ _ _ _).mp hdf
      obtain ⟨hbox, hadm⟩ := (mem_directions pbc r f).mp hf
      exact ⟨p, hp, by rw [hfac]; exact hs, hin, by rw [hfac]; exact hadm, by rw [hfac]; exact hbox⟩

/-- **completeness inside the scanned box**: every image of every atom whose offset is admissible and lies in the box spanned
by the offsets of the code's seven corner points, and whose relative position passes the inside test, is reported -/
theorem within_basis_complete_in_box (positions : List V3) (cell : Cell) (pbc : Pbc) (basis : Cell) (origin : V3) (tol : Rat)
    (mask : Mask) (l : List Found) (h : positionsWithinBasis positions cell pbc basis origin tol mask = some l)
    (r : Ranges) (hr : rangesOf cell (cornersCoded basis origin) = some r)
    (i : Nat) (p : V3) (hp : positions[i]? = some p) (f : Int × Int × Int) (hadm : admissibleF pbc f) (hbox : inBox r f)
    (rel : V3) (hs : toScaled basis (V3.sub (V3.add p (Cell.comb cell f)) origin) = some rel)
    (hin : insideTest basis tol mask rel = true) :
    ∃ d ∈ l, d.index = i ∧ d.factor = f ∧ d.rel = rel := by
  unfold positionsWithinBasis at h
  split at h
  · cases h
  · simp only [hr, Option.some.injEq] at h
    subst h
    refine ⟨{ index := i, rel := rel, factor := f }, ?_, rfl, rfl, rfl⟩
    simp only [List.mem_flatMap]
    exact ⟨f, (mem_directions pbc r f).mpr ⟨hbox, hadm⟩, (mem_scanImage _ _ _ _ _ _ _ _).mpr ⟨p, hp, hs, hin, rfl⟩⟩

/-- no (atom, offset) pair is reported twice -/
theorem within_basis_no_duplicates (positions : List V3) (cell : Cell) (pbc : Pbc) (basis : Cell) (origin : V3) (tol : Rat)
    (mask : Mask) (l : List Found) (h : positionsWithinBasis positions cell pbc basis origin tol mask = some l) :
    (l.map fun d => (d.index, d.factor)).Nodup := by
  unfold positionsWithinBasis at h
  split at h
  · cases h
  · cases hr : rangesOf cell (cornersCoded basis origin) with
    | none => simp [hr] at h
    | some r =>
      simp only [hr, Option.some.injEq] at h
      subst h
      rw [List.map_flatMap, List.nodup_flatMap]
      refine ⟨?_, ?_⟩
      · intro f _
        -- within one image the atom indices are strictly increasing
        have hz : (positions.zipIdx).Pairwise (fun a a' => a.2 < a'.2) := by
          have h1 : ((positions.zipIdx).map Prod.snd).Pairwise (· < ·) := by
            rw [List.zipIdx_map_snd]; exact List.pairwise_lt_range'
          exact List.pairwise_map.mp h1
        have hpw : (scanImage positions cell basis origin tol mask f).Pairwise (fun d d' => d.index < d'.index) := by
          unfold scanImage
          refine List.Pairwise.filterMap _ ?_ hz
          intro ⟨p, i⟩ ⟨p', i'⟩ hlt b hb b' hb'
          simp only at hb hb'
          cases hs : toScaled basis (V3.sub (V3.add p (Cell.comb cell f)) origin) with
          | none => simp [hs] at hb
          | some rel =>
            cases hs' : toScaled basis (V3.sub (V3.add p' (Cell.comb cell f)) origin) with
            | none => simp [hs'] at hb'
            | some rel' =>
              simp only [hs] at hb
              simp only [hs'] at hb'
              split at hb <;> [skip; cases hb]
              split at hb' <;> [skip; cases hb']
              cases hb; cases hb'
              exact hlt
        rw [List.nodup_iff_pairwise_ne, List.pairwise_map]
        exact hpw.imp (fun {d d'} h heq => by simp only [Prod.mk.injEq] at heq; omega)
      · apply List.Pairwise.imp_of_mem ?_ (directions_nodup pbc r)
        intro f f' _ _ hne
        simp only [Function.onFun, List.disjoint_left, List.mem_map]
        rintro x ⟨d, hd, rfl⟩ ⟨d', hd', h⟩
        have h1 := ((mem_scanImage _ _ _ _ _ _ _ _).mp hd).choose_spec.2.2.2
        have h2 := ((mem_scanImage _ _ _ _ _ _ _ _).mp hd').choose_spec.2.2.2
        simp only [Prod.mk.injEq] at h
        exact hne (by rw [← h1, ← h2, h.2])

end Matid.WithinBasis

namespace Matid.WithinBasis
open Matid.Geom

/-! ### the box spanned by all eight corners contains every offset that matters -/

theorem minOf_le (l : List Int) (x : Int) (h : x ∈ l) : minOf l ≤ x := by
  unfold minOf
  have aux : ∀ (l : List Int) (a : Int), l.foldl min a ≤ a := by
    intro l; induction l with
    | nil => intro a; simp
    | cons y l ih => intro a; simp only [List.foldl_cons]; exact le_trans (ih _) (min_le_left _ _)
  have main : ∀ (l : List Int) (a x : Int), x ∈ l → l.foldl min a ≤ x := by
    intro l; induction l with
    | nil => intro a x h; cases h
    | cons y l ih =>
      intro a x h
      simp only [List.foldl_cons]
      rcases List.mem_cons.mp h with rfl | h
      · exact le_trans (aux l _) (min_le_right _ _)
      · exact ih _ x h
  exact main l _ x h

theorem le_maxOf (l : List Int) (x : Int) (h : x ∈ l) : x ≤ maxOf l := by
  unfold maxOf
  have aux : ∀ (l : List Int) (a : Int), a ≤ l.foldl max a := by
    intro l; induction l with
    | nil => intro a; simp
    | cons y l ih => intro a; simp only [List.foldl_cons]; exact le_trans (le_max_left _ _) (ih _)
  have main : ∀ (l : List Int) (a x : Int), x ∈ l → x ≤ l.foldl max a := by
    intro l; induction l with
    | nil => intro a x h; cases h
    | cons y l ih =>
      intro a x h
      simp only [List.foldl_cons]
      rcases List.mem_cons.mp h with rfl | h
      · exact le_trans (le_max_right _ _) (aux l _)
      · exact ih _ x h
  exact main l _ x h

theorem floor_mono (a b : Rat) (h : a ≤ b) : a.floor ≤ b.floor := by
  rw [Rat.le_floor_iff]; exact le_trans (Rat.floor_le a) h

/-- a multilinear interpolation between the eight corner values is bounded by two of them -/
theorem interp_bounds (s0 sa sb sc x y z : Rat) (hx0 : 0 ≤ x) (hx1 : x ≤ 1) (hy0 : 0 ≤ y) (hy1 : y ≤ 1) (hz0 : 0 ≤ z) (hz1 : z ≤ 1) :
    let g := s0 + x * sa + y * sb + z * sc
    let corners := [s0, s0 + sc, s0 + sa, s0 + sb, s0 + sb, s0 + sa + sb, s0 + sa + sc, s0 + sb + sc, s0 + sa + sb + sc]
    (∃ v ∈ corners, v ≤ g) ∧ (∃ v ∈ corners, g ≤ v) := by
  intro g corners
  have hxa : min 0 sa ≤ x * sa ∧ x * sa ≤ max 0 sa := by
    rcases le_total 0 sa with h | h
    · rw [min_eq_left h, max_eq_right h]; constructor <;> nlinarith
    · rw [min_eq_right h, max_eq_left h]; constructor <;> nlinarith
  have hyb : min 0 sb ≤ y * sb ∧ y * sb ≤ max 0 sb := by
    rcases le_total 0 sb with h | h
    · rw [min_eq_left h, max_eq_right h]; constructor <;> nlinarith
    · rw [min_eq_right h, max_eq_left h]; constructor <;> nlinarith
  have hzc : min 0 sc ≤ z * sc ∧ z * sc ≤ max 0 sc := by
    rcases le_total 0 sc with h | h
    · rw [min_eq_left h, max_eq_right h]; constructor <;> nlinarith
    · rw [min_eq_right h, max_eq_left h]; constructor <;> nlinarith
  constructor
  · refine ⟨s0 + min 0 sa + min 0 sb + min 0 sc, ?_, by simp only [g]; linarith [hxa.1, hyb.1, hzc.1]⟩
    rcases le_total 0 sa with ha | ha <;> rcases le_total 0 sb with hb | hb <;> rcases le_total 0 sc with hc | hc <;>
      simp [corners, min_eq_left, min_eq_right, ha, hb, hc, add_assoc]
  · refine ⟨s0 + max 0 sa + max 0 sb + max 0 sc, ?_, by simp only [g]; linarith [hxa.2, hyb.2, hzc.2]⟩
    rcases le_total 0 sa with ha | ha <;> rcases le_total 0 sb with hb | hb <;> rcases le_total 0 sc with hc | hc <;>
      simp [corners, max_eq_left, max_eq_right, ha, hb, hc, add_assoc]

end Matid.WithinBasis

namespace Matid.WithinBasis
open Matid.Geom

/-- a point of the parallelepiped `origin + [0,1]³·basis` -/
def boxPoint (basis : Cell) (origin : V3) (x y z : Rat) : V3 :=
  V3.add (V3.add (V3.add origin (V3.smul x basis.a)) (V3.smul y basis.b)) (V3.smul z basis.c)

/-- for a linear functional L, the floor of L at a point of the parallelepiped lies between the smallest and the largest
floor of L at the eight corners -/
theorem box_axis (L : V3 → Rat) (hadd : ∀ u v, L (V3.add u v) = L u + L v) (hsmul : ∀ t u, L (V3.smul t u) = t * L u)
    (basis : Cell) (origin : V3) (x y z : Rat)
    (hx0 : 0 ≤ x) (hx1 : x ≤ 1) (hy0 : 0 ≤ y) (hy1 : y ≤ 1) (hz0 : 0 ≤ z) (hz1 : z ≤ 1) :
    minOf ((cornersAll basis origin).map fun p => (L p).floor) ≤ (L (boxPoint basis origin x y z)).floor ∧
    (L (boxPoint basis origin x y z)).floor ≤ maxOf ((cornersAll basis origin).map fun p => (L p).floor) := by
  have hg : L (boxPoint basis origin x y z) = L origin + x * L basis.a + y * L basis.b + z * L basis.c := by
    simp only [boxPoint, hadd, hsmul]
  have hvals : (cornersAll basis origin).map L =
      [L origin, L origin + L basis.c, L origin + L basis.a, L origin + L basis.b, L origin + L basis.b,
       L origin + L basis.a + L basis.b, L origin + L basis.a + L basis.c, L origin + L basis.b + L basis.c,
       L origin + L basis.a + L basis.b + L basis.c] := by
    simp only [cornersAll, cornersCoded, List.map_cons, List.map_nil, hadd]
  obtain ⟨⟨v, hv, hvle⟩, ⟨w, hw, hwge⟩⟩ := interp_bounds (L origin) (L basis.a) (L basis.b) (L basis.c) x y z hx0 hx1 hy0 hy1 hz0 hz1
  rw [← hvals] at hv hw
  obtain ⟨pv, hpv, rfl⟩ := List.mem_map.mp hv
  obtain ⟨pw, hpw, rfl⟩ := List.mem_map.mp hw
  rw [hg]
  constructor
  · exact le_trans (minOf_le _ _ (List.mem_map.mpr ⟨pv, hpv, rfl⟩)) (floor_mono _ _ hvle)
  · exact le_trans (floor_mono _ _ hwge) (le_maxOf _ _ (List.mem_map.mpr ⟨pw, hpw, rfl⟩))

theorem scaledOf_add (c : Cell) (u v : V3) : scaledOf c (V3.add u v) = V3.add (scaledOf c u) (scaledOf c v) := by
  obtain ⟨u1, u2, u3⟩ := u; obtain ⟨v1, v2, v3⟩ := v
  simp only [scaledOf, V3.add, V3.dot, Prod.mk.injEq]
  refine ⟨?_, ?_, ?_⟩ <;> ring

theorem scaledOf_smul (c : Cell) (t : Rat) (u : V3) : scaledOf c (V3.smul t u) = V3.smul t (scaledOf c u) := by
  obtain ⟨u1, u2, u3⟩ := u
  simp only [scaledOf, V3.smul, V3.dot, Prod.mk.injEq]
  refine ⟨?_, ?_, ?_⟩ <;> ring

/-- **the box spanned by all eight corners contains the cell offset of every point of the parallelepiped** -/
theorem all_corners_box (cell : Cell) (hdet : cell.det ≠ 0) (basis : Cell) (origin : V3) (x y z : Rat)
    (hx0 : 0 ≤ x) (hx1 : x ≤ 1) (hy0 : 0 ≤ y) (hy1 : y ≤ 1) (hz0 : 0 ≤ z) (hz1 : z ≤ 1) :
    ∃ r, rangesOf cell (cornersAll basis origin) = some r ∧ inBox r (floorV (scaledOf cell (boxPoint basis origin x y z))) := by
  have hd : (cell.det == 0) = false := by simpa using hdet
  refine ⟨_, by unfold rangesOf; rw [hd]; rfl, ?_⟩
  simp only [inBox, floorV, List.map_map]
  have h1 := box_axis (fun p => (scaledOf cell p).1) (fun u v => by rw [scaledOf_add]; rfl) (fun t u => by rw [scaledOf_smul]; rfl)
    basis origin x y z hx0 hx1 hy0 hy1 hz0 hz1
  have h2 := box_axis (fun p => (scaledOf cell p).2.1) (fun u v => by rw [scaledOf_add]; rfl) (fun t u => by rw [scaledOf_smul]; rfl)
    basis origin x y z hx0 hx1 hy0 hy1 hz0 hz1
  have h3 := box_axis (fun p => (scaledOf cell p).2.2) (fun u v => by rw [scaledOf_add]; rfl) (fun t u => by rw [scaledOf_smul]; rfl)
    basis origin x y z hx0 hx1 hy0 hy1 hz0 hz1
  exact ⟨h1.1, h1.2, h2.1, h2.2, h3.1, h3.2⟩

end Matid.WithinBasis
