/-
Lemmas behind C10 / C16 / C09 about the exact-arithmetic geometry model (MatidModel/Geom.lean).
-/
import MatidModel.Geom
import Mathlib.Tactic.Ring
import Mathlib.Tactic.LinearCombination
import Mathlib.Tactic.Linarith
import Mathlib.Tactic.Positivity
import Mathlib.Tactic.FieldSimp
import Mathlib.Data.Nat.Sqrt
import Mathlib.Algebra.Order.Field.Rat
import Mathlib.Algebra.Order.Ring.Abs
import Mathlib.Algebra.Order.Floor.Ring

namespace Matid.Geom

/-! ### ceil(extension / h) from squares -/

/-- `ceilSqrt q` is the least natural number whose square is ≥ q -/
theorem ceilSqrt_spec (q : Rat) (hq : 0 ≤ q) :
    q ≤ ((ceilSqrt q : Nat) : Rat) ^ 2 ∧ ∀ n : Nat, q ≤ (n : Rat) ^ 2 → ceilSqrt q ≤ n := by
  unfold ceilSqrt
  by_cases h0 : q ≤ 0
  · have : q = 0 := le_antisymm h0 hq
    simp [this]
  · simp only [h0, if_false]
    have hqpos : 0 < q := lt_of_not_ge h0
    have hceil_nonneg : 0 ≤ q.ceil := by
      have h1 : q ≤ (q.ceil : Rat) := Rat.le_ceil
      have : (0 : Rat) < (q.ceil : Rat) := lt_of_lt_of_le hqpos h1
      exact_mod_cast this.le
    set f := q.ceil.toNat with hf
    have hfq : (q.ceil : Rat) = (f : Rat) := by
      have : ((f : Int)) = q.ceil := Int.toNat_of_nonneg hceil_nonneg
      rw [← this]; simp
    have hq_le_f : q ≤ (f : Rat) := by rw [← hfq]; exact Rat.le_ceil
    have hf_le : ∀ n : Nat, q ≤ (n : Rat) ^ 2 → f ≤ n ^ 2 := by
      intro n hn
      have : q.ceil ≤ ((n ^ 2 : Nat) : Int) := by
        rw [Rat.ceil_le_iff]; push_cast; exact hn
      have h2 : (f : Int) ≤ ((n ^ 2 : Nat) : Int) := by
        rw [Int.toNat_of_nonneg hceil_nonneg]; exact this
      exact_mod_cast h2
    have hs1 := Nat.sqrt_le' f
    have hs2 := Nat.lt_succ_sqrt' f
    split
    · rename_i heq
      have heq' : Nat.sqrt f * Nat.sqrt f = f := by simpa using heq
      constructor
      · have : ((Nat.sqrt f : Nat) : Rat) ^ 2 = (f : Rat) := by
          rw [pow_two]; exact_mod_cast heq'
        rw [this]; exact hq_le_f
      · intro n hn
        have := hf_le n hn
        by_contra hcon
        have hlt : n < Nat.sqrt f := Nat.lt_of_not_le hcon
        have : n ^ 2 < Nat.sqrt f ^ 2 := Nat.pow_lt_pow_left hlt (by norm_num)
        omega
    · rename_i hne
      have hne' : Nat.sqrt f * Nat.sqrt f ≠ f := by simpa using hne
      constructor
      · have : (f : Rat) ≤ ((Nat.sqrt f + 1 : Nat) : Rat) ^ 2 := by
          have : f ≤ (Nat.sqrt f + 1) ^ 2 := by
            have := hs2; simp only [Nat.succ_eq_add_one] at this; omega
          exact_mod_cast this
        exact le_trans hq_le_f this
      · intro n hn
        have hfn := hf_le n hn
        by_contra hcon
        have hle : n ≤ Nat.sqrt f := by omega
        have : n ^ 2 ≤ Nat.sqrt f ^ 2 := Nat.pow_le_pow_left hle 2
        have hlt : Nat.sqrt f ^ 2 < f := by
          rcases Nat.lt_or_eq_of_le hs1 with h | h
          · exact h
          · exfalso; apply hne'; rw [← pow_two]; exact h
        omega

/-! ### how many copies are needed: the one-dimensional core -/

/-- if the fractional offset x between query and atom is less than one and the image at lattice offset n is
within the (squared, height-normalised) extension q ≤ m², then |n| ≤ m -/
theorem copies_bound (x : Rat) (n : Int) (m : Nat) (q : Rat) (hx : |x| < 1) (hm : q ≤ (m : Rat) ^ 2)
    (hq : (x - n) ^ 2 ≤ q) : |n| ≤ (m : Int) := by
  have h1 : (x - n) ^ 2 ≤ (m : Rat) ^ 2 := le_trans hq hm
  have h2 : |x - (n : Rat)| ≤ (m : Rat) := by
    have := abs_le_of_sq_le_sq' h1 (by positivity)
    exact abs_le.mpr this
  have h3 : |(n : Rat)| ≤ |x - (n : Rat)| + |x| := by
    have : (n : Rat) = x - (x - n) := by ring
    calc |(n : Rat)| = |x - (x - n)| := by rw [← this]
      _ ≤ |x| + |x - n| := abs_sub _ _
      _ = |x - n| + |x| := by ring
  have h4 : |(n : Rat)| < (m : Rat) + 1 := by linarith
  have h5 : ((|n| : Int) : Rat) < ((m + 1 : Int) : Rat) := by
    push_cast; exact h4
  have : |n| < (m : Int) + 1 := by exact_mod_cast h5
  omega

/-- Cauchy–Schwarz in ℚ³ (Lagrange identity) -/
theorem dot_sq_le (v p : V3) : (V3.dot v p) ^ 2 ≤ V3.norm2 v * V3.norm2 p := by
  obtain ⟨v1, v2, v3⟩ := v
  obtain ⟨p1, p2, p3⟩ := p
  simp only [V3.dot, V3.norm2]
  nlinarith [sq_nonneg (v1 * p2 - v2 * p1), sq_nonneg (v1 * p3 - v3 * p1), sq_nonneg (v2 * p3 - v3 * p2)]

theorem dot_cross_self_left (b c : V3) : V3.dot b (V3.cross b c) = 0 := by
  obtain ⟨b1, b2, b3⟩ := b; obtain ⟨c1, c2, c3⟩ := c
  simp only [V3.dot, V3.cross]; ring

theorem dot_cross_self_right (b c : V3) : V3.dot c (V3.cross b c) = 0 := by
  obtain ⟨b1, b2, b3⟩ := b; obtain ⟨c1, c2, c3⟩ := c
  simp only [V3.dot, V3.cross]; ring

/-- **completeness of the periodic extension along one axis.**  Cell rows a, b, c with a·(b×c) ≠ 0; a query point
and an atom with fractional coordinates s, t, |s₁ − t₁| < 1 (both inside the cell); the image of the atom at
lattice offset (n₁, n₂, n₃).  If the image is within the extension of the query (squared distance ≤ ext²) then
|n₁| ≤ copies = ceil(ext / height₁).  (The other axes follow by cyclic relabelling of a, b, c.) -/
theorem extend_complete_axis (a b c : V3) (hdet : V3.dot a (V3.cross b c) ≠ 0) (s t : V3) (n1 n2 n3 : Int)
    (ext2 : Rat) (hs : |s.1 - t.1| < 1)
    (hv : V3.norm2 (V3.add (V3.add (V3.smul (s.1 - t.1 - n1) a) (V3.smul (s.2.1 - t.2.1 - n2) b))
            (V3.smul (s.2.2 - t.2.2 - n3) c)) ≤ ext2) :
    |n1| ≤ (copiesFrom ext2 ((V3.dot a (V3.cross b c)) * (V3.dot a (V3.cross b c)) / V3.norm2 (V3.cross b c)) : Int) := by
  set p := V3.cross b c with hp
  set D := V3.dot a p with hD
  set v := V3.add (V3.add (V3.smul (s.1 - t.1 - n1) a) (V3.smul (s.2.1 - t.2.1 - n2) b)) (V3.smul (s.2.2 - t.2.2 - n3) c) with hvdef
  have hpp : 0 < V3.norm2 p := by
    have hne : V3.norm2 p ≠ 0 := by
      intro h0
      have := dot_sq_le a p
      rw [h0, mul_zero] at this
      have : D ^ 2 ≤ 0 := this
      have : D = 0 := by nlinarith [sq_nonneg D]
      exact hdet this
    have : 0 ≤ V3.norm2 p := by
      obtain ⟨p1, p2, p3⟩ := p
      simp only [V3.norm2, V3.dot]; nlinarith [sq_nonneg p1, sq_nonneg p2, sq_nonneg p3]
    exact lt_of_le_of_ne this (Ne.symm hne)
  -- v·p = (s₁ - t₁ - n₁) · (a·p)
  have hvp : V3.dot v p = (s.1 - t.1 - n1) * D := by
    have hb := dot_cross_self_left b c
    have hc := dot_cross_self_right b c
    rw [← hp] at hb hc
    obtain ⟨a1, a2, a3⟩ := a; obtain ⟨b1, b2, b3⟩ := b; obtain ⟨c1, c2, c3⟩ := c; obtain ⟨p1, p2, p3⟩ := p
    simp only [V3.dot, V3.add, V3.smul, hvdef, hD] at *
    linear_combination (s.2.1 - t.2.1 - n2) * hb + (s.2.2 - t.2.2 - n3) * hc
  have hcs := dot_sq_le v p
  rw [hvp] at hcs
  have hD2 : 0 < D * D := mul_self_pos.mpr hdet
  have hq : (s.1 - t.1 - n1) ^ 2 ≤ ext2 / (D * D / V3.norm2 p) := by
    rw [le_div_iff₀ (by positivity)]
    have : (s.1 - t.1 - n1) ^ 2 * (D * D / V3.norm2 p) = ((s.1 - t.1 - n1) * D) ^ 2 / V3.norm2 p := by
      field_simp
    rw [this, div_le_iff₀ hpp]
    calc ((s.1 - t.1 - n1) * D) ^ 2 ≤ V3.norm2 v * V3.norm2 p := hcs
      _ ≤ ext2 * V3.norm2 p := by
        apply mul_le_mul_of_nonneg_right hv hpp.le
  have hqnn : 0 ≤ ext2 / (D * D / V3.norm2 p) := le_trans (sq_nonneg _) hq
  have hspec := (ceilSqrt_spec _ hqnn).1
  unfold copiesFrom
  exact copies_bound (s.1 - t.1) n1 _ _ hs hspec (by simpa using hq)

/-! ### the 27-bin search misses nothing: the one-dimensional core -/

theorem truncInt_of_nonneg (q : Rat) (h : 0 ≤ q) : truncInt q = q.floor := by simp [truncInt, h]

/-- a stored coordinate p (p ≥ lo, bin index ≤ n − 1) within `c ≤ d` of the query coordinate x lies in one of
the (clamped) three bins inspected for x -/
theorem bin_neighbour (lo d c x p : Rat) (n : Nat) (hd : 0 < d) (hcd : c ≤ d) (hp : lo ≤ p)
    (hbin : truncInt ((p - lo) / d) ≤ (n : Int) - 1) (hxp : |x - p| ≤ c) :
    max (truncInt ((x - lo) / d) - 1) 0 ≤ truncInt ((p - lo) / d) ∧
    truncInt ((p - lo) / d) ≤ min (truncInt ((x - lo) / d) + 1) ((n : Int) - 1) := by
  have hpn : 0 ≤ (p - lo) / d := div_nonneg (by linarith) hd.le
  rw [truncInt_of_nonneg _ hpn] at hbin ⊢
  have hfp1 := Rat.floor_le ((p - lo) / d)
  have hfp2 := Rat.lt_floor_add_one ((p - lo) / d)
  push_cast at hfp2
  have hfp0 : 0 ≤ ((p - lo) / d).floor := by
    rw [Rat.le_floor_iff]; simpa using hpn
  obtain ⟨hx1, hx2⟩ := abs_le.mp hxp
  -- (x - lo)/d and (p - lo)/d differ by at most 1
  have hdiff1 : (x - lo) / d ≤ (p - lo) / d + 1 := by
    rw [div_add' _ _ _ hd.ne', div_le_div_iff_of_pos_right hd]; linarith
  have hdiff2 : (p - lo) / d ≤ (x - lo) / d + 1 := by
    rw [div_add' _ _ _ hd.ne', div_le_div_iff_of_pos_right hd]; linarith
  by_cases hxn : 0 ≤ (x - lo) / d
  · rw [truncInt_of_nonneg _ hxn]
    have hfx1 := Rat.floor_le ((x - lo) / d)
    have hfx2 := Rat.lt_floor_add_one ((x - lo) / d)
    push_cast at hfx2
    have a1 : ((x - lo) / d).floor - 1 ≤ ((p - lo) / d).floor := by
      have : (((x - lo) / d).floor - 1 : Int) ≤ ((p - lo) / d).floor := by
        rw [Rat.le_floor_iff]; push_cast; linarith
      exact this
    have a2 : ((p - lo) / d).floor ≤ ((x - lo) / d).floor + 1 := by
      have : ((p - lo) / d).floor < ((x - lo) / d).floor + 2 := by
        rw [Rat.floor_lt_iff]; push_cast; linarith
      omega
    constructor
    · exact max_le a1 hfp0
    · exact le_min a2 hbin
  · have hxneg : (x - lo) / d < 0 := lt_of_not_ge hxn
    have htr : truncInt ((x - lo) / d) = ((x - lo) / d).ceil := by simp [truncInt, hxn]
    rw [htr]
    -- the ceiling is 0 or −1
    have hge : -1 ≤ (x - lo) / d := by
      have : 0 ≤ (p - lo) / d := hpn
      linarith
    have hc0 : ((x - lo) / d).ceil ≤ 0 := by rw [Rat.ceil_le_iff]; simpa using hxneg.le
    have hc1 : -1 ≤ ((x - lo) / d).ceil := by
      have : ((-1 : Int) : Rat) ≤ (x - lo) / d := by simpa using hge
      have h2 : (x - lo) / d ≤ (((x - lo) / d).ceil : Rat) := Rat.le_ceil
      have : ((-1 : Int) : Rat) ≤ (((x - lo) / d).ceil : Rat) := le_trans this h2
      exact_mod_cast this
    -- the stored point is in bin 0
    have hp0 : ((p - lo) / d).floor ≤ ((x - lo) / d).ceil + 1 := by
      have hle : (x - lo) / d ≤ (((x - lo) / d).ceil : Rat) := Rat.le_ceil
      have : ((p - lo) / d).floor < ((x - lo) / d).ceil + 2 := by
        rw [Rat.floor_lt_iff]; push_cast; linarith
      omega
    constructor
    · apply max_le _ hfp0
      omega
    · exact le_min hp0 hbin

/-! ### per-pair minimum -/

theorem foldl_min_le (l : List Rat) (a x : Rat) (h : x ∈ l) : l.foldl min a ≤ x := by
  induction l generalizing a with
  | nil => cases h
  | cons y l ih =>
    simp only [List.foldl_cons]
    rcases List.mem_cons.mp h with rfl | h
    · have : ∀ (l : List Rat) (b : Rat), l.foldl min b ≤ b := by
        intro l; induction l with
        | nil => intro b; simp
        | cons z l ih2 => intro b; simp only [List.foldl_cons]; exact le_trans (ih2 _) (min_le_left _ _)
      exact le_trans (this l _) (min_le_right _ _)
    · exact ih _ h

theorem foldl_min_mem (l : List Rat) (a : Rat) : l.foldl min a = a ∨ l.foldl min a ∈ l := by
  induction l generalizing a with
  | nil => simp
  | cons y l ih =>
    simp only [List.foldl_cons]
    rcases ih (min a y) with h | h
    · rw [h]
      rcases le_total a y with hle | hle
      · left; exact min_eq_left hle
      · right; rw [min_eq_right hle]; exact List.mem_cons_self
    · right; exact List.mem_cons_of_mem _ h

end Matid.Geom

namespace Matid.Geom

theorem foldl_max_ge' (l : List Rat) (a x : Rat) (h : x ∈ l) : x ≤ l.foldl max a := by
  induction l generalizing a with
  | nil => cases h
  | cons y l ih =>
    simp only [List.foldl_cons]
    rcases List.mem_cons.mp h with rfl | h
    · have : ∀ (l : List Rat) (b : Rat), b ≤ l.foldl max b := by
        intro l; induction l with
        | nil => intro b; simp
        | cons z l ih2 => intro b; simp only [List.foldl_cons]; exact le_trans (le_max_left _ _) (ih2 _)
      exact le_trans (le_max_right _ _) (this l _)
    · exact ih _ h

/-- every stored coordinate lies in a valid bin of its axis, at least `padding` inside the padded range -/
theorem mkAxis_bin_valid (coords : List Rat) (c : Rat) (hc : 0 < c) (p : Rat) (hp : p ∈ coords) :
    let ax := mkAxis coords (some c)
    ax.lo ≤ p ∧ 0 < ax.d ∧ c ≤ ax.d ∧ truncInt ((p - ax.lo) / ax.d) ≤ (ax.n : Int) - 1 := by
  intro ax
  have hlo : ax.lo = coords.foldl min (coords.headD 0) - padding := rfl
  have hhi : ax.hi = coords.foldl max (coords.headD 0) + padding := rfl
  have hpad : (0 : Rat) < padding := by norm_num [padding]
  have h1 : coords.foldl min (coords.headD 0) ≤ p := foldl_min_le _ _ _ hp
  have h2 : p ≤ coords.foldl max (coords.headD 0) := foldl_max_ge' _ _ _ hp
  have hrange : 0 < ax.hi - ax.lo := by rw [hlo, hhi]; linarith
  have hn : ax.n = max 1 (truncInt ((ax.hi - ax.lo) / c)).toNat := rfl
  have hn1 : 1 ≤ ax.n := by rw [hn]; exact le_max_left _ _
  have hnpos : (0 : Rat) < (ax.n : Rat) := by exact_mod_cast hn1
  have hd : ax.d = max c ((ax.hi - ax.lo) / ax.n) := rfl
  have hdc : c ≤ ax.d := by rw [hd]; exact le_max_left _ _
  have hdpos : 0 < ax.d := lt_of_lt_of_le hc hdc
  have hdr : (ax.hi - ax.lo) / ax.n ≤ ax.d := by rw [hd]; exact le_max_right _ _
  refine ⟨by rw [hlo]; linarith, hdpos, hdc, ?_⟩
  have hnn : 0 ≤ (p - ax.lo) / ax.d := div_nonneg (by rw [hlo]; linarith) hdpos.le
  rw [truncInt_of_nonneg _ hnn]
  -- (p - lo)/d < n
  have hlt : (p - ax.lo) / ax.d < (ax.n : Rat) := by
    rw [div_lt_iff₀ hdpos]
    have h3 : p - ax.lo < ax.hi - ax.lo := by rw [hhi, hlo]; linarith
    have h4 : ax.hi - ax.lo ≤ (ax.n : Rat) * ax.d := by
      have := (div_le_iff₀ hnpos).mp hdr
      linarith
    linarith
  have : ((p - ax.lo) / ax.d).floor < (ax.n : Int) := by
    rw [Rat.floor_lt_iff]; exact_mod_cast hlt
  omega

theorem abs_le_of_sq_sum_le (dx dy dz c : Rat) (hc : 0 < c) (h : dx * dx + dy * dy + dz * dz ≤ c * c) : |dx| ≤ c := by
  have : dx ^ 2 ≤ c ^ 2 := by nlinarith [mul_self_nonneg dy, mul_self_nonneg dz]
  exact abs_le_of_sq_le_sq this hc.le

/-- **the 27-bin search returns exactly the stored points within the cutoff** (finite positive cutoff) -/
theorem query_complete (atoms : List ExtAtom) (c : Rat) (hc : 0 < c) (q : V3) :
    (mkCellList atoms (some c)).query q = (mkCellList atoms (some c)).querySpec q := by
  unfold CellList.query CellList.querySpec
  apply List.filterMap_congr
  intro ⟨a, i⟩ hmem
  have ha : a ∈ atoms := by
    have := List.mem_zipIdx_iff_getElem?.mp hmem
    exact List.mem_of_getElem? this
  simp only [mkCellList]
  by_cases hw : V3.norm2 (V3.sub q a.pos) ≤ c * c
  · -- within the cutoff: all three bin tests succeed
    have hsum : (q.1 - a.pos.1) * (q.1 - a.pos.1) + (q.2.1 - a.pos.2.1) * (q.2.1 - a.pos.2.1)
        + (q.2.2 - a.pos.2.2) * (q.2.2 - a.pos.2.2) ≤ c * c := by
      simpa [V3.norm2, V3.dot, V3.sub] using hw
    have hx := abs_le_of_sq_sum_le _ _ _ c hc hsum
    have hy := abs_le_of_sq_sum_le (q.2.1 - a.pos.2.1) (q.1 - a.pos.1) (q.2.2 - a.pos.2.2) c hc (by linarith)
    have hz := abs_le_of_sq_sum_le (q.2.2 - a.pos.2.2) (q.1 - a.pos.1) (q.2.1 - a.pos.2.1) c hc (by linarith)
    obtain ⟨x1, x2, x3, x4⟩ := mkAxis_bin_valid (atoms.map (·.pos.1)) c hc a.pos.1 (List.mem_map.mpr ⟨a, ha, rfl⟩)
    obtain ⟨y1, y2, y3, y4⟩ := mkAxis_bin_valid (atoms.map (·.pos.2.1)) c hc a.pos.2.1 (List.mem_map.mpr ⟨a, ha, rfl⟩)
    obtain ⟨z1, z2, z3, z4⟩ := mkAxis_bin_valid (atoms.map (·.pos.2.2)) c hc a.pos.2.2 (List.mem_map.mpr ⟨a, ha, rfl⟩)
    have bx := bin_neighbour _ _ c q.1 a.pos.1 _ x2 x3 x1 x4 hx
    have by' := bin_neighbour _ _ c q.2.1 a.pos.2.1 _ y2 y3 y1 y4 hy
    have bz := bin_neighbour _ _ c q.2.2 a.pos.2.2 _ z2 z3 z1 z4 hz
    have hinf : ∀ coords : List Rat, (mkAxis coords (some c)).inf = false := fun _ => rfl
    simp only [Axis.range, Axis.bin, hinf, Bool.false_eq_true, if_false, inRange, decide_eq_true_eq, Bool.and_eq_true]
    rw [if_pos ⟨⟨⟨bx.1, bx.2⟩, ⟨by'.1, by'.2⟩⟩, ⟨bz.1, bz.2⟩⟩]
  · have : withinCutoff (some c) (V3.norm2 (V3.sub q a.pos)) = false := by simp [withinCutoff, hw]
    simp only [this, Bool.false_eq_true, if_false]
    split <;> rfl

end Matid.Geom
