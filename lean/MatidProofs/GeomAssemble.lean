/-
Assembly of the pieces of C10 into one statement about an entry of the displacement tensor:
for a non-singular cell, atoms whose fractional coordinates along the periodic axes lie in [0,1), and a finite
positive cutoff (or the infinite cutoff, where the extension is the longest periodic vector), the entry (i, j)
computed by the model of `get_displacement_tensor` is the TRUE minimum over ALL lattice images (offsets vanish on
non-periodic axes) whenever that minimum is within range, and stays +∞ exactly when no image is within the cutoff.
-/
import MatidProofs.GeomStruct

namespace Matid.Geom

/-- a lattice offset is admissible when it vanishes along every non-periodic axis -/
def admissible (pbc : Pbc) (n : Int × Int × Int) : Prop :=
  (pbc.x = false → n.1 = 0) ∧ (pbc.y = false → n.2.1 = 0) ∧ (pbc.z = false → n.2.2 = 0)

/-- squared distance between atom i (at `pi`) and the image of atom j (at `pj`) shifted by `n·cell` -/
def imageDist2 (cell : Cell) (pi pj : V3) (n : Int × Int × Int) : Rat :=
  V3.norm2 (V3.sub pi (V3.add pj (Cell.comb cell n)))

/-- fractional coordinates inside the cell along the periodic axes -/
def insideCell (pbc : Pbc) (s : V3) : Prop :=
  (pbc.x = true → 0 ≤ s.1 ∧ s.1 < 1) ∧ (pbc.y = true → 0 ≤ s.2.1 ∧ s.2.1 < 1) ∧ (pbc.z = true → 0 ≤ s.2.2 ∧ s.2.2 < 1)

theorem det_cyc1 (a b c : V3) : V3.dot b (V3.cross c a) = V3.dot a (V3.cross b c) := by
  obtain ⟨a1, a2, a3⟩ := a; obtain ⟨b1, b2, b3⟩ := b; obtain ⟨c1, c2, c3⟩ := c
  simp only [V3.dot, V3.cross]; ring

theorem det_cyc2 (a b c : V3) : V3.dot c (V3.cross a b) = V3.dot a (V3.cross b c) := by
  obtain ⟨a1, a2, a3⟩ := a; obtain ⟨b1, b2, b3⟩ := b; obtain ⟨c1, c2, c3⟩ := c
  simp only [V3.dot, V3.cross]; ring

theorem isZero_iff (v : V3) : V3.isZero v = true ↔ v = (0, 0, 0) := by
  obtain ⟨x, y, z⟩ := v
  simp [V3.isZero, and_assoc]

theorem dot_zero_left (p : V3) : V3.dot (0, 0, 0) p = 0 := by
  obtain ⟨x, y, z⟩ := p; simp [V3.dot]

theorem dot_zero_right (p : V3) : V3.dot p (0, 0, 0) = 0 := by
  obtain ⟨x, y, z⟩ := p; simp [V3.dot]

/-- for a non-singular cell no vector is zero and no pairwise cross product is zero -/
theorem nonsingular_facts (cell : Cell) (hdet : cell.det ≠ 0) :
    V3.isZero cell.a = false ∧ V3.isZero cell.b = false ∧ V3.isZero cell.c = false ∧
    V3.isZero (V3.cross cell.b cell.c) = false ∧ V3.isZero (V3.cross cell.c cell.a) = false ∧
    V3.isZero (V3.cross cell.a cell.b) = false := by
  unfold Cell.det at hdet
  have h1 := det_cyc1 cell.a cell.b cell.c
  have h2 := det_cyc2 cell.a cell.b cell.c
  refine ⟨?_, ?_, ?_, ?_, ?_, ?_⟩ <;> (apply Bool.eq_false_iff.mpr; intro h; rw [isZero_iff] at h)
  · rw [h, dot_zero_left] at hdet; exact hdet rfl
  · exact hdet (h1.symm.trans (by rw [h, dot_zero_left]))
  · exact hdet (h2.symm.trans (by rw [h, dot_zero_left]))
  · rw [h, dot_zero_right] at hdet; exact hdet rfl
  · exact hdet (h1.symm.trans (by rw [h, dot_zero_right]))
  · exact hdet (h2.symm.trans (by rw [h, dot_zero_right]))

/-- the plan of `extend_system` for a non-singular cell: the basis is the cell itself and the copy counts are
`ceil(ext/height)` along the periodic axes, 0 along the others -/
theorem extendPlan_nonsingular (cell : Cell) (pbc : Pbc) (ext2 : Rat) (hdet : cell.det ≠ 0) :
    extendPlan cell pbc ext2 = some (cell,
      (if pbc.x then copiesFrom ext2 (height2 cell.a (V3.cross cell.b cell.c)) else 0),
      (if pbc.y then copiesFrom ext2 (height2 cell.b (V3.cross cell.c cell.a)) else 0),
      (if pbc.z then copiesFrom ext2 (height2 cell.c (V3.cross cell.a cell.b)) else 0)) := by
  obtain ⟨za, zb, zc, p1, p2, p3⟩ := nonsingular_facts cell hdet
  have hD : V3.dot cell.a (V3.cross cell.b cell.c) ≠ 0 := hdet
  have hn2 : ∀ (v p : V3), V3.dot v p ≠ 0 → height2 v p ≠ 0 := by
    intro v p hvp
    unfold height2
    have hpp : V3.norm2 p ≠ 0 := by
      intro h0
      have := dot_sq_le v p
      rw [h0, mul_zero] at this
      have : V3.dot v p = 0 := by nlinarith [sq_nonneg (V3.dot v p)]
      exact hvp this
    exact div_ne_zero (mul_ne_zero hvp hvp) hpp
  have hh1 := hn2 cell.a (V3.cross cell.b cell.c) hD
  have hh2 := hn2 cell.b (V3.cross cell.c cell.a) (by rw [det_cyc1]; exact hD)
  have hh3 := hn2 cell.c (V3.cross cell.a cell.b) (by rw [det_cyc2]; exact hD)
  have hne : nEmpty cell = 0 := by simp [nEmpty, za, zb, zc]
  have hB : completedBasis cell = cell := by
    simp [completedBasis, za, zb, zc]
  unfold extendPlan
  simp only [hne, Nat.zero_le, if_true, hB, p1, p2, p3, Bool.or_self, Bool.false_eq_true, if_false, za, zb, zc]
  cases hx : pbc.x <;> cases hy : pbc.y <;> cases hz : pbc.z <;>
    simp [axisCopies, hh1, hh2, hh3]

theorem query_complete_inf (atoms : List ExtAtom) (q : V3) :
    (mkCellList atoms none).query q = (mkCellList atoms none).querySpec q := by
  unfold CellList.query CellList.querySpec
  apply List.filterMap_congr
  intro ⟨a, i⟩ _
  simp [mkCellList, mkAxis, Axis.range, Axis.bin, inRange]

/-- Cartesian difference of two points given by fractional coordinates, minus a lattice offset -/
theorem frac_diff (cell : Cell) (s t : V3) (n : Int × Int × Int) :
    V3.sub (toCartesian cell s) (V3.add (toCartesian cell t) (Cell.comb cell n)) =
    V3.add (V3.add (V3.smul (s.1 - t.1 - n.1) cell.a) (V3.smul (s.2.1 - t.2.1 - n.2.1) cell.b))
      (V3.smul (s.2.2 - t.2.2 - n.2.2) cell.c) := by
  obtain ⟨⟨a1, a2, a3⟩, ⟨b1, b2, b3⟩, ⟨c1, c2, c3⟩⟩ := cell
  simp only [toCartesian, Cell.comb, V3.sub, V3.add, V3.smul, Prod.mk.injEq]
  refine ⟨?_, ?_, ?_⟩ <;> ring

theorem norm2_perm1 (a b c : V3) (x y z : Rat) :
    V3.norm2 (V3.add (V3.add (V3.smul x a) (V3.smul y b)) (V3.smul z c)) =
    V3.norm2 (V3.add (V3.add (V3.smul y b) (V3.smul z c)) (V3.smul x a)) := by
  obtain ⟨a1, a2, a3⟩ := a; obtain ⟨b1, b2, b3⟩ := b; obtain ⟨c1, c2, c3⟩ := c
  simp only [V3.norm2, V3.dot, V3.add, V3.smul]; ring

theorem norm2_perm2 (a b c : V3) (x y z : Rat) :
    V3.norm2 (V3.add (V3.add (V3.smul x a) (V3.smul y b)) (V3.smul z c)) =
    V3.norm2 (V3.add (V3.add (V3.smul z c) (V3.smul x a)) (V3.smul y b)) := by
  obtain ⟨a1, a2, a3⟩ := a; obtain ⟨b1, b2, b3⟩ := b; obtain ⟨c1, c2, c3⟩ := c
  simp only [V3.norm2, V3.dot, V3.add, V3.smul]; ring

theorem abs_sub_lt_one (s t : Rat) (hs : 0 ≤ s ∧ s < 1) (ht : 0 ≤ t ∧ t < 1) : |s - t| < 1 := by
  rw [abs_lt]; constructor <;> linarith [hs.1, hs.2, ht.1, ht.2]

/-- **every image within the extension is in the extended system** (non-singular cell, atoms inside the cell):
the image of atom j at any admissible offset n whose squared distance to atom i is ≤ ext² is one of the entries
generated by `extend_system`, at exactly that position. -/
theorem image_in_extension (positions : List V3) (cell : Cell) (pbc : Pbc) (ext2 : Rat) (hdet : cell.det ≠ 0)
    (l : List ExtAtom) (hl : extendSystem2 positions cell pbc ext2 = .ok l)
    (j : Nat) (s t : V3) (hj : positions[j]? = some (toCartesian cell t))
    (hs : insideCell pbc s) (ht : insideCell pbc t) (n : Int × Int × Int) (hn : admissible pbc n)
    (hd : imageDist2 cell (toCartesian cell s) (toCartesian cell t) n ≤ ext2) :
    ∃ e ∈ l, e.index = j ∧ e.factor = n ∧ e.pos = V3.add (toCartesian cell t) (Cell.comb cell n) := by
  have hplan := extendPlan_nonsingular cell pbc ext2 hdet
  have hD : V3.dot cell.a (V3.cross cell.b cell.c) ≠ 0 := hdet
  unfold imageDist2 at hd
  rw [frac_diff] at hd
  apply extend_contains positions cell pbc ext2 l cell _ _ _ hplan hl j _ hj n
  · -- axis a
    cases hx : pbc.x with
    | false => simp [hn.1 hx]
    | true =>
      simp only [if_true]
      have := extend_complete_axis cell.a cell.b cell.c hD s t n.1 n.2.1 n.2.2 ext2
        (abs_sub_lt_one _ _ (hs.1 hx) (ht.1 hx)) hd
      simpa [height2] using this
  · cases hy : pbc.y with
    | false => simp [hn.2.1 hy]
    | true =>
      simp only [if_true]
      have hD' : V3.dot cell.b (V3.cross cell.c cell.a) ≠ 0 := by rw [det_cyc1]; exact hD
      rw [norm2_perm1] at hd
      have := extend_complete_axis cell.b cell.c cell.a hD' (s.2.1, s.2.2, s.1) (t.2.1, t.2.2, t.1) n.2.1 n.2.2 n.1 ext2
        (abs_sub_lt_one _ _ (hs.2.1 hy) (ht.2.1 hy)) hd
      simpa [height2] using this
  · cases hz : pbc.z with
    | false => simp [hn.2.2 hz]
    | true =>
      simp only [if_true]
      have hD' : V3.dot cell.c (V3.cross cell.a cell.b) ≠ 0 := by rw [det_cyc2]; exact hD
      rw [norm2_perm2] at hd
      have := extend_complete_axis cell.c cell.a cell.b hD' (s.2.2, s.1, s.2.1) (t.2.2, t.1, t.2.1) n.2.2 n.1 n.2.1 ext2
        (abs_sub_lt_one _ _ (hs.2.2 hz) (ht.2.2 hz)) hd
      simpa [height2] using this

/-- the factors of the extended system are admissible offsets and the positions are the shifted originals -/
theorem extension_entries_admissible (positions : List V3) (cell : Cell) (pbc : Pbc) (ext2 : Rat) (hdet : cell.det ≠ 0)
    (l : List ExtAtom) (hl : extendSystem2 positions cell pbc ext2 = .ok l) (e : ExtAtom) (he : e ∈ l) :
    admissible pbc e.factor ∧ ∃ p, positions[e.index]? = some p ∧ e.pos = V3.add p (Cell.comb cell e.factor) := by
  obtain ⟨basis, n1, n2, n3, hplan, hall⟩ := extend_entries positions cell pbc ext2 l hl
  have hplan' := extendPlan_nonsingular cell pbc ext2 hdet
  rw [hplan'] at hplan
  simp only [Option.some.injEq, Prod.mk.injEq] at hplan
  obtain ⟨hb, h1, h2, h3⟩ := hplan
  obtain ⟨p, hp, hpos, b1, b2, b3⟩ := hall e he
  refine ⟨⟨?_, ?_, ?_⟩, p, hp, by rw [hpos, hb]⟩
  · intro hx; rw [hx] at h1; simp only [Bool.false_eq_true, if_false] at h1
    rw [← h1] at b1; simpa using b1
  · intro hy; rw [hy] at h2; simp only [Bool.false_eq_true, if_false] at h2
    rw [← h2] at b2; simpa using b2
  · intro hz; rw [hz] at h3; simp only [Bool.false_eq_true, if_false] at h3
    rw [← h3] at b3; simpa using b3

/-- membership in the specification of a query -/
theorem mem_querySpec (cl : CellList) (q : V3) (a : ExtAtom) (ha : a ∈ cl.atoms)
    (hw : withinCutoff cl.cutoff (V3.norm2 (V3.sub q a.pos)) = true) :
    ∃ nb ∈ cl.querySpec q, nb.index = a.index ∧ nb.factor = a.factor ∧ nb.dist2 = V3.norm2 (V3.sub q a.pos) := by
  obtain ⟨i, hi⟩ := List.getElem?_of_mem ha
  refine ⟨{ ext := i, index := a.index, dist2 := V3.norm2 (V3.sub q a.pos), disp := V3.sub q a.pos, factor := a.factor }, ?_, rfl, rfl, rfl⟩
  unfold CellList.querySpec
  simp only [List.mem_filterMap]
  exact ⟨(a, i), List.mem_zipIdx_iff_getElem?.mpr hi, by simp [hw]⟩

end Matid.Geom

namespace Matid.Geom

theorem tensorCellList_finite (positions : List V3) (cell : Cell) (pbc : Pbc) (c : Rat) (hc : 0 < c) (cl : CellList)
    (hcl : tensorCellList positions cell pbc (some c) = .ok cl) :
    ∃ l, extendSystem2 positions cell pbc (c * c) = .ok l ∧ cl = mkCellList l (some c) := by
  unfold tensorCellList getCellList extendSystem at hcl
  simp only [not_lt.mpr hc.le, if_false, not_le.mpr hc] at hcl
  cases h : extendSystem2 positions cell pbc (c * c) with
  | error e => rw [h] at hcl; cases e <;> cases hcl
  | ok l => rw [h] at hcl; simp only [Except.ok.injEq] at hcl; exact ⟨l, rfl, hcl.symm⟩

theorem tensorCellList_infinite (positions : List V3) (cell : Cell) (pbc : Pbc) (cl : CellList)
    (hcl : tensorCellList positions cell pbc none = .ok cl) :
    ∃ l, extendSystem2 positions cell pbc (maxPeriodicLen2 cell pbc) = .ok l ∧ cl = mkCellList l none := by
  unfold tensorCellList at hcl
  simp only at hcl
  cases h : extendSystem2 positions cell pbc (maxPeriodicLen2 cell pbc) with
  | error e => rw [h] at hcl; cases hcl
  | ok l => rw [h] at hcl; simp only [Except.ok.injEq] at hcl; exact ⟨l, rfl, hcl.symm⟩

/-- soundness of an entry, in terms of lattice images: every reported factor is an admissible offset whose image
of atom j is at exactly the reported distance -/
theorem entry_is_image (positions : List V3) (cell : Cell) (pbc : Pbc) (ext2 : Rat) (hdet : cell.det ≠ 0)
    (l : List ExtAtom) (hl : extendSystem2 positions cell pbc ext2 = .ok l) (cut : Option Rat)
    (j : Nat) (pi pj : V3) (hj : positions[j]? = some pj) (e : PairEntry)
    (h : pairEntry (mkCellList l cut) pi j = some e) :
    e.factors ≠ [] ∧ ∀ f ∈ e.factors, admissible pbc f ∧ e.dist2 = imageDist2 cell pi pj f := by
  obtain ⟨_, h2, h3⟩ := pairEntry_spec _ pi j e h
  refine ⟨h3, fun f hf => ?_⟩
  obtain ⟨nb, hnb, hjn, hd, hfac⟩ := h2 f hf
  obtain ⟨a, ha, hi, hfa, _, hd2, _⟩ := query_sound _ pi nb hnb
  have hmem : a ∈ l := List.mem_of_getElem? ha
  obtain ⟨hadm, p, hp, hpos⟩ := extension_entries_admissible positions cell pbc ext2 hdet l hl a hmem
  have hidx : a.index = j := by rw [← hi, hjn]
  rw [hidx, hj] at hp
  cases hp
  have hfa' : a.factor = f := by rw [← hfa, hfac]
  rw [hfa'] at hadm hpos
  refine ⟨hadm, ?_⟩
  rw [← hd, hd2, hpos]; rfl

/-- **C10, finite cutoff, assembled.**  Non-singular cell, query atom and atom j inside the cell along the
periodic axes, cutoff c > 0.  The entry (·, j) of the tensor for the atom at `pi`
* if finite, is the squared length of a genuine image of j at an admissible integer offset (each reported factor),
  is ≤ c², and is ≤ the squared distance to EVERY admissible image — it is the true minimum-image distance;
* is +∞ exactly when every admissible image of j is farther than the cutoff. -/
theorem tensor_entry_exact_finite (positions : List V3) (cell : Cell) (pbc : Pbc) (c : Rat) (hc : 0 < c)
    (hdet : cell.det ≠ 0) (cl : CellList) (hcl : tensorCellList positions cell pbc (some c) = .ok cl)
    (j : Nat) (s t : V3) (hj : positions[j]? = some (toCartesian cell t))
    (hs : insideCell pbc s) (ht : insideCell pbc t) :
    (∀ e, pairEntry cl (toCartesian cell s) j = some e →
        e.factors ≠ [] ∧
        (∀ f ∈ e.factors, admissible pbc f ∧ e.dist2 = imageDist2 cell (toCartesian cell s) (toCartesian cell t) f) ∧
        e.dist2 ≤ c * c ∧
        ∀ n, admissible pbc n → e.dist2 ≤ imageDist2 cell (toCartesian cell s) (toCartesian cell t) n) ∧
    (pairEntry cl (toCartesian cell s) j = none ↔
        ∀ n, admissible pbc n → c * c < imageDist2 cell (toCartesian cell s) (toCartesian cell t) n) := by
  obtain ⟨l, hl, rfl⟩ := tensorCellList_finite positions cell pbc c hc cl hcl
  -- completeness: an admissible image within the cutoff is returned by the query
  have hcomplete : ∀ n, admissible pbc n →
      imageDist2 cell (toCartesian cell s) (toCartesian cell t) n ≤ c * c →
      ∃ nb ∈ (mkCellList l (some c)).query (toCartesian cell s), nb.index = j ∧
        nb.dist2 = imageDist2 cell (toCartesian cell s) (toCartesian cell t) n := by
    intro n hn hd
    obtain ⟨a, ha, hidx, hfac, hpos⟩ := image_in_extension positions cell pbc (c * c) hdet l hl j s t hj hs ht n hn hd
    have hw : withinCutoff (mkCellList l (some c)).cutoff (V3.norm2 (V3.sub (toCartesian cell s) a.pos)) = true := by
      simp only [mkCellList, withinCutoff, decide_eq_true_eq]
      rw [hpos]; exact hd
    obtain ⟨nb, hnb, h1, _, h3⟩ := mem_querySpec (mkCellList l (some c)) (toCartesian cell s) a ha hw
    rw [← query_complete l c hc] at hnb
    exact ⟨nb, hnb, by rw [h1, hidx], by rw [h3, hpos]; rfl⟩
  constructor
  · intro e he
    obtain ⟨hne, himg⟩ := entry_is_image positions cell pbc (c * c) hdet l hl (some c) j _ _ hj e he
    obtain ⟨hmin, hatt, _⟩ := pairEntry_spec _ _ j e he
    have hcut : e.dist2 ≤ c * c := by
      obtain ⟨f, hf⟩ := List.exists_mem_of_ne_nil _ hne
      obtain ⟨nb, hnb, _, hd, _⟩ := hatt f hf
      obtain ⟨_, _, _, _, _, _, hcutoff⟩ := query_sound _ _ nb hnb
      rw [← hd]; exact hcutoff c rfl
    refine ⟨hne, himg, hcut, fun n hn => ?_⟩
    by_cases hd : imageDist2 cell (toCartesian cell s) (toCartesian cell t) n ≤ c * c
    · obtain ⟨nb, hnb, hidx, hdist⟩ := hcomplete n hn hd
      rw [← hdist]; exact hmin nb hnb hidx
    · exact le_trans hcut (le_of_lt (lt_of_not_ge hd))
  · constructor
    · intro hnone n hn
      by_contra hle
      obtain ⟨nb, hnb, hidx, _⟩ := hcomplete n hn (le_of_not_gt hle)
      have hall : ∀ nb ∈ (mkCellList l (some c)).query (toCartesian cell s), nb.index ≠ j := by
        intro nb' hnb' hj'
        have : nb' ∈ ((mkCellList l (some c)).query (toCartesian cell s)).filter (fun nb => nb.index == j) :=
          List.mem_filter.mpr ⟨hnb', by simpa using hj'⟩
        unfold pairEntry at hnone
        simp only at hnone
        split at hnone
        · rename_i heq; rw [heq] at this; cases this
        · cases hnone
      exact hall nb hnb hidx
    · intro hfar
      cases he : pairEntry (mkCellList l (some c)) (toCartesian cell s) j with
      | none => rfl
      | some e =>
        exfalso
        obtain ⟨hne, himg⟩ := entry_is_image positions cell pbc (c * c) hdet l hl (some c) j _ _ hj e he
        obtain ⟨_, hatt, _⟩ := pairEntry_spec _ _ j e he
        obtain ⟨f, hf⟩ := List.exists_mem_of_ne_nil _ hne
        obtain ⟨hadm, hdist⟩ := himg f hf
        obtain ⟨nb, hnb, _, hd, _⟩ := hatt f hf
        obtain ⟨_, _, _, _, _, _, hcutoff⟩ := query_sound _ _ nb hnb
        have h1 : e.dist2 ≤ c * c := by rw [← hd]; exact hcutoff c rfl
        have h2 := hfar f hadm
        rw [← hdist] at h2
        exact absurd h1 (not_le.mpr h2)

/-- **C10, unbounded cutoff, assembled.**  The extension is the longest periodic cell vector L.  No entry is +∞;
every entry is a genuine admissible image; and whenever SOME admissible image of j lies within L of the atom, the
entry is ≤ the distance to EVERY admissible image, i.e. it is the true minimum-image distance. -/
theorem tensor_entry_exact_infinite (positions : List V3) (cell : Cell) (pbc : Pbc)
    (hdet : cell.det ≠ 0) (cl : CellList) (hcl : tensorCellList positions cell pbc none = .ok cl)
    (j : Nat) (s t : V3) (hj : positions[j]? = some (toCartesian cell t))
    (hs : insideCell pbc s) (ht : insideCell pbc t) :
    ∃ e, pairEntry cl (toCartesian cell s) j = some e ∧
      e.factors ≠ [] ∧
      (∀ f ∈ e.factors, admissible pbc f ∧ e.dist2 = imageDist2 cell (toCartesian cell s) (toCartesian cell t) f) ∧
      ((∃ n, admissible pbc n ∧ imageDist2 cell (toCartesian cell s) (toCartesian cell t) n ≤ maxPeriodicLen2 cell pbc) →
        ∀ m, admissible pbc m → e.dist2 ≤ imageDist2 cell (toCartesian cell s) (toCartesian cell t) m) := by
  obtain ⟨l, hl, rfl⟩ := tensorCellList_infinite positions cell pbc cl hcl
  have hplan := extendPlan_nonsingular cell pbc (maxPeriodicLen2 cell pbc) hdet
  -- the original atom j (offset 0) is always stored and always returned
  obtain ⟨a0, ha0, hidx0, _, _⟩ := extend_contains positions cell pbc _ l cell _ _ _ hplan hl j _ hj (0, 0, 0)
    (by simp only [abs_zero]; split <;> simp) (by simp only [abs_zero]; split <;> simp)
    (by simp only [abs_zero]; split <;> simp)
  obtain ⟨nb0, hnb0, h10, _, _⟩ := mem_querySpec (mkCellList l none) (toCartesian cell s) a0 ha0 (by simp [mkCellList, withinCutoff])
  rw [← query_complete_inf l] at hnb0
  cases he : pairEntry (mkCellList l none) (toCartesian cell s) j with
  | none =>
    exfalso
    unfold pairEntry at he
    simp only at he
    have : nb0 ∈ ((mkCellList l none).query (toCartesian cell s)).filter (fun nb => nb.index == j) :=
      List.mem_filter.mpr ⟨hnb0, by simp [h10, hidx0]⟩
    split at he
    · rename_i heq; rw [heq] at this; cases this
    · cases he
  | some e =>
    obtain ⟨hne, himg⟩ := entry_is_image positions cell pbc _ hdet l hl none j _ _ hj e he
    obtain ⟨hmin, _, _⟩ := pairEntry_spec _ _ j e he
    refine ⟨e, rfl, hne, himg, ?_⟩
    rintro ⟨n, hn, hd⟩ m hm
    have hcomplete : ∀ k, admissible pbc k →
        imageDist2 cell (toCartesian cell s) (toCartesian cell t) k ≤ maxPeriodicLen2 cell pbc →
        e.dist2 ≤ imageDist2 cell (toCartesian cell s) (toCartesian cell t) k := by
      intro k hk hdk
      obtain ⟨a, ha, hidx, _, hpos⟩ := image_in_extension positions cell pbc _ hdet l hl j s t hj hs ht k hk hdk
      obtain ⟨nb, hnb, h1, _, h3⟩ := mem_querySpec (mkCellList l none) (toCartesian cell s) a ha (by simp [mkCellList, withinCutoff])
      rw [← query_complete_inf l] at hnb
      have := hmin nb hnb (by rw [h1, hidx])
      rw [h3, hpos] at this
      exact this
    by_cases hdm : imageDist2 cell (toCartesian cell s) (toCartesian cell t) m ≤ maxPeriodicLen2 cell pbc
    · exact hcomplete m hm hdm
    · exact le_trans (hcomplete n hn hd) (le_trans hd (le_of_lt (lt_of_not_ge hdm)))

end Matid.Geom
