/-
List lemmas behind C12: if every primitive label occurs exactly m times in a mapping and atoms with the same label
share their class (letter, element), then every class occurs m times as often in the full list as among the atoms
selected by `np.unique(mapping, return_index=True)`.
-/
import MatidModel.Primitive
import Mathlib.Data.List.Count
import Mathlib.Data.List.Perm.Basic
import Mathlib.Tactic.Ring

namespace Matid.Primitive

theorem firstOcc_nil {α} : firstOcc ([] : List (Nat × α)) = [] := by rw [firstOcc]

theorem firstOcc_cons {α} (v : Nat) (c : α) (t : List (Nat × α)) :
    firstOcc ((v, c) :: t) = (v, c) :: firstOcc (t.filter (fun p => p.1 != v)) := by rw [firstOcc]

theorem count_map_split {α β} [DecidableEq β] (f : α → β) (p : α → Bool) (c : β) :
    ∀ l : List α, (l.map f).count c = ((l.filter p).map f).count c + ((l.filter (fun x => !p x)).map f).count c
  | [] => by simp
  | a :: l => by
    have ih := count_map_split f p c l
    by_cases h : p a = true
    · simp only [List.map_cons, List.filter_cons, h, Bool.not_true, if_true, List.count_cons]
      simp only [Bool.false_eq_true, if_false]
      omega
    · have h' : p a = false := by simpa using h
      simp only [List.map_cons, List.filter_cons, h', Bool.not_false, if_true, List.count_cons]
      simp only [Bool.false_eq_true, if_false]
      omega

theorem count_of_const {β} [DecidableEq β] (c0 c : β) : ∀ l : List β, (∀ x ∈ l, x = c0) →
    l.count c = if c0 = c then l.length else 0
  | [], _ => by simp
  | a :: l, h => by
    have ha : a = c0 := h a List.mem_cons_self
    have ih := count_of_const c0 c l (fun x hx => h x (List.mem_cons_of_mem _ hx))
    subst ha
    by_cases hc : a = c
    · simp [hc] at ih ⊢; omega
    · simp [hc] at ih ⊢; exact ih

/-- the counting theorem, by strong induction on the length -/
theorem count_ratio {α} [DecidableEq α] (m : Nat) :
    ∀ (n : Nat) (l : List (Nat × α)), l.length ≤ n →
      (∀ p ∈ l, ∀ q ∈ l, p.1 = q.1 → p.2 = q.2) →
      (∀ p ∈ l, (l.filter (fun q => q.1 == p.1)).length = m) →
      ∀ c, (l.map (·.2)).count c = m * ((firstOcc l).map (·.2)).count c := by
  intro n
  induction n with
  | zero =>
    intro l hl _ _ c
    have : l = [] := List.length_eq_zero_iff.mp (by omega)
    subst this
    simp [firstOcc_nil]
  | succ n ih =>
    intro l hl hconst hm c
    cases l with
    | nil => simp [firstOcc_nil]
    | cons hd t =>
      obtain ⟨v, c0⟩ := hd
      set l := (v, c0) :: t with hl_def
      -- split by the label of the head
      have hsplit := count_map_split (fun p : Nat × α => p.2) (fun q => q.1 == v) c l
      have hB : l.filter (fun x => !(x.1 == v)) = t.filter (fun p => p.1 != v) := by
        simp [hl_def, bne]
      -- the block with the head's label
      have hA : ((l.filter (fun q => q.1 == v)).map (·.2)).count c = if c0 = c then m else 0 := by
        have hall : ∀ x ∈ (l.filter (fun q => q.1 == v)).map (·.2), x = c0 := by
          intro x hx
          obtain ⟨q, hq, rfl⟩ := List.mem_map.mp hx
          have hq' := List.mem_filter.mp hq
          exact hconst q hq'.1 (v, c0) (by simp [hl_def]) (by simpa using hq'.2)
        rw [count_of_const c0 c _ hall, List.length_map]
        have := hm (v, c0) (by simp [hl_def])
        simp only at this
        rw [this]
      -- induction hypothesis on the rest
      set B := t.filter (fun p => p.1 != v) with hB_def
      have hBsub : ∀ p ∈ B, p ∈ l := by
        intro p hp
        exact List.mem_cons_of_mem _ (List.mem_filter.mp hp).1
      have hBlen : B.length ≤ n := by
        have h1 : B.length ≤ t.length := List.length_filter_le _ _
        simp [hl_def] at hl
        omega
      have hBm : ∀ p ∈ B, (B.filter (fun q => q.1 == p.1)).length = m := by
        intro p hp
        have hpv : p.1 ≠ v := by
          have := (List.mem_filter.mp hp).2
          simpa [bne_iff_ne] using this
        have e : B.filter (fun q => q.1 == p.1) = l.filter (fun q => q.1 == p.1) := by
          rw [← hB, List.filter_filter]
          apply List.filter_congr
          intro q _
          by_cases hq : q.1 = p.1
          · simp [hq, hpv]
          · simp [hq]
        rw [e]
        exact hm p (hBsub p hp)
      have ihB := ih B hBlen (fun p hp q hq h => hconst p (hBsub p hp) q (hBsub q hq) h) hBm c
      rw [hsplit, hA, hB, ihB, firstOcc_cons, ← hB_def]
      simp only [List.map_cons, List.count_cons]
      by_cases hc : c0 = c
      · simp [hc]; ring
      · simp [hc]

/-- sorting by label does not change the counts: the statement for `npUniqueFirst` -/
theorem count_ratio_npUnique {α} [DecidableEq α] (m : Nat) (l : List (Nat × α))
    (hconst : ∀ p ∈ l, ∀ q ∈ l, p.1 = q.1 → p.2 = q.2)
    (hm : ∀ p ∈ l, (l.filter (fun q => q.1 == p.1)).length = m) (c : α) :
    (l.map (·.2)).count c = m * ((npUniqueFirst l).map (·.2)).count c := by
  have hperm : (npUniqueFirst l).Perm (firstOcc l) := List.mergeSort_perm _ _
  rw [count_ratio m l.length l (Nat.le_refl _) hconst hm c]
  congr 1
  exact ((hperm.map (·.2)).count_eq c).symm

/-- in particular the number of atoms: |conventional| = m · |primitive| -/
theorem length_ratio (m : Nat) (l : List (Nat × Unit))
    (hm : ∀ p ∈ l, (l.filter (fun q => q.1 == p.1)).length = m) :
    l.length = m * (npUniqueFirst l).length := by
  have := count_ratio_npUnique m l (fun _ _ _ _ _ => rfl) hm ()
  simpa [List.count_eq_length.mpr] using this

end Matid.Primitive
