/-
The covering-graph theorem behind the 2×-supercell dimensionality formula (C09).

A periodic bonding network is a *voltage graph*: vertices V = atoms of the cell, and a bond between atom u and the
image of atom v in the cell at lattice offset a is an edge u → v with voltage a.  Reducing the offsets modulo 2
along the k periodic axes gives voltages in A = (ℤ/2)ᵏ, and the 2× supercell is exactly the *derived graph* on
V × A ((u, x) ~ (v, x + a)).  For ANY finite abelian group A and ANY (finite or infinite) connected voltage
relation:   #components(derived graph) · #(closed-walk voltages at a base vertex) = #A.
-/
import Mathlib.GroupTheory.GroupAction.Quotient
import Mathlib.Logic.Relation
import Mathlib.Data.Fintype.Card
import Mathlib.Data.ZMod.Basic
import Mathlib.Algebra.Group.Subgroup.Finite
import Mathlib.GroupTheory.Coset.Card

open Relation

namespace Matid.Cover

variable {V A : Type} [AddCommGroup A]

/-- derived (covering) relation of a voltage relation `E u v a` -/
def Der (E : V → V → A → Prop) (p q : V × A) : Prop := E p.1 q.1 (q.2 - p.2)

def derSetoid (E : V → V → A → Prop) : Setoid (V × A) := EqvGen.setoid (Der E)

/-- connected components of the derived graph -/
abbrev Comp (E : V → V → A → Prop) := Quotient (derSetoid E)

theorem der_shift (E : V → V → A → Prop) (a : A) (p q : V × A) (h : Der E p q) :
    Der E (p.1, a + p.2) (q.1, a + q.2) := by
  unfold Der at *; simpa using h

theorem eqv_shift (E : V → V → A → Prop) (a : A) (p q : V × A) (h : EqvGen (Der E) p q) :
    EqvGen (Der E) (p.1, a + p.2) (q.1, a + q.2) := by
  induction h with
  | rel x y hxy => exact EqvGen.rel _ _ (der_shift E a x y hxy)
  | refl x => exact EqvGen.refl _
  | symm x y _ ih => exact EqvGen.symm _ _ ih
  | trans x y z _ _ ih1 ih2 => exact EqvGen.trans _ _ _ ih1 ih2

def shiftComp (E : V → V → A → Prop) (a : A) : Comp E → Comp E :=
  Quotient.map (fun p : V × A => (p.1, a + p.2)) (fun p q h => eqv_shift E a p q h)

/-- the deck group A acts on the components by translating the second coordinate -/
instance (E : V → V → A → Prop) : AddAction A (Comp E) where
  vadd a c := shiftComp E a c
  zero_vadd c := by
    induction c using Quotient.inductionOn with
    | _ p => show shiftComp E 0 ⟦p⟧ = ⟦p⟧; simp [shiftComp, Quotient.map_mk]
  add_vadd a b c := by
    induction c using Quotient.inductionOn with
    | _ p =>
      show shiftComp E (a + b) ⟦p⟧ = shiftComp E a (shiftComp E b ⟦p⟧)
      show (⟦(p.1, a + b + p.2)⟧ : Comp E) = ⟦(p.1, a + (b + p.2))⟧
      rw [add_assoc]

theorem vadd_mk (E : V → V → A → Prop) (a : A) (p : V × A) :
    (a +ᵥ (⟦p⟧ : Comp E)) = ⟦(p.1, a + p.2)⟧ := rfl

/-- base connectivity lifts: from (u, x) one reaches some (v, y) -/
theorem lift_conn (E : V → V → A → Prop) (u v : V)
    (h : EqvGen (fun u v => ∃ a, E u v a) u v) :
    ∀ x : A, ∃ y : A, EqvGen (Der E) (u, x) (v, y) := by
  induction h with
  | rel u v huv =>
    intro x; obtain ⟨a, ha⟩ := huv
    exact ⟨x + a, EqvGen.rel _ _ (by unfold Der; simpa using ha)⟩
  | refl u => intro x; exact ⟨x, EqvGen.refl _⟩
  | symm u v _ ih =>
    intro x
    obtain ⟨y, hy⟩ := ih 0
    have := eqv_shift E (x - y) _ _ hy
    simp at this
    exact ⟨x - y, EqvGen.symm _ _ this⟩
  | trans u v w _ _ ih1 ih2 =>
    intro x
    obtain ⟨y, hy⟩ := ih1 x
    obtain ⟨z, hz⟩ := ih2 y
    exact ⟨z, EqvGen.trans _ _ _ hy hz⟩

theorem pretransitive (E : V → V → A → Prop)
    (hconn : ∀ u v, EqvGen (fun u v => ∃ a, E u v a) u v) :
    AddAction.IsPretransitive A (Comp E) := by
  constructor
  intro c d
  induction c using Quotient.inductionOn with
  | _ p =>
    induction d using Quotient.inductionOn with
    | _ q =>
      obtain ⟨y, hy⟩ := lift_conn E p.1 q.1 (hconn _ _) p.2
      refine ⟨q.2 - y, ?_⟩
      rw [vadd_mk]
      have := eqv_shift E (q.2 - y) _ _ hy
      simp at this
      exact Quotient.sound this

/-- number of components × size of the closed-walk voltage group = |A| -/
theorem card_comp_mul_card_stab (E : V → V → A → Prop) [Fintype A] [Fintype (Comp E)]
    (hconn : ∀ u v, EqvGen (fun u v => ∃ a, E u v a) u v) (u0 : V)
    [Fintype (AddAction.stabilizer A (⟦(u0, (0:A))⟧ : Comp E))] :
    Fintype.card (Comp E) * Fintype.card (AddAction.stabilizer A (⟦(u0, (0:A))⟧ : Comp E))
      = Fintype.card A := by
  have := pretransitive E hconn
  classical
  have h := AddAction.card_orbit_mul_card_stabilizer_eq_card_addGroup A (⟦(u0, (0:A))⟧ : Comp E)
  have hu : AddAction.orbit A (⟦(u0, (0:A))⟧ : Comp E) = Set.univ := AddAction.orbit_eq_univ A _
  rw [← h]
  congr 1
  rw [Fintype.card_congr (Equiv.setCongr hu), Fintype.card_congr (Equiv.Set.univ _)]

/-- the stabiliser is the group of voltages of closed walks at the base vertex -/
theorem mem_stab_iff (E : V → V → A → Prop) (u0 : V) (a : A) :
    a ∈ AddAction.stabilizer A (⟦(u0, (0:A))⟧ : Comp E) ↔ EqvGen (Der E) (u0, a) (u0, 0) := by
  rw [AddAction.mem_stabilizer_iff, vadd_mk]
  simp only [add_zero]
  exact Quotient.eq (r := derSetoid E)

/-- for the 2× supercell, A = (ℤ/2)ᵏ: the number of components is 2^(k − r) with 2^r the number of closed-walk
voltages modulo 2 — so D = k − log₂ N = r is an integer between 0 and k -/
theorem components_power_of_two (k : Nat) (E : V → V → (Fin k → ZMod 2) → Prop) [Fintype (Comp E)]
    (hconn : ∀ u v, EqvGen (fun u v => ∃ a, E u v a) u v) (u0 : V) :
    ∃ r, r ≤ k ∧ Fintype.card (Comp E) = 2 ^ (k - r) ∧
      Nat.card (AddAction.stabilizer (Fin k → ZMod 2) (⟦(u0, (0 : Fin k → ZMod 2))⟧ : Comp E)) = 2 ^ r := by
  classical
  have hA : Fintype.card (Fin k → ZMod 2) = 2 ^ k := by simp [ZMod.card]
  have hmul := card_comp_mul_card_stab E hconn u0
  set H := AddAction.stabilizer (Fin k → ZMod 2) (⟦(u0, (0 : Fin k → ZMod 2))⟧ : Comp E) with hH
  have hdvd : Fintype.card H ∣ 2 ^ k := by
    rw [← hA]; exact ⟨_, by rw [mul_comm]; exact hmul.symm⟩
  obtain ⟨r, hr, hcard⟩ := (Nat.dvd_prime_pow Nat.prime_two).mp hdvd
  refine ⟨r, hr, ?_, ?_⟩
  · rw [hcard, hA] at hmul
    have h2 : 2 ^ k = 2 ^ (k - r) * 2 ^ r := by rw [← pow_add, Nat.sub_add_cancel hr]
    rw [h2] at hmul
    exact Nat.eq_of_mul_eq_mul_right (Nat.pos_of_ne_zero (by simp)) hmul
  · rw [Nat.card_eq_fintype_card, hcard]

end Matid.Cover
