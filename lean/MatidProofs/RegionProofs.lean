/-
Invariants of the region tracking (model: MatidModel/Region.lean) for EVERY sequence of oracle answers.
-/
import MatidModel.Region

namespace Matid.Region
open Matid.Geom

/-! ### frame: what `findNewSeeds` leaves alone -/

theorem findNewSeeds_frame (r : Rule) (mults : List CI) (pos : List V3) (st : St) (seed : Option Nat) (seedPos : V3) (basis : Cell)
    (ci : CI) (so : SeedO) :
    let fs := findNewSeeds r mults pos st seed seedPos basis ci so
    fs.1.units = st.units ∧ fs.1.searched = st.searched ∧ fs.1.queue = st.queue ∧ fs.1.vac = st.vac ∧ fs.1.calls = st.calls := by
  unfold findNewSeeds
  split
  · simp
  · split <;> simp

/-- the seeds accumulated by the loop: at most one per iteration -/
theorem foldl_seeds_length (r : Rule) (pos : List V3) (ci : CI) (sp : V3) (xs : List (Option Nat × CI × V3 × Option V3)) (a : Acc) :
    (xs.foldl (seedIter r pos ci sp) a).seeds.length ≤ a.seeds.length + xs.length := by
  induction xs generalizing a with
  | nil => simp
  | cons x xs ih =>
    simp only [List.foldl_cons, List.length_cons]
    refine Nat.le_trans (ih _) ?_
    have : (seedIter r pos ci sp a x).seeds.length ≤ a.seeds.length + 1 := by
      unfold seedIter
      simp only
      split <;> simp
    omega

/-- every accumulated seed index was given by the oracle (or was accumulated before) -/
theorem foldl_seeds_mem (r : Rule) (pos : List V3) (ci : CI) (sp : V3) (xs : List (Option Nat × CI × V3 × Option V3)) (a : Acc)
    (s : Option Nat × V3 × CI) (hs : s ∈ (xs.foldl (seedIter r pos ci sp) a).seeds) :
    s ∈ a.seeds ∨ ∃ x ∈ xs, s.1 = x.1 := by
  induction xs generalizing a with
  | nil => left; simpa using hs
  | cons x xs ih =>
    simp only [List.foldl_cons] at hs
    rcases ih _ hs with h | ⟨y, hy, e⟩
    · unfold seedIter at h
      simp only at h
      split at h
      · left; exact h
      · rcases List.mem_append.mp h with h | h
        · left; exact h
        · right
          simp only [List.mem_singleton] at h
          exact ⟨x, List.mem_cons_self, by rw [h]⟩
    · right; exact ⟨y, List.mem_cons_of_mem _ hy, e⟩

theorem findNewSeeds_seeds_length (r : Rule) (mults : List CI) (pos : List V3) (st : St) (seed : Option Nat) (seedPos : V3) (basis : Cell)
    (ci : CI) (so : SeedO) : (findNewSeeds r mults pos st seed seedPos basis ci so).2.2.1.length ≤ mults.length := by
  unfold findNewSeeds
  split
  · simp
  · split
    · simp only
      refine Nat.le_trans (foldl_seeds_length _ _ _ _ _ _) ?_
      simp only [List.length_nil, Nat.zero_add]
      have := List.length_filter_le (fun m => !(r.filtersSearched && st.searched.contains (CI.add m ci))) mults
      simp only [List.length_zip]
      omega
    · simp

theorem findNewSeeds_seeds_mem (r : Rule) (mults : List CI) (pos : List V3) (st : St) (seed : Option Nat) (seedPos : V3) (basis : Cell)
    (ci : CI) (so : SeedO) (s : Option Nat × V3 × CI) (hs : s ∈ (findNewSeeds r mults pos st seed seedPos basis ci so).2.2.1) :
    s.1 ∈ so.found := by
  unfold findNewSeeds at hs
  split at hs
  · simp at hs
  · split at hs
    · simp only at hs
      rcases foldl_seeds_mem _ _ _ _ _ _ _ hs with h | ⟨x, hx, e⟩
      · simp at h
      · rw [e]
        exact (List.of_mem_zip hx).1
    · simp at hs

/-- when the seed was used before nothing is queued; otherwise it is recorded -/
theorem findNewSeeds_usedPoints (r : Rule) (hr : r.checksUsedPoints = true) (mults : List CI) (pos : List V3) (st : St)
    (seed : Option Nat) (seedPos : V3) (basis : Cell) (ci : CI) (so : SeedO) :
    let fs := findNewSeeds r mults pos st seed seedPos basis ci so
    (seed ∈ st.usedPoints ∧ fs.1.usedPoints = st.usedPoints ∧ fs.2.2.1 = []) ∨
    (seed ∉ st.usedPoints ∧ fs.1.usedPoints = seed :: st.usedPoints) := by
  unfold findNewSeeds
  by_cases h : seed ∈ st.usedPoints
  · left
    have : st.usedPoints.contains seed = true := by simpa using h
    simp [hr, h]
  · right
    have : st.usedPoints.contains seed = false := by simpa using h
    simp only [hr, this, Bool.and_false]
    refine ⟨h, ?_⟩
    by_cases hg : guard r.seedGuardNotNone seed = true <;> simp [hg]

/-- a property kept by dropping the head of the queue and by `regionRec` holds after the whole search -/
theorem drain_induct (P : St → Prop) (r : Rule) (mults : List CI) (pos : List V3) (tol2 : Rat)
    (hq : ∀ st rest, P st → P { st with queue := rest })
    (hstep : ∀ st it o so, P st → P (regionRec r mults pos tol2 st it o so))
    (fuel : Nat) (st : St) (os : List (RecO × SeedO)) (h : P st) : P (drain r mults pos tol2 fuel st os) := by
  induction fuel generalizing st os with
  | zero => exact h
  | succ n ih =>
    unfold drain
    split
    · exact h
    · rename_i it rest _
      dsimp only
      split
      · exact ih _ _ (hstep _ it _ _ (hq st rest h))
      · exact ih _ _ (hq st rest h)

/-! ### invariant 1: every cell index is handled once -/

def Inv1 (st : St) : Prop := (st.units.map (·.index)).Nodup ∧ ∀ u ∈ st.units, u.index ∈ st.searched

theorem regionRec_units (r : Rule) (mults : List CI) (pos : List V3) (tol2 : Rat) (st : St) (it : QItem) (o : RecO) (so : SeedO) :
    (regionRec r mults pos tol2 st it o so = st ∧ (r.checksSearched && st.searched.contains it.index) = true) ∨
    ((r.checksSearched && st.searched.contains it.index) = false ∧
      ∃ u : LUnit, u.index = it.index ∧ u.basis = o.found ∧ (regionRec r mults pos tol2 st it o so).units = st.units ++ [u] ∧
        (regionRec r mults pos tol2 st it o so).searched = it.index :: st.searched) := by
  unfold regionRec
  cases h : (r.checksSearched && st.searched.contains it.index)
  · right
    refine ⟨rfl, ?_⟩
    simp only [Bool.false_eq_true, if_false]
    have hf := findNewSeeds_frame r mults pos (recState tol2 st it o) it.seed it.seedPos it.basis it.index so
    simp only at hf
    refine ⟨mkUnit tol2 st it o (findNewSeeds r mults pos (recState tol2 st it o) it.seed it.seedPos it.basis it.index so).2.1, rfl, rfl, ?_, ?_⟩
    · simp only [hf.1]; rfl
    · simp only [hf.2.1]; rfl
  · left; simp

theorem regionRec_inv1 (r : Rule) (hr : r.checksSearched = true) (mults : List CI) (pos : List V3) (tol2 : Rat) (st : St) (it : QItem)
    (o : RecO) (so : SeedO) (h : Inv1 st) : Inv1 (regionRec r mults pos tol2 st it o so) := by
  rcases regionRec_units r mults pos tol2 st it o so with ⟨e, _⟩ | ⟨hc, u, hu, _, hunits, hsearched⟩
  · rw [e]; exact h
  · have hnot : it.index ∉ st.searched := by
      simp only [hr, Bool.true_and] at hc
      simpa using hc
    refine ⟨?_, ?_⟩
    · rw [hunits, List.map_append, List.nodup_append]
      refine ⟨h.1, by simp, ?_⟩
      intro a ha b hb
      simp only [List.map_cons, List.map_nil, List.mem_singleton] at hb
      obtain ⟨v, hv, rfl⟩ := List.mem_map.mp ha
      rw [hb, hu]
      intro e
      exact hnot (e ▸ h.2 v hv)
    · intro v hv
      rw [hunits] at hv
      rw [hsearched]
      rcases List.mem_append.mp hv with hv | hv
      · exact List.mem_cons_of_mem _ (h.2 v hv)
      · simp only [List.mem_singleton] at hv
        rw [hv, hu]; exact List.mem_cons_self

theorem drain_inv1 (r : Rule) (hr : r.checksSearched = true) (mults : List CI) (pos : List V3) (tol2 : Rat) (fuel : Nat) (st : St)
    (os : List (RecO × SeedO)) (h : Inv1 st) : Inv1 (drain r mults pos tol2 fuel st os) :=
  drain_induct Inv1 r mults pos tol2 (fun _ _ h => h) (fun st it o so h => regionRec_inv1 r hr mults pos tol2 st it o so h) fuel st os h

/-! ### invariant 2: every seed index extends the search once -/

theorem regionRec_usedPoints (r : Rule) (hr : r.checksUsedPoints = true) (mults : List CI) (pos : List V3) (tol2 : Rat) (st : St)
    (it : QItem) (o : RecO) (so : SeedO) (h : st.usedPoints.Nodup) : (regionRec r mults pos tol2 st it o so).usedPoints.Nodup := by
  unfold regionRec
  split
  · exact h
  · simp only
    rcases findNewSeeds_usedPoints r hr mults pos (recState tol2 st it o) it.seed it.seedPos it.basis it.index so with ⟨_, e, _⟩ | ⟨hn, e⟩
    · rw [e]; exact h
    · rw [e]; exact List.nodup_cons.mpr ⟨hn, h⟩

theorem drain_usedPoints (r : Rule) (hr : r.checksUsedPoints = true) (mults : List CI) (pos : List V3) (tol2 : Rat) (fuel : Nat) (st : St)
    (os : List (RecO × SeedO)) (h : st.usedPoints.Nodup) : (drain r mults pos tol2 fuel st os).usedPoints.Nodup :=
  drain_induct (fun st => st.usedPoints.Nodup) r mults pos tol2 (fun _ _ h => h)
    (fun st it o so h => regionRec_usedPoints r hr mults pos tol2 st it o so h) fuel st os h

/-! ### termination: a potential that every handled queue item decreases -/

/-- the possible seed indices of a structure with `n` atoms -/
def allSeeds (n : Nat) : List (Option Nat) := none :: (List.range n).map some

theorem mem_allSeeds (n : Nat) (s : Option Nat) : s ∈ allSeeds n ↔ ∀ k, s = some k → k < n := by
  unfold allSeeds
  cases s with
  | none => simp
  | some k => simp

def unusedCount (n : Nat) (usedPoints : List (Option Nat)) : Nat := ((allSeeds n).filter fun s => !usedPoints.contains s).length

theorem filter_length_lt {α} (l : List α) (p q : α → Bool) (hpq : ∀ a, p a = true → q a = true) (x : α) (hx : x ∈ l)
    (hq : q x = true) (hp : p x = false) : (l.filter p).length < (l.filter q).length := by
  induction l with
  | nil => cases hx
  | cons a l ih =>
    have hle : (l.filter p).length ≤ (l.filter q).length := by
      clear ih hx
      induction l with
      | nil => simp
      | cons b l ih2 =>
        simp only [List.filter_cons]
        cases hb : p b
        · simp only [Bool.false_eq_true, if_false]
          split
          · simp only [List.length_cons]; omega
          · exact ih2
        · simp only [if_true, hpq b hb, List.length_cons]; omega
    rcases List.mem_cons.mp hx with rfl | hx
    · simp only [List.filter_cons, hp, hq, Bool.false_eq_true, if_false, if_true, List.length_cons]
      omega
    · have := ih hx
      simp only [List.filter_cons]
      cases ha : p a
      · simp only [Bool.false_eq_true, if_false]
        split
        · simp only [List.length_cons]; omega
        · exact this
      · simp only [if_true, hpq a ha, List.length_cons]; omega

theorem unusedCount_cons (n : Nat) (u : List (Option Nat)) (s : Option Nat) (hs : s ∈ allSeeds n) (hn : s ∉ u) :
    unusedCount n (s :: u) + 1 ≤ unusedCount n u := by
  unfold unusedCount
  apply filter_length_lt (allSeeds n) _ _ _ s hs
  · simpa using hn
  · simp
  · intro a ha
    simp only [List.contains_cons, Bool.not_eq_true', Bool.or_eq_false_iff] at ha
    simpa using ha.2

/-- queue items carry seed indices of the structure -/
def QueueOk (n : Nat) (st : St) : Prop := ∀ it ∈ st.queue, it.seed ∈ allSeeds n

def OracleOk (n : Nat) (os : List (RecO × SeedO)) : Prop := ∀ o ∈ os, ∀ k, some k ∈ o.2.found → k < n

def potential (m n : Nat) (st : St) : Nat := st.queue.length + m * unusedCount n st.usedPoints

/-- one handled item: the queue stays well-formed and the potential drops -/
theorem regionRec_potential (r : Rule) (hr : r.checksUsedPoints = true) (mults : List CI) (pos : List V3) (tol2 : Rat) (n : Nat) (st : St)
    (it : QItem) (o : RecO) (so : SeedO) (hit : it.seed ∈ allSeeds n) (hq : QueueOk n st) (hso : ∀ k, some k ∈ so.found → k < n) :
    QueueOk n (regionRec r mults pos tol2 st it o so) ∧
    potential mults.length n (regionRec r mults pos tol2 st it o so) ≤ potential mults.length n st := by
  unfold regionRec
  split
  · exact ⟨hq, Nat.le_refl _⟩
  · simp only
    generalize hst1 : recState tol2 st it o = st1
    have hq1 : st1.queue = st.queue := by rw [← hst1]; rfl
    have hu1 : st1.usedPoints = st.usedPoints := by rw [← hst1]; rfl
    have hf := findNewSeeds_frame r mults pos st1 it.seed it.seedPos it.basis it.index so
    have hlen := findNewSeeds_seeds_length r mults pos st1 it.seed it.seedPos it.basis it.index so
    have hmem := findNewSeeds_seeds_mem r mults pos st1 it.seed it.seedPos it.basis it.index so
    have hup := findNewSeeds_usedPoints r hr mults pos st1 it.seed it.seedPos it.basis it.index so
    simp only at hf hup
    constructor
    · intro q hqm
      simp only at hqm
      rcases List.mem_append.mp hqm with h | h
      · rw [hf.2.2.1, hq1] at h; exact hq q h
      · obtain ⟨s, hs, rfl⟩ := List.mem_map.mp h
        simp only
        rw [mem_allSeeds]
        intro k hk
        exact hso k (hk ▸ hmem s hs)
    · unfold potential
      simp only [List.length_append, List.length_map]
      rw [hf.2.2.1, hq1]
      rcases hup with ⟨_, e, hnil⟩ | ⟨hn, e⟩
      · rw [e, hnil, hu1]; simp
      · rw [e]
        rw [hu1] at hn ⊢
        have := unusedCount_cons n st.usedPoints it.seed hit hn
        have h2 : mults.length * (unusedCount n (it.seed :: st.usedPoints) + 1) ≤ mults.length * unusedCount n st.usedPoints :=
          Nat.mul_le_mul_left _ this
        rw [Nat.mul_add, Nat.mul_one] at h2
        omega

theorem drain_terminates (r : Rule) (hr : r.checksUsedPoints = true) (mults : List CI) (pos : List V3) (tol2 : Rat) (n : Nat) (fuel : Nat)
    (st : St) (os : List (RecO × SeedO)) (hq : QueueOk n st) (hos : OracleOk n os) (hfuel : potential mults.length n st ≤ fuel) :
    (drain r mults pos tol2 fuel st os).queue = [] := by
  induction fuel generalizing st os with
  | zero =>
    unfold drain
    unfold potential at hfuel
    have : st.queue.length = 0 := by omega
    exact List.eq_nil_of_length_eq_zero this
  | succ f ih =>
    unfold drain
    split
    · assumption
    · rename_i it rest hqueue
      have hit : it.seed ∈ allSeeds n := hq it (by rw [hqueue]; exact List.mem_cons_self)
      have hq' : QueueOk n { st with queue := rest } := by
        intro q hqm
        exact hq q (by rw [hqueue]; exact List.mem_cons_of_mem _ hqm)
      have hpot : potential mults.length n { st with queue := rest } + 1 = potential mults.length n st := by
        unfold potential; simp only [hqueue, List.length_cons]; omega
      dsimp only
      split
      · have hso : ∀ k, some k ∈ (os.headD noAnswer).2.found → k < n := by
          intro k hk
          cases os with
          | nil => simp [noAnswer] at hk
          | cons o os => exact hos o List.mem_cons_self k (by simpa using hk)
        obtain ⟨hq2, hp2⟩ := regionRec_potential r hr mults pos tol2 n _ it (os.headD noAnswer).1 (os.headD noAnswer).2 hit hq' hso
        apply ih _ _ hq2
        · intro o ho; exact hos o (List.mem_of_mem_tail ho)
        · omega
      · apply ih _ _ hq' hos
        omega

theorem potential_init (m n : Nat) (q : QItem) : potential m n { queue := [q] } = 1 + m * (n + 1) := by
  unfold potential unusedCount allSeeds
  have h : ∀ l : List (Option Nat), (l.filter fun _ => true) = l := fun l => List.filter_eq_self.mpr (by simp)
  simp [h]

/-! ### the atom → cell map sends every basis atom to a unit that holds it; substitutions are reported once -/

theorem icmGet_addFound (found : List (Option Nat)) (ci : CI) (icm : List (Nat × CI)) (k : Nat) :
    icmGet (addFound icm ci found) k = if some k ∈ found then some ci else icmGet icm k := by
  unfold addFound
  induction found generalizing icm with
  | nil => simp
  | cons x xs ih =>
    simp only [List.foldl_cons]
    rw [ih]
    by_cases hk : some k ∈ xs
    · simp [hk]
    · simp only [hk, if_false, List.mem_cons]
      cases x with
      | none => simp
      | some j =>
        simp only [Option.some.injEq, or_false]
        by_cases e : k = j
        · subst e; simp [icmGet]
        · have : (j == k) = false := by simpa using fun h => e h.symm
          simp [icmGet, this, e]

theorem seedIcm_get (r : Rule) (icm : List (Nat × CI)) (ci m : CI) (mt : Option Nat) (k : Nat) (c : CI) (h : icmGet icm k = some c) :
    icmGet (seedIcm r icm ci m mt) k = some c := by
  unfold seedIcm
  cases mt with
  | none => exact h
  | some j =>
    simp only
    cases hj : icmGet icm j with
    | some _ => exact h
    | none =>
      simp only
      split
      · have : j ≠ k := by
          intro e; rw [e] at hj; rw [hj] at h; cases h
        have hb : (j == k) = false := by simpa using this
        unfold icmGet at h ⊢
        simp only [List.find?_cons, hb]
        exact h
      · exact h

theorem foldl_icm_get (r : Rule) (pos : List V3) (ci : CI) (sp : V3) (xs : List (Option Nat × CI × V3 × Option V3)) (a : Acc)
    (k : Nat) (c : CI) (h : icmGet a.icm k = some c) : icmGet (xs.foldl (seedIter r pos ci sp) a).icm k = some c := by
  induction xs generalizing a with
  | nil => exact h
  | cons x xs ih =>
    simp only [List.foldl_cons]
    apply ih
    unfold seedIter
    exact seedIcm_get r a.icm ci x.2.1 x.1 k c h

theorem findNewSeeds_icm (r : Rule) (mults : List CI) (pos : List V3) (st : St) (seed : Option Nat) (seedPos : V3) (basis : Cell)
    (ci : CI) (so : SeedO) (k : Nat) (c : CI) (h : icmGet st.icm k = some c) :
    icmGet (findNewSeeds r mults pos st seed seedPos basis ci so).1.icm k = some c := by
  unfold findNewSeeds
  split
  · exact h
  · split
    · simp only
      exact foldl_icm_get _ _ _ _ _ _ k c h
    · exact h

/-- every basis atom of every unit is mapped to (the index of) a unit that holds it -/
def Inv3 (st : St) : Prop :=
  ∀ u ∈ st.units, ∀ k, some k ∈ u.basis → ∃ c, icmGet st.icm k = some c ∧ ∃ u' ∈ st.units, u'.index = c ∧ some k ∈ u'.basis

theorem regionRec_inv3 (r : Rule) (mults : List CI) (pos : List V3) (tol2 : Rat) (st : St) (it : QItem) (o : RecO) (so : SeedO)
    (h : Inv3 st) : Inv3 (regionRec r mults pos tol2 st it o so) := by
  rcases regionRec_units r mults pos tol2 st it o so with ⟨e, _⟩ | ⟨hc, u, hu, hub, hunits, _⟩
  · rw [e]; exact h
  · -- the map after the call
    have hicm : ∀ k c, (if some k ∈ o.found then some it.index else icmGet st.icm k) = some c →
        icmGet (regionRec r mults pos tol2 st it o so).icm k = some c := by
      intro k c hk
      unfold regionRec
      simp only [hc, Bool.false_eq_true, if_false]
      apply findNewSeeds_icm
      show icmGet (addFound st.icm it.index o.found) k = some c
      rw [icmGet_addFound]; exact hk
    intro v hv k hk
    rw [hunits] at hv
    by_cases hko : some k ∈ o.found
    · refine ⟨it.index, hicm k _ (by simp [hko]), u, ?_, hu, by rw [hub]; exact hko⟩
      rw [hunits]; simp
    · rcases List.mem_append.mp hv with hv | hv
      · obtain ⟨c, hc1, u', hu', e1, e2⟩ := h v hv k hk
        refine ⟨c, hicm k c (by simp [hko, hc1]), u', ?_, e1, e2⟩
        rw [hunits]; exact List.mem_append_left _ hu'
      · simp only [List.mem_singleton] at hv
        rw [hv, hub] at hk
        exact absurd hk hko

theorem drain_inv3 (r : Rule) (mults : List CI) (pos : List V3) (tol2 : Rat) (fuel : Nat) (st : St)
    (os : List (RecO × SeedO)) (h : Inv3 st) : Inv3 (drain r mults pos tol2 fuel st os) :=
  drain_induct Inv3 r mults pos tol2 (fun _ _ h => h) (fun st it o so h => regionRec_inv3 r mults pos tol2 st it o so h) fuel st os h

/-! ### an atom is reported as a substitution at most once, and never after (or while) it was matched as a basis atom -/

theorem foldl_used_mono (r : Rule) (pos : List V3) (ci : CI) (sp : V3) (xs : List (Option Nat × CI × V3 × Option V3)) (a : Acc)
    (s : Option Nat) (h : s ∈ a.used) : s ∈ (xs.foldl (seedIter r pos ci sp) a).used := by
  induction xs generalizing a with
  | nil => exact h
  | cons x xs ih =>
    simp only [List.foldl_cons]
    apply ih
    unfold seedIter
    simp only
    split
    · exact List.mem_cons_of_mem _ h
    · exact h

theorem findNewSeeds_used_mono (r : Rule) (mults : List CI) (pos : List V3) (st : St) (seed : Option Nat) (seedPos : V3) (basis : Cell)
    (ci : CI) (so : SeedO) (s : Option Nat) (h : s ∈ st.used) : s ∈ (findNewSeeds r mults pos st seed seedPos basis ci so).1.used := by
  unfold findNewSeeds
  split
  · exact h
  · split
    · simp only
      exact foldl_used_mono _ _ _ _ _ _ s h
    · exact h

theorem mem_validSubst (used substs : List (Option Nat)) (k : Nat) (h : some k ∈ validSubst used substs) :
    some k ∈ substs ∧ some k ∉ used := by
  unfold validSubst at h
  obtain ⟨s, hs, e⟩ := List.mem_map.mp h
  cases s with
  | none => simp at e
  | some j =>
    simp only at e
    split at e
    · cases e
    · rename_i hc
      cases e
      exact ⟨hs, by simpa using hc⟩

/-- everything a unit holds (basis atoms, reported substitutions) counts as used -/
def Inv4 (st : St) : Prop := ∀ u ∈ st.units, ∀ k, (some k ∈ u.basis ∨ some k ∈ u.substs) → some k ∈ st.used

/-- an earlier unit's atoms are not reported as substitutions by a later unit -/
def SubstOnce (units : List LUnit) : Prop :=
  units.Pairwise fun u u' => ∀ k, (some k ∈ u.basis ∨ some k ∈ u.substs) → some k ∉ u'.substs

theorem regionRec_used (r : Rule) (mults : List CI) (pos : List V3) (tol2 : Rat) (st : St) (it : QItem) (o : RecO) (so : SeedO)
    (hc : (r.checksSearched && st.searched.contains it.index) = false) (s : Option Nat)
    (h : s ∈ (o.substs.filter Option.isSome).reverse ++ (o.found.reverse ++ st.used)) :
    s ∈ (regionRec r mults pos tol2 st it o so).used := by
  unfold regionRec
  simp only [hc, Bool.false_eq_true, if_false]
  exact findNewSeeds_used_mono r mults pos (recState tol2 st it o) it.seed it.seedPos it.basis it.index so s h

theorem regionRec_unit_eq (r : Rule) (mults : List CI) (pos : List V3) (tol2 : Rat) (st : St) (it : QItem) (o : RecO) (so : SeedO)
    (hc : (r.checksSearched && st.searched.contains it.index) = false) :
    ∃ cell, (regionRec r mults pos tol2 st it o so).units = st.units ++ [mkUnit tol2 st it o cell] := by
  unfold regionRec
  simp only [hc, Bool.false_eq_true, if_false]
  have hf := findNewSeeds_frame r mults pos (recState tol2 st it o) it.seed it.seedPos it.basis it.index so
  simp only at hf
  exact ⟨_, by simp only [hf.1]; rfl⟩

theorem regionRec_inv4 (r : Rule) (mults : List CI) (pos : List V3) (tol2 : Rat) (st : St) (it : QItem) (o : RecO) (so : SeedO)
    (h : Inv4 st ∧ SubstOnce st.units) :
    Inv4 (regionRec r mults pos tol2 st it o so) ∧ SubstOnce (regionRec r mults pos tol2 st it o so).units := by
  cases hc : (r.checksSearched && st.searched.contains it.index)
  · obtain ⟨cell, hunits⟩ := regionRec_unit_eq r mults pos tol2 st it o so hc
    constructor
    · intro u hu k hk
      apply regionRec_used r mults pos tol2 st it o so hc
      rw [hunits] at hu
      rcases List.mem_append.mp hu with hu | hu
      · exact List.mem_append_right _ (List.mem_append_right _ (h.1 u hu k hk))
      · simp only [List.mem_singleton] at hu
        rw [hu] at hk
        rcases hk with hk | hk
        · exact List.mem_append_right _ (List.mem_append_left _ (List.mem_reverse.mpr hk))
        · have := (mem_validSubst _ _ k hk).1
          exact List.mem_append_left _ (List.mem_reverse.mpr (List.mem_filter.mpr ⟨this, rfl⟩))
    · unfold SubstOnce
      rw [hunits, List.pairwise_append]
      refine ⟨h.2, List.pairwise_singleton _ _, ?_⟩
      intro u hu u' hu' k hk
      simp only [List.mem_singleton] at hu'
      rw [hu']
      intro hsub
      have := (mem_validSubst _ _ k hsub).2
      exact this (List.mem_append_right _ (h.1 u hu k hk))
  · have : regionRec r mults pos tol2 st it o so = st := by unfold regionRec; rw [if_pos hc]
    rw [this]; exact h

theorem drain_inv4 (r : Rule) (mults : List CI) (pos : List V3) (tol2 : Rat) (fuel : Nat) (st : St)
    (os : List (RecO × SeedO)) (h : Inv4 st ∧ SubstOnce st.units) :
    Inv4 (drain r mults pos tol2 fuel st os) ∧ SubstOnce (drain r mults pos tol2 fuel st os).units :=
  drain_induct (fun st => Inv4 st ∧ SubstOnce st.units) r mults pos tol2 (fun _ _ h => h)
    (fun st it o so h => regionRec_inv4 r mults pos tol2 st it o so h) fuel st os h

/-- within one unit a reported substitution is not one of its matched atoms -/
theorem mkUnit_subst_not_basis (tol2 : Rat) (st : St) (it : QItem) (o : RecO) (cell : Cell) (k : Nat)
    (h : some k ∈ (mkUnit tol2 st it o cell).substs) : some k ∉ (mkUnit tol2 st it o cell).basis := by
  have := (mem_validSubst _ _ k h).2
  intro hb
  exact this (List.mem_append_left _ (List.mem_reverse.mpr hb))

/-! ### every atom the search graph has a target node for is known to the atom → cell map -/

def TargetsMapped (icm : List (Nat × CI)) (targets : List Nat) : Prop := ∀ k ∈ targets, ∃ c, icmGet icm k = some c

theorem seedIcm_self (r : Rule) (hr : r.icmSetWhenAbsent = true) (icm : List (Nat × CI)) (ci m : CI) (k : Nat) :
    ∃ c, icmGet (seedIcm r icm ci m (some k)) k = some c := by
  unfold seedIcm
  simp only
  cases h : icmGet icm k with
  | some c => exact ⟨c, h⟩
  | none => simp [hr, icmGet]

theorem foldl_targets (r : Rule) (hr : r.icmSetWhenAbsent = true) (pos : List V3) (ci : CI) (sp : V3)
    (xs : List (Option Nat × CI × V3 × Option V3)) (a : Acc) (h : TargetsMapped a.icm a.targets) :
    TargetsMapped (xs.foldl (seedIter r pos ci sp) a).icm (xs.foldl (seedIter r pos ci sp) a).targets := by
  induction xs generalizing a with
  | nil => exact h
  | cons x xs ih =>
    simp only [List.foldl_cons]
    apply ih
    unfold seedIter
    simp only
    intro k hk
    cases hx : x.1 with
    | none =>
      rw [hx] at hk
      obtain ⟨c, hc⟩ := h k hk
      exact ⟨c, seedIcm_get r a.icm ci x.2.1 none k c hc⟩
    | some j =>
      rw [hx] at hk
      simp only [List.mem_cons] at hk
      rcases hk with rfl | hk
      · exact seedIcm_self r hr a.icm ci x.2.1 k
      · obtain ⟨c, hc⟩ := h k hk
        exact ⟨c, seedIcm_get r a.icm ci x.2.1 (some j) k c hc⟩

theorem findNewSeeds_targets (r : Rule) (hr : r.icmSetWhenAbsent = true) (mults : List CI) (pos : List V3) (st : St) (seed : Option Nat)
    (seedPos : V3) (basis : Cell) (ci : CI) (so : SeedO) (h : TargetsMapped st.icm st.targets) :
    TargetsMapped (findNewSeeds r mults pos st seed seedPos basis ci so).1.icm (findNewSeeds r mults pos st seed seedPos basis ci so).1.targets := by
  unfold findNewSeeds
  split
  · exact h
  · split
    · simp only
      exact foldl_targets r hr pos ci seedPos _ _ h
    · exact h

theorem regionRec_targets (r : Rule) (hr : r.icmSetWhenAbsent = true) (mults : List CI) (pos : List V3) (tol2 : Rat) (st : St) (it : QItem)
    (o : RecO) (so : SeedO) (h : TargetsMapped st.icm st.targets) :
    TargetsMapped (regionRec r mults pos tol2 st it o so).icm (regionRec r mults pos tol2 st it o so).targets := by
  unfold regionRec
  split
  · exact h
  · simp only
    apply findNewSeeds_targets r hr
    intro k hk
    show ∃ c, icmGet (addFound st.icm it.index o.found) k = some c
    rw [icmGet_addFound]
    split
    · exact ⟨_, rfl⟩
    · exact h k hk

theorem drain_targets (r : Rule) (hr : r.icmSetWhenAbsent = true) (mults : List CI) (pos : List V3) (tol2 : Rat) (fuel : Nat) (st : St)
    (os : List (RecO × SeedO)) (h : TargetsMapped st.icm st.targets) :
    TargetsMapped (drain r mults pos tol2 fuel st os).icm (drain r mults pos tol2 fuel st os).targets :=
  drain_induct (fun st => TargetsMapped st.icm st.targets) r mults pos tol2 (fun _ _ h => h)
    (fun st it o so h => regionRec_targets r hr mults pos tol2 st it o so h) fuel st os h

/-- one edge and one target per matched seed -/
theorem foldl_edges_targets_length (r : Rule) (pos : List V3) (ci : CI) (sp : V3) (xs : List (Option Nat × CI × V3 × Option V3)) (a : Acc)
    (h : a.edges.length = a.targets.length) :
    (xs.foldl (seedIter r pos ci sp) a).edges.length = (xs.foldl (seedIter r pos ci sp) a).targets.length := by
  induction xs generalizing a with
  | nil => exact h
  | cons x xs ih =>
    simp only [List.foldl_cons]
    apply ih
    unfold seedIter seedEdges
    simp only
    cases x.1 <;> simp [h]

/-- a seed atom that was not used before always consults `get_matches_simple` when the guard is `is not None` -/
theorem findNewSeeds_consults (r : Rule) (hg : r.seedGuardNotNone = true) (mults : List CI) (pos : List V3) (st : St) (k : Nat)
    (seedPos : V3) (basis : Cell) (ci : CI) (so : SeedO) (hk : some k ∉ st.usedPoints) :
    (findNewSeeds r mults pos st (some k) seedPos basis ci so).2.2.2 = true := by
  unfold findNewSeeds
  have : st.usedPoints.contains (some k) = false := by simpa using hk
  have hgd : guard r.seedGuardNotNone (some k) = true := by simp [guard, hg]
  rw [this, Bool.and_false]
  simp only [Bool.false_eq_true, if_false, hgd, if_true]

theorem nodup_eraseDups (l : List Nat) : l.eraseDups.Nodup := by
  match l with
  | [] => simp
  | a :: as =>
    rw [List.eraseDups_cons]
    have : (as.filter fun b => !b == a).length < as.length + 1 := Nat.lt_succ_of_le (List.length_filter_le _ _)
    refine List.nodup_cons.mpr ⟨?_, nodup_eraseDups _⟩
    rw [List.mem_eraseDups, List.mem_filter]; simp
termination_by l.length

end Matid.Region
