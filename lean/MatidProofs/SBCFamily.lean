/- Consequences of the pipeline model for ideal finder outputs (contract F): used by C02, C03, C18. -/
import MatidProofs.SBCProofs
import MatidModel.Classifier

namespace Matid.SBC

/-- resolving an atom held by at most one cluster changes nothing -/
theorem resolve_noop (near : Nat → Nat → Bool) (i : Nat) (cs : List (List Nat)) (h : memCount cs i ≤ 1) :
    resolve near i cs = cs := by
  unfold resolve
  simp only
  rw [if_pos]
  simp only [List.length_map]
  have : memCount cs i = (cs.zipIdx.filter fun p => p.1.contains i).length := by
    rw [memCount, ← countP_zipIdx_fst (fun c => c.contains i) cs, List.countP_eq_length_filter]
  rw [← this]; exact h

/-- localisation is the identity on clusters that do not overlap -/
theorem localize_id_of_disjoint (near : Nat → Nat → Bool) (cs : List (List Nat)) (h : ∀ j, memCount cs j ≤ 1) :
    ∀ n, localize near n cs = cs := by
  intro n
  induction n with
  | zero => simp [localize]
  | succ k ih =>
    have : localize near (k + 1) cs = resolve near k (localize near k cs) := by
      simp [localize, List.range_succ, List.foldl_append]
    rw [this, ih]
    exact resolve_noop near k cs (h k)

/-- a single (unmerged) cluster passes the merge step unchanged -/
theorem merge_singleton (numbers : List Nat) (thr : Rat) (c : Clu) (hc : c.merged = false) :
    mergeClusters numbers thr [c] = [c] := by
  simp [mergeClusters, mergeLoop, hc]

theorem scoreAbove_zero (ni nt : Nat) (thr : Rat) (h : 0 ≤ thr) : scoreAbove 0 ni nt thr = false := by
  unfold scoreAbove
  simp only [Nat.cast_zero, Bool.or_eq_false_iff, decide_eq_false_iff_not, not_lt]
  exact ⟨mul_nonneg h (Nat.cast_nonneg _), mul_nonneg h (Nat.cast_nonneg _)⟩

/-- two clusters that share no atom are not merged (for any non-negative merge threshold) -/
theorem merge_two_disjoint (numbers : List Nat) (thr : Rat) (h : 0 ≤ thr) (a b : Clu) (ha : a.merged = false)
    (hb : b.merged = false) (hd : inter a.idx b.idx = []) : mergeClusters numbers thr [a, b] = [a, b] := by
  have hs := scoreAbove_zero a.idx.length b.idx.length thr h
  simp [mergeClusters, mergeLoop, ha, hb, hd, firstMaxIdx, hs]

/-- one connected cluster is returned unchanged by the cleaning step -/
theorem clean_connected (all : List Nat) (h : all ≠ []) : cleanOne [all] = [all] := by
  unfold cleanOne
  have hl : 0 < all.length := List.length_pos_of_ne_nil h
  simp only [List.map_cons, List.map_nil, List.foldl_cons, List.foldl_nil, Nat.zero_max]
  rw [if_neg (by simp; omega)]
  simp

/-- contract F for a single crystal: from any seed the finder returns every atom.  Then one iteration of the
driver assigns every atom and produces one cluster containing all of them -/
theorem driver_single_crystal (numbers : List Nat) (f : FinderOut) (basis : List Nat) (hb : f.basis = some basis)
    (hall : ∀ i, i < numbers.length → i ∈ basis) :
    ∃ c, driverStep numbers (List.range numbers.length) f = ([], some c) ∧ (∀ i, i < numbers.length → i ∈ c.idx) ∧
      c.merged = false := by
  have hrem : ((List.range numbers.length).filter fun i => !f.mask.contains i).filter
      (fun i => !(setOf (f.seed :: basis)).contains i) = [] := by
    rw [List.filter_eq_nil_iff]
    intro i hi
    have hi' := (List.mem_filter.mp hi).1
    have : i ∈ setOf (f.seed :: basis) := (mem_setOf _ _).mpr (List.mem_cons_of_mem _ (hall i (List.mem_range.mp hi')))
    simpa using this
  refine ⟨{ idx := setOf (f.seed :: basis), species := setOf ((setOf (f.seed :: basis)).map fun i => numbers.getD i 0),
            rsize := (setOf basis).length, rid := f.rid, merged := false }, ?_, ?_, rfl⟩
  · unfold driverStep
    simp only [hb, hrem]
  · intro i hi
    exact (mem_setOf _ _).mpr (List.mem_cons_of_mem _ (hall i hi))

end Matid.SBC
