/-
Soundness of the Boolean table checkers of MatidModel/Table.lean: what `letterOk … = true`
(established by kernel evaluation for every Wyckoff position of every space group) means mathematically.
-/
import MatidModel.Table
import Mathlib.Tactic.Ring
import Mathlib.Tactic.Linarith
import Mathlib.Tactic.FieldSimp
import Mathlib.Data.Rat.Defs
import Mathlib.Algebra.Order.Field.Rat

namespace Matid.Table

/-! ### congruence modulo ℤ³ -/

/-- same linear part, translations congruent modulo 24 (= modulo lattice translations) -/
structure Aff.Cong (A B : Aff) : Prop where
  h11 : A.a11 = B.a11
  h12 : A.a12 = B.a12
  h13 : A.a13 = B.a13
  h21 : A.a21 = B.a21
  h22 : A.a22 = B.a22
  h23 : A.a23 = B.a23
  h31 : A.a31 = B.a31
  h32 : A.a32 = B.a32
  h33 : A.a33 = B.a33
  d1 : (24 : Int) ∣ A.t1 - B.t1
  d2 : (24 : Int) ∣ A.t2 - B.t2
  d3 : (24 : Int) ∣ A.t3 - B.t3

theorem eqMod_iff (A B : Aff) : A.eqMod B = true ↔ A.Cong B := by
  constructor
  · intro h
    simp only [Aff.eqMod, Aff.sameRot, Bool.and_eq_true, beq_iff_eq] at h
    obtain ⟨⟨⟨⟨⟨⟨⟨⟨⟨⟨⟨h11, h12⟩, h13⟩, h21⟩, h22⟩, h23⟩, h31⟩, h32⟩, h33⟩, d1⟩, d2⟩, d3⟩ := h
    exact ⟨h11, h12, h13, h21, h22, h23, h31, h32, h33,
      Int.dvd_of_emod_eq_zero d1, Int.dvd_of_emod_eq_zero d2, Int.dvd_of_emod_eq_zero d3⟩
  · intro h
    simp only [Aff.eqMod, Aff.sameRot, Bool.and_eq_true, beq_iff_eq]
    exact ⟨⟨⟨⟨⟨⟨⟨⟨⟨⟨⟨h.h11, h.h12⟩, h.h13⟩, h.h21⟩, h.h22⟩, h.h23⟩, h.h31⟩, h.h32⟩, h.h33⟩,
      Int.emod_eq_zero_of_dvd h.d1⟩, Int.emod_eq_zero_of_dvd h.d2⟩, Int.emod_eq_zero_of_dvd h.d3⟩

theorem Aff.Cong.refl (A : Aff) : A.Cong A :=
  ⟨rfl, rfl, rfl, rfl, rfl, rfl, rfl, rfl, rfl, by simp, by simp, by simp⟩

theorem Aff.Cong.symm {A B : Aff} (h : A.Cong B) : B.Cong A :=
  ⟨h.h11.symm, h.h12.symm, h.h13.symm, h.h21.symm, h.h22.symm, h.h23.symm, h.h31.symm, h.h32.symm, h.h33.symm,
   by have := h.d1; omega, by have := h.d2; omega, by have := h.d3; omega⟩

theorem Aff.Cong.trans {A B C : Aff} (h : A.Cong B) (k : B.Cong C) : A.Cong C :=
  ⟨h.h11.trans k.h11, h.h12.trans k.h12, h.h13.trans k.h13, h.h21.trans k.h21, h.h22.trans k.h22,
   h.h23.trans k.h23, h.h31.trans k.h31, h.h32.trans k.h32, h.h33.trans k.h33,
   by have := h.d1; have := k.d1; omega, by have := h.d2; have := k.d2; omega, by have := h.d3; have := k.d3; omega⟩

/-- composition respects congruence in the right argument (integer linear parts map ℤ³ into ℤ³) -/
theorem Aff.Cong.comp_right (A : Aff) {B B' : Aff} (h : B.Cong B') : (A.comp B).Cong (A.comp B') := by
  obtain ⟨h11, h12, h13, h21, h22, h23, h31, h32, h33, ⟨k1, e1⟩, ⟨k2, e2⟩, ⟨k3, e3⟩⟩ := h
  refine ⟨?_, ?_, ?_, ?_, ?_, ?_, ?_, ?_, ?_, ?_, ?_, ?_⟩
  all_goals simp only [Aff.comp, h11, h12, h13, h21, h22, h23, h31, h32, h33]
  · exact ⟨A.a11 * k1 + A.a12 * k2 + A.a13 * k3, by
      have : A.a11 * B.t1 + A.a12 * B.t2 + A.a13 * B.t3 + A.t1 - (A.a11 * B'.t1 + A.a12 * B'.t2 + A.a13 * B'.t3 + A.t1)
        = A.a11 * (B.t1 - B'.t1) + A.a12 * (B.t2 - B'.t2) + A.a13 * (B.t3 - B'.t3) := by ring
      rw [this, e1, e2, e3]; ring⟩
  · exact ⟨A.a21 * k1 + A.a22 * k2 + A.a23 * k3, by
      have : A.a21 * B.t1 + A.a22 * B.t2 + A.a23 * B.t3 + A.t2 - (A.a21 * B'.t1 + A.a22 * B'.t2 + A.a23 * B'.t3 + A.t2)
        = A.a21 * (B.t1 - B'.t1) + A.a22 * (B.t2 - B'.t2) + A.a23 * (B.t3 - B'.t3) := by ring
      rw [this, e1, e2, e3]; ring⟩
  · exact ⟨A.a31 * k1 + A.a32 * k2 + A.a33 * k3, by
      have : A.a31 * B.t1 + A.a32 * B.t2 + A.a33 * B.t3 + A.t3 - (A.a31 * B'.t1 + A.a32 * B'.t2 + A.a33 * B'.t3 + A.t3)
        = A.a31 * (B.t1 - B'.t1) + A.a32 * (B.t2 - B'.t2) + A.a33 * (B.t3 - B'.t3) := by ring
      rw [this, e1, e2, e3]; ring⟩

/-- composition respects congruence in the left argument -/
theorem Aff.Cong.comp_left {A A' : Aff} (h : A.Cong A') (B : Aff) : (A.comp B).Cong (A'.comp B) := by
  obtain ⟨h11, h12, h13, h21, h22, h23, h31, h32, h33, ⟨k1, e1⟩, ⟨k2, e2⟩, ⟨k3, e3⟩⟩ := h
  refine ⟨?_, ?_, ?_, ?_, ?_, ?_, ?_, ?_, ?_, ?_, ?_, ?_⟩
  all_goals simp only [Aff.comp, h11, h12, h13, h21, h22, h23, h31, h32, h33]
  · exact ⟨k1, by rw [← e1]; ring⟩
  · exact ⟨k2, by rw [← e2]; ring⟩
  · exact ⟨k3, by rw [← e3]; ring⟩

theorem Aff.comp_assoc (A B C : Aff) : (A.comp B).comp C = A.comp (B.comp C) := by
  simp only [Aff.comp, Aff.mk.injEq]
  refine ⟨?_, ?_, ?_, ?_, ?_, ?_, ?_, ?_, ?_, ?_, ?_, ?_⟩ <;> ring

theorem Aff.id_comp (A : Aff) : Aff.id.comp A = A := by
  cases A; simp [Aff.comp, Aff.id]

theorem Aff.addT_zeroT (A : Aff) : A.addT zeroT = A := by
  cases A; simp [Aff.addT, zeroT, Aff.id]

/-! ### meaning on points of ℚ³ -/

theorem Aff.act_comp (A B : Aff) (w : Rat × Rat × Rat) : (A.comp B).act w = A.act (B.act w) := by
  simp only [Aff.act, Aff.comp, Prod.mk.injEq]
  push_cast
  refine ⟨?_, ?_, ?_⟩ <;> ring

/-- congruent maps send every point to points that differ by a lattice vector -/
theorem Aff.Cong.act {A B : Aff} (h : A.Cong B) (w : Rat × Rat × Rat) :
    ∃ k1 k2 k3 : Int, A.act w = ((B.act w).1 + k1, (B.act w).2.1 + k2, (B.act w).2.2 + k3) := by
  obtain ⟨h11, h12, h13, h21, h22, h23, h31, h32, h33, ⟨k1, e1⟩, ⟨k2, e2⟩, ⟨k3, e3⟩⟩ := h
  refine ⟨k1, k2, k3, ?_⟩
  have f1 : (A.t1 : Rat) = B.t1 + 24 * k1 := by
    have : A.t1 = B.t1 + 24 * k1 := by omega
    rw [this]; push_cast; ring
  have f2 : (A.t2 : Rat) = B.t2 + 24 * k2 := by
    have : A.t2 = B.t2 + 24 * k2 := by omega
    rw [this]; push_cast; ring
  have f3 : (A.t3 : Rat) = B.t3 + 24 * k3 := by
    have : A.t3 = B.t3 + 24 * k3 := by omega
    rw [this]; push_cast; ring
  simp only [Aff.act, h11, h12, h13, h21, h22, h23, h31, h32, h33, f1, f2, f3, Prod.mk.injEq]
  refine ⟨?_, ?_, ?_⟩ <;> ring

/-! ### list helpers -/

theorem all_zip_left {α β} (p : α × β → Bool) :
    ∀ (l1 : List α) (l2 : List β), l1.length ≤ l2.length → (l1.zip l2).all p = true →
      ∀ a ∈ l1, ∃ b, p (a, b) = true
  | [], _, _, _ => by simp
  | a :: l1, [], h, _ => by simp at h
  | a :: l1, b :: l2, h, hall => by
    simp only [List.zip_cons_cons, List.all_cons, Bool.and_eq_true] at hall
    intro x hx
    rcases List.mem_cons.mp hx with rfl | hx
    · exact ⟨b, hall.1⟩
    · exact all_zip_left p l1 l2 (by simpa using h) hall.2 x hx

theorem all_zip_right {α β} (p : α × β → Bool) :
    ∀ (l1 : List α) (l2 : List β), l2.length ≤ l1.length → (l1.zip l2).all p = true →
      ∀ b ∈ l2, ∃ a ∈ l1, p (a, b) = true
  | _, [], _, _ => by simp
  | [], b :: l2, h, _ => by simp at h
  | a :: l1, b :: l2, h, hall => by
    simp only [List.zip_cons_cons, List.all_cons, Bool.and_eq_true] at hall
    intro x hx
    rcases List.mem_cons.mp hx with rfl | hx
    · exact ⟨a, List.mem_cons_self, hall.1⟩
    · obtain ⟨a', ha', hp⟩ := all_zip_right p l1 l2 (by simpa using h) hall.2 x hx
      exact ⟨a', List.mem_cons_of_mem _ ha', hp⟩

theorem all_zip_left_mem {α β} (p : α × β → Bool) :
    ∀ (l1 : List α) (l2 : List β), l1.length ≤ l2.length → (l1.zip l2).all p = true →
      ∀ a ∈ l1, ∃ b ∈ l2, p (a, b) = true
  | [], _, _, _ => by simp
  | a :: l1, [], h, _ => by simp at h
  | a :: l1, b :: l2, h, hall => by
    simp only [List.zip_cons_cons, List.all_cons, Bool.and_eq_true] at hall
    intro x hx
    rcases List.mem_cons.mp hx with rfl | hx
    · exact ⟨b, List.mem_cons_self, hall.1⟩
    · obtain ⟨b', hb', hp⟩ := all_zip_left_mem p l1 l2 (by simpa using h) hall.2 x hx
      exact ⟨b', List.mem_cons_of_mem _ hb', hp⟩

theorem getD_mem {α} (l : List α) (i : Nat) (d : α) (h : i < l.length) : l.getD i d ∈ l := by
  simp [List.getD_eq_getElem?_getD, List.getElem?_eq_getElem h]

theorem unpackRow_length (n row : Nat) : (unpackRow n row).length = n := by simp [unpackRow]

/-! ### closure -/

/-- `g` maps every listed map to a listed map, modulo ℤ³ -/
def ClosedUnder (g : Aff) (S : List Aff) : Prop := ∀ s ∈ S, ∃ s' ∈ S, (g.comp s).Cong s'

theorem ClosedUnder.id (S : List Aff) : ClosedUnder Aff.id S :=
  fun s hs => ⟨s, hs, by rw [Aff.id_comp]; exact Aff.Cong.refl s⟩

theorem ClosedUnder.comp {A B : Aff} {S : List Aff} (hA : ClosedUnder A S) (hB : ClosedUnder B S) :
    ClosedUnder (A.comp B) S := by
  intro s hs
  obtain ⟨s1, hs1, c1⟩ := hB s hs
  obtain ⟨s2, hs2, c2⟩ := hA s1 hs1
  refine ⟨s2, hs2, ?_⟩
  rw [Aff.comp_assoc]
  exact (Aff.Cong.comp_right A c1).trans c2

theorem ClosedUnder.congr {A A' : Aff} {S : List Aff} (h : A.Cong A') (hA : ClosedUnder A' S) : ClosedUnder A S := by
  intro s hs
  obtain ⟨s1, hs1, c1⟩ := hA s hs
  exact ⟨s1, hs1, (Aff.Cong.comp_left h s).trans c1⟩

theorem closedOk_sound (gens maps : List Aff) (cert : List Nat) (h : closedOk gens maps cert = true) :
    ∀ g ∈ gens, ClosedUnder g maps := by
  simp only [closedOk, Bool.and_eq_true, beq_iff_eq] at h
  obtain ⟨hlen, hall⟩ := h
  intro g hg s hs
  obtain ⟨prow, hrow⟩ := all_zip_left _ gens cert (by omega) hall g hg
  obtain ⟨c, hc⟩ := all_zip_left _ maps (unpackRow maps.length prow) (by rw [unpackRow_length]) hrow s hs
  simp only [Bool.and_eq_true, decide_eq_true_eq] at hc
  exact ⟨maps.getD c Aff.id, getD_mem _ _ _ hc.1, (eqMod_iff _ _).mp hc.2⟩


/-! ### generation of the reference operations -/

theorem genLoop_sound (P : Aff → Prop) (hcongr : ∀ A A', A.Cong A' → P A' → P A)
    (hcomp : ∀ A B, P A → P B → P (A.comp B)) (gens : List Aff) (hg : ∀ g ∈ gens, P g) :
    ∀ (rest : List (Aff × Nat)) (done : List Aff), genLoop gens done rest = true →
      (∀ x ∈ done, P x) → ∀ x ∈ rest, P x.1
  | [], _, _, _ => by simp
  | (o, c) :: rest, done, h, hd => by
    simp only [genLoop, Bool.and_eq_true, decide_eq_true_eq] at h
    obtain ⟨⟨⟨h1, h2⟩, h3⟩, h4⟩ := h
    have ho : P o := by
      apply hcongr _ _ ((eqMod_iff _ _).mp h3)
      apply hcomp
      · exact hg _ (getD_mem _ _ _ h2)
      · exact hd _ (getD_mem _ _ _ (by omega))
    intro x hx
    rcases List.mem_cons.mp hx with rfl | hx
    · exact ho
    · exact genLoop_sound P hcongr hcomp gens hg rest (o :: done) h4
        (fun y hy => by rcases List.mem_cons.mp hy with rfl | hy; exact ho; exact hd y hy) x hx

theorem zip_map_fst_of_le {α β} : ∀ (l1 : List α) (l2 : List β), l1.length ≤ l2.length → (l1.zip l2).map (·.1) = l1
  | [], _, _ => by simp
  | a :: l1, [], h => by simp at h
  | a :: l1, b :: l2, h => by simp [zip_map_fst_of_le l1 l2 (by simpa using h)]

/-- a property that holds for the identity and the generators, respects congruence and is closed under
composition holds for every reference operation -/
theorem generatedOk_sound (P : Aff → Prop) (hcongr : ∀ A A', A.Cong A' → P A' → P A)
    (hcomp : ∀ A B, P A → P B → P (A.comp B)) (hid : P Aff.id) (gens ops : List Aff) (cert : List Nat)
    (h : generatedOk gens ops cert = true) (hg : ∀ g ∈ gens, P g) : ∀ o ∈ ops, P o := by
  simp only [generatedOk, Bool.and_eq_true, beq_iff_eq] at h
  obtain ⟨hlen, h⟩ := h
  have hz : (ops.zip cert).map (·.1) = ops := zip_map_fst_of_le _ _ (by omega)
  intro o ho
  rw [← hz] at ho
  obtain ⟨⟨o', c⟩, hoc, rfl⟩ := List.mem_map.mp ho
  revert h
  cases hzc : ops.zip cert with
  | nil => simp
  | cons p rest =>
    obtain ⟨o0, c0⟩ := p
    simp only [Bool.and_eq_true]
    intro ⟨h0, hl⟩
    have h00 : P o0 := hcongr _ _ ((eqMod_iff _ _).mp h0) hid
    rw [hzc] at hoc
    rcases List.mem_cons.mp hoc with heq | hmem
    · cases heq; exact h00
    · exact genLoop_sound P hcongr hcomp gens hg rest [o0] hl
        (fun y hy => by simp at hy; rw [hy]; exact h00) _ hmem

/-! ### the listed maps  e_k + t_c -/

theorem mem_allMaps {exprs cents : List Aff} {w : Aff} :
    w ∈ allMaps exprs cents ↔ ∃ t ∈ zeroT :: cents, ∃ e ∈ exprs, w = e.addT t := by
  simp only [allMaps, List.mem_flatMap, List.mem_map]
  constructor
  · rintro ⟨t, ht, e, he, rfl⟩; exact ⟨t, ht, e, he, rfl⟩
  · rintro ⟨t, ht, e, he, rfl⟩; exact ⟨t, ht, e, he, rfl⟩

theorem mapsOk_sound {exprs cents maps : List Aff} (h : mapsOk exprs cents maps = true) :
    (∀ m ∈ maps, ∃ w ∈ allMaps exprs cents, m.Cong w) ∧ (∀ w ∈ allMaps exprs cents, ∃ m ∈ maps, m.Cong w) := by
  simp only [mapsOk, Bool.and_eq_true, beq_iff_eq] at h
  obtain ⟨hlen, hall⟩ := h
  constructor
  · intro m hm
    obtain ⟨w, hw, hp⟩ := all_zip_left_mem _ maps (allMaps exprs cents) (by omega) hall m hm
    exact ⟨w, hw, (eqMod_iff _ _).mp hp⟩
  · intro w hw
    obtain ⟨m, hm, hp⟩ := all_zip_right _ maps (allMaps exprs cents) (by omega) hall w hw
    exact ⟨m, hm, (eqMod_iff _ _).mp hp⟩

theorem pairwiseDistinct_sound : ∀ (l : List Aff), pairwiseDistinct l = true → l.Pairwise (fun a b => ¬ a.Cong b)
  | [], _ => List.Pairwise.nil
  | a :: l, h => by
    simp only [pairwiseDistinct, Bool.and_eq_true, List.all_eq_true, Bool.not_eq_true'] at h
    refine List.Pairwise.cons ?_ (pairwiseDistinct_sound l h.2)
    intro b hb hc
    have := h.1 b hb
    rw [(eqMod_iff _ _).mpr hc] at this
    exact Bool.noConfusion this

/-- transfer of pairwise distinctness along a position-wise congruence -/
theorem pairwise_transfer : ∀ (l1 l2 : List Aff), l1.length = l2.length →
    (l1.zip l2).all (fun p => p.1.eqMod p.2) = true → l1.Pairwise (fun a b => ¬ a.Cong b) →
    l2.Pairwise (fun a b => ¬ a.Cong b)
  | [], [], _, _, _ => List.Pairwise.nil
  | [], _ :: _, h, _, _ => by simp at h
  | _ :: _, [], h, _, _ => by simp at h
  | a :: l1, b :: l2, hlen, hall, hp => by
    simp only [List.zip_cons_cons, List.all_cons, Bool.and_eq_true] at hall
    have hab : a.Cong b := (eqMod_iff _ _).mp hall.1
    cases hp with
    | cons ha hp' =>
      refine List.Pairwise.cons ?_ (pairwise_transfer l1 l2 (by simpa using hlen) hall.2 hp')
      intro b' hb' hc
      obtain ⟨a', ha', hpa⟩ := all_zip_right (fun p : Aff × Aff => p.1.eqMod p.2) l1 l2 (by simp at hlen; omega) hall.2 b' hb'
      exact ha a' ha' ((hab.trans hc).trans ((eqMod_iff _ _).mp hpa).symm)

/-! ### what `letterOk` establishes -/

/-- the specification of one Wyckoff position: the listed positions, as affine functions of the free
parameters, form one orbit of the space group modulo lattice translations, of exactly the listed size -/
structure WyckoffSpec (ops cents exprs : List Aff) : Prop where
  /-- every operation maps every listed position onto a listed position plus a centring vector -/
  closed : ∀ g ∈ ops, ∀ e ∈ exprs, ∃ e' ∈ exprs, ∃ t ∈ zeroT :: cents, (g.comp e).Cong (e'.addT t)
  /-- every listed position (with every centring vector) is an image of the first one -/
  transitive : ∀ e0, exprs.head? = some e0 → ∀ e ∈ exprs, ∀ t ∈ zeroT :: cents, ∃ g ∈ ops, (g.comp e0).Cong (e.addT t)
  /-- the `exprs.length * (cents.length + 1)` listed maps are pairwise different modulo ℤ³ -/
  distinct : (allMaps exprs cents).Pairwise (fun a b => ¬ a.Cong b)

theorem transitiveOk_sound {ops maps : List Aff} {cert : List Nat} (h : transitiveOk ops maps cert = true) :
    ∃ m0, maps.head? = some m0 ∧ ∀ s ∈ maps, ∃ g ∈ ops, (g.comp m0).Cong s := by
  simp only [transitiveOk, Bool.and_eq_true, beq_iff_eq] at h
  obtain ⟨hlen, h⟩ := h
  cases hm : maps with
  | nil => rw [hm] at h; simp at h
  | cons m0 rest =>
    rw [hm] at h
    refine ⟨m0, rfl, ?_⟩
    intro s hs
    obtain ⟨c, hc⟩ := all_zip_left _ (m0 :: rest) cert (by rw [← hm]; omega) h s hs
    simp only [Bool.and_eq_true, decide_eq_true_eq] at hc
    exact ⟨ops.getD c Aff.id, getD_mem _ _ _ hc.1, (eqMod_iff _ _).mp hc.2⟩

theorem letterOk_sound (gens ops cents : List Nat) (genCert : List Nat) (L : Letter)
    (hgen : generatedOk (gens.map decode) (ops.map decode) genCert = true)
    (h : letterOk gens ops cents L = true) :
    WyckoffSpec (ops.map decode) (cents.map decode) (L.numeric.map decode) := by
  simp only [letterOk, Bool.and_eq_true] at h
  obtain ⟨⟨⟨⟨⟨⟨_, _⟩, _⟩, hmaps⟩, hclosed⟩, htrans⟩, hdist⟩ := h
  obtain ⟨hm1, hm2⟩ := mapsOk_sound hmaps
  have hcl : ∀ o ∈ ops.map decode, ClosedUnder o (L.maps.map decode) :=
    generatedOk_sound (fun A => ClosedUnder A (L.maps.map decode))
      (fun A A' hc hA => ClosedUnder.congr hc hA) (fun A B hA hB => ClosedUnder.comp hA hB)
      (ClosedUnder.id _) _ _ _ hgen (closedOk_sound _ _ _ hclosed)
  refine ⟨?_, ?_, ?_⟩
  · intro g hg e he
    have hew : e ∈ allMaps (L.numeric.map decode) (cents.map decode) :=
      mem_allMaps.mpr ⟨zeroT, List.mem_cons_self, e, he, (Aff.addT_zeroT e).symm⟩
    obtain ⟨m, hm, hmc⟩ := hm2 e hew
    obtain ⟨m', hm', hc'⟩ := hcl g hg m hm
    obtain ⟨w, hw, hwc⟩ := hm1 m' hm'
    obtain ⟨t, ht, e', he', rfl⟩ := mem_allMaps.mp hw
    exact ⟨e', he', t, ht, ((Aff.Cong.comp_right g hmc.symm).trans hc').trans hwc⟩
  · intro e0 he0 e he t ht
    obtain ⟨m0, hm0, hall⟩ := transitiveOk_sound htrans
    have hw : e.addT t ∈ allMaps (L.numeric.map decode) (cents.map decode) := mem_allMaps.mpr ⟨t, ht, e, he, rfl⟩
    obtain ⟨m, hm, hmc⟩ := hm2 _ hw
    obtain ⟨g, hg, hgc⟩ := hall m hm
    -- m0 is congruent to e0 (first listed map = first expression + zero translation)
    have hm0mem : m0 ∈ L.maps.map decode := by
      cases hmm : L.maps.map decode with
      | nil => rw [hmm] at hm0; simp at hm0
      | cons a l => rw [hmm] at hm0; simp at hm0; rw [hm0]; exact List.mem_cons_self
    -- position-wise: the head of maps corresponds to the head of allMaps
    have hhead : m0.Cong e0 := by
      simp only [mapsOk, Bool.and_eq_true, beq_iff_eq] at hmaps
      obtain ⟨_, hz⟩ := hmaps
      cases hmm : L.maps.map decode with
      | nil => rw [hmm] at hm0; simp at hm0
      | cons a l =>
        rw [hmm] at hm0 hz
        simp at hm0
        cases hee : L.numeric.map decode with
        | nil => rw [hee] at he0; simp at he0
        | cons b l' =>
          rw [hee] at he0 hz
          simp at he0
          simp only [allMaps, List.flatMap_cons, List.map_cons, List.cons_append, List.zip_cons_cons, List.all_cons,
            Bool.and_eq_true] at hz
          have := (eqMod_iff _ _).mp hz.1
          rw [Aff.addT_zeroT] at this
          rw [← hm0, ← he0]; exact this
    exact ⟨g, hg, ((Aff.Cong.comp_right g hhead.symm).trans hgc).trans hmc⟩
  · simp only [mapsOk, Bool.and_eq_true, beq_iff_eq] at hmaps
    exact pairwise_transfer _ _ hmaps.1 hmaps.2 (pairwiseDistinct_sound _ hdist)

/-- the semantic reading of `closed`: for all parameter values w ∈ ℚ³ the image point is a listed position
of the same parameters plus a centring vector plus a lattice vector -/
theorem WyckoffSpec.closed_points {ops cents exprs : List Aff} (S : WyckoffSpec ops cents exprs) :
    ∀ g ∈ ops, ∀ e ∈ exprs, ∃ e' ∈ exprs, ∃ t ∈ zeroT :: cents, ∀ w : Rat × Rat × Rat,
      ∃ k1 k2 k3 : Int, g.act (e.act w) =
        (((e'.addT t).act w).1 + k1, ((e'.addT t).act w).2.1 + k2, ((e'.addT t).act w).2.2 + k3) := by
  intro g hg e he
  obtain ⟨e', he', t, ht, hc⟩ := S.closed g hg e he
  refine ⟨e', he', t, ht, fun w => ?_⟩
  rw [← Aff.act_comp]
  exact hc.act w

end Matid.Table
