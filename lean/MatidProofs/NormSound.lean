/-
Soundness of `normOk` (MatidModel/Table.lean): what the kernel-evaluated check of one tabulated
normalizer establishes.
-/
import MatidProofs.TableSound
import Mathlib.Tactic.LinearCombination

namespace Matid.Table

/-! ### metric preservation for every metric tensor of the lattice system -/

abbrev MetricQ := Rat × Rat × Rat × Rat × Rat × Rat   -- (g11, g22, g33, g12, g13, g23)

def qformQ (g : MetricQ) (u1 u2 u3 v1 v2 v3 : Rat) : Rat :=
  u1 * (g.1 * v1 + g.2.2.2.1 * v2 + g.2.2.2.2.1 * v3) + u2 * (g.2.2.2.1 * v1 + g.2.1 * v2 + g.2.2.2.2.2 * v3)
    + u3 * (g.2.2.2.2.1 * v1 + g.2.2.2.2.2 * v2 + g.2.2.1 * v3)

/-- Rᵀ·G·R = G over ℚ -/
structure PreservesQ (A : Aff) (g : MetricQ) : Prop where
  e11 : qformQ g A.a11 A.a21 A.a31 A.a11 A.a21 A.a31 = g.1
  e22 : qformQ g A.a12 A.a22 A.a32 A.a12 A.a22 A.a32 = g.2.1
  e33 : qformQ g A.a13 A.a23 A.a33 A.a13 A.a23 A.a33 = g.2.2.1
  e12 : qformQ g A.a11 A.a21 A.a31 A.a12 A.a22 A.a32 = g.2.2.2.1
  e13 : qformQ g A.a11 A.a21 A.a31 A.a13 A.a23 A.a33 = g.2.2.2.2.1
  e23 : qformQ g A.a12 A.a22 A.a32 A.a13 A.a23 A.a33 = g.2.2.2.2.2

def castMetric (g : Int × Int × Int × Int × Int × Int) : MetricQ :=
  (g.1, g.2.1, g.2.2.1, g.2.2.2.1, g.2.2.2.2.1, g.2.2.2.2.2)

theorem preservesMetric_toQ (A : Aff) (g : Int × Int × Int × Int × Int × Int) (h : preservesMetric A g = true) :
    PreservesQ A (castMetric g) := by
  obtain ⟨g11, g22, g33, g12, g13, g23⟩ := g
  simp only [preservesMetric, Bool.and_eq_true, beq_iff_eq] at h
  obtain ⟨⟨⟨⟨⟨h1, h2⟩, h3⟩, h4⟩, h5⟩, h6⟩ := h
  constructor <;> simp only [qformQ, castMetric]
  · exact_mod_cast h1
  · exact_mod_cast h2
  · exact_mod_cast h3
  · exact_mod_cast h4
  · exact_mod_cast h5
  · exact_mod_cast h6

def MetricQ.add (g h : MetricQ) : MetricQ :=
  (g.1 + h.1, g.2.1 + h.2.1, g.2.2.1 + h.2.2.1, g.2.2.2.1 + h.2.2.2.1, g.2.2.2.2.1 + h.2.2.2.2.1, g.2.2.2.2.2 + h.2.2.2.2.2)
def MetricQ.smul (c : Rat) (g : MetricQ) : MetricQ :=
  (c * g.1, c * g.2.1, c * g.2.2.1, c * g.2.2.2.1, c * g.2.2.2.2.1, c * g.2.2.2.2.2)

theorem PreservesQ.add {A : Aff} {g h : MetricQ} (hg : PreservesQ A g) (hh : PreservesQ A h) : PreservesQ A (g.add h) := by
  obtain ⟨a1, a2, a3, a4, a5, a6⟩ := hg
  obtain ⟨b1, b2, b3, b4, b5, b6⟩ := hh
  constructor <;> simp only [qformQ, MetricQ.add] at *
  · linear_combination a1 + b1
  · linear_combination a2 + b2
  · linear_combination a3 + b3
  · linear_combination a4 + b4
  · linear_combination a5 + b5
  · linear_combination a6 + b6

theorem PreservesQ.smul {A : Aff} {g : MetricQ} (c : Rat) (hg : PreservesQ A g) : PreservesQ A (MetricQ.smul c g) := by
  obtain ⟨a1, a2, a3, a4, a5, a6⟩ := hg
  constructor <;> simp only [qformQ, MetricQ.smul] at *
  · linear_combination c * a1
  · linear_combination c * a2
  · linear_combination c * a3
  · linear_combination c * a4
  · linear_combination c * a5
  · linear_combination c * a6

/-- the metric tensors of a lattice system (0 triclinic … 5 cubic), as constraints on (g11,g22,g33,g12,g13,g23) -/
def MetricOfSystem (system : Nat) (g : MetricQ) : Prop :=
  match system with
  | 0 => True
  | 1 => g.2.2.2.1 = 0 ∧ g.2.2.2.2.2 = 0
  | 2 => g.2.2.2.1 = 0 ∧ g.2.2.2.2.1 = 0 ∧ g.2.2.2.2.2 = 0
  | 3 => g.1 = g.2.1 ∧ g.2.2.2.1 = 0 ∧ g.2.2.2.2.1 = 0 ∧ g.2.2.2.2.2 = 0
  | 4 => g.1 = g.2.1 ∧ g.2.2.2.1 = -(g.1 / 2) ∧ g.2.2.2.2.1 = 0 ∧ g.2.2.2.2.2 = 0
  | _ => g.1 = g.2.1 ∧ g.2.1 = g.2.2.1 ∧ g.2.2.2.1 = 0 ∧ g.2.2.2.2.1 = 0 ∧ g.2.2.2.2.2 = 0

/-- a transformation that preserves the spanning metrics of a lattice system preserves every metric of it -/
theorem preserves_all_metrics (system : Nat) (A : Aff)
    (h : ∀ m ∈ metricBasis system, preservesMetric A m = true) (g : MetricQ) (hg : MetricOfSystem system g) :
    PreservesQ A g := by
  obtain ⟨g11, g22, g33, g12, g13, g23⟩ := g
  have key : ∀ m ∈ metricBasis system, PreservesQ A (castMetric m) := fun m hm => preservesMetric_toQ A m (h m hm)
  match system, hg, key with
  | 0, _, key =>
    have k1 := key (1,0,0,0,0,0) (by simp [metricBasis])
    have k2 := key (0,1,0,0,0,0) (by simp [metricBasis])
    have k3 := key (0,0,1,0,0,0) (by simp [metricBasis])
    have k4 := key (0,0,0,1,0,0) (by simp [metricBasis])
    have k5 := key (0,0,0,0,1,0) (by simp [metricBasis])
    have k6 := key (0,0,0,0,0,1) (by simp [metricBasis])
    have := ((((((k1.smul g11).add (k2.smul g22)).add (k3.smul g33)).add (k4.smul g12)).add (k5.smul g13)).add (k6.smul g23))
    simpa [MetricQ.add, MetricQ.smul, castMetric] using this
  | 1, hg, key =>
    simp only [MetricOfSystem] at hg
    obtain ⟨rfl, rfl⟩ := hg
    have k1 := key (1,0,0,0,0,0) (by simp [metricBasis])
    have k2 := key (0,1,0,0,0,0) (by simp [metricBasis])
    have k3 := key (0,0,1,0,0,0) (by simp [metricBasis])
    have k5 := key (0,0,0,0,1,0) (by simp [metricBasis])
    have := ((((k1.smul g11).add (k2.smul g22)).add (k3.smul g33)).add (k5.smul g13))
    simpa [MetricQ.add, MetricQ.smul, castMetric] using this
  | 2, hg, key =>
    simp only [MetricOfSystem] at hg
    obtain ⟨rfl, rfl, rfl⟩ := hg
    have k1 := key (1,0,0,0,0,0) (by simp [metricBasis])
    have k2 := key (0,1,0,0,0,0) (by simp [metricBasis])
    have k3 := key (0,0,1,0,0,0) (by simp [metricBasis])
    have := (((k1.smul g11).add (k2.smul g22)).add (k3.smul g33))
    simpa [MetricQ.add, MetricQ.smul, castMetric] using this
  | 3, hg, key =>
    simp only [MetricOfSystem] at hg
    obtain ⟨rfl, rfl, rfl, rfl⟩ := hg
    have k1 := key (1,1,0,0,0,0) (by simp [metricBasis])
    have k3 := key (0,0,1,0,0,0) (by simp [metricBasis])
    have := ((k1.smul g11).add (k3.smul g33))
    simpa [MetricQ.add, MetricQ.smul, castMetric] using this
  | 4, hg, key =>
    simp only [MetricOfSystem] at hg
    obtain ⟨rfl, rfl, rfl, rfl⟩ := hg
    have k1 := key (2,2,0,-1,0,0) (by simp [metricBasis])
    have k3 := key (0,0,1,0,0,0) (by simp [metricBasis])
    have := ((k1.smul (g11 / 2)).add (k3.smul g33))
    have e : (g11 / 2 * 2 : Rat) = g11 := by ring
    simpa [MetricQ.add, MetricQ.smul, castMetric, e] using this
  | n + 5, hg, key =>
    simp only [MetricOfSystem] at hg
    obtain ⟨rfl, rfl, rfl, rfl, rfl⟩ := hg
    have k1 := key (1,1,1,0,0,0) (by simp [metricBasis])
    have := (k1.smul g11)
    simpa [MetricQ.add, MetricQ.smul, castMetric] using this

/-! ### the normalizer specification -/

structure NormSpec (system : Nat) (chiral : Bool) (ops cents : List Aff) (letters : List (Nat × List Aff))
    (n : Aff) (perm : List (Nat × Nat)) : Prop where
  /-- n is invertible modulo lattice translations -/
  invertible : ∃ ni, (n.comp ni).Cong Aff.id ∧ (ni.comp n).Cong Aff.id
  /-- n maps the group onto itself: n ∘ g ≡ g' ∘ n for a group element g' -/
  normalizes : ∀ g ∈ ops, ∃ g' ∈ ops, (n.comp g).Cong (g'.comp n)
  /-- n preserves every metric tensor of the lattice system -/
  metric : ∀ g, MetricOfSystem system g → PreservesQ n g
  /-- n preserves handedness whenever the group is chiral -/
  proper : chiral = true → n.det = 1
  /-- the tabulated letter permutation is a bijection of the letters -/
  perm_ok : permOk (letters.map (·.1)) perm = true
  /-- n maps the position family of each letter onto the family of its tabulated image -/
  letters_mapped : ∀ L ∈ letters, ∃ e0, L.2.head? = some e0 ∧ ∃ L' ∈ letters, lookupPerm perm L.1 = some L'.1 ∧
    ∃ e' ∈ L'.2, ∃ t ∈ zeroT :: cents, ∃ φ : Aff, (φ.det = 1 ∨ φ.det = -1) ∧ (n.comp e0).Cong ((e'.addT t).comp φ)

theorem centOf_mem (cents : List Aff) (c : Nat) (h : c ≤ cents.length) : centOf cents c ∈ zeroT :: cents := by
  cases c with
  | zero => simp [centOf]
  | succ k => simp only [centOf]; exact List.mem_cons_of_mem _ (getD_mem _ _ _ (by omega))

theorem lettersMappedOk_sound (n : Aff) (cents : List Aff) (letters : List (Nat × List Aff)) (perm : List (Nat × Nat))
    (cert : List (Nat × Nat × Nat)) (h : lettersMappedOk n cents letters perm cert = true) :
    ∀ L ∈ letters, ∃ e0, L.2.head? = some e0 ∧ ∃ L' ∈ letters, lookupPerm perm L.1 = some L'.1 ∧
      ∃ e' ∈ L'.2, ∃ t ∈ zeroT :: cents, ∃ φ : Aff, (φ.det = 1 ∨ φ.det = -1) ∧ (n.comp e0).Cong ((e'.addT t).comp φ) := by
  simp only [lettersMappedOk, Bool.and_eq_true, beq_iff_eq] at h
  obtain ⟨hlen, hall⟩ := h
  intro L hL
  obtain ⟨⟨tc, phiP, tl⟩, hc⟩ := all_zip_left _ letters cert (by omega) hall L hL
  obtain ⟨code, ex⟩ := L
  cases ex with
  | nil => simp at hc
  | cons e0 rest =>
    simp only at hc
    cases hL' : letters.getD tl (0, []) with
    | mk code' ex' =>
      rw [hL'] at hc
      simp only [Bool.and_eq_true, beq_iff_eq, decide_eq_true_eq, Bool.or_eq_true] at hc
      obtain ⟨⟨⟨⟨hperm, hidx⟩, hcent⟩, hdet⟩, hcong⟩ := hc
      have hmemL' : (code', ex') ∈ letters := by
        by_cases hlt : tl < letters.length
        · rw [← hL']; exact getD_mem _ _ _ hlt
        · have : letters.getD tl (0, []) = (0, []) := by
            simp [List.getD_eq_getElem?_getD, List.getElem?_eq_none (by omega : letters.length ≤ tl)]
          rw [this] at hL'
          cases hL'
          simp at hidx
      refine ⟨e0, rfl, (code', ex'), hmemL', hperm, ex'.getD (tc / 8) Aff.id, getD_mem _ _ _ hidx,
        centOf cents (tc % 8), centOf_mem _ _ hcent, decode phiP, hdet, (eqMod_iff _ _).mp hcong⟩

theorem normOk_sound (system : Nat) (chiral : Bool) (ops cents : List Nat) (letters : List Letter) (N : Norm)
    (h : normOk system chiral ops cents letters N = true) :
    NormSpec system chiral (ops.map decode) (cents.map decode)
      (letters.map fun L => (L.code, L.numeric.map decode)) (decode N.map) N.perm := by
  simp only [normOk, Bool.and_eq_true, beq_iff_eq, Bool.or_eq_true, Bool.not_eq_true'] at h
  obtain ⟨⟨⟨⟨⟨⟨⟨⟨_, hi1⟩, hi2⟩, hlen⟩, hconj⟩, hmet⟩, hprop⟩, hperm⟩, hlet⟩ := h
  refine ⟨⟨decode N.inv, (eqMod_iff _ _).mp hi1, (eqMod_iff _ _).mp hi2⟩, ?_, ?_, ?_, ?_, ?_⟩
  · intro g hg
    obtain ⟨c, hc⟩ := all_zip_left _ (ops.map decode) N.conjCert (by simp; omega) hconj g hg
    simp only [Bool.and_eq_true, decide_eq_true_eq] at hc
    exact ⟨(ops.map decode).getD c Aff.id, getD_mem _ _ _ (by simpa using hc.1), (eqMod_iff _ _).mp hc.2⟩
  · exact fun g hg => preserves_all_metrics system _ (List.all_eq_true.mp hmet) g hg
  · intro hch
    rcases hprop with hp | hp
    · rw [hch] at hp; cases hp
    · exact hp
  · have e : (letters.map fun L => (L.code, L.numeric.map decode)).map (·.1) = letters.map (·.code) := by
      simp [List.map_map, Function.comp_def]
    rw [e]; exact hperm
  · exact lettersMappedOk_sound _ _ _ _ _ hlet

/-- consequence: conjugation by the normalizer keeps group elements in the group -/
theorem NormSpec.conj_mem {system chiral ops cents letters n perm} (S : NormSpec system chiral ops cents letters n perm) :
    ∃ ni, ∀ g ∈ ops, ∃ g' ∈ ops, ((n.comp g).comp ni).Cong g' := by
  obtain ⟨ni, h1, _⟩ := S.invertible
  refine ⟨ni, fun g hg => ?_⟩
  obtain ⟨g', hg', hc⟩ := S.normalizes g hg
  refine ⟨g', hg', ?_⟩
  have a : ((n.comp g).comp ni).Cong ((g'.comp n).comp ni) := Aff.Cong.comp_left hc ni
  have b : ((g'.comp n).comp ni) = g'.comp (n.comp ni) := Aff.comp_assoc _ _ _
  have c : (g'.comp (n.comp ni)).Cong (g'.comp Aff.id) := Aff.Cong.comp_right g' h1
  have d : g'.comp Aff.id = g' := by cases g'; simp [Aff.comp, Aff.id]
  rw [b] at a; rw [d] at c
  exact a.trans c

end Matid.Table
