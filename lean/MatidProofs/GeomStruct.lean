/- Structural facts about the extended system and the per-pair minimum (model: MatidModel/Geom.lean). -/
import MatidProofs.GeomProofs

namespace Matid.Geom

/-- the multipliers along an axis are exactly the integers k with |k| ≤ m -/
theorem mem_multiples (m : Nat) (k : Int) : k ∈ multiples m ↔ |k| ≤ (m : Int) := by
  simp only [multiples, List.mem_append, List.mem_map, List.mem_range]
  constructor
  · rintro (⟨j, hj, rfl⟩ | ⟨j, hj, rfl⟩)
    · rw [abs_le]; constructor <;> omega
    · rw [abs_le]; constructor <;> omega
  · intro h
    rw [abs_le] at h
    by_cases hk : 0 ≤ k
    · left; exact ⟨k.toNat, by omega, by omega⟩
    · right; exact ⟨(k + m).toNat, by omega, by omega⟩

theorem multiples_nodup (m : Nat) : (multiples m).Nodup := by
  simp only [multiples]
  rw [List.nodup_append]
  refine ⟨?_, ?_, ?_⟩
  · exact (List.nodup_range).map (fun a b h => by simpa using h)
  · exact (List.nodup_range).map (fun a b h => by simp at h; omega)
  · intro a ha b hb
    simp only [List.mem_map, List.mem_range] at ha hb
    obtain ⟨i, _, rfl⟩ := ha
    obtain ⟨j, hj, rfl⟩ := hb
    omega

/-- the original system comes first: the first multiplier of every axis is 0 -/
theorem multiples_head (m : Nat) : ∃ rest, multiples m = 0 :: rest := by
  simp only [multiples, List.range_succ_eq_map, List.map_cons, List.cons_append]
  exact ⟨_, rfl⟩

theorem axisCopies_nonper (zero : Bool) (ext2 h2 : Rat) (n : Nat) (h : axisCopies false zero ext2 h2 = some n) : n = 0 := by
  simp [axisCopies] at h; exact h.symm

/-- no copies along a non-periodic axis -/
theorem plan_nonperiodic (cell : Cell) (pbc : Pbc) (ext2 : Rat) (basis : Cell) (n1 n2 n3 : Nat)
    (h : extendPlan cell pbc ext2 = some (basis, n1, n2, n3)) :
    (pbc.x = false → n1 = 0) ∧ (pbc.y = false → n2 = 0) ∧ (pbc.z = false → n3 = 0) := by
  unfold extendPlan at h
  simp only at h
  split at h
  · split at h
    · cases h
    · split at h
      · rename_i m1 m2 m3 e1 e2 e3
        simp only [Option.some.injEq, Prod.mk.injEq] at h
        obtain ⟨_, rfl, rfl, rfl⟩ := h
        exact ⟨fun hx => axisCopies_nonper _ _ _ _ (by rw [← hx]; exact e1),
               fun hy => axisCopies_nonper _ _ _ _ (by rw [← hy]; exact e2),
               fun hz => axisCopies_nonper _ _ _ _ (by rw [← hz]; exact e3)⟩
      · cases h
  · split at h
    · split at h
      · rename_i m1 m2 m3 e1 e2 e3
        simp only [Option.some.injEq, Prod.mk.injEq] at h
        obtain ⟨_, rfl, rfl, rfl⟩ := h
        exact ⟨fun hx => axisCopies_nonper _ _ _ _ (by rw [← hx]; exact e1),
               fun hy => axisCopies_nonper _ _ _ _ (by rw [← hy]; exact e2),
               fun hz => axisCopies_nonper _ _ _ _ (by rw [← hz]; exact e3)⟩
      · cases h
    · simp only [Option.some.injEq, Prod.mk.injEq] at h
      obtain ⟨_, h1, h2, h3⟩ := h
      exact ⟨fun _ => h1.symm, fun _ => h2.symm, fun _ => h3.symm⟩

/-- every entry of the extended system is an original atom shifted by an integer combination of the basis,
with multipliers bounded by the copy counts -/
theorem extend_entries (positions : List V3) (cell : Cell) (pbc : Pbc) (ext2 : Rat) (l : List ExtAtom)
    (h : extendSystem2 positions cell pbc ext2 = .ok l) :
    ∃ basis n1 n2 n3, extendPlan cell pbc ext2 = some (basis, n1, n2, n3) ∧
      ∀ e ∈ l, ∃ p, positions[e.index]? = some p ∧ e.pos = V3.add p (Cell.comb basis e.factor) ∧
        |e.factor.1| ≤ (n1 : Int) ∧ |e.factor.2.1| ≤ (n2 : Int) ∧ |e.factor.2.2| ≤ (n3 : Int) := by
  unfold extendSystem2 at h
  split at h
  · cases h
  · rename_i basis n1 n2 n3 hplan
    refine ⟨basis, n1, n2, n3, hplan, ?_⟩
    cases h
    intro e he
    simp only [List.mem_flatMap, List.mem_map] at he
    obtain ⟨i, hi, j, hj, k, hk, ⟨p, idx⟩, hp, rfl⟩ := he
    refine ⟨p, List.mem_zipIdx_iff_getElem?.mp hp, rfl, (mem_multiples _ _).mp hi, (mem_multiples _ _).mp hj, (mem_multiples _ _).mp hk⟩

/-- conversely every original atom appears with every admissible multiplier triple -/
theorem extend_contains (positions : List V3) (cell : Cell) (pbc : Pbc) (ext2 : Rat) (l : List ExtAtom)
    (basis : Cell) (n1 n2 n3 : Nat) (hplan : extendPlan cell pbc ext2 = some (basis, n1, n2, n3))
    (h : extendSystem2 positions cell pbc ext2 = .ok l) (idx : Nat) (p : V3) (hp : positions[idx]? = some p)
    (f : Int × Int × Int) (h1 : |f.1| ≤ (n1 : Int)) (h2 : |f.2.1| ≤ (n2 : Int)) (h3 : |f.2.2| ≤ (n3 : Int)) :
    ∃ e ∈ l, e.index = idx ∧ e.factor = f ∧ e.pos = V3.add p (Cell.comb basis f) := by
  unfold extendSystem2 at h
  rw [hplan] at h
  cases h
  refine ⟨{ pos := V3.add p (Cell.comb basis f), index := idx, factor := f }, ?_, rfl, rfl, rfl⟩
  simp only [List.mem_flatMap, List.mem_map]
  exact ⟨f.1, (mem_multiples _ _).mpr h1, f.2.1, (mem_multiples _ _).mpr h2, f.2.2, (mem_multiples _ _).mpr h3,
    (p, idx), List.mem_zipIdx_iff_getElem?.mpr hp, rfl⟩

/-- what a query returns: stored points, with their own index/factor, exact displacement and squared distance,
never beyond the cutoff -/
theorem query_sound (cl : CellList) (q : V3) (nb : Neighbour) (h : nb ∈ cl.query q) :
    ∃ a, cl.atoms[nb.ext]? = some a ∧ nb.index = a.index ∧ nb.factor = a.factor ∧ nb.disp = V3.sub q a.pos ∧
      nb.dist2 = V3.norm2 (V3.sub q a.pos) ∧ (∀ c, cl.cutoff = some c → nb.dist2 ≤ c * c) := by
  unfold CellList.query at h
  simp only [List.mem_filterMap] at h
  obtain ⟨⟨a, i⟩, hmem, hsome⟩ := h
  simp only at hsome
  split at hsome
  · split at hsome
    · rename_i hw
      cases hsome
      refine ⟨a, List.mem_zipIdx_iff_getElem?.mp hmem, rfl, rfl, rfl, rfl, ?_⟩
      intro c hc
      rw [hc] at hw
      simpa [withinCutoff] using hw
    · cases hsome
  · cases hsome

/-- the tensor entry is the minimum over the images of j the search sees, attained by each reported factor -/
theorem pairEntry_spec (cl : CellList) (pi : V3) (j : Nat) (e : PairEntry) (h : pairEntry cl pi j = some e) :
    (∀ nb ∈ cl.query pi, nb.index = j → e.dist2 ≤ nb.dist2) ∧
    (∀ f ∈ e.factors, ∃ nb ∈ cl.query pi, nb.index = j ∧ nb.dist2 = e.dist2 ∧ nb.factor = f) ∧
    e.factors ≠ [] := by
  unfold pairEntry at h
  simp only at h
  cases hc : (cl.query pi).filter (fun nb => nb.index == j) with
  | nil => rw [hc] at h; cases h
  | cons c0 rest =>
    rw [hc] at h
    cases h
    set cands := c0 :: rest with hcands
    set m := cands.foldl (fun acc nb => min acc nb.dist2) c0.dist2 with hm
    have hfold : m = (cands.map (·.dist2)).foldl min c0.dist2 := by
      rw [hm, List.foldl_map]
    have hmemc : ∀ nb, nb ∈ cands ↔ nb ∈ cl.query pi ∧ nb.index = j := by
      intro nb; rw [← hc]; simp [List.mem_filter]
    refine ⟨?_, ?_, ?_⟩
    · intro nb hnb hj
      show m ≤ nb.dist2
      rw [hfold]
      exact foldl_min_le _ _ _ (List.mem_map.mpr ⟨nb, (hmemc nb).mpr ⟨hnb, hj⟩, rfl⟩)
    · intro f hf
      simp only [List.mem_map, List.mem_filter, beq_iff_eq] at hf
      obtain ⟨nb, ⟨hnb, hd⟩, rfl⟩ := hf
      obtain ⟨h1, h2⟩ := (hmemc nb).mp hnb
      exact ⟨nb, h1, h2, hd, rfl⟩
    · -- the minimum is attained
      have hatt : ∃ nb ∈ cands, nb.dist2 = m := by
        rcases foldl_min_mem (cands.map (·.dist2)) c0.dist2 with h0 | hm'
        · exact ⟨c0, by simp [hcands], by rw [hfold, h0]⟩
        · obtain ⟨nb, hnb, e⟩ := List.mem_map.mp hm'
          exact ⟨nb, hnb, by rw [hfold]; exact e⟩
      obtain ⟨nb, hnb, e⟩ := hatt
      intro hnil
      have : nb.factor ∈ (cands.filter fun nb => nb.dist2 == m).map (·.factor) :=
        List.mem_map.mpr ⟨nb, List.mem_filter.mpr ⟨hnb, by simpa using e⟩, rfl⟩
      simp only at hnil
      rw [hnil] at this
      cases this

end Matid.Geom
