/- End-to-end invariants of the SBC post-processing pipeline merge → localize → clean (model: MatidModel/SBC.lean). -/
import MatidProofs.SBCProofs

namespace Matid.SBC

theorem localize_length (near : Nat → Nat → Bool) : ∀ (n : Nat) (cs : List (List Nat)), (localize near n cs).length = cs.length := by
  intro n
  induction n with
  | zero => intro cs; simp [localize]
  | succ k ih =>
    intro cs
    simp only [localize, List.range_succ, List.foldl_append, List.foldl_cons, List.foldl_nil]
    rw [resolve_length]; exact ih cs

theorem localize_subset (near : Nat → Nat → Bool) (k x : Nat) : ∀ (n : Nat) (cs : List (List Nat)),
    x ∈ (localize near n cs).getD k [] → x ∈ cs.getD k [] := by
  intro n
  induction n with
  | zero => intro cs h; simpa [localize] using h
  | succ m ih =>
    intro cs h
    simp only [localize, List.range_succ, List.foldl_append, List.foldl_cons, List.foldl_nil] at h
    exact ih cs (resolve_subset near m _ k x h)

theorem setIdx_map_idx (cs : List Clu) (ixs : List (List Nat)) (h : ixs.length = cs.length) :
    (setIdx cs ixs).map (·.idx) = ixs := by
  induction cs generalizing ixs with
  | nil => cases ixs with
    | nil => rfl
    | cons _ _ => simp at h
  | cons c cs ih =>
    cases ixs with
    | nil => simp at h
    | cons ix ixs => simp only [setIdx, List.zipWith_cons_cons, List.map_cons]; congr 1; exact ih ixs (by simpa using h)

/-- an element of `setIdx cs ixs` is some cluster of `cs` with its index list replaced by the list at the same position -/
theorem mem_setIdx (cs : List Clu) (ixs : List (List Nat)) (d : Clu) (h : d ∈ setIdx cs ixs) :
    ∃ (k : Nat) (c : Clu), cs[k]? = some c ∧ ixs[k]? = some d.idx ∧ d.species = c.species ∧ d.rsize = c.rsize ∧ d.rid = c.rid := by
  unfold setIdx at h
  obtain ⟨k, hk⟩ := List.getElem?_of_mem h
  rw [List.getElem?_zipWith] at hk
  cases hc : cs[k]? with
  | none => simp [hc] at hk
  | some c =>
    cases hi : ixs[k]? with
    | none => simp [hc, hi] at hk
    | some ix =>
      simp only [hc, hi, Option.map_some, Option.bind_some, Option.some.injEq] at hk
      subst hk
      exact ⟨k, c, hc, hi, rfl, rfl, rfl⟩

theorem memCount_filterMap_le (f : List Nat → Option (List Nat)) (hf : ∀ l a, f l = some a → ∀ x ∈ a, x ∈ l)
    (cs : List (List Nat)) (j : Nat) : memCount (cs.filterMap f) j ≤ memCount cs j := by
  induction cs with
  | nil => simp [memCount]
  | cons l cs ih =>
    unfold memCount at ih ⊢
    rw [List.filterMap_cons]
    cases hfl : f l with
    | none =>
      simp only [List.countP_cons]
      omega
    | some a =>
      simp only [List.countP_cons]
      have : (if a.contains j = true then 1 else 0) ≤ (if l.contains j = true then 1 else 0) := by
        by_cases ha : j ∈ a
        · have hl : j ∈ l := hf l a hfl j ha
          simp [ha, hl]
        · simp [ha]
      omega

/-- the contracts on the two external ingredients of cleaning -/
structure EnvOk (e : Env) : Prop where
  comps_subset : ∀ S, ∀ c ∈ e.comps S, ∀ x ∈ c, x ∈ S
  pick_admissible : ∀ l a, e.pick l = some a → a ∈ cleanOne l

/-- **the pipeline merge → localize → clean returns a well-formed list of clusters**, for every list of clusters the
search loop may have produced (species-consistent, indices in range), every merge threshold, every "near" relation and
every partition into bonded components: index lists are non-empty, in range, pairwise disjoint (every atom in at most one
cluster), species-consistent, and each is a largest bonded component of the index set it was cut from. -/
theorem pipeline_wellformed (e : Env) (he : EnvOk e) (cs0 : List Clu)
    (h0 : ∀ c ∈ cs0, Consistent e.numbers c ∧ ∀ x ∈ c.idx, x < e.numbers.length) :
    let out := pipeline e [.merge, .localize, .clean] cs0
    (∀ c ∈ out, c.idx ≠ []) ∧
    (∀ c ∈ out, ∀ x ∈ c.idx, x < e.numbers.length) ∧
    (∀ j, memCount (out.map (·.idx)) j ≤ 1) ∧
    (∀ c ∈ out, Consistent e.numbers c) ∧
    (∀ c ∈ out, ∃ S, c.idx ∈ e.comps S ∧ ∀ c' ∈ e.comps S, c'.length ≤ c.idx.length) := by
  intro out
  -- stage 1: merge
  set cs1 := mergeClusters e.numbers e.thr cs0 with hcs1
  have h1 : ∀ c ∈ cs1, Consistent e.numbers c ∧ ∀ x ∈ c.idx, x < e.numbers.length := by
    intro c hc
    constructor
    · exact mergeLoop_preserves e.numbers e.thr (Consistent e.numbers) (mergeTwo_consistent e.numbers) _ [] cs0 (by simp)
        (fun c hc => (h0 c hc).1) c hc
    · exact mergeLoop_preserves e.numbers e.thr (fun c => ∀ x ∈ c.idx, x < e.numbers.length)
        (fun a b ha hb x hx => by rcases mergeTwo_idx_subset e.numbers a b x hx with h | h; exact ha x h; exact hb x h)
        _ [] cs0 (by simp) (fun c hc => (h0 c hc).2) c hc
  -- stage 2: localize
  set ixs := localize e.near e.numbers.length (cs1.map (·.idx)) with hixs
  have hlen : ixs.length = cs1.length := by rw [hixs, localize_length]; simp
  set cs2 := setIdx cs1 ixs with hcs2
  have hmap2 : cs2.map (·.idx) = ixs := setIdx_map_idx cs1 ixs hlen
  have h2 : ∀ d ∈ cs2, Consistent e.numbers d ∧ ∀ x ∈ d.idx, x < e.numbers.length := by
    intro d hd
    obtain ⟨k, c, hck, hik, hsp, _, _⟩ := mem_setIdx cs1 ixs d hd
    have hcmem : c ∈ cs1 := List.mem_of_getElem? hck
    have hsub : ∀ x ∈ d.idx, x ∈ c.idx := by
      intro x hx
      have hx' : x ∈ ixs.getD k [] := by simp [List.getD_eq_getElem?_getD, hik, hx]
      have := localize_subset e.near k x e.numbers.length (cs1.map (·.idx)) hx'
      simpa [List.getD_eq_getElem?_getD, List.getElem?_map, hck] using this
    constructor
    · intro x hx; rw [hsp]; exact (h1 c hcmem).1 x (hsub x hx)
    · intro x hx; exact (h1 c hcmem).2 x (hsub x hx)
  have hdis2 : ∀ j, memCount (cs2.map (·.idx)) j ≤ 1 := by
    intro j
    rw [hmap2]
    by_cases hj : j < e.numbers.length
    · exact localize_disjoint e.near _ _ j hj
    · -- no cluster contains an index out of range
      unfold memCount
      have : ixs.countP (·.contains j) = 0 := by
        rw [List.countP_eq_zero]
        intro l hl hcon
        have hjl : j ∈ l := by simpa using hcon
        rw [← hmap2] at hl
        obtain ⟨d, hd, rfl⟩ := List.mem_map.mp hl
        exact hj ((h2 d hd).2 j hjl)
      omega
  -- stage 3: clean
  have hout : out = cs2.filterMap fun c => (e.pick (e.comps c.idx)).map fun ix => { c with idx := ix } := by
    simp only [out, pipeline, List.foldl_cons, List.foldl_nil, applyStage]
    rfl
  have hmem : ∀ d ∈ out, ∃ c ∈ cs2, ∃ a, e.pick (e.comps c.idx) = some a ∧ d = { c with idx := a } := by
    intro d hd
    rw [hout, List.mem_filterMap] at hd
    obtain ⟨c, hc, hpc⟩ := hd
    cases hp : e.pick (e.comps c.idx) with
    | none => simp [hp] at hpc
    | some a => simp only [hp, Option.map_some, Option.some.injEq] at hpc; exact ⟨c, hc, a, hp, hpc.symm⟩
  have hclean : ∀ (c : Clu) (a : List Nat), e.pick (e.comps c.idx) = some a → a ∈ e.comps c.idx ∧ a ≠ [] ∧ (∀ c' ∈ e.comps c.idx, c'.length ≤ a.length) :=
    fun c a hp => cleanOne_spec _ a (he.pick_admissible _ _ hp)
  refine ⟨?_, ?_, ?_, ?_, ?_⟩
  · intro d hd
    obtain ⟨c, _, a, hp, rfl⟩ := hmem d hd
    exact (hclean c a hp).2.1
  · intro d hd x hx
    obtain ⟨c, hc, a, hp, rfl⟩ := hmem d hd
    exact (h2 c hc).2 x (he.comps_subset _ a (hclean c a hp).1 x hx)
  · intro j
    have hmapout : out.map (·.idx) = (cs2.map (·.idx)).filterMap (fun l => e.pick (e.comps l)) := by
      rw [hout, List.map_filterMap, List.filterMap_map]
      apply List.filterMap_congr
      intro c _
      simp only [Function.comp]
      cases hp : e.pick (e.comps c.idx) <;> simp
    rw [hmapout]
    refine le_trans (memCount_filterMap_le _ ?_ _ j) (hdis2 j)
    intro l a hp x hx
    exact he.comps_subset l a (cleanOne_spec _ a (he.pick_admissible _ _ hp)).1 x hx
  · intro d hd
    obtain ⟨c, hc, a, hp, rfl⟩ := hmem d hd
    intro x hx
    exact (h2 c hc).1 x (he.comps_subset _ a (hclean c a hp).1 x hx)
  · intro d hd
    obtain ⟨c, _, a, hp, rfl⟩ := hmem d hd
    exact ⟨c.idx, (hclean c a hp).1, (hclean c a hp).2.2⟩

end Matid.SBC
