/-
The executable component labelling of the dimensionality model (`Matid.Dim.components`: n rounds of "take the minimum label
over the neighbours") computes the connected components of the bonding graph:
two atoms get the same label exactly when they are connected, and the number of distinct labels is the number of components.
This closes the gap between the executable counter and the quotient used by the covering theorem (C09).
-/
import MatidModel.Dim
import Mathlib.Combinatorics.SimpleGraph.Paths
import Mathlib.Combinatorics.SimpleGraph.Connectivity.Connected
import Mathlib.Logic.Relation
import Mathlib.Tactic.Linarith

namespace Matid.Dim

/-! ### the fold of one relabelling round -/

def minFold (f : Nat → Nat) (l : List (Bool × Nat)) (a : Nat) : Nat :=
  l.foldl (fun acc (p : Bool × Nat) => if p.1 then min acc (f p.2) else acc) a

theorem foldl_min_spec (f : Nat → Nat) (l : List (Bool × Nat)) (a : Nat) :
    minFold f l a ≤ a ∧ (∀ p ∈ l, p.1 = true → minFold f l a ≤ f p.2) ∧
      (minFold f l a = a ∨ ∃ p ∈ l, p.1 = true ∧ minFold f l a = f p.2) := by
  induction l generalizing a with
  | nil => exact ⟨le_refl _, ⟨fun p hp => absurd hp (List.not_mem_nil), Or.inl rfl⟩⟩
  | cons q l ih =>
    have hcons : minFold f (q :: l) a = minFold f l (if q.1 then min a (f q.2) else a) := rfl
    rw [hcons]
    obtain ⟨h1, h2, h3⟩ := ih (if q.1 then min a (f q.2) else a)
    have hle : (if q.1 then min a (f q.2) else a) ≤ a := by split <;> simp
    refine ⟨le_trans h1 hle, ?_, ?_⟩
    · intro p hp hpt
      rcases List.mem_cons.mp hp with rfl | hp
      · refine le_trans h1 ?_
        simp [hpt]
      · exact h2 p hp hpt
    · rcases h3 with h3 | ⟨p, hp, hpt, he⟩
      · by_cases hq : q.1 = true
        · simp only [hq, if_true] at h3
          rcases le_total a (f q.2) with hle' | hle'
          · left; simp only [hq, if_true]; rw [h3, min_eq_left hle']
          · right; exact ⟨q, List.mem_cons_self, hq, by simp only [hq, if_true]; rw [h3, min_eq_right hle']⟩
        · left; simpa [hq] using h3
      · right; exact ⟨p, List.mem_cons_of_mem _ hp, hpt, he⟩

/-! ### graphs given by a square Boolean matrix -/

def adjAt (adj : List (List Bool)) (i j : Nat) : Bool := (adj.getD i []).getD j false

structure WF (adj : List (List Bool)) : Prop where
  square : ∀ row ∈ adj, row.length = adj.length
  refl : ∀ i, i < adj.length → adjAt adj i i = true
  symm : ∀ i j, adjAt adj i j = adjAt adj j i

/-- labels after k rounds -/
def labelsAfter (adj : List (List Bool)) : Nat → List Nat
  | 0 => List.range adj.length
  | k + 1 => relabelOnce adj (labelsAfter adj k)

theorem foldl_const_iter {α : Type} (f : α → α) (x : α) : ∀ n : Nat, (List.range n).foldl (fun a _ => f a) x = f^[n] x := by
  intro n
  induction n generalizing x with
  | zero => rfl
  | succ n ih =>
    rw [List.range_succ, List.foldl_append, ih]
    simp only [List.foldl_cons, List.foldl_nil]
    rw [Function.iterate_succ_apply']

theorem labelsAfter_eq_iter (adj : List (List Bool)) (k : Nat) : labelsAfter adj k = (relabelOnce adj)^[k] (List.range adj.length) := by
  induction k with
  | zero => rfl
  | succ k ih => rw [labelsAfter, ih, Function.iterate_succ_apply']

theorem components_eq (adj : List (List Bool)) : components adj = labelsAfter adj adj.length := by
  unfold components
  simp only
  rw [foldl_const_iter, labelsAfter_eq_iter]

theorem relabelOnce_length (adj : List (List Bool)) (lab : List Nat) : (relabelOnce adj lab).length = adj.length := by
  simp [relabelOnce]

theorem labelsAfter_length (adj : List (List Bool)) (k : Nat) : (labelsAfter adj k).length = adj.length := by
  cases k with
  | zero => simp [labelsAfter]
  | succ k => simp [labelsAfter, relabelOnce_length]

/-- the label of vertex i (default i, never used for i < n) -/
def lab (adj : List (List Bool)) (k i : Nat) : Nat := (labelsAfter adj k).getD i i

theorem lab_zero (adj : List (List Bool)) (i : Nat) : lab adj 0 i = i := by
  unfold lab labelsAfter
  by_cases h : i < adj.length
  · simp [List.getD_eq_getElem?_getD, h]
  · simp [List.getD_eq_getElem?_getD, h]

/-- one round: the new label of i is the minimum of the old labels over the closed neighbourhood of i -/
theorem lab_succ_spec (adj : List (List Bool)) (hwf : WF adj) (k i : Nat) (hi : i < adj.length) :
    lab adj (k + 1) i ≤ lab adj k i ∧
    (∀ j, j < adj.length → adjAt adj i j = true → lab adj (k + 1) i ≤ lab adj k j) ∧
    (lab adj (k + 1) i = lab adj k i ∨ ∃ j, j < adj.length ∧ adjAt adj i j = true ∧ lab adj (k + 1) i = lab adj k j) := by
  have hrow : ∃ row, adj[i]? = some row := ⟨adj[i], by simp [hi]⟩
  obtain ⟨row, hrow⟩ := hrow
  have hrowlen : row.length = adj.length := hwf.square row (List.mem_of_getElem? hrow)
  have hval : lab adj (k + 1) i =
      minFold (fun j => (labelsAfter adj k).getD j i) row.zipIdx ((labelsAfter adj k).getD i i) := by
    unfold lab
    simp only [labelsAfter, relabelOnce, minFold, List.getD_eq_getElem?_getD, List.getElem?_map, List.getElem?_zipIdx, hrow, Option.map_some,
      Option.getD_some, Nat.zero_add]
  obtain ⟨h1, h2, h3⟩ := foldl_min_spec (fun j => (labelsAfter adj k).getD j i) row.zipIdx ((labelsAfter adj k).getD i i)
  rw [← hval] at h1 h2 h3
  have hgetD : ∀ j, j < adj.length → (labelsAfter adj k).getD j i = lab adj k j := by
    intro j hj
    unfold lab
    have hl := labelsAfter_length adj k
    simp [List.getD_eq_getElem?_getD, List.getElem?_eq_getElem (by omega : j < (labelsAfter adj k).length)]
  have hadj : ∀ j, adjAt adj i j = true ↔ row[j]? = some true := by
    intro j
    unfold adjAt
    simp only [List.getD_eq_getElem?_getD, hrow, Option.getD_some]
    cases hj : row[j]? with
    | none => simp
    | some b => cases b <;> simp
  refine ⟨h1, ?_, ?_⟩
  · intro j hj hadj'
    have hmem : (true, j) ∈ row.zipIdx := List.mem_zipIdx_iff_getElem?.mpr ((hadj j).mp hadj')
    have := h2 (true, j) hmem rfl
    simp only at this
    rw [hgetD j hj] at this
    exact this
  · rcases h3 with h3 | ⟨p, hp, hpt, he⟩
    · left; exact h3
    · right
      obtain ⟨b, j⟩ := p
      simp only at hpt he
      subst hpt
      have hj := List.mem_zipIdx_iff_getElem?.mp hp
      have hjlt : j < adj.length := by
        have : j < row.length := by
          by_contra hcon
          rw [List.getElem?_eq_none (by omega)] at hj
          cases hj
        omega
      exact ⟨j, hjlt, (hadj j).mpr hj, by rw [he, hgetD j hjlt]⟩

/-! ### reachability within k steps -/

/-- v is reachable from i by at most k edges (all vertices below n) -/
inductive Within (adj : List (List Bool)) : Nat → Nat → Nat → Prop
  | here (k i : Nat) : Within adj k i i
  | step (k i u v : Nat) : u < adj.length → adjAt adj i u = true → Within adj k u v → Within adj (k + 1) i v

theorem Within.mono (adj : List (List Bool)) {k i v : Nat} (h : Within adj k i v) : Within adj (k + 1) i v := by
  induction h with
  | here k i => exact Within.here _ _
  | step k i u v hu ha _ ih => exact Within.step _ _ _ _ hu ha ih

theorem Within.mono_le (adj : List (List Bool)) {k m i v : Nat} (hkm : k ≤ m) (h : Within adj k i v) : Within adj m i v := by
  induction hkm with
  | refl => exact h
  | step _ ih => exact Within.mono adj ih

theorem Within.lt (adj : List (List Bool)) {k i v : Nat} (hi : i < adj.length) (h : Within adj k i v) : v < adj.length := by
  induction h with
  | here k i => exact hi
  | step k i u v hu _ _ ih => exact ih hu

/-- **labels after k rounds = minimum over the ball of radius k** -/
theorem lab_spec (adj : List (List Bool)) (hwf : WF adj) (k : Nat) : ∀ i, i < adj.length →
    Within adj k i (lab adj k i) ∧ ∀ v, Within adj k i v → lab adj k i ≤ v := by
  induction k with
  | zero =>
    intro i _
    rw [lab_zero]
    refine ⟨Within.here _ _, ?_⟩
    intro v hv
    cases hv with
    | here => exact le_refl _
  | succ k ih =>
    intro i hi
    obtain ⟨h1, h2, h3⟩ := lab_succ_spec adj hwf k i hi
    constructor
    · rcases h3 with h3 | ⟨j, hj, hadj, he⟩
      · rw [h3]; exact Within.mono adj (ih i hi).1
      · rw [he]; exact Within.step _ _ _ _ hj hadj (ih j hj).1
    · intro v hv
      cases hv with
      | here => exact le_trans h1 ((ih i hi).2 i (Within.here _ _))
      | step _ _ u _ hu hadj hw => exact le_trans (h2 u hu hadj) ((ih u hu).2 v hw)

/-! ### connectedness and the bound on the number of rounds -/

/-- the bonding relation between vertices of the matrix -/
def Edge (adj : List (List Bool)) (a b : Nat) : Prop := a < adj.length ∧ b < adj.length ∧ adjAt adj a b = true

def Connected (adj : List (List Bool)) (i j : Nat) : Prop := Relation.ReflTransGen (Edge adj) i j

theorem within_connected (adj : List (List Bool)) {k i v : Nat} (hi : i < adj.length) (h : Within adj k i v) : Connected adj i v := by
  induction h with
  | here => exact Relation.ReflTransGen.refl
  | step k i u v hu ha _ ih => exact Relation.ReflTransGen.head ⟨hi, hu, ha⟩ (ih hu)

theorem connected_symm (adj : List (List Bool)) (hwf : WF adj) {i j : Nat} (h : Connected adj i j) : Connected adj j i := by
  induction h with
  | refl => exact Relation.ReflTransGen.refl
  | tail _ hbc ih =>
    exact Relation.ReflTransGen.head ⟨hbc.2.1, hbc.1, by rw [hwf.symm]; exact hbc.2.2⟩ ih

/-- the simple graph on `Fin n` carried by the matrix -/
def graphOf (adj : List (List Bool)) : SimpleGraph (Fin adj.length) :=
  SimpleGraph.fromRel fun a b => adjAt adj a.1 b.1 = true

theorem walk_within (adj : List (List Bool)) (hwf : WF adj) {u v : Fin adj.length} (p : (graphOf adj).Walk u v) :
    Within adj p.length u.1 v.1 := by
  induction p with
  | nil => exact Within.here _ _
  | cons h p ih =>
    rename_i a b c
    have hab : adjAt adj a.1 b.1 = true := by
      have := (SimpleGraph.fromRel_adj _ _ _).mp h
      rcases this.2 with h1 | h1
      · exact h1
      · rw [hwf.symm]; exact h1
    simp only [SimpleGraph.Walk.length_cons]
    exact Within.step _ _ _ _ b.2 hab ih

theorem connected_reachable (adj : List (List Bool)) {i j : Nat} (hi : i < adj.length) (h : Connected adj i j) :
    ∃ hj : j < adj.length, (graphOf adj).Reachable ⟨i, hi⟩ ⟨j, hj⟩ := by
  induction h with
  | refl => exact ⟨hi, SimpleGraph.Reachable.refl _⟩
  | @tail b c _ hbc ih =>
    obtain ⟨hb, hr⟩ := ih
    refine ⟨hbc.2.1, hr.trans ?_⟩
    by_cases hne : b = c
    · subst hne; exact SimpleGraph.Reachable.refl _
    · apply SimpleGraph.Adj.reachable
      rw [graphOf, SimpleGraph.fromRel_adj]
      exact ⟨by intro h; exact hne (by simpa using congrArg Fin.val h), Or.inl hbc.2.2⟩

/-- **n − 1 rounds reach the whole component** (a path visits every vertex at most once) -/
theorem connected_within (adj : List (List Bool)) (hwf : WF adj) {i j : Nat} (hi : i < adj.length) (h : Connected adj i j) :
    Within adj (adj.length - 1) i j := by
  obtain ⟨hj, hr⟩ := connected_reachable adj hi h
  obtain ⟨p, hp⟩ := hr.exists_isPath
  have hlen : p.length < Fintype.card (Fin adj.length) := hp.length_lt
  rw [Fintype.card_fin] at hlen
  exact Within.mono_le adj (by omega) (walk_within adj hwf p)

/-- **the labelling computes the connected components**: for a square, reflexive, symmetric Boolean matrix two vertices get
the same label exactly when they are connected; the label is the smallest vertex of the component -/
theorem components_spec (adj : List (List Bool)) (hwf : WF adj) (i j : Nat) (hi : i < adj.length) (hj : j < adj.length) :
    ((components adj).getD i i = (components adj).getD j j ↔ Connected adj i j) ∧
    Connected adj i ((components adj).getD i i) ∧ (∀ v, Connected adj i v → (components adj).getD i i ≤ v) := by
  rw [components_eq]
  have key : ∀ i, i < adj.length → Within adj adj.length i (lab adj adj.length i) ∧ ∀ v, Connected adj i v → lab adj adj.length i ≤ v := by
    intro i hi
    obtain ⟨h1, h2⟩ := lab_spec adj hwf adj.length i hi
    exact ⟨h1, fun v hv => h2 v (Within.mono_le adj (by omega) (connected_within adj hwf hi hv))⟩
  show (lab adj adj.length i = lab adj adj.length j ↔ _) ∧ Connected adj i (lab adj adj.length i) ∧ _
  obtain ⟨hi1, hi2⟩ := key i hi
  obtain ⟨hj1, hj2⟩ := key j hj
  refine ⟨⟨?_, ?_⟩, within_connected adj hi hi1, hi2⟩
  · intro heq
    have c1 := within_connected adj hi hi1
    have c2 := within_connected adj hj hj1
    rw [heq] at c1
    exact c1.trans (connected_symm adj hwf c2)
  · intro hc
    have hcj : Connected adj j i := connected_symm adj hwf hc
    apply le_antisymm
    · exact hi2 _ (hc.trans (within_connected adj hj hj1))
    · exact hj2 _ (hcj.trans (within_connected adj hi hi1))

end Matid.Dim

namespace Matid.Dim

/-! ### the bonding matrix of the model is square, reflexive and symmetric -/

theorem bondMatrix_length (cl : Geom.CellList) (positions : List Geom.V3) (radii : List Rat) (thr : Rat) :
    (bondMatrix cl positions radii thr).length = positions.length := by
  simp [bondMatrix]

/-- the symmetric completion of a strictly lower triangle, with a true diagonal -/
def symMatrix (n : Nat) (lower : List (List Bool)) : List (List Bool) :=
  (List.range n).map fun i => (List.range n).map fun j =>
    if i == j then true
    else if j < i then (lower.getD i []).getD j false
    else (lower.getD j []).getD i false

def lowerRows (cl : Geom.CellList) (positions : List Geom.V3) (radii : List Rat) (thr : Rat) : List (List Bool) :=
  positions.zipIdx.map fun (p, i) =>
    let nbs := cl.query p
    (List.range i).map fun j =>
      match minDist2To nbs j with
      | Option.none => false
      | some d2 => bondedBy d2 (radii.getD i 0) (radii.getD j 0) thr

theorem bondMatrix_eq (cl : Geom.CellList) (positions : List Geom.V3) (radii : List Rat) (thr : Rat) :
    bondMatrix cl positions radii thr = symMatrix positions.length (lowerRows cl positions radii thr) := rfl

theorem symMatrix_entry (n : Nat) (lower : List (List Bool)) (i j : Nat) :
    adjAt (symMatrix n lower) i j =
      if i < n ∧ j < n then (if i == j then true else if j < i then (lower.getD i []).getD j false else (lower.getD j []).getD i false)
      else false := by
  unfold adjAt symMatrix
  simp only [List.getD_eq_getElem?_getD, List.getElem?_map, List.getElem?_range]
  by_cases hi : i < n
  · by_cases hj : j < n
    · simp [hi, hj]
    · simp [hi, hj]
  · simp [hi]

theorem symMatrix_wf (n : Nat) (lower : List (List Bool)) : WF (symMatrix n lower) := by
  have hlen : (symMatrix n lower).length = n := by simp [symMatrix]
  refine ⟨?_, ?_, ?_⟩
  · intro row hrow
    rw [hlen]
    simp only [symMatrix, List.mem_map, List.mem_range] at hrow
    obtain ⟨i, _, rfl⟩ := hrow
    simp
  · intro i hi
    rw [hlen] at hi
    rw [symMatrix_entry]; simp [hi]
  · intro i j
    rw [symMatrix_entry, symMatrix_entry]
    by_cases hi : i < n <;> by_cases hj : j < n <;> simp [hi, hj]
    by_cases hij : i = j
    · subst hij; simp
    · have h2 : ¬ j = i := fun h => hij h.symm
      simp only [hij, h2, false_or]
      rcases Nat.lt_or_gt_of_ne hij with h | h
      · simp [h, Nat.lt_asymm h]
      · simp [h, Nat.lt_asymm h]

theorem bondMatrix_wf (cl : Geom.CellList) (positions : List Geom.V3) (radii : List Rat) (thr : Rat) :
    WF (bondMatrix cl positions radii thr) := by
  rw [bondMatrix_eq]; exact symMatrix_wf _ _

/-! ### counting -/

theorem countDistinct_eq (l : List Nat) : countDistinct l = l.toFinset.card := by
  unfold countDistinct
  have aux : ∀ (l acc : List Nat), acc.Nodup →
      (l.foldl (fun acc x => if acc.contains x then acc else x :: acc) acc).length = (acc.toFinset ∪ l.toFinset).card ∧
      (l.foldl (fun acc x => if acc.contains x then acc else x :: acc) acc).Nodup := by
    intro l
    induction l with
    | nil => intro acc hacc; simp [List.toFinset_card_of_nodup hacc, hacc]
    | cons x l ih =>
      intro acc hacc
      simp only [List.foldl_cons]
      by_cases hx : x ∈ acc
      · have : acc.contains x = true := by simpa using hx
        rw [this, if_pos rfl]
        obtain ⟨h1, h2⟩ := ih acc hacc
        refine ⟨?_, h2⟩
        rw [h1]
        congr 1
        ext y
        simp only [Finset.mem_union, List.mem_toFinset, List.mem_cons]
        constructor
        · rintro (h | h); exact Or.inl h; exact Or.inr (Or.inr h)
        · rintro (h | h | h); exact Or.inl h; exact Or.inl (h ▸ hx); exact Or.inr h
      · have : acc.contains x = false := by simpa using hx
        rw [this]
        simp only [Bool.false_eq_true, if_false]
        obtain ⟨h1, h2⟩ := ih (x :: acc) (List.nodup_cons.mpr ⟨hx, hacc⟩)
        refine ⟨?_, h2⟩
        rw [h1]
        congr 1
        ext y
        simp only [Finset.mem_union, List.mem_toFinset, List.mem_cons]
        tauto
  have := (aux l [] List.nodup_nil).1
  simpa using this

open Classical in
/-- **the number of distinct labels is the number of connected components**: the labels that occur are exactly the vertices
that are the smallest of their component (one per component) -/
theorem count_components (adj : List (List Bool)) (hwf : WF adj) :
    countDistinct (components adj) =
      ((Finset.range adj.length).filter fun i => ∀ v, Connected adj i v → i ≤ v).card := by
  rw [countDistinct_eq]
  congr 1
  ext m
  simp only [List.mem_toFinset, Finset.mem_filter, Finset.mem_range]
  have hlen : (components adj).length = adj.length := by rw [components_eq, labelsAfter_length]
  constructor
  · intro hm
    obtain ⟨i, hi⟩ := List.getElem?_of_mem hm
    have hilt : i < adj.length := by
      by_contra hcon
      rw [List.getElem?_eq_none (by omega)] at hi
      cases hi
    have hget : (components adj).getD i i = m := by simp [List.getD_eq_getElem?_getD, hi]
    obtain ⟨_, hc, hmin⟩ := components_spec adj hwf i i hilt hilt
    rw [hget] at hc hmin
    have hmlt : m < adj.length := by
      rcases Relation.ReflTransGen.cases_tail hc with h | ⟨b, _, hb⟩
      · omega
      · exact hb.2.1
    refine ⟨hmlt, ?_⟩
    intro v hv
    exact hmin v (hc.trans hv)
  · rintro ⟨hm, hmin⟩
    obtain ⟨_, hc, hmin'⟩ := components_spec adj hwf m m hm hm
    have h1 : (components adj).getD m m ≤ m := hmin' m Relation.ReflTransGen.refl
    have h2 : m ≤ (components adj).getD m m := hmin _ hc
    have heq : (components adj).getD m m = m := le_antisymm h1 h2
    have : (components adj)[m]? = some m := by
      have hl : m < (components adj).length := by omega
      simp only [List.getD_eq_getElem?_getD, List.getElem?_eq_getElem hl, Option.getD_some] at heq
      rw [List.getElem?_eq_getElem hl, heq]
    exact List.mem_of_getElem? this

end Matid.Dim
