/-
Properties of the representation ranking of `_find_wyckoff_ground_state` (model: MatidModel/Select.lean).
-/
import MatidModel.Select
import Mathlib.Data.List.Basic
import Mathlib.Data.List.Count
import Mathlib.Data.List.Perm.Basic
import Mathlib.Order.Basic
import Mathlib.Tactic.Linarith

namespace Matid.Select

section generic
variable {ρ κ : Type}

theorem foldl_max_ge (l : List Nat) (a : Nat) : a ≤ l.foldl max a := by
  induction l generalizing a with
  | nil => simp
  | cons x l ih => simp only [List.foldl_cons]; exact le_trans (le_max_left a x) (ih _)

theorem le_foldl_max (l : List Nat) (a x : Nat) (h : x ∈ l) : x ≤ l.foldl max a := by
  induction l generalizing a with
  | nil => cases h
  | cons y l ih =>
    simp only [List.foldl_cons]
    rcases List.mem_cons.mp h with rfl | h
    · exact le_trans (le_max_right a x) (foldl_max_ge l _)
    · exact ih _ h

theorem foldl_max_mem (l : List Nat) (a : Nat) : l.foldl max a = a ∨ l.foldl max a ∈ l := by
  induction l generalizing a with
  | nil => simp
  | cons y l ih =>
    simp only [List.foldl_cons]
    rcases ih (max a y) with h | h
    · rw [h]
      rcases le_total a y with hle | hle
      · right; rw [max_eq_right hle]; exact List.mem_cons_self
      · left; exact max_eq_left hle
    · right; exact List.mem_cons_of_mem _ h

def maxCnt (cnt : ρ → κ → Nat) (reps : List ρ) (k : κ) : Nat := (reps.map fun r => cnt r k).foldl max 0

theorem le_maxCnt (cnt : ρ → κ → Nat) (reps : List ρ) (k : κ) (r : ρ) (h : r ∈ reps) : cnt r k ≤ maxCnt cnt reps k :=
  le_foldl_max _ _ _ (List.mem_map.mpr ⟨r, h, rfl⟩)

theorem maxCnt_attained (cnt : ρ → κ → Nat) (reps : List ρ) (k : κ) (h : maxCnt cnt reps k ≠ 0) :
    ∃ r ∈ reps, cnt r k = maxCnt cnt reps k := by
  rcases foldl_max_mem (reps.map fun r => cnt r k) 0 with h0 | hm
  · exact absurd h0 h
  · obtain ⟨r, hr, e⟩ := List.mem_map.mp hm
    exact ⟨r, hr, e⟩

theorem step_def (cnt : ρ → κ → Nat) (reps : List ρ) (k : κ) :
    step cnt reps k = if maxCnt cnt reps k ≠ 0 then reps.filter (fun r => cnt r k == maxCnt cnt reps k) else reps := by
  simp only [step, maxCnt, bne_iff_ne, ne_eq, ite_not]
  split <;> simp_all

theorem mem_step (cnt : ρ → κ → Nat) (reps : List ρ) (k : κ) (r : ρ) :
    r ∈ step cnt reps k ↔ r ∈ reps ∧ cnt r k = maxCnt cnt reps k := by
  rw [step_def]
  split
  · simp [List.mem_filter]
  · rename_i h
    have h0 : maxCnt cnt reps k = 0 := by simpa using h
    constructor
    · intro hr
      have := le_maxCnt cnt reps k r hr
      exact ⟨hr, by omega⟩
    · exact fun h => h.1

/-- the ranking never empties the candidate list (so `representations[0]` exists) -/
theorem step_ne_nil (cnt : ρ → κ → Nat) (reps : List ρ) (k : κ) (h : reps ≠ []) : step cnt reps k ≠ [] := by
  by_cases hm : maxCnt cnt reps k = 0
  · rw [step_def]; simp [hm, h]
  · obtain ⟨r, hr, e⟩ := maxCnt_attained cnt reps k hm
    intro hnil
    have : r ∈ step cnt reps k := (mem_step cnt reps k r).mpr ⟨hr, e⟩
    rw [hnil] at this
    cases this

theorem run_ne_nil (cnt : ρ → κ → Nat) (keys : List κ) : ∀ reps : List ρ, reps ≠ [] → run cnt reps keys ≠ [] := by
  induction keys with
  | nil => intro reps h; simpa [run] using h
  | cons k ks ih => intro reps h; simp only [run, List.foldl_cons]; exact ih _ (step_ne_nil cnt reps k h)

theorem run_subset (cnt : ρ → κ → Nat) (keys : List κ) : ∀ (reps : List ρ) (r : ρ), r ∈ run cnt reps keys → r ∈ reps := by
  induction keys with
  | nil => intro reps r h; simpa [run] using h
  | cons k ks ih =>
    intro reps r h
    simp only [run, List.foldl_cons] at h
    exact ((mem_step cnt reps k r).mp (ih _ r h)).1

/-- all survivors carry the same count for every processed key: the remaining dictionaries are equal, the
error branch of the code is never taken -/
theorem run_agree (cnt : ρ → κ → Nat) (keys : List κ) : ∀ (reps : List ρ), ∀ r ∈ run cnt reps keys,
    ∀ r' ∈ run cnt reps keys, ∀ k ∈ keys, cnt r k = cnt r' k := by
  induction keys with
  | nil => intro reps r _ r' _ k hk; cases hk
  | cons k0 ks ih =>
    intro reps r hr r' hr' k hk
    simp only [run, List.foldl_cons] at hr hr'
    rcases List.mem_cons.mp hk with rfl | hk
    · have a := ((mem_step cnt reps k r).mp (run_subset cnt ks _ r hr)).2
      have b := ((mem_step cnt reps k r').mp (run_subset cnt ks _ r' hr')).2
      rw [a, b]
    · exact ih _ r hr r' hr' k hk

/-- a single remaining candidate is never removed: the early exit of the coded loops changes nothing -/
theorem step_singleton (cnt : ρ → κ → Nat) (r : ρ) (k : κ) : step cnt [r] k = [r] := by
  rw [step_def]
  have : maxCnt cnt [r] k = cnt r k := by simp [maxCnt]
  split <;> simp [this]

theorem run_singleton (cnt : ρ → κ → Nat) (r : ρ) (keys : List κ) : run cnt [r] keys = [r] := by
  induction keys with
  | nil => rfl
  | cons k ks ih => simp only [run, List.foldl_cons, step_singleton]; exact ih

/-! two candidate lists that realise the same set of count functions -/

def SameCnts {ρ' : Type} (cnt : ρ → κ → Nat) (cnt' : ρ' → κ → Nat) (reps : List ρ) (reps' : List ρ') : Prop :=
  (∀ r ∈ reps, ∃ r' ∈ reps', ∀ k, cnt r k = cnt' r' k) ∧ (∀ r' ∈ reps', ∃ r ∈ reps, ∀ k, cnt r k = cnt' r' k)

theorem maxCnt_eq_of_same {ρ' : Type} (cnt : ρ → κ → Nat) (cnt' : ρ' → κ → Nat) (reps : List ρ) (reps' : List ρ')
    (h : SameCnts cnt cnt' reps reps') (k : κ) : maxCnt cnt reps k = maxCnt cnt' reps' k := by
  apply le_antisymm
  · by_cases hm : maxCnt cnt reps k = 0
    · omega
    · obtain ⟨r, hr, e⟩ := maxCnt_attained cnt reps k hm
      obtain ⟨r', hr', e'⟩ := h.1 r hr
      rw [← e, e' k]; exact le_maxCnt cnt' reps' k r' hr'
  · by_cases hm : maxCnt cnt' reps' k = 0
    · omega
    · obtain ⟨r', hr', e⟩ := maxCnt_attained cnt' reps' k hm
      obtain ⟨r, hr, e'⟩ := h.2 r' hr'
      rw [← e, ← e' k]; exact le_maxCnt cnt reps k r hr

theorem step_same {ρ' : Type} (cnt : ρ → κ → Nat) (cnt' : ρ' → κ → Nat) (reps : List ρ) (reps' : List ρ')
    (h : SameCnts cnt cnt' reps reps') (k : κ) : SameCnts cnt cnt' (step cnt reps k) (step cnt' reps' k) := by
  have hm := maxCnt_eq_of_same cnt cnt' reps reps' h k
  constructor
  · intro r hr
    obtain ⟨hr1, hr2⟩ := (mem_step cnt reps k r).mp hr
    obtain ⟨r', hr', e⟩ := h.1 r hr1
    exact ⟨r', (mem_step cnt' reps' k r').mpr ⟨hr', by rw [← e k, hr2, hm]⟩, e⟩
  · intro r' hr'
    obtain ⟨hr1, hr2⟩ := (mem_step cnt' reps' k r').mp hr'
    obtain ⟨r, hr, e⟩ := h.2 r' hr1
    exact ⟨r, (mem_step cnt reps k r).mpr ⟨hr, by rw [e k, hr2, hm]⟩, e⟩

theorem run_same {ρ' : Type} (cnt : ρ → κ → Nat) (cnt' : ρ' → κ → Nat) (keys : List κ) :
    ∀ (reps : List ρ) (reps' : List ρ'), SameCnts cnt cnt' reps reps' →
      SameCnts cnt cnt' (run cnt reps keys) (run cnt' reps' keys) := by
  induction keys with
  | nil => intro reps reps' h; simpa [run] using h
  | cons k ks ih => intro reps reps' h; simp only [run, List.foldl_cons]; exact ih _ _ (step_same cnt cnt' reps reps' h k)

/-- **the ranking is a function of the set of candidate count dictionaries**: if two descriptions of a crystal
offer the same set of dictionaries (in any order, with any multiplicity), the chosen dictionaries coincide on
every ranked key -/
theorem chosen_counts_eq {ρ' : Type} (cnt : ρ → κ → Nat) (cnt' : ρ' → κ → Nat) (keys : List κ)
    (reps : List ρ) (reps' : List ρ') (h : SameCnts cnt cnt' reps reps') :
    ∀ r ∈ run cnt reps keys, ∀ r' ∈ run cnt' reps' keys, ∀ k ∈ keys, cnt r k = cnt' r' k := by
  intro r hr r' hr' k hk
  obtain ⟨r'', hr'', e⟩ := (run_same cnt cnt' keys reps reps' h).1 r hr
  rw [e k]
  exact run_agree cnt' keys reps' r'' hr'' r' hr' k hk

end generic

/-! ### the coded loops = the plain fold -/

theorem runCoded_eq_run {ρ : Type} (cnt : ρ → Nat × Nat → Nat) (numbers : List Nat) :
    ∀ (ws : List Nat) (reps : List ρ),
      runCoded cnt numbers reps ws = run cnt reps (ws.flatMap fun w => numbers.map fun z => (w, z)) := by
  intro ws
  induction ws with
  | nil => intro reps; simp [runCoded, run]
  | cons w ws ih =>
    intro reps
    have hinner : numbers.foldl (fun rs z => step cnt rs (w, z)) reps = run cnt reps (numbers.map fun z => (w, z)) := by
      simp [run, List.foldl_map]
    have hsplit : run cnt reps ((w :: ws).flatMap fun w => numbers.map fun z => (w, z)) =
        run cnt (run cnt reps (numbers.map fun z => (w, z))) (ws.flatMap fun w => numbers.map fun z => (w, z)) := by
      simp [run, List.flatMap_cons, List.foldl_append]
    rw [hsplit]
    simp only [runCoded]
    rw [hinner]
    by_cases hlen : ((run cnt reps (numbers.map fun z => (w, z))).length == 1) = true
    · rw [if_pos hlen]
      obtain ⟨r, hr⟩ := List.length_eq_one_iff.mp (by simpa using hlen)
      rw [hr, run_singleton]
    · rw [if_neg hlen]
      exact ih _

/-! ### counts are invariant under reordering of the atoms and compatible with relabelling -/

theorem cntOf_perm_invariant (letters numbers letters' numbers' : List Nat) (perm : List (Nat × Nat)) (k : Nat × Nat)
    (h : (letters.zip numbers).Perm (letters'.zip numbers')) :
    cntOf letters numbers perm k = cntOf letters' numbers' perm k := by
  simp only [cntOf]; exact h.countP_eq _

/-- relabelling the input letters by π₀ is the same as composing every candidate permutation with π₀ -/
theorem cntOf_map (letters numbers : List Nat) (f : Nat → Nat) (perm perm' : List (Nat × Nat)) (k : Nat × Nat)
    (h : ∀ c ∈ letters, applyPerm perm' (f c) = applyPerm perm c) :
    cntOf (letters.map f) numbers perm' k = cntOf letters numbers perm k := by
  simp only [cntOf]
  induction letters generalizing numbers with
  | nil => simp
  | cons c cs ih =>
    cases numbers with
    | nil => simp
    | cons z zs =>
      simp only [List.map_cons, List.zip_cons_cons, List.countP_cons]
      rw [ih zs (fun c' hc' => h c' (List.mem_cons_of_mem _ hc')), h c List.mem_cons_self]

/-- if the candidate permutations offered for the relabelled letters π₀∘L are, on the occupied letters, the
compositions π∘π₀⁻¹ of the candidates for L (which is what closure of the tabulated permutations under
composition and inversion gives), both descriptions offer the same set of count dictionaries -/
theorem relabel_sameCnts (cands cands' : List (List (Nat × Nat))) (letters numbers : List Nat) (f : Nat → Nat)
    (h1 : ∀ p' ∈ cands', ∃ p ∈ cands, ∀ c ∈ letters, applyPerm p' (f c) = applyPerm p c)
    (h2 : ∀ p ∈ cands, ∃ p' ∈ cands', ∀ c ∈ letters, applyPerm p' (f c) = applyPerm p c) :
    SameCnts (cntOf (letters.map f) numbers) (cntOf letters numbers) cands' cands := by
  constructor
  · intro p' hp'
    obtain ⟨p, hp, e⟩ := h1 p' hp'
    exact ⟨p, hp, fun k => cntOf_map letters numbers f p p' k e⟩
  · intro p hp
    obtain ⟨p', hp', e⟩ := h2 p hp
    exact ⟨p', hp', fun k => cntOf_map letters numbers f p p' k e⟩

end Matid.Select
