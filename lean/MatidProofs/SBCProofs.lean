/- Invariants of the SBC post-processing pipeline (model: MatidModel/SBC.lean). -/
import MatidModel.SBC
import MatidProofs.SelectProofs
import Mathlib.Data.List.Basic
import Mathlib.Data.List.Count
import Mathlib.Tactic.Linarith

namespace Matid.SBC

/-! ### sets as lists -/

theorem mem_setOf_aux (l : List Nat) : ∀ acc : List Nat, ∀ x,
    x ∈ l.foldl (fun acc x => if acc.contains x then acc else acc ++ [x]) acc ↔ x ∈ acc ∨ x ∈ l := by
  induction l with
  | nil => intro acc x; simp
  | cons y ys ih =>
    intro acc x
    simp only [List.foldl_cons]
    rw [ih]
    by_cases h : acc.contains y = true
    · simp only [h, if_true, List.mem_cons]
      have hy : y ∈ acc := by simpa using h
      constructor
      · rintro (h1 | h1)
        · exact Or.inl h1
        · exact Or.inr (Or.inr h1)
      · rintro (h1 | h1 | h1)
        · exact Or.inl h1
        · subst h1; exact Or.inl hy
        · exact Or.inr h1
    · simp only [h, if_false, List.mem_append, List.mem_singleton, List.mem_cons, Bool.false_eq_true]
      tauto

theorem mem_setOf (l : List Nat) (x : Nat) : x ∈ setOf l ↔ x ∈ l := by
  have := mem_setOf_aux l [] x
  simpa [setOf] using this

/-! ### localisation -/

def memCount (cs : List (List Nat)) (j : Nat) : Nat := cs.countP (·.contains j)

theorem countP_zipIdx_snd (α : Type) (w : Nat) : ∀ (l : List α) (s : Nat),
    (l.zipIdx s).countP (fun p => p.2 == w) = if s ≤ w ∧ w < s + l.length then 1 else 0
  | [], s => by simp
  | a :: l, s => by
    simp only [List.zipIdx_cons, List.countP_cons, List.length_cons]
    rw [countP_zipIdx_snd α w l (s + 1)]
    by_cases h : s = w
    · subst h; simp
    · have : (s == w) = false := by simpa using h
      simp only [this, Bool.false_eq_true, if_false, Nat.add_zero]
      by_cases h2 : s + 1 ≤ w ∧ w < s + 1 + l.length
      · rw [if_pos h2, if_pos ⟨by omega, by omega⟩]
      · rw [if_neg h2, if_neg (by omega)]

theorem countP_zipIdx_fst {α : Type} (p : α → Bool) (l : List α) :
    (l.zipIdx).countP (fun q => p q.1) = l.countP p := by
  have : l.countP p = (l.zipIdx.map (·.1)).countP p := by rw [List.zipIdx_map_fst]
  rw [this, List.countP_map]; rfl

/-- after resolving atom i it belongs to at most one cluster -/
theorem resolve_count_self (near : Nat → Nat → Bool) (i : Nat) (cs : List (List Nat)) :
    memCount (resolve near i cs) i ≤ 1 := by
  unfold resolve
  simp only
  split
  · rename_i h
    simp only [List.length_map] at h
    have : memCount cs i = (cs.zipIdx.filter fun p => p.1.contains i).length := by
      rw [memCount, ← countP_zipIdx_fst (fun c => c.contains i) cs, List.countP_eq_length_filter]
    rw [this]; exact h
  · rename_i h
    set w := ((cs.zipIdx.filter fun p => p.1.contains i).map (·.2)).foldl _ _ with hw
    rw [memCount, List.countP_map]
    calc (cs.zipIdx).countP _ ≤ (cs.zipIdx).countP (fun p => p.2 == w) := by
          apply List.countP_mono_left
          intro p _ hp
          simp only [Function.comp] at hp
          by_cases hc : (p.1.contains i && p.2 != w) = true
          · rw [if_pos hc] at hp
            simp at hp
          · rw [if_neg hc] at hp
            simp only [Bool.and_eq_true, bne_iff_ne, ne_eq, not_and, not_not] at hc
            simpa using hc hp
      _ ≤ 1 := by
          have := countP_zipIdx_snd (List Nat) w cs 0
          rw [this]; split <;> omega

/-- resolving never adds an atom to a cluster -/
theorem resolve_count_le (near : Nat → Nat → Bool) (i j : Nat) (cs : List (List Nat)) :
    memCount (resolve near i cs) j ≤ memCount cs j := by
  unfold resolve
  simp only
  split
  · exact le_refl _
  · rw [memCount, List.countP_map, memCount, ← countP_zipIdx_fst (fun c => c.contains j) cs]
    apply List.countP_mono_left
    intro p _ hp
    simp only [Function.comp] at hp
    split at hp
    · have : j ∈ p.1.filter (· != i) := by simpa using hp
      simpa using (List.mem_filter.mp this).1
    · exact hp

theorem localize_count_le (near : Nat → Nat → Bool) (j : Nat) : ∀ (n : Nat) (cs : List (List Nat)),
    memCount (localize near n cs) j ≤ memCount cs j := by
  intro n
  induction n with
  | zero => intro cs; simp [localize]
  | succ k ih =>
    intro cs
    simp only [localize, List.range_succ, List.foldl_append, List.foldl_cons, List.foldl_nil]
    exact le_trans (resolve_count_le near k j _) (ih cs)

/-- **after localisation every atom belongs to at most one cluster** -/
theorem localize_disjoint (near : Nat → Nat → Bool) : ∀ (n : Nat) (cs : List (List Nat)) (j : Nat), j < n →
    memCount (localize near n cs) j ≤ 1 := by
  intro n
  induction n with
  | zero => intro cs j hj; omega
  | succ k ih =>
    intro cs j hj
    simp only [localize, List.range_succ, List.foldl_append, List.foldl_cons, List.foldl_nil]
    by_cases hjk : j = k
    · subst hjk; exact resolve_count_self near j _
    · exact le_trans (resolve_count_le near k j _) (ih cs j (by omega))

/-- localisation keeps the number of clusters and only removes atoms -/
theorem resolve_length (near : Nat → Nat → Bool) (i : Nat) (cs : List (List Nat)) : (resolve near i cs).length = cs.length := by
  unfold resolve; simp only; split <;> simp

theorem resolve_subset (near : Nat → Nat → Bool) (i : Nat) (cs : List (List Nat)) (k : Nat) (x : Nat)
    (h : x ∈ (resolve near i cs).getD k []) : x ∈ cs.getD k [] := by
  unfold resolve at h
  simp only at h
  split at h
  · exact h
  · by_cases hk : k < cs.length
    · simp only [List.getD_eq_getElem?_getD, List.getElem?_map, List.getElem?_zipIdx, List.getElem?_eq_getElem hk, Option.map_some,
        Option.getD_some, Nat.zero_add] at h ⊢
      split at h
      · exact (List.mem_filter.mp h).1
      · exact h
    · exfalso
      rw [List.getD_eq_getElem?_getD, List.getElem?_eq_none (by simp; omega)] at h
      simp at h

/-! ### merging -/

def Consistent (numbers : List Nat) (c : Clu) : Prop := ∀ x ∈ c.idx, c.species.contains (numbers.getD x 0) = true

theorem mergeTwo_consistent (numbers : List Nat) (a b : Clu) (ha : Consistent numbers a) (hb : Consistent numbers b) :
    Consistent numbers (mergeTwo numbers a b) := by
  unfold mergeTwo
  by_cases h : a.idx.length > b.idx.length
  · simp only [h, if_true]
    intro x hx
    simp only [mem_setOf, List.mem_append, List.mem_filter] at hx
    rcases hx with hx | ⟨_, hx⟩
    · exact ha x hx
    · exact hx
  · simp only [h, if_false]
    intro x hx
    simp only [mem_setOf, List.mem_append, List.mem_filter] at hx
    rcases hx with hx | ⟨_, hx⟩
    · exact hb x hx
    · exact hx

theorem mergeTwo_idx_subset (numbers : List Nat) (a b : Clu) (x : Nat) (hx : x ∈ (mergeTwo numbers a b).idx) :
    x ∈ a.idx ∨ x ∈ b.idx := by
  unfold mergeTwo at hx
  by_cases h : a.idx.length > b.idx.length
  · simp only [h, if_true, mem_setOf, List.mem_append, List.mem_filter] at hx
    rcases hx with hx | ⟨hx, _⟩
    · exact Or.inl hx
    · exact Or.inr hx
  · simp only [h, if_false, mem_setOf, List.mem_append, List.mem_filter] at hx
    rcases hx with hx | ⟨hx, _⟩
    · exact Or.inr hx
    · exact Or.inl hx

/-- any property of clusters that merging two clusters preserves is preserved by the whole merge loop -/
theorem mergeLoop_preserves (numbers : List Nat) (thr : Rat) (P : Clu → Prop)
    (hP : ∀ a b, P a → P b → P (mergeTwo numbers a b)) :
    ∀ (fuel : Nat) (iso cl : List Clu), (∀ c ∈ iso, P c) → (∀ c ∈ cl, P c) → ∀ c ∈ mergeLoop numbers thr fuel iso cl, P c := by
  intro fuel
  induction fuel with
  | zero => intro iso cl h1 h2 c hc; simp only [mergeLoop, List.mem_append] at hc; rcases hc with hc | hc; exact h1 c hc; exact h2 c hc
  | succ f ih =>
    intro iso cl h1 h2 c hc
    cases cl with
    | nil => simp only [mergeLoop] at hc; exact h1 c hc
    | cons c0 rest =>
      simp only [mergeLoop] at hc
      have hc0 : P c0 := h2 c0 List.mem_cons_self
      have hrest : ∀ c ∈ rest, P c := fun c hc => h2 c (List.mem_cons_of_mem _ hc)
      have hiso' : ∀ c ∈ iso ++ [c0], P c := by
        intro c hc; rcases List.mem_append.mp hc with hc | hc; exact h1 c hc; simp at hc; rw [hc]; exact hc0
      split at hc
      · rcases List.mem_append.mp hc with hc | hc; exact h1 c hc; exact h2 c hc
      · split at hc
        · exact ih _ _ hiso' (by simp) c hc
        · split at hc
          · refine ih _ _ h1 ?_ c hc
            intro d hd
            rcases List.mem_append.mp hd with hd | hd
            · exact hrest d (List.mem_of_mem_eraseIdx hd)
            · simp at hd
              rw [hd]
              apply hP _ _ hc0
              cases hj : rest[firstMaxIdx (rest.map fun c => (inter c0.idx c.idx).length)]? with
              | none => simpa [hj] using hc0
              | some t => simpa [hj] using hrest t (List.mem_of_getElem? hj)
          · exact ih _ _ hiso' hrest c hc

/-- number of clusters that have not been produced by a merge: the termination measure of the loop -/
def unmerged (cl : List Clu) : Nat := cl.countP (fun c => !c.merged)

theorem unmerged_eraseIdx_le (cl : List Clu) (j : Nat) : unmerged (cl.eraseIdx j) ≤ unmerged cl := by
  unfold unmerged
  exact List.Sublist.countP_le (List.eraseIdx_sublist cl j)

theorem mergeLoop_succ_cons (numbers : List Nat) (thr : Rat) (fuel : Nat) (iso : List Clu) (c0 : Clu) (rest : List Clu) :
    mergeLoop numbers thr (fuel + 1) iso (c0 :: rest) =
      if c0.merged then iso ++ (c0 :: rest)
      else if rest.isEmpty then mergeLoop numbers thr fuel (iso ++ [c0]) []
      else
        if scoreAbove ((rest.map fun c => (inter c0.idx c.idx).length).getD (firstMaxIdx (rest.map fun c => (inter c0.idx c.idx).length)) 0)
            c0.idx.length (rest.getD (firstMaxIdx (rest.map fun c => (inter c0.idx c.idx).length)) c0).idx.length thr then
          mergeLoop numbers thr fuel iso (rest.eraseIdx (firstMaxIdx (rest.map fun c => (inter c0.idx c.idx).length)) ++
            [mergeTwo numbers c0 (rest.getD (firstMaxIdx (rest.map fun c => (inter c0.idx c.idx).length)) c0)])
        else mergeLoop numbers thr fuel (iso ++ [c0]) rest := by
  rw [mergeLoop]

theorem mergeLoop_nil (numbers : List Nat) (thr : Rat) (fuel : Nat) (iso : List Clu) :
    mergeLoop numbers thr fuel iso [] = iso := by
  cases fuel <;> simp [mergeLoop]

/-- the loop ends before its fuel runs out: with fuel > number of unmerged clusters, one more unit of fuel
changes nothing -/
theorem mergeLoop_fuel (numbers : List Nat) (thr : Rat) : ∀ (fuel : Nat) (iso cl : List Clu), unmerged cl < fuel →
    mergeLoop numbers thr (fuel + 1) iso cl = mergeLoop numbers thr fuel iso cl := by
  intro fuel
  induction fuel with
  | zero => intro iso cl h; omega
  | succ f ih =>
    intro iso cl h
    cases cl with
    | nil => rw [mergeLoop_nil, mergeLoop_nil]
    | cons c0 rest =>
      rw [mergeLoop_succ_cons numbers thr (f + 1), mergeLoop_succ_cons numbers thr f]
      by_cases hm : c0.merged = true
      · simp [hm]
      · have hm' : c0.merged = false := by simpa using hm
        have hun : unmerged (c0 :: rest) = unmerged rest + 1 := by simp [unmerged, List.countP_cons, hm']
        simp only [hm', Bool.false_eq_true, if_false]
        by_cases hr : rest.isEmpty = true
        · simp only [hr, if_true]
          rw [mergeLoop_nil, mergeLoop_nil]
        · simp only [hr, Bool.false_eq_true, if_false]
          split
          · apply ih
            have h1 := unmerged_eraseIdx_le rest (firstMaxIdx (rest.map fun c => (inter c0.idx c.idx).length))
            have h2 : unmerged (rest.eraseIdx (firstMaxIdx (rest.map fun c => (inter c0.idx c.idx).length)) ++
                [mergeTwo numbers c0 (rest.getD (firstMaxIdx (rest.map fun c => (inter c0.idx c.idx).length)) c0)])
                = unmerged (rest.eraseIdx (firstMaxIdx (rest.map fun c => (inter c0.idx c.idx).length))) := by
              simp [unmerged, List.countP_append, mergeTwo]
            omega
          · apply ih; omega

/-! ### cleaning -/

theorem cleanOne_spec (components : List (List Nat)) :
    ∀ a ∈ cleanOne components, a ∈ components ∧ a ≠ [] ∧ ∀ c ∈ components, c.length ≤ a.length := by
  intro a ha
  unfold cleanOne at ha
  simp only at ha
  split at ha
  · cases ha
  · rename_i hm
    obtain ⟨h1, h2⟩ := List.mem_filter.mp ha
    have h2' : a.length = (components.map (·.length)).foldl max 0 := by simpa using h2
    refine ⟨h1, ?_, ?_⟩
    · intro hnil
      rw [hnil] at h2'
      simp at hm
      simp at h2'
      exact hm h2'.symm
    · intro c hc
      rw [h2']
      exact Matid.Select.le_foldl_max _ _ _ (List.mem_map.mpr ⟨c, hc, rfl⟩)

/-! ### driver -/

theorem driverStep_decreases (numbers : List Nat) (remaining : List Nat) (f : FinderOut)
    (hseed : f.seed ∈ remaining) (hprog : f.seed ∈ f.mask ∨ f.basis.isSome = true) :
    (driverStep numbers remaining f).1.length < remaining.length := by
  unfold driverStep
  simp only
  have hlen1 : (remaining.filter fun i => !f.mask.contains i).length ≤ remaining.length := List.length_filter_le _ _
  cases hb : f.basis with
  | none =>
    simp only
    rcases hprog with hm | hs
    · exact List.length_filter_lt_length_iff_exists.mpr ⟨f.seed, hseed, by simpa using hm⟩
    · rw [hb] at hs; cases hs
  | some basis =>
    simp only
    by_cases hm : f.seed ∈ f.mask
    · exact lt_of_le_of_lt (List.length_filter_le _ _) (List.length_filter_lt_length_iff_exists.mpr ⟨f.seed, hseed, by simpa using hm⟩)
    · have hs1 : f.seed ∈ remaining.filter fun i => !f.mask.contains i := List.mem_filter.mpr ⟨hseed, by simpa using hm⟩
      have : f.seed ∈ setOf (f.seed :: basis) := (mem_setOf _ _).mpr List.mem_cons_self
      exact lt_of_lt_of_le (List.length_filter_lt_length_iff_exists.mpr ⟨f.seed, hs1, by simpa using this⟩) hlen1

theorem driverStep_cluster (numbers : List Nat) (remaining : List Nat) (f : FinderOut) (c : Clu)
    (h : (driverStep numbers remaining f).2 = some c) :
    (∀ x ∈ c.idx, x = f.seed ∨ ∃ b, f.basis = some b ∧ x ∈ b) ∧ f.seed ∈ c.idx ∧ Consistent numbers c ∧ c.merged = false := by
  unfold driverStep at h
  simp only at h
  cases hb : f.basis with
  | none => rw [hb] at h; cases h
  | some basis =>
    rw [hb] at h
    simp only [Option.some.injEq] at h
    subst h
    refine ⟨?_, (mem_setOf _ _).mpr List.mem_cons_self, ?_, rfl⟩
    · intro x hx
      rcases List.mem_cons.mp ((mem_setOf _ _).mp hx) with h1 | h1
      · exact Or.inl h1
      · exact Or.inr ⟨basis, rfl, h1⟩
    · intro x hx
      simp only
      have : numbers.getD x 0 ∈ setOf ((setOf (f.seed :: basis)).map fun i => numbers.getD i 0) :=
        (mem_setOf _ _).mpr (List.mem_map.mpr ⟨x, hx, rfl⟩)
      simpa using this

end Matid.SBC
