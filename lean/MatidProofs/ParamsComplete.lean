/-
Completeness of the free-parameter determination (model MatidModel/WyckoffParams.lean; C08 "asking for the Wyckoff sets with
parameters succeeds"): if the atoms of a set occupy, modulo lattice translations, every position e_k(w) + t_c of a Wyckoff
position whose representative is solvable by the reading rule, then the solver accepts a candidate — for every cell, every
order of the atoms and every tolerance.  Exact arithmetic.
-/
import MatidModel.WyckoffParams
import Mathlib.Tactic.Ring
import Mathlib.Tactic.Linarith
import Mathlib.Tactic.IntervalCases
import Mathlib.Tactic.NormNum
import Mathlib.Algebra.Order.Field.Rat
import Mathlib.Algebra.Order.Floor.Ring

namespace Matid.WyckoffParams
open Matid.Table

/-- equal modulo lattice translations -/
def IntClose (p q : V3) : Prop := ∃ k1 k2 k3 : Int, p = (q.1 + k1, q.2.1 + k2, q.2.2 + k3)

theorem IntClose.refl (p : V3) : IntClose p p := ⟨0, 0, 0, by simp⟩

theorem IntClose.symm {p q : V3} (h : IntClose p q) : IntClose q p := by
  obtain ⟨k1, k2, k3, rfl⟩ := h
  exact ⟨-k1, -k2, -k3, by simp⟩

theorem IntClose.trans {p q r : V3} (h1 : IntClose p q) (h2 : IntClose q r) : IntClose p r := by
  obtain ⟨k1, k2, k3, rfl⟩ := h1
  obtain ⟨j1, j2, j3, rfl⟩ := h2
  refine ⟨j1 + k1, j2 + k2, j3 + k3, ?_⟩
  simp only [Prod.mk.injEq]; push_cast; refine ⟨?_, ?_, ?_⟩ <;> ring

theorem wrap01_add_int (x : Rat) (k : Int) : wrap01 (x + k) = wrap01 x := by
  unfold wrap01
  have : (x + (k : Rat)).floor = x.floor + k := by
    apply le_antisymm
    · have : (x + (k : Rat)).floor < x.floor + k + 1 := by
        rw [Rat.floor_lt_iff]; push_cast
        have := Rat.lt_floor_add_one x
        push_cast at this; linarith
      omega
    · rw [Rat.le_floor_iff]; push_cast
      have := Rat.floor_le x; linarith
  rw [this]; push_cast; ring

theorem foldHalf_zero : foldHalf 0 = 0 := by
  unfold foldHalf; norm_num

/-- positions that differ by a lattice vector are at periodic distance 0, in every cell -/
theorem dist2_zero_of_intClose (cell : V3 × V3 × V3) (p t : V3) (h : IntClose p t) : dist2 cell p t = 0 := by
  obtain ⟨k1, k2, k3, rfl⟩ := h
  unfold dist2
  simp only [wrap01_add_int, sub_self, foldHalf_zero]
  ring

theorem act_intClose (e : Aff) (W w : V3) (h : IntClose W w) : IntClose (e.act W) (e.act w) := by
  obtain ⟨k1, k2, k3, rfl⟩ := h
  refine ⟨e.a11 * k1 + e.a12 * k2 + e.a13 * k3, e.a21 * k1 + e.a22 * k2 + e.a23 * k3, e.a31 * k1 + e.a32 * k2 + e.a33 * k3, ?_⟩
  simp only [Aff.act, Prod.mk.injEq]
  push_cast
  refine ⟨?_, ?_, ?_⟩ <;> ring

/-- component c of e(w) -/
theorem act_get (e : Aff) (w : V3) (c : Nat) (hc : c < 3) :
    V3.get (e.act w) c = (Aff.entry e c 0 : Rat) * w.1 + (Aff.entry e c 1 : Rat) * w.2.1 + (Aff.entry e c 2 : Rat) * w.2.2
      + (Aff.tr e c : Rat) / 24 := by
  interval_cases c <;> simp [Aff.act, V3.get, Aff.entry, Aff.tr]

/-- parameters vanish on the variables that are not free in this position -/
def zeroOnFixed (mask : Nat) (w : V3) : Prop := ∀ v, v < 3 → hasVar mask v = false → V3.get w v = 0

theorem firstUnit_lt (E0 : Aff) (v c : Nat) (h : firstUnit E0 v = some c) : c < 3 := by
  unfold firstUnit at h
  have := List.mem_of_find?_eq_some h
  simpa using this

theorem readComp_lt (rule : ReadRule) (E0 : Aff) (v c : Nat) (hv : v < 3) (h : readComp rule E0 v = some c) : c < 3 := by
  unfold readComp at h
  cases hf : firstUnit E0 v with
  | none => simp [hf] at h
  | some c0 =>
    simp only [hf, Option.map_some, Option.some.injEq] at h
    cases rule with
    | found => simp only at h; rw [← h]; exact firstUnit_lt E0 v c0 hf
    | sameIndex => simp only at h; rw [← h]; exact hv

/-- the reading rule recovers each free parameter up to an integer from any atom that sits on e0(w) modulo the lattice -/
theorem solveVar_close (rule : ReadRule) (E0 : Aff) (mask : Nat) (hsolv : repSolvable rule E0 mask = true)
    (w : V3) (hw : zeroOnFixed mask w) (R : V3) (hR : IntClose R (E0.act w)) (v : Nat) (hv : v < 3) :
    ∃ k : Int, solveVar rule E0 mask R v = V3.get w v + k := by
  unfold solveVar
  cases hfree : hasVar mask v with
  | false => exact ⟨0, by simp [hw v hv hfree]⟩
  | true =>
    simp only [if_true]
    unfold repSolvable at hsolv
    have hall := (List.all_eq_true.mp hsolv) v (List.mem_range.mpr hv)
    simp only [hfree, Bool.not_true, Bool.false_or] at hall
    cases hrc : readComp rule E0 v with
    | none => simp [hrc] at hall
    | some c =>
      simp only [hrc, Bool.and_eq_true, beq_iff_eq, List.all_eq_true, List.mem_range, Bool.or_eq_true] at hall
      obtain ⟨hone, hzero⟩ := hall
      have hc : c < 3 := readComp_lt rule E0 v c hv hrc
      obtain ⟨k1, k2, k3, rfl⟩ := hR
      -- component c of e0(w) is w[v] + tr/24
      have hcomp : V3.get (E0.act w) c = V3.get w v + (Aff.tr E0 c : Rat) / 24 := by
        rw [act_get E0 w c hc]
        have e0 : ∀ v', v' < 3 → v' ≠ v → Aff.entry E0 c v' = 0 := by
          intro v' hv' hne
          rcases hzero v' hv' with h | h
          · exact absurd h hne
          · exact h
        interval_cases v
        · rw [hone, e0 1 (by omega) (by omega), e0 2 (by omega) (by omega)]; simp [V3.get]
        · rw [hone, e0 0 (by omega) (by omega), e0 2 (by omega) (by omega)]; simp [V3.get]
        · rw [hone, e0 0 (by omega) (by omega), e0 1 (by omega) (by omega)]; simp [V3.get]
      have hk : ∃ k : Int, V3.get ((E0.act w).1 + (k1 : Rat), (E0.act w).2.1 + (k2 : Rat), (E0.act w).2.2 + (k3 : Rat)) c = V3.get (E0.act w) c + k := by
        interval_cases c
        · exact ⟨k1, rfl⟩
        · exact ⟨k2, rfl⟩
        · exact ⟨k3, rfl⟩
      obtain ⟨k, hk⟩ := hk
      exact ⟨k, by show V3.get _ c - (Aff.tr E0 c : Rat) / 24 = _; rw [hk, hcomp]; ring⟩

theorem solveW_close (rule : ReadRule) (E0 : Aff) (mask : Nat) (hsolv : repSolvable rule E0 mask = true)
    (w : V3) (hw : zeroOnFixed mask w) (R : V3) (hR : IntClose R (E0.act w)) : IntClose (solveW rule E0 mask R) w := by
  obtain ⟨k1, h1⟩ := solveVar_close rule E0 mask hsolv w hw R hR 0 (by omega)
  obtain ⟨k2, h2⟩ := solveVar_close rule E0 mask hsolv w hw R hR 1 (by omega)
  obtain ⟨k3, h3⟩ := solveVar_close rule E0 mask hsolv w hw R hR 2 (by omega)
  refine ⟨k1, k2, k3, ?_⟩
  unfold solveW
  rw [h1, h2, h3]
  rfl

theorem mem_testPositions (exprs cents : List Aff) (W : V3) (tp : V3) :
    tp ∈ testPositions exprs cents W ↔ ∃ t ∈ zeroT :: cents, ∃ e ∈ exprs, tp = (e.addT t).act W := by
  unfold testPositions
  simp only [List.mem_flatMap, List.mem_map]
  constructor
  · rintro ⟨t, ht, e, he, rfl⟩; exact ⟨t, ht, e, he, rfl⟩
  · rintro ⟨t, ht, e, he, rfl⟩; exact ⟨t, ht, e, he, rfl⟩

theorem addT_zeroT_act (e : Aff) (w : V3) : (e.addT zeroT).act w = e.act w := by
  simp [Aff.addT, zeroT, Aff.act, Aff.id]

/-- **completeness**: representative solvable by the reading rule, atoms occupying every position e_k(w) + t_c modulo the
lattice ⇒ the solver returns parameters (for every cell, order of atoms and tolerances) -/
theorem params_complete (rule : ReadRule) (firstTol prec : Rat) (e0 : Aff) (rest cents : List Aff) (mask : Nat)
    (cell : V3 × V3 × V3) (atoms : List V3) (hsolv : repSolvable rule e0 mask = true)
    (w : V3) (hw : zeroOnFixed mask w)
    (horbit : ∀ tp ∈ testPositions (e0 :: rest) cents w, ∃ a ∈ atoms, IntClose a tp) :
    ∃ W, solveParams rule firstTol (e0 :: rest) cents mask cell atoms prec = some W := by
  -- the atom on the representative position
  have hrep : e0.act w ∈ testPositions (e0 :: rest) cents w := by
    rw [mem_testPositions]
    exact ⟨zeroT, List.mem_cons_self, e0, List.mem_cons_self, (addT_zeroT_act e0 w).symm⟩
  obtain ⟨R0, hR0, hclose⟩ := horbit _ hrep
  have hWw : IntClose (solveW rule e0 mask R0) w := solveW_close rule e0 mask hsolv w hw R0 hclose
  have hacc : (accepts rule firstTol (e0 :: rest) cents mask cell atoms prec R0).isSome = true := by
    unfold accepts
    simp only
    have h1 : findNear cell [R0] (e0.act (solveW rule e0 mask R0)) firstTol = true := by
      unfold findNear
      simp only [List.any_cons, List.any_nil, Bool.or_false, decide_eq_true_eq]
      have : IntClose R0 (e0.act (solveW rule e0 mask R0)) := hclose.trans (act_intClose e0 _ _ hWw).symm
      rw [dist2_zero_of_intClose cell _ _ this]
      exact sq_nonneg _
    rw [h1]
    simp only [Bool.not_true, Bool.false_eq_true, if_false]
    have h2 : (testPositions (e0 :: rest) cents (solveW rule e0 mask R0)).all (fun tp => findNear cell atoms tp prec) = true := by
      rw [List.all_eq_true]
      intro tp htp
      rw [mem_testPositions] at htp
      obtain ⟨t, ht, e, he, rfl⟩ := htp
      have hmem : (e.addT t).act w ∈ testPositions (e0 :: rest) cents w := by
        rw [mem_testPositions]; exact ⟨t, ht, e, he, rfl⟩
      obtain ⟨a, ha, hca⟩ := horbit _ hmem
      unfold findNear
      rw [List.any_eq_true]
      refine ⟨a, ha, ?_⟩
      have : IntClose a ((e.addT t).act (solveW rule e0 mask R0)) := hca.trans (act_intClose _ _ _ hWw).symm
      rw [decide_eq_true_eq, dist2_zero_of_intClose cell _ _ this]
      exact sq_nonneg _
    rw [h2]
    simp
  unfold solveParams
  have : (atoms.findSome? (accepts rule firstTol (e0 :: rest) cents mask cell atoms prec)).isSome = true := by
    rw [List.findSome?_isSome_iff]
    exact ⟨R0, hR0, hacc⟩
  exact Option.isSome_iff_exists.mp this

end Matid.WyckoffParams
