/-
Assembly for C16: position matching against a cell list built by `get_cell_list` returns the nearest of ALL periodic images
(not only of the stored ones) whenever the tolerance does not exceed the extension and the cutoff, for query points inside the cell.
-/
import MatidProofs.GeomAssemble

namespace Matid.Geom

theorem getCellList_ok (positions : List V3) (cell : Cell) (pbc : Pbc) (ext c : Rat) (hext : 0 ≤ ext) (hc : 0 < c) (cl : CellList)
    (h : getCellList positions cell pbc ext (some c) = .ok cl) :
    ∃ l, extendSystem2 positions cell pbc (ext * ext) = .ok l ∧ cl = mkCellList l (some c) := by
  unfold getCellList extendSystem at h
  simp only [not_lt.mpr hext, if_false, not_le.mpr hc] at h
  cases h2 : extendSystem2 positions cell pbc (ext * ext) with
  | error e => rw [h2] at h; cases e <;> cases h
  | ok l => rw [h2] at h; simp only [Except.ok.injEq] at h; exact ⟨l, rfl, h.symm⟩

/-- what the 27-bin query returns, in terms of lattice images: exactly the (atom, admissible offset) pairs of the extended system
within the cutoff; and every image of every atom within `min(ext, c)` of a point of the cell is among them -/
theorem query_images (positions : List V3) (cell : Cell) (pbc : Pbc) (ext c : Rat) (hext : 0 ≤ ext) (hc : 0 < c) (hdet : cell.det ≠ 0)
    (cl : CellList) (hcl : getCellList positions cell pbc ext (some c) = .ok cl) (s : V3) (hs : insideCell pbc s) :
    (∀ nb ∈ cl.query (toCartesian cell s), ∃ p, positions[nb.index]? = some p ∧ admissible pbc nb.factor ∧
        nb.dist2 = imageDist2 cell (toCartesian cell s) p nb.factor ∧ nb.dist2 ≤ c * c) ∧
    (∀ j t n, positions[j]? = some (toCartesian cell t) → insideCell pbc t → admissible pbc n →
        imageDist2 cell (toCartesian cell s) (toCartesian cell t) n ≤ ext * ext →
        imageDist2 cell (toCartesian cell s) (toCartesian cell t) n ≤ c * c →
        ∃ nb ∈ cl.query (toCartesian cell s), nb.index = j ∧ nb.factor = n ∧
          nb.dist2 = imageDist2 cell (toCartesian cell s) (toCartesian cell t) n) := by
  obtain ⟨l, hl, rfl⟩ := getCellList_ok positions cell pbc ext c hext hc cl hcl
  constructor
  · intro nb hnb
    obtain ⟨a, ha, hi, hfa, _, hd2, hcut⟩ := query_sound _ _ nb hnb
    have hmem : a ∈ l := List.mem_of_getElem? ha
    obtain ⟨hadm, p, hp, hpos⟩ := extension_entries_admissible positions cell pbc (ext * ext) hdet l hl a hmem
    refine ⟨p, by rw [hi]; exact hp, by rw [hfa]; exact hadm, ?_, hcut c rfl⟩
    rw [hd2, hpos, hfa]; rfl
  · intro j t n hj ht hn hde hdc
    obtain ⟨a, ha, hidx, hfac, hpos⟩ := image_in_extension positions cell pbc (ext * ext) hdet l hl j s t hj hs ht n hn hde
    have hw : withinCutoff (mkCellList l (some c)).cutoff (V3.norm2 (V3.sub (toCartesian cell s) a.pos)) = true := by
      simp only [mkCellList, withinCutoff, decide_eq_true_eq]
      rw [hpos]; exact hdc
    obtain ⟨nb, hnb, h1, h2, h3⟩ := mem_querySpec (mkCellList l (some c)) (toCartesian cell s) a ha hw
    rw [← query_complete l c hc] at hnb
    exact ⟨nb, hnb, by rw [h1, hidx], by rw [h2, hfac], by rw [h3, hpos]; rfl⟩

end Matid.Geom
