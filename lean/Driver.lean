/-
Line-protocol driver: one operation per input line, one output line per operation.
Run as `.lake/build/bin/driver < ops.txt` (compiled; nothing imported here touches Mathlib)
or `lake env lean --run Driver.lean < ops.txt`.
-/
import MatidModel
-- only the small generated definitions the ops need: the driver must build even when a table theorem fails
import MatidGen.Radii
import MatidGen.Centring
import MatidGen.WyckoffRule

open Matid Matid.Parse

def opRadii (args : List String) : String :=
  open Matid.Radii MatidGen.Radii in
  match args with
  | [name, z] =>
    match z.toNat? with
    | none => "bad-op"
    | some z =>
      let p? : Option Preset :=
        if name == "covalent" then some preset_covalent
        else if name == "vdw" then some preset_vdw
        else if name == "vdw_covalent" then some preset_vdw_covalent
        else none
      match p? with
      | none => "bad-op"
      | some p => showR (p.resolve tables z)
  | _ => "bad-op"

/-- `chiral m;m;…` with m = nine comma-separated integers (row major) -/
def opChiral (args : List String) : String :=
  open Matid.Chirality in
  match args with
  | [ms] =>
    let mats := (ms.splitOn ";").mapM fun m => (parseList? parseInt? m).bind parseMat3?
    match mats with
    | some l => showBool (isChiral l)
    | none => "bad-op"
  | _ => "bad-op"

/-- `prim <letter> <mapping> <cell: 9 rationals> <frac: 3 rationals per atom>` -/
def opPrim (args : List String) : String :=
  open Matid.Primitive Matid.Chirality in
  match args with
  | [letter, mapS, cellS, fracS] =>
    match parseList? parseNat? mapS, parseList? parseRat? cellS, parseList? parseRat? fracS with
    | some mapping, some [a1, a2, a3, b1, b2, b3, c1, c2, c3], some fr =>
      if fr.length != 3 * mapping.length then "bad-op" else
      let code := (letter.toList.headD 'P').toNat
      let idxs := (npUniqueFirst (mapping.zipIdx)).map (·.2)
      if code == 80 then
        "P idx=" ++ showList toString (List.range mapping.length)
      else match MatidGen.Centring.letters.find? (fun p => p.1 == code) with
        | none => "KeyError"
        | some (_, six) =>
          let t := MatidGen.Centring.usesTranspose
          let (pa, pb, pc) := primCell six t (a1, a2, a3) (b1, b2, b3) (c1, c2, c3)
          let cellOut := [pa.1, pa.2.1, pa.2.2, pb.1, pb.2.1, pb.2.2, pc.1, pc.2.1, pc.2.2]
          let fracs := idxs.flatMap fun i =>
            let f := primFrac six t (fr.getD (3 * i) 0, fr.getD (3 * i + 1) 0, fr.getD (3 * i + 2) 0)
            [f.1, f.2.1, f.2.2]
          "idx=" ++ showList toString idxs ++ " cell=" ++ showList showRat cellOut ++ " frac=" ++ showList showRat fracs
    | _, _, _ => "bad-op"
  | _ => "bad-op"

/-- `wparams <exprs packed> <cents packed> <mask> <cell 9 rationals> <precision> <atoms 3n rationals>` -/
def opWParams (args : List String) : String :=
  open Matid.WyckoffParams Matid.Table in
  match args with
  | [exS, ceS, maskS, cellS, precS, atomsS] =>
    match parseList? parseNat? exS, parseList? parseNat? ceS, maskS.toNat?, parseList? parseRat? cellS, parseRat? precS, parseList? parseRat? atomsS with
    | some ex, some ce, some mask, some [a1, a2, a3, b1, b2, b3, c1, c2, c3], some prec, some ats =>
      if ats.length % 3 != 0 then "bad-op" else
      let atoms : List V3 := (List.range (ats.length / 3)).map fun i => (ats.getD (3 * i) 0, ats.getD (3 * i + 1) 0, ats.getD (3 * i + 2) 0)
      let cell : V3 × V3 × V3 := ((a1, a2, a3), (b1, b2, b3), (c1, c2, c3))
      match solveParams MatidGen.WyckoffRule.rule MatidGen.WyckoffRule.firstTol (ex.map decode) (ce.map decode) mask cell atoms prec with
      | none => "ValueError"
      | some W =>
        let vals := [(0, "x", W.1), (1, "y", W.2.1), (2, "z", W.2.2)].filter (fun p => hasVar mask p.1)
        if vals.isEmpty then "no-variables" else
        ";".intercalate (vals.map fun p => p.2.1 ++ "=" ++ showRat (wrapParam p.2.2))
    | _, _, _, _, _, _ => "bad-op"
  | _ => "bad-op"

def parsePerm? (s : String) : Option (List (Nat × Nat)) :=
  parseList? (fun kv => match kv.splitOn ":" with
    | [a, b] => do let x ← a.toNat?; let y ← b.toNat?; pure (x, y)
    | _ => none) s

/-- `select <perm;perm;…|-> <letters> <numbers>`; each perm = comma separated `old:new` character codes -/
def opSelect (args : List String) : String :=
  open Matid.Select in
  match args with
  | [permsS, lettersS, numbersS] =>
    let perms? : Option (List (List (Nat × Nat))) := if permsS == "-" then some [] else (permsS.splitOn ";").mapM parsePerm?
    match perms?, parseList? parseNat? lettersS, parseList? parseNat? numbersS with
    | some perms, some letters, some numbers =>
      if letters.length != numbers.length then "bad-op" else
      match selectRep perms letters numbers with
      | .ok i => "ok " ++ toString i
      | .error .matid => "MatIDError"
      | .error .key => "KeyError"
    | _, _, _ => "bad-op"
  | _ => "bad-op"

/-- `applynorm <packed map> <3n rationals>` : transformed and wrapped fractional coordinates -/
def opApplyNorm (args : List String) : String :=
  open Matid.Select Matid.Table in
  match args with
  | [mapS, posS] =>
    match mapS.toNat?, parseList? parseRat? posS with
    | some m, some ps =>
      if ps.length % 3 != 0 then "bad-op" else
      let n := decode m
      let out := (List.range (ps.length / 3)).flatMap fun i =>
        let q := applyNorm n (ps.getD (3 * i) 0, ps.getD (3 * i + 1) 0, ps.getD (3 * i + 2) 0)
        [q.1, q.2.1, q.2.2]
      showList showRat out
    | _, _ => "bad-op"
  | _ => "bad-op"

/-- `sets <letters> <numbers> <equiv>` : sorted Wyckoff sets `letter:number:i.j.k|…` -/
def opSets (args : List String) : String :=
  open Matid.Select in
  match args with
  | [lettersS, numbersS, equivS] =>
    match parseList? parseNat? lettersS, parseList? parseNat? numbersS, parseList? parseNat? equivS with
    | some letters, some numbers, some equiv =>
      if letters.length != equiv.length || numbers.length != equiv.length then "bad-op" else
      let sets := sortSets (wyckoffSets letters numbers equiv)
      "|".intercalate (sets.map fun s => toString s.letter ++ ":" ++ toString s.number ++ ":" ++ ".".intercalate (s.indices.map toString))
    | _, _, _ => "bad-op"
  | _ => "bad-op"

/-- `idstring <number> <0|1> <s1|s2|…>` with '_' for the blanks inside the set strings -/
def opIdString (args : List String) : String :=
  match args with
  | [numS, twoS, setsS] =>
    match numS.toNat?, parseBool? twoS with
    | some n, some t =>
      let strs := if setsS == "-" then [] else (setsS.splitOn "|").map fun s => s.replace "_" " "
      Matid.Select.idStringExec n strs t
    | _, _ => "bad-op"
  | _ => "bad-op"

def step (line : String) : String :=
  match words line with
  | "radii" :: args => opRadii args
  | "chiral" :: args => opChiral args
  | "prim" :: args => opPrim args
  | "wparams" :: args => opWParams args
  | "select" :: args => opSelect args
  | "applynorm" :: args => opApplyNorm args
  | "sets" :: args => opSets args
  | "idstring" :: args => opIdString args
  | _ => "bad-op"

partial def loop (h : IO.FS.Stream) (out : IO.FS.Stream) : IO Unit := do
  let line ← h.getLine
  if line.isEmpty then return ()
  let l := (line.dropRightWhile (fun c => c == '\n' || c == '\r'))
  out.putStrLn (step l)
  loop h out

def main : IO Unit := do
  let stdin ← IO.getStdin
  let stdout ← IO.getStdout
  loop stdin stdout
  stdout.flush
