/-
Line-protocol driver: one operation per input line, one output line per operation.
Run as `.lake/build/bin/driver < ops.txt` (compiled; nothing imported here touches Mathlib)
or `lake env lean --run Driver.lean < ops.txt`.
-/
import MatidModel
import MatidGen

open Matid Matid.Parse

def opRadii (args : List String) : String :=
  open Matid.Radii MatidGen.Radii in
  match args with
  | [name, z] =>
    match z.toNat? with
    | none => "bad-op"
    | some z =>
      let p? : Option Preset :=
        if name == "covalent" then some preset_covalent
        else if name == "vdw" then some preset_vdw
        else if name == "vdw_covalent" then some preset_vdw_covalent
        else none
      match p? with
      | none => "bad-op"
      | some p => showR (p.resolve tables z)
  | _ => "bad-op"

/-- `chiral m;m;…` with m = nine comma-separated integers (row major) -/
def opChiral (args : List String) : String :=
  open Matid.Chirality in
  match args with
  | [ms] =>
    let mats := (ms.splitOn ";").mapM fun m => (parseList? parseInt? m).bind parseMat3?
    match mats with
    | some l => showBool (isChiral l)
    | none => "bad-op"
  | _ => "bad-op"

def step (line : String) : String :=
  match words line with
  | "radii" :: args => opRadii args
  | "chiral" :: args => opChiral args
  | _ => "bad-op"

partial def loop (h : IO.FS.Stream) (out : IO.FS.Stream) : IO Unit := do
  let line ← h.getLine
  if line.isEmpty then return ()
  let l := (line.dropRightWhile (fun c => c == '\n' || c == '\r'))
  out.putStrLn (step l)
  loop h out

def main : IO Unit := do
  let stdin ← IO.getStdin
  let stdout ← IO.getStdout
  loop stdin stdout
  stdout.flush
