/-
Line-protocol driver: one operation per input line, one output line per operation.
Run as `.lake/build/bin/driver < ops.txt` (compiled; nothing imported here touches Mathlib)
or `lake env lean --run Driver.lean < ops.txt`.
-/
import MatidModel
-- only the small generated definitions the ops need: the driver must build even when a table theorem fails
import MatidGen.Radii
import MatidGen.Centring
import MatidGen.WyckoffRule
import MatidGen.DimRule
import MatidGen.ClusterRule
import MatidGen.AnalyzerRule
import MatidGen.SbcRule
import MatidGen.ProtoRule
import MatidGen.RegionRule
import MatidGen.AssembleRule

open Matid Matid.Parse

def opRadii (args : List String) : String :=
  open Matid.Radii MatidGen.Radii in
  match args with
  | [name, z] =>
    match z.toNat? with
    | none => "bad-op"
    | some z =>
      let p? : Option Preset :=
        if name == "covalent" then some preset_covalent
        else if name == "vdw" then some preset_vdw
        else if name == "vdw_covalent" then some preset_vdw_covalent
        else none
      match p? with
      | none => "bad-op"
      | some p => showR (p.resolve tables z)
  | _ => "bad-op"

/-- `chiral m;m;…` with m = nine comma-separated integers (row major) -/
def opChiral (args : List String) : String :=
  open Matid.Chirality in
  match args with
  | [ms] =>
    let mats := (ms.splitOn ";").mapM fun m => (parseList? parseInt? m).bind parseMat3?
    match mats with
    | some l => showBool (isChiral l)
    | none => "bad-op"
  | _ => "bad-op"

/-- `prim <letter> <mapping> <cell: 9 rationals> <frac: 3 rationals per atom>` -/
def opPrim (args : List String) : String :=
  open Matid.Primitive Matid.Chirality in
  match args with
  | [letter, mapS, cellS, fracS] =>
    match parseList? parseNat? mapS, parseList? parseRat? cellS, parseList? parseRat? fracS with
    | some mapping, some [a1, a2, a3, b1, b2, b3, c1, c2, c3], some fr =>
      if fr.length != 3 * mapping.length then "bad-op" else
      let code := (letter.toList.headD 'P').toNat
      let idxs := (npUniqueFirst (mapping.zipIdx)).map (·.2)
      if code == 80 then
        "P idx=" ++ showList toString (List.range mapping.length)
      else match MatidGen.Centring.letters.find? (fun p => p.1 == code) with
        | none => "KeyError"
        | some (_, six) =>
          let t := MatidGen.Centring.usesTranspose
          let (pa, pb, pc) := primCell six t (a1, a2, a3) (b1, b2, b3) (c1, c2, c3)
          let cellOut := [pa.1, pa.2.1, pa.2.2, pb.1, pb.2.1, pb.2.2, pc.1, pc.2.1, pc.2.2]
          let fracs := idxs.flatMap fun i =>
            let f := primFrac six t (fr.getD (3 * i) 0, fr.getD (3 * i + 1) 0, fr.getD (3 * i + 2) 0)
            [f.1, f.2.1, f.2.2]
          "idx=" ++ showList toString idxs ++ " cell=" ++ showList showRat cellOut ++ " frac=" ++ showList showRat fracs
    | _, _, _ => "bad-op"
  | _ => "bad-op"

/-- `wparams <exprs packed> <cents packed> <mask> <cell 9 rationals> <precision> <atoms 3n rationals>` -/
def opWParams (args : List String) : String :=
  open Matid.WyckoffParams Matid.Table in
  match args with
  | [exS, ceS, maskS, cellS, precS, atomsS] =>
    match parseList? parseNat? exS, parseList? parseNat? ceS, maskS.toNat?, parseList? parseRat? cellS, parseRat? precS, parseList? parseRat? atomsS with
    | some ex, some ce, some mask, some [a1, a2, a3, b1, b2, b3, c1, c2, c3], some prec, some ats =>
      if ats.length % 3 != 0 then "bad-op" else
      let atoms : List V3 := (List.range (ats.length / 3)).map fun i => (ats.getD (3 * i) 0, ats.getD (3 * i + 1) 0, ats.getD (3 * i + 2) 0)
      let cell : V3 × V3 × V3 := ((a1, a2, a3), (b1, b2, b3), (c1, c2, c3))
      match solveParams MatidGen.WyckoffRule.rule MatidGen.WyckoffRule.firstTol (ex.map decode) (ce.map decode) mask cell atoms prec with
      | none => "ValueError"
      | some W =>
        let vals := [(0, "x", W.1), (1, "y", W.2.1), (2, "z", W.2.2)].filter (fun p => hasVar mask p.1)
        if vals.isEmpty then "no-variables" else
        ";".intercalate (vals.map fun p => p.2.1 ++ "=" ++ showRat (wrapParam p.2.2))
    | _, _, _, _, _, _ => "bad-op"
  | _ => "bad-op"

def parsePerm? (s : String) : Option (List (Nat × Nat)) :=
  parseList? (fun kv => match kv.splitOn ":" with
    | [a, b] => do let x ← a.toNat?; let y ← b.toNat?; pure (x, y)
    | _ => none) s

/-- `select <perm;perm;…|-> <letters> <numbers>`; each perm = comma separated `old:new` character codes -/
def opSelect (args : List String) : String :=
  open Matid.Select in
  match args with
  | [permsS, lettersS, numbersS] =>
    let perms? : Option (List (List (Nat × Nat))) := if permsS == "-" then some [] else (permsS.splitOn ";").mapM parsePerm?
    match perms?, parseList? parseNat? lettersS, parseList? parseNat? numbersS with
    | some perms, some letters, some numbers =>
      if letters.length != numbers.length then "bad-op" else
      match selectRep perms letters numbers with
      | .ok i => "ok " ++ toString i
      | .error .matid => "MatIDError"
      | .error .key => "KeyError"
    | _, _, _ => "bad-op"
  | _ => "bad-op"

/-- `permletters <perm> <letters>` : the letters of the original atoms carried through the chosen normalizer's permutation
(get_wyckoff_letters_original); `KeyError` when a letter has no image -/
def opPermLetters (args : List String) : String :=
  open Matid.Select in
  match args with
  | [permS, lettersS] =>
    match parsePerm? permS, parseList? parseNat? lettersS with
    | some perm, some letters =>
      match letters.mapM (applyPerm perm) with
      | some l => ",".intercalate (l.map toString)
      | none => "KeyError"
    | _, _ => "bad-op"
  | _ => "bad-op"

/-- `applynorm <packed map> <3n rationals>` : transformed and wrapped fractional coordinates -/
def opApplyNorm (args : List String) : String :=
  open Matid.Select Matid.Table in
  match args with
  | [mapS, posS] =>
    match mapS.toNat?, parseList? parseRat? posS with
    | some m, some ps =>
      if ps.length % 3 != 0 then "bad-op" else
      let n := decode m
      let out := (List.range (ps.length / 3)).flatMap fun i =>
        let q := applyNorm n (ps.getD (3 * i) 0, ps.getD (3 * i + 1) 0, ps.getD (3 * i + 2) 0)
        [q.1, q.2.1, q.2.2]
      showList showRat out
    | _, _ => "bad-op"
  | _ => "bad-op"

/-- `sets <letters> <numbers> <equiv>` : sorted Wyckoff sets `letter:number:i.j.k|…` -/
def opSets (args : List String) : String :=
  open Matid.Select in
  match args with
  | [lettersS, numbersS, equivS] =>
    match parseList? parseNat? lettersS, parseList? parseNat? numbersS, parseList? parseNat? equivS with
    | some letters, some numbers, some equiv =>
      if letters.length != equiv.length || numbers.length != equiv.length then "bad-op" else
      let sets := sortSets (wyckoffSets letters numbers equiv)
      "|".intercalate (sets.map fun s => toString s.letter ++ ":" ++ toString s.number ++ ":" ++ ".".intercalate (s.indices.map toString))
    | _, _, _ => "bad-op"
  | _ => "bad-op"

/-- `idstring <number> <0|1> <s1|s2|…>` with '_' for the blanks inside the set strings -/
def opIdString (args : List String) : String :=
  match args with
  | [numS, twoS, setsS] =>
    match numS.toNat?, parseBool? twoS with
    | some n, some t =>
      let strs := if setsS == "-" then [] else (setsS.splitOn "|").map fun s => s.replace "_" " "
      Matid.Select.idStringExec n strs t
    | _, _ => "bad-op"
  | _ => "bad-op"

section geom
open Matid.Geom

def parseV3s? (s : String) : Option (List V3) := do
  let l ← parseList? parseRat? s
  if l.length % 3 != 0 then none else
  pure ((List.range (l.length / 3)).map fun i => (l.getD (3 * i) 0, l.getD (3 * i + 1) 0, l.getD (3 * i + 2) 0))

def parseCell? (s : String) : Option Cell := do
  match ← parseV3s? s with
  | [a, b, c] => pure { a := a, b := b, c := c }
  | _ => none

def parsePbc? (s : String) : Option Pbc :=
  match s.toList with
  | [x, y, z] => some { x := x == '1', y := y == '1', z := z == '1' }
  | _ => none

def parseCutoff? (s : String) : Option (Option Rat) := if s == "inf" then some none else (parseRat? s).map some

def showF (f : Int × Int × Int) : String := s!"{f.1},{f.2.1},{f.2.2}"
def showV (v : V3) : String := showRat v.1 ++ "," ++ showRat v.2.1 ++ "," ++ showRat v.2.2

/-- `withinbasis <cell> <pbc> <basis> <origin> <tol> <mask abc as 0/1> <positions>` — get_positions_within_basis -/
def opWithinBasis (args : List String) : String :=
  open Matid.WithinBasis in
  match args with
  | [cs, ps, bs, os, ts, ms, pos] =>
    match parseCell? cs, parsePbc? ps, parseCell? bs, parseV3s? os, parseRat? ts, ms.toList, parseV3s? pos with
    | some c, some p, some b, some [o], some tol, [ma, mb, mc], some positions =>
      match positionsWithinBasis positions c p b o tol { a := ma == '1', b := mb == '1', c := mc == '1' } with
      | none => "singular"
      | some l => if l.isEmpty then "-" else ";".intercalate (l.map fun f => toString f.index ++ ":" ++ showF f.factor ++ ":" ++ showV f.rel)
    | _, _, _, _, _, _, _ => "bad-op"
  | _ => "bad-op"

/-- `adaptcell <cell> <idx> <pNode> <fNode> <add: - | n:px,py,pz:g1,g2,g3> <sub: same> <span>` : one adaptive cell vector of
_find_proto_cell_3d -/
def opAdaptCell (args : List String) : String :=
  open Matid.Adaptive in
  let pf (s : String) : Option F3 := match (s.splitOn ",").mapM String.toInt? with
    | some [a, b, c] => some (a, b, c)
    | _ => none
  let pn (s : String) : Option (Option (Nat × V3 × F3)) :=
    if s == "-" then some none else
    match s.splitOn ":" with
    | [n, p, g] => match n.toNat?, parseV3s? p, pf g with
      | some n, some [p], some g => some (some (n, p, g))
      | _, _, _ => none
    | _ => none
  match args with
  | [cs, idx, pN, fN, addS, subS, spanS] =>
    match parseCell? cs, idx.toNat?, parseV3s? pN, pf fN, pn addS, pn subS, parseV3s? spanS with
    | some c, some idx, some [pN], some fN, some add, some sub, some [span] => showV (adaptiveVector c idx pN fN add sub span)
    | _, _, _, _, _, _, _ => "bad-op"
  | _ => "bad-op"

/-- `region <is2d> <tol2> <seed> <seedPos> <basis> <positions> <fuel> <oracles>` : region tracking on recorded oracle answers.
oracles: entries separated by `|`, each `found;substs;vacs;S|N;sfound;sdisps` (`_` = None) -/
def opRegion (args : List String) : String :=
  open Matid.Region in
  let pOpt (s : String) : Option (Option Nat) := if s == "_" then some none else (s.toNat?).map some
  let pOracle (s : String) : Option (RecO × SeedO) :=
    match s.splitOn ";" with
    | [f, su, v, _, sf, sd] => do
      let found ← parseList? pOpt f
      let substs ← parseList? pOpt su
      let vacs ← parseV3s? v
      let sfound ← parseList? pOpt sf
      let sdisps ← parseV3s? sd
      let disps := (sfound.zip sdisps).map fun (m, d) => if m.isSome then some d else none
      pure ({ found := found, substs := substs, vacs := vacs }, { found := sfound, disps := disps })
    | _ => none
  let sOpt (o : Option Nat) : String := match o with | some n => toString n | none => "_"
  let sCell (c : Cell) : String := showV c.a ++ "," ++ showV c.b ++ "," ++ showV c.c
  match args with
  | [d2, tolS, seedS, spS, bS, posS, fuelS, orS] =>
    match parseBool? d2, parseRat? tolS, seedS.toNat?, parseV3s? spS, parseCell? bS, parseV3s? posS, fuelS.toNat?,
          (if orS == "-" then some [] else (orS.splitOn "|").mapM pOracle) with
    | some is2d, some tol2, some seed, some [sp], some basis, some pos, some fuel, some os =>
      let st := findRegion MatidGen.RegionRule.rule is2d pos tol2 seed sp basis fuel os
      let units := st.units.map fun u =>
        showF u.index ++ ":" ++ sOpt u.seed ++ ":" ++ showV u.seedPos ++ ":" ++ sCell u.cell ++ ":" ++ showList sOpt u.basis ++ ":" ++
          showList sOpt u.substs ++ ":" ++ toString u.vacs.length
      let icm := (basisIndices st.units ++ (st.icm.map (·.1))).eraseDups.filterMap fun i => (icmGet st.icm i).map fun c => toString i ++ "=" ++ showF c
      let edges := st.edges.map fun e => showF e.1 ++ ">" ++ showF e.2.1 ++ ">" ++ showF e.2.2
      s!"{st.calls};{st.seedCalls};{st.queue.length} " ++ (if units.isEmpty then "-" else "|".intercalate units) ++ " " ++
        (if icm.isEmpty then "-" else "|".intercalate icm) ++ " " ++ (if edges.isEmpty then "-" else "|".intercalate edges) ++ " " ++
        showList toString (basisIndices st.units) ++ " " ++ String.join ((connectedDirections st.edges).map showBool)
    | _, _, _, _, _, _, _, _ => "bad-op"
  | _ => "bad-op"

/-- `assemble <two 0/1> <seedGroup> <cells> <groups> <nums>` : basis assembly of _find_proto_cell_3d / _2d.
cells: `|`-separated `nodes;positions` (nodes = flat integers i,f1,f2,f3,…; positions flat rationals); groups: `|`-separated flat nodes -/
def opAssemble (args : List String) : String :=
  open Matid.Assemble in
  let pNodes (s : String) : Option (List Node) := do
    let l ← parseList? String.toInt? s
    if l.length % 4 != 0 then none else
    pure ((List.range (l.length / 4)).map fun i => ((l.getD (4 * i) 0).toNat, (l.getD (4 * i + 1) 0, l.getD (4 * i + 2) 0, l.getD (4 * i + 3) 0)))
  let pCell (s : String) : Option Inside :=
    match s.splitOn ";" with
    | [n, p] => do pure { nodes := ← pNodes n, pos := ← parseV3s? p }
    | _ => none
  match args with
  | [twoS, sgS, cellsS, groupsS, numsS] =>
    match parseBool? twoS, sgS.toNat?, (if cellsS == "-" then some [] else (cellsS.splitOn "|").mapM pCell),
          (if groupsS == "-" then some [] else (groupsS.splitOn "|").mapM pNodes), parseList? String.toNat? numsS with
    | some two, some sg, some cells, some groups, some nums =>
      let o := assemble MatidGen.AssembleRule.rule two cells groups nums sg
      (if o.atoms.isEmpty then "-" else "|".intercalate (o.atoms.map fun a => toString a.1 ++ ":" ++ showV a.2)) ++ " " ++
        (match o.seedIndex with | some i => toString i | none => "None")
    | _, _, _, _, _ => "bad-op"
  | _ => "bad-op"

/-- `spangraph <seed> <nNeigh-for-rule> <neigh nodes flat> <periodicShort bits | -> <best combo | -> <spans>` : span loop, metric filter and
_find_graphs.  spans: `|`-separated `add;sub`, entries `,`-separated, each `_` (no match: copy index irrelevant) or `i:f1:f2:f3` -/
def opSpanGraph (args : List String) : String :=
  open Matid.SpanGraph in
  let pNodes (s : String) : Option (List Node) := do
    let l ← parseList? String.toInt? s
    if l.length % 4 != 0 then none else
    pure ((List.range (l.length / 4)).map fun i => ((l.getD (4 * i) 0).toNat, (l.getD (4 * i + 1) 0, l.getD (4 * i + 2) 0, l.getD (4 * i + 3) 0)))
  let pEntry (s : String) : Option (Option Nat × F3) :=
    if s == "_" then some (none, (0, 0, 0)) else
    match (s.splitOn ":").mapM String.toInt? with
    | some [i, a, b, c] => some (some i.toNat, (a, b, c))
    | _ => none
  let pSpan (s : String) : Option SpanO :=
    match s.splitOn ";" with
    | [a, b] => do pure { add := ← parseList? pEntry a, sub := ← parseList? pEntry b }
    | _ => none
  let sNode (n : Node) : String := s!"{n.1},{n.2.1},{n.2.2.1},{n.2.2.2}"
  let sPairs (l : List (Node × Node)) : String := if l.isEmpty then "-" else ";".intercalate (l.map fun e => sNode e.1 ++ ">" ++ sNode e.2)
  match args with
  | [seedS, neighS, perS, comboS, spansS] =>
    match seedS.toNat?, pNodes neighS, (if perS == "-" then some [] else some (perS.toList.map (· == '1'))), parseList? String.toNat? comboS,
          (if spansS == "-" then some [] else (spansS.splitOn "|").mapM pSpan) with
    | some seed, some neigh, some per, some combo, some spans =>
      let adjs := allAdj neigh spans per
      let metrics := adjs.map (·.metric)
      let valid := Matid.Proto.validSpans MatidGen.ProtoRule.spanRule metrics neigh.length
      let chosen := combo.filterMap fun c => (valid[c]?).bind fun i => adjs[i]?
      let groups := if chosen.length == combo.length && !combo.isEmpty then findGraphs chosen neigh seed else none
      let lt (a b : Node) : Bool := a.1 < b.1 || (a.1 == b.1 && (a.2.1 < b.2.1 || (a.2.1 == b.2.1 && (a.2.2.1 < b.2.2.1 || (a.2.2.1 == b.2.2.1 && a.2.2.2 < b.2.2.2)))))
      showList toString metrics ++ " " ++ showList toString valid ++ " " ++
        (if chosen.isEmpty then "-" else "|".intercalate (chosen.map fun a => sPairs a.add ++ "/" ++ sPairs a.sub ++ "/" ++ sPairs a.all)) ++ " " ++
        (match groups with
         | none => "None None"
         | some g => "|".intercalate (g.groups.map fun c => ";".intercalate ((c.toArray.qsort lt).toList.map sNode)) ++ " " ++
                     (match g.seedGroup with | some i => toString i | none => "None"))
    | _, _, _, _, _ => "bad-op"
  | _ => "bad-op"

/-- `bestbasis <sin2> <tol> <metrics> <spans flat> <real choice>` : _find_best_basis.  Output: the model's choice, then four bits for
the REAL choice (admissible angles, maximal metric sum, volume/area within the tolerance of the smallest, most orthogonal — the last two
with a relative slack of 1e-9 for ties that floating point breaks differently) -/
def opBestBasis (args : List String) : String :=
  open Matid.BestBasis in
  match args with
  | [s2S, tolS, mS, spS, realS] =>
    match parseRat? s2S, parseRat? tolS, parseList? String.toNat? mS, parseV3s? spS, parseList? String.toNat? realS with
    | some sin2, some tol, some metrics, some spans, some real =>
      let p : Params := { sin2 := sin2, tol := tol }
      let eps : Rat := 1 / 1000000000
      let v (i : Nat) : V3 := spans.getD i (0, 0, 0)
      let choice := bestBasis p spans metrics
      let bits : String :=
        match real with
        | [i, j, k] =>
          let c := (i, j, k)
          let mn := (minRat ((max3 p spans metrics).map (vol3 spans))).getD 0
          let mo := (minRat ((small3 p spans metrics).map (orth3 spans))).getD 0
          showBool ((adm3 p spans).contains c) ++ showBool ((max3 p spans metrics).contains c) ++ showBool (decide (vol3 spans c ≤ (1 + p.tol) * mn * (1 + eps))) ++
            showBool (decide (orth3 spans c ≤ mo + eps))
        | [i, j] =>
          let c := (i, j)
          let mn := (minRat ((max2 p spans metrics).map (area2 spans))).getD 0
          let mxs := (minRat ((small2 p spans metrics).map fun c => -sin2Of spans c)).getD 0
          showBool ((adm2 p spans).contains c) ++ showBool ((max2 p spans metrics).contains c) ++
            showBool (decide (area2 spans c < (1 + p.tol) * (1 + p.tol) * mn * (1 + eps))) ++ showBool (decide (-sin2Of spans c ≤ mxs + eps))
        | [i] =>
          let mn := (minRat ((List.range spans.length).map fun t => V3.norm2 (v t))).getD 0
          "11" ++ showBool (decide (V3.norm2 (v i) ≤ mn * (1 + eps))) ++ "1"
        | _ => "0000"
      showList toString choice ++ " " ++ bits
    | _, _, _, _, _ => "bad-op"
  | _ => "bad-op"

/-- `extend <cell> <pbc> <cutoff> <positions>` -/
def opExtend (args : List String) : String :=
  match args with
  | [cs, ps, cut, pos] =>
    match parseCell? cs, parsePbc? ps, parseRat? cut, parseV3s? pos with
    | some c, some p, some cutoff, some positions =>
      match extendSystem positions c p cutoff with
      | .error .negativeCutoff => "ValueError"
      | .error .degenerate => "degenerate"
      | .ok l => ";".intercalate (l.map fun a => toString a.index ++ ":" ++ showF a.factor ++ ":" ++ showV a.pos)
    | _, _, _, _ => "bad-op"
  | _ => "bad-op"

/-- `query <cell> <pbc> <extension> <cutoff|inf> <positions> <q>` ; also prints whether the 27-bin search
agrees with the brute-force specification -/
def opQuery (args : List String) : String :=
  match args with
  | [cs, ps, ext, cut, pos, qs] =>
    match parseCell? cs, parsePbc? ps, parseRat? ext, parseCutoff? cut, parseV3s? pos, parseV3s? qs with
    | some c, some p, some extension, some cutoff, some positions, some [q] =>
      match getCellList positions c p extension cutoff with
      | .error .value => "ValueError"
      | .error .degenerate => "degenerate"
      | .ok cl =>
        let r := cl.query q
        let spec := cl.querySpec q
        let agree := (r.map (·.ext)) == (spec.map (·.ext))
        (if agree then "" else "BINS-DIFFER-FROM-SPEC ") ++
        ";".intercalate (r.map fun n => toString n.ext ++ ":" ++ toString n.index ++ ":" ++ showRat n.dist2 ++ ":" ++ showV n.disp ++ ":" ++ showF n.factor)
    | _, _, _, _, _, _ => "bad-op"
  | _ => "bad-op"

/-- `disp <cell> <pbc> <cutoff|inf> <positions>` : entries (i, j), j < i -/
def opDisp (args : List String) : String :=
  match args with
  | [cs, ps, cut, pos] =>
    match parseCell? cs, parsePbc? ps, parseCutoff? cut, parseV3s? pos with
    | some c, some p, some cutoff, some positions =>
      match tensorCellList positions c p cutoff with
      | .error .value => "ValueError"
      | .error .degenerate => "degenerate"
      | .ok cl =>
        let n := positions.length
        let entries := (List.range n).flatMap fun i => (List.range i).map fun j =>
          match pairEntry cl (positions.getD i V3.zero) j with
          | none => s!"{i},{j}:inf"
          | some e => s!"{i},{j}:" ++ showRat e.dist2 ++ ":" ++ "|".intercalate (e.factors.map showF)
        ";".intercalate entries
    | _, _, _, _ => "bad-op"
  | _ => "bad-op"

/-- `match <cell> <pbc> <extension> <cutoff> <tol> <positions> <numbers> <q> <z>` -/
def opMatch (args : List String) : String :=
  match args with
  | [cs, ps, ext, cut, tolS, pos, nums, qs, zs] =>
    match parseCell? cs, parsePbc? ps, parseRat? ext, parseCutoff? cut, parseRat? tolS, parseV3s? pos, parseList? parseNat? nums, parseV3s? qs, zs.toNat? with
    | some c, some p, some extension, some cutoff, some tol, some positions, some numbers, some [q], some z =>
      match getCellList positions c p extension cutoff with
      | .error .value => "ValueError"
      | .error .degenerate => "degenerate"
      | .ok cl =>
        let r := getMatch cl c numbers q z tol
        let k := match r.kind with | .hit => "match" | .substitution => "substitution" | .vacancy => "vacancy"
        k ++ ":" ++ "|".intercalate (r.answers.map fun a => toString a.1 ++ "/" ++ showF a.2)
    | _, _, _, _, _, _, _, _, _ => "bad-op"
  | _ => "bad-op"

/-- `dim <cell> <pbc> <threshold> <radii> <positions>` -/
def opDim (args : List String) : String :=
  match args with
  | [cs, ps, thrS, radS, pos] =>
    match parseCell? cs, parsePbc? ps, parseRat? thrS, parseList? parseRat? radS, parseV3s? pos with
    | some c, some p, some thr, some radii, some positions =>
      if radii.length != positions.length || positions.isEmpty then "bad-op" else
      match Matid.Dim.getDimensionality MatidGen.DimRule.wrapsFirst positions c p radii thr with
      | .error => "ValueError"
      | .none lab => "None " ++ showList toString lab
      | .dim d lab n2 => toString d ++ " " ++ showList toString lab ++ " n2x=" ++ toString n2
    | _, _, _, _, _ => "bad-op"
  | _ => "bad-op"

/-- `scaled <cell> <pbc> <wrap 0|1> <points>` / `cartesian <cell> <pbc> <wrap 0|1> <fracs>` -/
def opFrame (toScaledOp : Bool) (args : List String) : String :=
  open Matid.Frame in
  match args with
  | [cs, ps, ws, pts] =>
    match parseCell? cs, parsePbc? ps, parseBool? ws, parseV3s? pts with
    | some c, some p, some w, some l =>
      if toScaledOp then
        match l.mapM (fun x => toScaledW c x w p) with
        | some r => ";".intercalate (r.map showV)
        | none => "singular"
      else ";".intercalate (l.map fun x => showV (toCartesianW c x w p))
    | _, _, _, _ => "bad-op"
  | _ => "bad-op"

/-- `mincell <cell> <axis> <minSize> <s or -> <fracs>` : decision (inflate or not) and, for the given scale s
(extent when not inflated), the new cell row and fractional coordinates -/
def opMinCell (args : List String) : String :=
  open Matid.Frame in
  match args with
  | [cs, axS, msS, sS, frS] =>
    match parseCell? cs, axS.toNat?, parseRat? msS, parseV3s? frS with
    | some c, some ax, some ms, some fr =>
      if fr.isEmpty || ax > 2 then "bad-op" else
      let infl := inflates c fr ax ms
      let (lo, hi) := extent fr ax
      let s? : Option Rat := if infl then parseRat? sS else some (hi - lo)
      match s? with
      | none => "inflated=1 need-s"
      | some s =>
        if s == 0 then "inflated=" ++ showBool infl ++ " zero-scale" else
        let (nc, nf) := minimizedWith c fr ax s infl
        "inflated=" ++ showBool infl ++ " row=" ++ showV (nc.row ax) ++ " fracs=" ++ ";".intercalate (nf.map showV)
    | _, _, _, _ => "bad-op"
  | _ => "bad-op"

/-- `inertia <centre> <positions> <weights>` -/
def opInertia (args : List String) : String :=
  match args with
  | [cS, pS, wS] =>
    match parseV3s? cS, parseV3s? pS, parseList? parseRat? wS with
    | some [c], some ps, some ws =>
      let t := Matid.Frame.inertia c ps ws
      ",".intercalate ([t.1, t.2.1, t.2.2.1, t.2.2.2.1, t.2.2.2.2.1, t.2.2.2.2.2].map showRat)
    | _, _, _ => "bad-op"
  | _ => "bad-op"

end geom

/-- `cluster <initial indices a.b.c> <ops: M | D | S:a.b.c separated by ;>` -/
def opCluster (args : List String) : String :=
  open Matid.ClusterCache in
  let parseIdx (s : String) : Option (List Nat) := if s == "" || s == "-" then some [] else (s.splitOn ".").mapM String.toNat?
  let showIdx (l : List Nat) : String := if l.isEmpty then "-" else ".".intercalate (l.map toString)
  match args with
  | [initS, opsS] =>
    let ops? : Option (List Op) := (opsS.splitOn ";").mapM fun o =>
      if o == "M" then some Op.getMatrix else if o == "D" then some Op.getDim
      else match o.splitOn ":" with
        | ["S", l] => (parseIdx l).map Op.setIndices
        | _ => none
    match parseIdx initS, ops? with
    | some l, some ops =>
      let (_, outs) := run MatidGen.ClusterRule.invalidatesOnSet (init l) ops
      "|".intercalate (outs.map fun o => match o with
        | .unit => "-"
        | .matrix m => "M:" ++ showIdx m
        | .dim m a => "D:" ++ showIdx m ++ "/" ++ showIdx a)
    | _, _ => "bad-op"
  | _ => "bad-op"

/-- `ahist <v0> <ops: S:<version> | G:<getter> separated by ;>` — history of one SymmetryAnalyzer object; for every getter
call the versions of the structure its memoised ingredients belong to (a single number = fresh) -/
def opAHist (args : List String) : String :=
  open Matid.Analyzer in
  let rule : Rule := { cached := MatidGen.AnalyzerRule.cachedFields, reset := MatidGen.AnalyzerRule.resetFields,
                       system := MatidGen.AnalyzerRule.systemFields, resetFirst := MatidGen.AnalyzerRule.resetFirst }
  match args with
  | [v0S, opsS] =>
    let ops? : Option (List (Op × Bool)) := (opsS.splitOn ";").mapM fun o =>
      match o.splitOn ":" with
      | ["S", v] => v.toNat?.map fun n => (Op.setSystem n, false)
      | ["G", g] => match MatidGen.AnalyzerRule.getterFields.find? (fun p => p.1 == g) with
        | some p => some (Op.get p.2, true)
        | none => none
      | _ => none
    match v0S.toNat?, ops? with
    | some v0, some ops =>
      let rec go (s : AState) : List (Op × Bool) → List String
        | [] => []
        | (op, isGet) :: rest =>
          let (s', out) := step rule s op
          let tags := (out.map (·.2)).foldl (fun acc t => if acc.contains t then acc else acc ++ [t]) []
          let tags := if tags.isEmpty then [s.sys] else tags
          (if isGet then ",".intercalate (tags.map toString) else "-") :: go s' rest
      "|".intercalate (go (init v0) ops)
    | _, _ => "bad-op"
  | _ => "bad-op"

/-- `protodecide <totalValid> <dim> <seedInGraph> <cellFound> <d3> <nPerSpans> <nPerSel> <tooLong> <d2> <d2retry> <tooThick> <overlap>`
(dimensionalities: a number, `none` or `error`) — acceptance tree of PeriodicFinder._find_proto_cell -/
def opProtoDecide (args : List String) : String :=
  open Matid.Proto in
  let pd (s : String) : Option DimOut := if s == "error" then some .error else if s == "none" then some .none else s.toNat?.map .dim
  let pb (s : String) : Option Bool := if s == "1" then some true else if s == "0" then some false else none
  match args with
  | [tv, dm, sg, cf, d3, np, ns, tl, d2, d2r, tt, ov] =>
    match tv.toNat?, dm.toNat?, pb sg, pb cf, pd d3, np.toNat?, ns.toNat?, pb tl, pd d2, pd d2r, pb tt, pb ov with
    | some tv, some dm, some sg, some cf, some d3, some np, some ns, some tl, some d2, some d2r, some tt, some ov =>
      match protoDecide { totalValid := tv, dim := dm, seedInGraph := sg, cellFound := cf, d3 := d3, nPerSpans := np, nPerSelected := ns,
                          tooLong := tl, d2 := d2, d2retry := d2r, tooThick := tt, overlap := ov } with
      | none => "reject"
      | some a => s!"accept {a.nSpans} {a.nPbc} {a.nPerSelected}"
    | _, _, _, _, _, _, _, _, _, _, _, _ => "bad-op"
  | _ => "bad-op"

/-- `sbcentry <anyScaled 0/1> <min> <max> <f,f,…>` : scale factor of the cell vector and new fractional coordinates along one
non-periodic axis after the entry fix-up of get_clusters (condition of the source required to have the translated standard shape) -/
def opSbcEntry (args : List String) : String :=
  open Matid.SbcEntry in
  if !MatidGen.SbcRule.scaleCond then "unmodelled-condition" else
  match args with
  | [a, lo, hi, fs] =>
    match parseRat? lo, parseRat? hi, parseList? parseRat? fs with
    | some lo, some hi, some fl =>
      showRat (scaleOf outside lo hi) ++ " " ++ ",".intercalate (fl.map fun f => showRat (newFrac outside (a == "1") lo hi f))
    | _, _, _ => "bad-op"
  | _ => "bad-op"

section sbc
open Matid.SBC

def parseDots? (s : String) : Option (List Nat) := if s == "" || s == "-" then some [] else (s.splitOn ".").mapM String.toNat?
def showDots (l : List Nat) : String := if l.isEmpty then "-" else ".".intercalate (l.map toString)

def sortNat (l : List Nat) : List Nat := l.foldl (fun acc x => Matid.Select.insertSorted x acc) []

def parseClu? (s : String) : Option Clu :=
  match s.splitOn ":" with
  | [i, sp, rs, rid, m] => do
    pure { idx := ← parseDots? i, species := ← parseDots? sp, rsize := ← rs.toNat?, rid := ← rid.toNat?, merged := m == "1" }
  | _ => none

def showClu (c : Clu) : String :=
  showDots (sortNat c.idx) ++ ":" ++ showDots (sortNat c.species) ++ ":" ++ toString c.rsize ++ ":" ++ toString c.rid ++ ":" ++ (if c.merged then "1" else "0")

def parseMatrix? (s : String) : Option (List (List Bool)) :=
  if s == "-" then some [] else (s.splitOn ",").mapM fun row => some (row.toList.map (· == '1'))

def matGet (m : List (List Bool)) (i j : Nat) : Bool := (m.getD i []).getD j false

/-- components of the bonding relation restricted to the atoms of `idx` (given in that order) -/
def componentsOf (bonded : List (List Bool)) (idx : List Nat) : List (List Nat) :=
  let adj := idx.map fun i => idx.map fun j => i == j || matGet bonded i j
  let lab := Matid.Dim.components adj
  let labels := sortNat lab
  labels.map fun l => (idx.zip lab).filterMap fun p => if p.2 == l then some p.1 else none

/-- `sbcmerge <numbers> <thr> <clusters ;>` -/
def opSbcMerge (args : List String) : String :=
  match args with
  | [nums, thrS, cl] =>
    match parseList? parseNat? nums, parseRat? thrS, (if cl == "-" then some [] else (cl.splitOn ";").mapM parseClu?) with
    | some numbers, some thr, some cs => ";".intercalate ((mergeClusters numbers thr cs).map showClu)
    | _, _, _ => "bad-op"
  | _ => "bad-op"

/-- `sbclocalize <n> <near matrix> <index lists ;>` -/
def opSbcLocalize (args : List String) : String :=
  match args with
  | [nS, nearS, cl] =>
    match nS.toNat?, parseMatrix? nearS, (if cl == "-" then some [] else (cl.splitOn ";").mapM parseDots?) with
    | some n, some near, some cs => ";".intercalate ((localize (matGet near) n cs).map fun c => showDots (sortNat c))
    | _, _, _ => "bad-op"
  | _ => "bad-op"

/-- `sbcclean <bonded matrix> <index lists ;>` : per cluster the admissible results separated by '|', or `dropped` -/
def opSbcClean (args : List String) : String :=
  match args with
  | [bS, cl] =>
    match parseMatrix? bS, (if cl == "-" then some [] else (cl.splitOn ";").mapM parseDots?) with
    | some bonded, some cs =>
      ";".intercalate (cs.map fun c =>
        let alts := cleanOne (componentsOf bonded c)
        if alts.isEmpty then "dropped" else "|".intercalate (alts.map fun a => showDots (sortNat a)))
    | _, _ => "bad-op"
  | _ => "bad-op"

def parseFinder? (s : String) : Option FinderOut :=
  match s.splitOn "/" with
  | [seed, basis, rid, mask] => do
    let b ← if basis == "none" then some none else (parseDots? basis).map some
    pure { seed := ← seed.toNat?, basis := b, rid := ← rid.toNat?, mask := ← parseDots? mask }
  | _ => none

/-- `sbcrun <numbers> <merge thr> <near matrix> <bonded matrix> <history ;>` : the whole pipeline on a recorded
history of finder outputs -/
def opSbcRun (args : List String) : String :=
  match args with
  | [nums, thrS, nearS, bS, hist] =>
    match parseList? parseNat? nums, parseRat? thrS, parseMatrix? nearS, parseMatrix? bS, (if hist == "-" then some [] else (hist.splitOn ";").mapM parseFinder?) with
    | some numbers, some thr, some near, some bonded, some history =>
      let (rem, cs0) := driver numbers history
      -- the stage order is the one translated from get_clusters; the standard order keeps the set-valued cleaning below
      match MatidGen.SbcRule.pipelineOrder.mapM Stage.ofString? with
      | none => "bad-order"
      | some order =>
      if order != [Stage.merge, Stage.localize, Stage.clean] then
        let e : Env := { numbers := numbers, thr := thr, near := matGet near, comps := componentsOf bonded,
                         pick := fun l => (cleanOne l).head? }
        let out := (pipeline e order cs0).map fun c => showDots (sortNat c.idx) ++ ":" ++ showDots (sortNat c.species) ++ ":" ++ toString c.rid
        "rem=" ++ showDots rem ++ " " ++ (if out.isEmpty then "-" else ";".intercalate out)
      else
      let cs1 := mergeClusters numbers thr cs0
      let idx2 := localize (matGet near) numbers.length (cs1.map (·.idx))
      let out := (cs1.zip idx2).filterMap fun (c, ix) =>
        let alts := cleanOne (componentsOf bonded ix)
        if alts.isEmpty then none
        else some ("|".intercalate (alts.map fun a => showDots (sortNat a)) ++ ":" ++ showDots (sortNat c.species) ++ ":" ++ toString c.rid)
      "rem=" ++ showDots rem ++ " " ++ (if out.isEmpty then "-" else ";".intercalate out)
    | _, _, _, _, _ => "bad-op"
  | _ => "bad-op"

end sbc

/-- `classify <dim|None> <nAtoms> <minCoverage> <regions: none | nBasis.nConn.is2d.rid separated by ;>` -/
def opClassify (args : List String) : String :=
  open Matid.Classifier in
  match args with
  | [dimS, nS, covS, regS] =>
    let dim? : Option (Option Int) := if dimS == "None" then some none else (dimS.toInt?).map some
    let regs? : Option (List (Option RegionInfo)) := if regS == "-" then some [] else (regS.splitOn ";").mapM fun r =>
      if r == "none" then some none else
      match (r.splitOn ".").mapM String.toNat? with
      | some [b, c, t, rid] => some (some { nBasis := b, nConn := c, is2d := t == 1, rid := rid })
      | _ => none
    match dim?, nS.toNat?, parseRat? covS, regs? with
    | some dim, some n, some cov, some regs =>
      let c := classify dim n cov regs
      let name := match c with
        | .unknown => "Unknown" | .atom => "Atom" | .class0D => "Class0D" | .class1D => "Class1D" | .class2D => "Class2D"
        | .surface => "Surface" | .material2D => "Material2D" | .class3D => "Class3D" | .noResult => "NoneType"
      let rid := match dim with
        | some 2 => (match crossValidate n regs none 0 with | some r => r.rid | none => 0)
        | _ => 0
      name ++ " region=" ++ toString rid ++ " calls=" ++ toString (match dim with | some 2 => callsMade n regs | _ => 0)
    | _, _, _, _ => "bad-op"
  | _ => "bad-op"

/-- `detectaxis <i_pbc> <transformation matrix, 9 rationals row major>` and `vacuum2 <extent² · |c|²>` -/
def opDetectAxis (args : List String) : String :=
  match args with
  | [iS, mS] =>
    match iS.toNat?, parseV3s? mS with
    | some i, some rows => match Matid.TwoD.detectAxis rows i with
      | some k => toString k
      | none => "MatIDError"
    | _, _ => "bad-op"
  | _ => "bad-op"

def opVacuum2 (args : List String) : String :=
  match args with
  | [eS] => match parseRat? eS with
    | some e => showRat (Matid.TwoD.vacuumLength2 e)
    | none => "bad-op"
  | _ => "bad-op"

def step (line : String) : String :=
  match words line with
  | "radii" :: args => opRadii args
  | "chiral" :: args => opChiral args
  | "prim" :: args => opPrim args
  | "wparams" :: args => opWParams args
  | "select" :: args => opSelect args
  | "permletters" :: args => opPermLetters args
  | "applynorm" :: args => opApplyNorm args
  | "sets" :: args => opSets args
  | "idstring" :: args => opIdString args
  | "extend" :: args => opExtend args
  | "adaptcell" :: args => opAdaptCell args
  | "region" :: args => opRegion args
  | "assemble" :: args => opAssemble args
  | "spangraph" :: args => opSpanGraph args
  | "bestbasis" :: args => opBestBasis args
  | "withinbasis" :: args => opWithinBasis args
  | "query" :: args => opQuery args
  | "disp" :: args => opDisp args
  | "match" :: args => opMatch args
  | "dim" :: args => opDim args
  | "scaled" :: args => opFrame true args
  | "cartesian" :: args => opFrame false args
  | "mincell" :: args => opMinCell args
  | "inertia" :: args => opInertia args
  | "cluster" :: args => opCluster args
  | "ahist" :: args => opAHist args
  | "sbcentry" :: args => opSbcEntry args
  | "protodecide" :: args => opProtoDecide args
  | "sbcmerge" :: args => opSbcMerge args
  | "sbclocalize" :: args => opSbcLocalize args
  | "sbcclean" :: args => opSbcClean args
  | "sbcrun" :: args => opSbcRun args
  | "classify" :: args => opClassify args
  | "detectaxis" :: args => opDetectAxis args
  | "vacuum2" :: args => opVacuum2 args
  | _ => "bad-op"

partial def loop (h : IO.FS.Stream) (out : IO.FS.Stream) : IO Unit := do
  let line ← h.getLine
  if line.isEmpty then return ()
  let l := (line.dropRightWhile (fun c => c == '\n' || c == '\r'))
  out.putStrLn (step l)
  loop h out

def main : IO Unit := do
  let stdin ← IO.getStdin
  let stdout ← IO.getStdout
  loop stdin stdout
  stdout.flush
