/-
State machine of `matid.clustering.cluster.Cluster`: the index list and its two caches
(`_distance_matrix_radii_mic`, `_dimensionality`).  A dimensionality computation is described symbolically by
the pair (index list the sub-matrix was extracted for, index list of the atoms it is applied to); the fresh
evaluation for a cluster with indices l is the computation (l, l).
-/
namespace Matid.ClusterCache

structure CState where
  indices : List Nat
  cacheM : Option (List Nat)                    -- indices for which the cached sub-matrix was extracted
  cacheD : Option (List Nat × List Nat)         -- the computation whose result is cached as dimensionality
deriving DecidableEq, Repr

inductive Op where
  | getMatrix                 -- _get_distance_matrix_radii_mic()
  | getDim                    -- get_dimensionality()
  | setIndices (l : List Nat) -- cluster.indices = l   (localisation / outlier removal)
deriving DecidableEq, Repr

def init (l : List Nat) : CState := { indices := l, cacheM := none, cacheD := none }

/-- output of an operation: the matrix indices / the dimensionality computation that is returned -/
inductive Out where
  | unit
  | matrix (l : List Nat)
  | dim (m a : List Nat)
deriving DecidableEq, Repr

def step (invalidates : Bool) (s : CState) : Op → CState × Out
  | .getMatrix =>
    match s.cacheM with
    | some l => (s, .matrix l)
    | none => ({ s with cacheM := some s.indices }, .matrix s.indices)
  | .getDim =>
    match s.cacheD with
    | some (m, a) => (s, .dim m a)
    | none =>
      let m := s.cacheM.getD s.indices
      ({ s with cacheM := some m, cacheD := some (m, s.indices) }, .dim m s.indices)
  | .setIndices l =>
    if invalidates then ({ indices := l, cacheM := none, cacheD := none }, .unit)
    else ({ s with indices := l }, .unit)

def run (invalidates : Bool) (s : CState) : List Op → CState × List Out
  | [] => (s, [])
  | op :: ops =>
    let (s', o) := step invalidates s op
    let (s'', os) := run invalidates s' ops
    (s'', o :: os)

/-- the invariant: whatever is cached was computed for the current indices -/
def Fresh (s : CState) : Prop :=
  (s.cacheM = none ∨ s.cacheM = some s.indices) ∧ (s.cacheD = none ∨ s.cacheD = some (s.indices, s.indices))

end Matid.ClusterCache
