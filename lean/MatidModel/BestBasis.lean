/-
`PeriodicFinder._find_best_basis` / `_find_best_2d_basis` (matid/core/periodicfinder.py): the choice of the cell basis among the
valid spans.  Every quantity the code compares is a rational function of the span components once both sides of a comparison are
squared (|a·(b×c)|, |b×c|², |a|², the sine of the angle between a vector and a plane, areas), so the model is exact:
  three spans are admissible when each makes an angle ≥ angle_tol with the plane of the other two;
  among the admissible triples: the largest metric sum, then volume within (1 + cell_size_tol) of the smallest, then the most
  orthogonal (FIRST minimum of 3 − Σ|n̂×n̂|²); without an admissible triple the same for pairs (area, then largest sine); without an
  admissible pair the shortest span.
`sin2` = sin²(angle_tol) and `tol` = cell_size_tol come from the object's configuration.
-/
import MatidModel.Geom

namespace Matid.BestBasis
open Matid.Geom

structure Params where
  sin2 : Rat
  tol : Rat

def det3 (a b c : V3) : Rat := V3.dot a (V3.cross b c)

/-- `alpha ≥ sin(threshold)` for the angle between x and the plane of y, z (NaN comparisons are false: degenerate pairs fail) -/
def planeAngleOk (p : Params) (x y z : V3) : Bool :=
  let n := V3.cross y z
  let d := V3.dot x n
  decide (V3.norm2 n ≠ 0) && decide (V3.norm2 x ≠ 0) && decide (d * d ≥ p.sin2 * V3.norm2 x * V3.norm2 n)

def angleOk3 (p : Params) (a b c : V3) : Bool := planeAngleOk p a b c && planeAngleOk p b c a && planeAngleOk p c a b

/-- |n̂_x × n̂_y|² for the normalised vectors -/
def sinSq (x y : V3) : Rat := V3.norm2 (V3.cross x y) / (V3.norm2 x * V3.norm2 y)

def ortho3 (a b c : V3) : Rat := 3 - sinSq a b - sinSq c a - sinSq b c

def absR (q : Rat) : Rat := if q < 0 then -q else q

/-- `itertools.combinations(range(n), 3)` -/
def combos3 (n : Nat) : List (Nat × Nat × Nat) :=
  (List.range n).flatMap fun i => (List.range n).flatMap fun j => (List.range n).filterMap fun k => if i < j ∧ j < k then some (i, j, k) else none

/-- `np.triu_indices(n, k=1)` -/
def combos2 (n : Nat) : List (Nat × Nat) :=
  (List.range n).flatMap fun i => (List.range n).filterMap fun j => if i < j then some (i, j) else none

/-- first element with the smallest key (`np.argmin`) -/
def argminF {α} (k : α → Rat) : List α → Option α
  | [] => none
  | x :: rest => match argminF k rest with
    | none => some x
    | some y => if k y < k x then some y else some x

/-- first element with the largest key (`np.argmax`) -/
def argmaxF {α} (k : α → Rat) (l : List α) : Option α := argminF (fun x => -k x) l

def maxNat (l : List Nat) : Nat := l.foldl max 0

def minRat (l : List Rat) : Option Rat := argminF id l

def vAt (spans : List V3) (i : Nat) : V3 := spans.getD i (0, 0, 0)
def msum3 (metrics : List Nat) (c : Nat × Nat × Nat) : Nat := metrics.getD c.1 0 + metrics.getD c.2.1 0 + metrics.getD c.2.2 0
def vol3 (spans : List V3) (c : Nat × Nat × Nat) : Rat := absR (det3 (vAt spans c.1) (vAt spans c.2.1) (vAt spans c.2.2))
def orth3 (spans : List V3) (c : Nat × Nat × Nat) : Rat := ortho3 (vAt spans c.1) (vAt spans c.2.1) (vAt spans c.2.2)

/-- triples whose three plane angles are at least the tolerance -/
def adm3 (p : Params) (spans : List V3) : List (Nat × Nat × Nat) :=
  (combos3 spans.length).filter fun c => angleOk3 p (vAt spans c.1) (vAt spans c.2.1) (vAt spans c.2.2)

/-- … with the largest metric sum -/
def max3 (p : Params) (spans : List V3) (metrics : List Nat) : List (Nat × Nat × Nat) :=
  let a := adm3 p spans
  let mx := maxNat (a.map (msum3 metrics))
  a.filter fun c => msum3 metrics c == mx

/-- … with a volume within (1 + tol) of the smallest -/
def small3 (p : Params) (spans : List V3) (metrics : List Nat) : List (Nat × Nat × Nat) :=
  let m := max3 p spans metrics
  match minRat (m.map (vol3 spans)) with
  | some mn => m.filter fun c => decide (vol3 spans c ≤ (1 + p.tol) * mn)
  | none => []

/-- … the most orthogonal of them, the first one in case of a tie -/
def choice3 (p : Params) (spans : List V3) (metrics : List Nat) : Option (Nat × Nat × Nat) :=
  argminF (orth3 spans) (small3 p spans metrics)

def msum2 (metrics : List Nat) (c : Nat × Nat) : Nat := metrics.getD c.1 0 + metrics.getD c.2 0
def area2 (spans : List V3) (c : Nat × Nat) : Rat := V3.norm2 (V3.cross (vAt spans c.1) (vAt spans c.2))
def sin2Of (spans : List V3) (c : Nat × Nat) : Rat := sinSq (vAt spans c.1) (vAt spans c.2)

def adm2 (p : Params) (spans : List V3) : List (Nat × Nat) :=
  (combos2 spans.length).filter fun c =>
    decide (V3.norm2 (vAt spans c.1) ≠ 0) && decide (V3.norm2 (vAt spans c.2) ≠ 0) && decide (sin2Of spans c ≥ p.sin2)

def max2 (p : Params) (spans : List V3) (metrics : List Nat) : List (Nat × Nat) :=
  let a := adm2 p spans
  let mx := maxNat (a.map (msum2 metrics))
  a.filter fun c => msum2 metrics c == mx

def small2 (p : Params) (spans : List V3) (metrics : List Nat) : List (Nat × Nat) :=
  let m := max2 p spans metrics
  match minRat (m.map (area2 spans)) with
  | some mn => m.filter fun c => decide (area2 spans c < (1 + p.tol) * (1 + p.tol) * mn)
  | none => []

def choice2 (p : Params) (spans : List V3) (metrics : List Nat) : Option (Nat × Nat) :=
  argmaxF (sin2Of spans) (small2 p spans metrics)

/-- `_find_best_2d_basis` -/
def best2d (p : Params) (spans : List V3) (metrics : List Nat) : List Nat :=
  match choice2 p spans metrics with
  | some c => [c.1, c.2]
  | none =>
    match argminF (fun i => V3.norm2 (spans.getD i (0, 0, 0))) (List.range spans.length) with
    | some i => [i]
    | none => []

/-- `_find_best_basis` -/
def bestBasis (p : Params) (spans : List V3) (metrics : List Nat) : List Nat :=
  if spans.length == 1 then [0]
  else if spans.length == 2 then best2d p spans metrics
  else match choice3 p spans metrics with
    | some c => [c.1, c.2.1, c.2.2]
    | none => best2d p spans metrics

end Matid.BestBasis
