/-
Model of `matid.geometry.get_dimensionality` (modified topology-scaling algorithm) on top of the
exact-arithmetic geometry model: bonding graph from the minimum-image table of the cell, connected components,
2× supercell along the periodic axes, D = n_pbc − log₂(number of components of the supercell).
-/
import MatidModel.Geom
namespace Matid.Dim
open Matid.Geom

/-- `dist − r_i − r_j ≤ threshold`, decided on squares: s = threshold + r_i + r_j ≥ 0 and d² ≤ s² -/
def bondedBy (d2 : Rat) (ri rj thr : Rat) : Bool :=
  let s := thr + ri + rj
  decide (0 ≤ s) && decide (d2 ≤ s * s)

/-- minimum squared distance to the images of atom j among the neighbours found around atom i -/
def minDist2To (nbs : List Neighbour) (j : Nat) : Option Rat :=
  nbs.foldl (fun acc nb => if nb.index == j then
      (match acc with
       | Option.none => some nb.dist2
       | some m => some (min m nb.dist2)) else acc) Option.none

/-- adjacency of the bonding graph read off the minimum-image table (pairs beyond the cutoff are +∞).
Entry (i, j) with j < i is what `pairEntry cl pos_i j` gives (one 27-bin query per atom i, as in the C++);
the matrix is symmetric by construction of the tensor. -/
def bondMatrix (cl : CellList) (positions : List V3) (radii : List Rat) (thr : Rat) : List (List Bool) :=
  let n := positions.length
  let lower : List (List Bool) := positions.zipIdx.map fun (p, i) =>
    let nbs := cl.query p
    (List.range i).map fun j =>
      match minDist2To nbs j with
      | Option.none => false
      | some d2 => bondedBy d2 (radii.getD i 0) (radii.getD j 0) thr
  (List.range n).map fun i => (List.range n).map fun j =>
    if i == j then true
    else if j < i then (lower.getD i []).getD j false
    else (lower.getD j []).getD i false

/-- connected components by repeated relabelling (n rounds of taking the minimum label over neighbours) -/
def relabelOnce (adj : List (List Bool)) (lab : List Nat) : List Nat :=
  adj.zipIdx.map fun (row, i) =>
    (row.zipIdx.foldl (fun acc (b, j) => if b then min acc (lab.getD j i) else acc) (lab.getD i i))

def components (adj : List (List Bool)) : List Nat :=
  let n := adj.length
  (List.range n).foldl (fun lab _ => relabelOnce adj lab) (List.range n)

def countDistinct (l : List Nat) : Nat := (l.foldl (fun acc x => if acc.contains x then acc else x :: acc) []).length

/-- `system.repeat(repeats)` with repeats = 2 on periodic axes: positions (m0 outer, m2 inner, atoms innermost) -/
def repeat2 (positions : List V3) (cell : Cell) (pbc : Pbc) : List V3 × Cell :=
  let r (b : Bool) : List Int := if b then [0, 1] else [0]
  let pos := (r pbc.x).flatMap fun m0 => (r pbc.y).flatMap fun m1 => (r pbc.z).flatMap fun m2 =>
    positions.map fun p => V3.add p (Cell.comb cell (m0, m1, m2))
  let s (b : Bool) (v : V3) : V3 := if b then V3.smul 2 v else v
  (pos, { a := s pbc.x cell.a, b := s pbc.y cell.b, c := s pbc.z cell.c })

inductive DimResult where
  | error               -- ValueError of the cell list (cutoff ≤ 0) / degenerate cell
  | none (labels : List Nat)        -- several components in the cell
  | dim (d : Int) (labels : List Nat) (n2x : Nat)
deriving Repr

def log2Exact (n : Nat) : Option Nat :=
  if n == 1 then some 0 else if n == 2 then some 1 else if n == 4 then some 2 else if n == 8 then some 3 else Option.none

/-- ASE `Atoms.wrap()` (eps = 1e-7): along periodic axes f ↦ f − ⌊f + eps⌋, i.e. into [−eps, 1 − eps) -/
def wrapAse (cell : Cell) (pbc : Pbc) (p : V3) : V3 :=
  match toScaled cell p with
  | Option.none => p
  | some f =>
    let eps : Rat := 1 / 10000000
    let w (per : Bool) (x : Rat) : Rat := if per then x - ((x + eps).floor : Rat) else x
    toCartesian cell (w pbc.x f.1, w pbc.y f.2.1, w pbc.z f.2.2)

def getDimensionality (wrapsFirst : Bool) (positions0 : List V3) (cell : Cell) (pbc : Pbc) (radii : List Rat) (thr : Rat) : DimResult :=
  let positions := if wrapsFirst then positions0.map (wrapAse cell pbc) else positions0
  let maxr := radii.foldl max (radii.headD 0)
  let cutoff := thr + 2 * maxr
  match tensorCellList positions cell pbc (some cutoff) with
  | .error _ => .error
  | .ok cl =>
    let lab := components (bondMatrix cl positions radii thr)
    if countDistinct lab > 1 then .none lab else
    let npbc := (if pbc.x then 1 else 0) + (if pbc.y then 1 else 0) + (if pbc.z then 1 else 0)
    if npbc == 0 then .dim 0 lab 1 else
    let (pos2, cell2) := repeat2 positions cell pbc
    let reps := pos2.length / positions.length
    let radii2 := (List.range reps).flatMap fun _ => radii
    match tensorCellList pos2 cell2 pbc (some cutoff) with
    | .error _ => .error
    | .ok cl2 =>
      let n2 := countDistinct (components (bondMatrix cl2 pos2 radii2 thr))
      match log2Exact n2 with
      | some l => .dim ((npbc : Int) - l) lab n2
      | Option.none => .dim (-99) lab n2      -- not a power of two: excluded by the covering theorem

end Matid.Dim
