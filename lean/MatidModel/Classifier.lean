/-
Model of the dispatch of `matid.classification.classifier.Classifier.classify`, of `cross_validate_region`,
of the basis/outlier views (classifications.py) and of `LinkedUnitCollection.get_connected_directions`.
The dimensionality (C09) and the regions found by the periodic finder are inputs.
-/
namespace Matid.Classifier

inductive Cls where
  | unknown | atom | class0D | class1D | class2D | surface | material2D | class3D
  | noResult      -- `classification` stays None (dimensionality outside 0..3)
deriving DecidableEq, Repr

structure RegionInfo where
  nBasis : Nat      -- len(region.get_basis_indices())
  nConn : Nat       -- number of cyclically connected directions
  is2d : Bool
  rid : Nat
deriving DecidableEq, Repr

/-- cross_validate_region over the regions found for the (seed, max_cell_size, pos_tol) combinations in call order:
the first region that covers every atom wins at once, otherwise the first one with the most basis atoms -/
def crossValidate (nAtoms : Nat) : List (Option RegionInfo) → Option RegionInfo → Nat → Option RegionInfo
  | [], best, _ => best
  | none :: rest, best, most => crossValidate nAtoms rest best most
  | some r :: rest, best, most =>
    if r.nBasis == nAtoms then some r
    else if r.nBasis > most then crossValidate nAtoms rest (some r) r.nBasis
    else crossValidate nAtoms rest best most

/-- how many finder calls are made before the search stops (all, or up to the first full-coverage region) -/
def callsMade (nAtoms : Nat) : List (Option RegionInfo) → Nat
  | [] => 0
  | none :: rest => 1 + callsMade nAtoms rest
  | some r :: rest => if r.nBasis == nAtoms then 1 else 1 + callsMade nAtoms rest

/-- the 2D branch: refinement by the best region -/
def classify2D (nAtoms : Nat) (minCoverage : Rat) (regions : List (Option RegionInfo)) : Cls :=
  match crossValidate nAtoms regions none 0 with
  | none => .class2D
  | some r =>
    if decide ((r.nBasis : Rat) / nAtoms ≥ minCoverage) && r.nConn == 2 then (if r.is2d then .material2D else .surface)
    else .class2D

def classify (dim : Option Int) (nAtoms : Nat) (minCoverage : Rat) (regions : List (Option RegionInfo)) : Cls :=
  match dim with
  | none => .unknown
  | some d =>
    if d = 0 then (if nAtoms == 1 then .atom else .class0D)
    else if d = 1 then .class1D
    else if d = 2 then classify2D nAtoms minCoverage regions
    else if d = 3 then .class3D
    else .noResult

/-- `outliers` : all atoms that are not basis atoms of the region -/
def outliers (nAtoms : Nat) (basis : List Nat) : List Nat := (List.range nAtoms).filter fun i => !basis.contains i

/-- get_connected_directions: direction d is connected iff some node has incoming search edges with multiplier
+e_d and with −e_d.  Edges are (target node, multiplier). -/
def connectedDirections (edges : List (Nat × (Int × Int × Int))) : Bool × Bool × Bool :=
  let nodes := edges.map (·.1)
  let has (n : Nat) (m : Int × Int × Int) : Bool := edges.any fun e => e.1 == n && e.2 == m
  let conn (p q : Int × Int × Int) : Bool := nodes.any fun n => has n p && has n q
  (conn (1, 0, 0) (-1, 0, 0), conn (0, 1, 0) (0, -1, 0), conn (0, 0, 1) (0, 0, -1))

end Matid.Classifier
