/-
The first half of `PeriodicFinder._find_proto_cell` and `_find_graphs` (matid/core/periodicfinder.py): for every candidate span the
neighbourhood of the seed is probed with `get_matches` at `position ± span` (ORACLE answers here; the function is modelled and
proved in C16), which gives a repetition count ("metric") and adjacency lists between (atom, periodic image) nodes; periodic cell
vectors are added as spans with full metric; the spans are filtered by the metric; and from the adjacency lists of the chosen spans
the atom networks ("groups") of the prototype cell are built: the graph is expanded through the neighbours found in other periodic
images, split into connected components, small components are dropped and the component of the seed atom is identified.
-/
import MatidModel.ProtoDecision

namespace Matid.SpanGraph

abbrev F3 := Int × Int × Int
abbrev Node := Nat × F3

def F3.add (a b : F3) : F3 := (a.1 + b.1, a.2.1 + b.2.1, a.2.2 + b.2.2)
def F3.sub (a b : F3) : F3 := (a.1 - b.1, a.2.1 - b.2.1, a.2.2 - b.2.2)
def F3.unit (k : Nat) : F3 := match k with | 0 => (1, 0, 0) | 1 => (0, 1, 0) | _ => (0, 0, 1)

/-- answers of `get_matches` for one span: per neighbour, the matched atom (if any) and the periodic-copy index reported with it,
for `position + span` and for `position − span` -/
structure SpanO where
  add : List (Option Nat × F3)
  sub : List (Option Nat × F3)

/-- adjacency lists of one span as insertion-ordered multimaps (key, value) -/
structure Adj where
  all : List (Node × Node)
  add : List (Node × Node)
  sub : List (Node × Node)
  metric : Nat

def Adj.empty : Adj := { all := [], add := [], sub := [], metric := 0 }

/-- one neighbour in the loop over the neighbourhood -/
def adjStep (acc : Adj) (x : Node × (Option Nat × F3) × (Option Nat × F3)) : Adj :=
  let key := x.1
  let a1 : Adj := match x.2.1.1 with
    | some i =>
      let v : Node := (i, F3.add key.2 x.2.1.2)
      { acc with all := acc.all ++ [(key, v)], add := acc.add ++ [(key, v)], metric := acc.metric + 1 }
    | none => acc
  match x.2.2.1 with
  | some i =>
    let v : Node := (i, F3.add key.2 x.2.2.2)
    { a1 with all := a1.all ++ [(key, v)], sub := a1.sub ++ [(key, v)], metric := a1.metric + 1 }
  | none => a1

/-- adjacency lists and metric of one candidate span -/
def spanAdj (neigh : List Node) (o : SpanO) : Adj :=
  (neigh.zip (o.add.zip o.sub)).foldl adjStep Adj.empty

def periodicStep (k m : Nat) (acc : Adj) (key : Node) : Adj :=
  let va : Node := (key.1, F3.add key.2 (F3.unit k))
  let vs : Node := (key.1, F3.sub key.2 (F3.unit k))
  { all := acc.all ++ [(key, va), (key, vs)], add := acc.add ++ [(key, va)], sub := acc.sub ++ [(key, vs)], metric := m }

/-- a periodic cell vector as a span: every neighbour is linked to its own images one cell further, in both directions.  `k` is the
position of the vector in the list of PERIODIC cell vectors (as in the code) -/
def periodicAdj (neigh : List Node) (k : Nat) : Adj :=
  neigh.foldl (periodicStep k (2 * neigh.length)) { Adj.empty with metric := 2 * neigh.length }

/-- all spans: the probed ones in order, then the periodic cell vectors that are short enough -/
def allAdj (neigh : List Node) (os : List SpanO) (periodicShort : List Bool) : List Adj :=
  os.map (spanAdj neigh) ++ (periodicShort.zipIdx.filterMap fun (b, k) => if b then some (periodicAdj neigh k) else none)

/-! ### the atom networks -/

def edgesOf (adjs : List Adj) : List (Node × Node) := adjs.flatMap (·.all)

/-- nodes in the order networkx meets them: per key, the key then its values -/
def nodesOf (edges : List (Node × Node)) : List Node := (edges.flatMap fun e => [e.1, e.2]).eraseDups

def nbrs (edges : List (Node × Node)) (v : Node) : List Node :=
  (edges.filterMap fun e => if e.1 == v then some e.2 else if e.2 == v then some e.1 else none).eraseDups

/-- `node_conn`: for a neighbourhood atom (the LAST of its entries that is a node of the graph wins), its graph neighbours as
(atom, image difference) -/
def nodeConn (edges : List (Node × Node)) (neigh : List Node) (atom : Nat) : Option (List (Nat × F3)) :=
  let ns := nodesOf edges
  match (neigh.filter fun n => n.1 == atom && ns.contains n).getLast? with
  | some n => some ((nbrs edges n).map fun w => (w.1, F3.sub w.2 n.2))
  | none => none

/-- edges added by the expansion: every node in another periodic image gets the links its atom has in the neighbourhood -/
def expansion (edges : List (Node × Node)) (neigh : List Node) : List (Node × Node) :=
  (nodesOf edges).flatMap fun v =>
    if v.2 == (0, 0, 0) then [] else
    match nodeConn edges neigh v.1 with
    | some conn => conn.map fun c => (v, (c.1, F3.add v.2 c.2))
    | none => []

/-- breadth-first closure; `fuel` ≥ number of nodes suffices -/
def bfs (edges : List (Node × Node)) : Nat → List Node → List Node → List Node
  | 0, _, vis => vis
  | _ + 1, [], vis => vis
  | f + 1, v :: rest, vis =>
    let new := (nbrs edges v).filter fun w => !vis.contains w
    bfs edges f (rest ++ new) (vis ++ new)

def componentOf (edges : List (Node × Node)) (v : Node) : List Node := bfs edges ((nodesOf edges).length + 1) [v] [v]

def components (edges : List (Node × Node)) : List (List Node) :=
  (nodesOf edges).foldl (fun acc v => if acc.any (·.contains v) then acc else acc ++ [componentOf edges v]) []

structure Groups where
  groups : List (List Node)
  seedGroup : Option Nat

/-- `_find_graphs`: the groups kept (more than half as large as the seed atom's component) and the position of the group holding the
seed atom in the home cell.  `none`: the seed atom is in no component (the code fails with a TypeError there) or nothing is kept -/
def findGraphs (adjs : List Adj) (neigh : List Node) (seed : Nat) : Option Groups :=
  let e0 := edgesOf adjs
  let e1 := e0 ++ expansion e0 neigh
  let comps := components e1
  match (comps.filter fun c => c.any fun n => n.1 == seed).getLast? with
  | none => none
  | some sc =>
    let kept := comps.filter fun c => decide (2 * c.length > sc.length)
    if kept.isEmpty then none else
    some { groups := kept, seedGroup := (kept.zipIdx.filter fun (c, _) => c.contains (seed, (0, 0, 0))).getLast?.map (·.2) }

end Matid.SpanGraph
