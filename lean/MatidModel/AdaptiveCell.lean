/-
The "adaptive" cell vectors of `PeriodicFinder._find_proto_cell_3d` (matid/core/periodicfinder.py): for every copy of the seed atom
(a node = atom index + periodic image) and every basis direction the cell vector is re-measured from the node's first "+span"
neighbour in the search graph, or else from its first "−span" neighbour, or else the average span is kept.
-/
import MatidModel.Geom

namespace Matid.Adaptive
open Matid.Geom

abbrev F3 := Int × Int × Int

/-- Cartesian position of the periodic image `f` of an atom at `p` -/
def imagePos (cell : Cell) (p : V3) (f : F3) : V3 := V3.add p (Cell.comb cell f)

/-- one cell vector, exactly as the code computes it: `multiplier · (displacement + (−node_factor + neighbour_factor)·cell)` -/
def measured (cell : Cell) (pNode : V3) (fNode : F3) (pNb : V3) (fNb : F3) (multiplier : Int) : V3 :=
  V3.smul multiplier (V3.add (V3.sub pNb pNode) (Cell.comb cell (fNb.1 - fNode.1, fNb.2.1 - fNode.2.1, fNb.2.2 - fNode.2.2)))

/-- the decision between "+span" neighbour, "−span" neighbour and the average span.  `add` / `sub` = first entry of the node's
adjacency list in that direction (atom index, position, image), if any.  As in the code, a "+span" neighbour that is the node's
own atom (a periodic self-image) blocks the "−span" branch. -/
def adaptiveVector (cell : Cell) (idx : Nat) (pNode : V3) (fNode : F3) (add sub : Option (Nat × V3 × F3)) (span : V3) : V3 :=
  match add with
  | some (n, p, g) => if n != idx then measured cell pNode fNode p g 1 else span
  | none =>
    match sub with
    | some (n, p, g) => if n != idx then measured cell pNode fNode p g (-1) else span
    | none => span

end Matid.Adaptive
