/-
Model of `SymmetryAnalyzer._find_wyckoff_ground_state` (normalizer ranking and application),
of the Wyckoff-set assembly in `_get_wyckoff_sets` and of the material-id string
(matid/symmetry/symmetryanalyzer.py).
-/
import MatidModel.Table
import MatidModel.WyckoffParams
namespace Matid.Select
open Matid.Table Matid.WyckoffParams

/-! ### ranking of the representations -/

/-- the filtering step for one (letter, element) key: keep the representations with the maximal count of that
key — unless no representation has the key at all (`n_atoms_max != 0`) -/
def step {ρ κ} (cnt : ρ → κ → Nat) (reps : List ρ) (k : κ) : List ρ :=
  let m := (reps.map fun r => cnt r k).foldl max 0
  if m != 0 then reps.filter fun r => cnt r k == m else reps

/-- all keys in order (letters outer, elements inner), without the early exit -/
def run {ρ κ} (cnt : ρ → κ → Nat) (reps : List ρ) (keys : List κ) : List ρ := keys.foldl (step cnt) reps

/-- the loops exactly as coded: the `found` flag is tested only at the top of the outer (letter) loop -/
def runCoded {ρ} (cnt : ρ → Nat × Nat → Nat) (numbers : List Nat) : List ρ → List Nat → List ρ
  | reps, [] => reps
  | reps, w :: ws =>
    let reps' := numbers.foldl (fun rs z => step cnt rs (w, z)) reps
    if reps'.length == 1 then reps' else runCoded cnt numbers reps' ws

/-- letter permutation as association list; `none` when the letter is not a key (`perm.get`) -/
def applyPerm (perm : List (Nat × Nat)) (c : Nat) : Option Nat := lookupPerm perm c

/-- number of atoms with new letter w and atomic number z under a permutation (the `wyckoff_positions` dict;
a missing key is count 0) -/
def cntOf (letters numbers : List Nat) (perm : List (Nat × Nat)) (k : Nat × Nat) : Nat :=
  (letters.zip numbers).countP fun p => applyPerm perm p.1 == some k.1 && p.2 == k.2

def insertSorted (x : Nat) : List Nat → List Nat
  | [] => [x]
  | y :: ys => if x < y then x :: y :: ys else if x == y then y :: ys else y :: insertSorted x ys

/-- sorted(set(l)) -/
def sortedSet (l : List Nat) : List Nat := l.foldl (fun acc x => insertSorted x acc) []

inductive SelErr where
  | matid      -- MatIDError("Could not successfully decide best Wyckoff positions.")
  | key        -- KeyError in the comparison of the remaining dictionaries
deriving DecidableEq, Repr

/-- the final consistency check of the remaining representations (dictionary comparison as coded:
equal number of keys, then every key of the first must exist in the other with the same count) -/
def dictCheck (keysOf : List (Nat × Nat) → List (Nat × Nat)) (cnt : List (Nat × Nat) → Nat × Nat → Nat)
    (reps : List (List (Nat × Nat))) : Option SelErr :=
  match reps with
  | [] => none
  | r0 :: rest =>
    rest.findSome? fun r =>
      if (keysOf r).length != (keysOf r0).length then some SelErr.matid
      else (keysOf r0).findSome? fun k =>
        if cnt r k == 0 then some SelErr.key
        else if cnt r k != cnt r0 k then some SelErr.matid else none

/-- keys with non-zero count, i.e. the keys of the `wyckoff_positions` dict -/
def dictKeys (letters numbers : List Nat) (allKeys : List (Nat × Nat)) (perm : List (Nat × Nat)) : List (Nat × Nat) :=
  allKeys.filter fun k => cntOf letters numbers perm k != 0

/-- index (0 = identity) of the chosen representation, or the error raised -/
def selectRep (tablePerms : List (List (Nat × Nat))) (letters numbers : List Nat) : Except SelErr Nat :=
  let idPerm := (sortedSet letters).map fun c => (c, c)
  let perms := idPerm :: tablePerms
  if tablePerms.isEmpty then .ok 0 else
  let ws := sortedSet (perms.flatMap fun p => p.map (·.2))
  let zs := sortedSet numbers
  let cand := (List.range perms.length)
  let cnt (i : Nat) (k : Nat × Nat) : Nat := cntOf letters numbers (perms.getD i []) k
  let final := runCoded cnt zs cand ws
  let allKeys := ws.flatMap fun w => zs.map fun z => (w, z)
  match dictCheck (dictKeys letters numbers allKeys) (cntOf letters numbers) (final.map fun i => perms.getD i []) with
  | some e => .error e
  | none => match final with
    | i :: _ => .ok i
    | [] => .error SelErr.matid   -- unreachable (see `run_nonempty`); the code would raise IndexError

/-! ### applying the chosen normalizer -/

/-- `get_wrapped_positions`: modulo 1, then values within 1e-5 of 0 or of 1 become 0 -/
def wrapCoord (q : Rat) : Rat := wrapParam q

def applyNorm (n : Aff) (p : V3) : V3 :=
  let q := n.act p
  (wrapCoord q.1, wrapCoord q.2.1, wrapCoord q.2.2)

/-! ### Wyckoff sets (`_get_wyckoff_sets`, return_parameters = False) and the material id string -/

/-- indices of the atoms carrying label v -/
def indicesOf (equiv : List Nat) (v : Nat) : List Nat :=
  (equiv.zipIdx.filter fun p => p.1 == v).map (·.2)

/-- one set per distinct equivalence label, in np.unique order (ascending label) -/
def formSets (equiv : List Nat) : List (Nat × List Nat) :=
  (sortedSet equiv).map fun v => (v, indicesOf equiv v)

structure WSet where
  letter : Nat
  number : Nat
  indices : List Nat
deriving DecidableEq, Repr

/-- letter / element of a set are those of its first atom (`unique_indices`) -/
def wyckoffSets (letters numbers equiv : List Nat) : List WSet :=
  (formSets equiv).map fun s =>
    { letter := letters.getD (s.2.headD 0) 0, number := numbers.getD (s.2.headD 0) 0, indices := s.2 }

def insertBy {α} (le : α → α → Bool) (x : α) : List α → List α
  | [] => [x]
  | y :: ys => if le x y then x :: y :: ys else y :: insertBy le x ys

/-- stable sort by (letter, atomic number)  — `sorted(..., key=attrgetter("wyckoff_letter", "atomic_number"))` -/
def sortSets (l : List WSet) : List WSet :=
  l.foldr (insertBy fun a b => a.letter < b.letter || (a.letter == b.letter && a.number ≤ b.number)) []

/-- the pre-hash string of `get_material_id` (same definition as `Matid.Props.C06.idString`, kept here
Mathlib-free for the driver: insertion sort by `String.<`) -/
def insertStr (x : String) : List String → List String
  | [] => [x]
  | y :: ys => if x < y then x :: y :: ys else y :: insertStr x ys

def idStringExec (number : Nat) (strs : List String) (twoD : Bool) : String :=
  let s := toString number ++ " " ++ ", ".intercalate (strs.foldr insertStr [])
  if twoD then "2D " ++ s else s

end Matid.Select
