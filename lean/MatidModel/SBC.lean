/-
Model of the symmetry-based clustering driver and its post-processing pipeline
(matid/clustering/sbc.py: get_clusters loop, _merge_clusters, _localize_clusters, _clean_clusters).
The periodic finder is a parameter: its outputs (region basis indices or none, tested-atom mask) come in as data;
connected components of the bonding relation come from the DBSCAN contract D1.
-/
namespace Matid.SBC

structure Clu where
  idx : List Nat        -- atom indices (a set)
  species : List Nat    -- allowed atomic numbers (a set)
  rsize : Nat           -- number of basis atoms of the region it carries (0 = no region)
  rid : Nat             -- identity of the region object (for the harness)
  merged : Bool
deriving Repr, DecidableEq

def setOf (l : List Nat) : List Nat := l.foldl (fun acc x => if acc.contains x then acc else acc ++ [x]) []

def inter (a b : List Nat) : List Nat := a.filter (b.contains ·)

/-! ### driver loop -/

structure FinderOut where
  seed : Nat
  basis : Option (List Nat)   -- region.get_basis_indices(), or none when no region was found
  rid : Nat
  mask : List Nat             -- indices the finder has tested (mask == True)
deriving Repr

/-- one iteration of the `while len(indices) != 0` loop; returns the remaining indices and the new cluster -/
def driverStep (numbers : List Nat) (remaining : List Nat) (f : FinderOut) : List Nat × Option Clu :=
  let rem1 := remaining.filter fun i => !f.mask.contains i
  match f.basis with
  | none => (rem1, none)
  | some basis =>
    let ids := setOf (f.seed :: basis)
    let species := setOf (ids.map fun i => numbers.getD i 0)
    (rem1.filter fun i => !ids.contains i,
     some { idx := ids, species := species, rsize := (setOf basis).length, rid := f.rid, merged := false })

/-- replay of a recorded history of finder outputs; the loop stops when no index remains -/
def driver (numbers : List Nat) (history : List FinderOut) : List Nat × List Clu :=
  history.foldl (fun (st : List Nat × List Clu) f =>
      if st.1.isEmpty then st else
      let (rem, c) := driverStep numbers st.1 f
      (rem, match c with | some c => st.2 ++ [c] | none => st.2))
    (List.range numbers.length, [])

/-! ### _merge_clusters -/

/-- merge(a, b): the species of the larger cluster decide which atoms of the smaller one are kept -/
def mergeTwo (numbers : List Nat) (a b : Clu) : Clu :=
  let (target, source) := if a.idx.length > b.idx.length then (a, b) else (b, a)
  let common := source.idx.filter fun x => target.species.contains (numbers.getD x 0)
  -- largest region: sorted([a, b], key=size)[-1]  (stable sort: for equal sizes the second, b)
  let (rs, rid) := if a.rsize > b.rsize then (a.rsize, a.rid) else (b.rsize, b.rid)
  { idx := setOf (target.idx ++ common), species := target.species, rsize := rs, rid := rid, merged := true }

/-- index of the first maximum (sorted(…, reverse=True) is stable) -/
def firstMaxIdx (l : List Nat) : Nat :=
  (l.zipIdx.foldl (fun (best : Nat × Nat) p => if p.1 > best.1 then p else best) (l.headD 0, 0)).2

/-- `best / |i| > thr  or  best / |target| > thr` (the max of the two ratios) decided without division -/
def scoreAbove (best ni nt : Nat) (thr : Rat) : Bool :=
  decide ((best : Rat) > thr * ni) || decide ((best : Rat) > thr * nt)

def mergeLoop (numbers : List Nat) (thr : Rat) : Nat → List Clu → List Clu → List Clu
  | 0, isolated, clusters => isolated ++ clusters
  | fuel + 1, isolated, clusters =>
    match clusters with
    | [] => isolated
    | c0 :: rest =>
      if c0.merged then isolated ++ clusters
      else if rest.isEmpty then mergeLoop numbers thr fuel (isolated ++ [c0]) []
      else
        let overlaps := rest.map fun c => (inter c0.idx c.idx).length
        let j := firstMaxIdx overlaps
        let best := overlaps.getD j 0
        let target := rest.getD j c0
        if scoreAbove best c0.idx.length target.idx.length thr then
          mergeLoop numbers thr fuel isolated (rest.eraseIdx j ++ [mergeTwo numbers c0 target])
        else mergeLoop numbers thr fuel (isolated ++ [c0]) rest

def mergeClusters (numbers : List Nat) (thr : Rat) (clusters : List Clu) : List Clu :=
  mergeLoop numbers thr (clusters.length + 1) [] clusters

/-! ### _localize_clusters (on the index lists only) -/

/-- resolve the multiply-assigned atom i: it stays in the first cluster with the most atoms near i -/
def resolve (near : Nat → Nat → Bool) (i : Nat) (cs : List (List Nat)) : List (List Nat) :=
  let hs := (cs.zipIdx.filter fun p => p.1.contains i).map (·.2)
  if hs.length ≤ 1 then cs else
  let score (k : Nat) : Nat := ((cs.getD k []).filter (near i)).length
  let w := hs.foldl (fun best k => if score k > score best then k else best) (hs.headD 0)
  cs.zipIdx.map fun p => if p.1.contains i && p.2 != w then p.1.filter (· != i) else p.1

def localize (near : Nat → Nat → Bool) (n : Nat) (cs : List (List Nat)) : List (List Nat) :=
  (List.range n).foldl (fun acc i => resolve near i acc) cs

/-! ### _clean_clusters -/

/-- the admissible results of cleaning one cluster: every largest class of the partition into bonded components
(the code takes the first one in DBSCAN's label order); none when the cluster is empty (it is dropped) -/
def cleanOne (components : List (List Nat)) : List (List Nat) :=
  let m := (components.map (·.length)).foldl max 0
  if m == 0 then [] else components.filter fun c => c.length == m

/-! ### the whole post-processing pipeline of get_clusters -/

inductive Stage where
  | merge | localize | clean
deriving DecidableEq, Repr

def Stage.ofString? : String → Option Stage
  | "merge" => some .merge
  | "localize" => some .localize
  | "clean" => some .clean
  | _ => none

/-- what the pipeline takes from outside: the structure, the thresholds, the "near" relation of the merge radius, the
partition of an index set into bonded components (DBSCAN contract D1) and which of several largest components DBSCAN's
label order puts first -/
structure Env where
  numbers : List Nat
  thr : Rat
  near : Nat → Nat → Bool
  comps : List Nat → List (List Nat)
  pick : List (List Nat) → Option (List Nat)

def setIdx (cs : List Clu) (ixs : List (List Nat)) : List Clu := List.zipWith (fun c ix => { c with idx := ix }) cs ixs

def applyStage (e : Env) : Stage → List Clu → List Clu
  | .merge, cs => mergeClusters e.numbers e.thr cs
  | .localize, cs => setIdx cs (localize e.near e.numbers.length (cs.map (·.idx)))
  | .clean, cs => cs.filterMap fun c => (e.pick (e.comps c.idx)).map fun ix => { c with idx := ix }

/-- the stages in the order in which `get_clusters` applies them (the order is translated from the source) -/
def pipeline (e : Env) (order : List Stage) (cs : List Clu) : List Clu := order.foldl (fun cs st => applyStage e st cs) cs

end Matid.SBC
