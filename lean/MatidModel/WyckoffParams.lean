/-
Model of the free-parameter determination in `SymmetryAnalyzer._get_wyckoff_sets`
(matid/symmetry/symmetryanalyzer.py) over ℚ, and of `get_has_free_wyckoff_parameters`.
Positions are fractional coordinates; `Aff` rows are position components, columns the parameters x, y, z
(so `E.entry c v` is the table's `matrices[k][v][c]`).
-/
import MatidModel.Table
namespace Matid.WyckoffParams
open Matid.Table

abbrev V3 := Rat × Rat × Rat

inductive ReadRule where
  | found       -- W[idx] = R[icomp] - C[icomp]   (the component that carries the variable)
  | sameIndex   -- W[idx] = R[idx] - C[idx]
deriving DecidableEq, Repr

def Aff.entry (A : Aff) (c v : Nat) : Int :=
  match c, v with
  | 0, 0 => A.a11 | 0, 1 => A.a12 | 0, 2 => A.a13
  | 1, 0 => A.a21 | 1, 1 => A.a22 | 1, 2 => A.a23
  | 2, 0 => A.a31 | 2, 1 => A.a32 | 2, 2 => A.a33
  | _, _ => 0

def Aff.tr (A : Aff) (c : Nat) : Int :=
  match c with
  | 0 => A.t1 | 1 => A.t2 | 2 => A.t3 | _ => 0

def V3.get (p : V3) (c : Nat) : Rat :=
  match c with
  | 0 => p.1 | 1 => p.2.1 | _ => p.2.2

def hasVar (mask v : Nat) : Bool := (mask / 2 ^ v) % 2 == 1

/-- the first component whose multiplier of variable v equals 1 (the `for icomp … break` loop) -/
def firstUnit (E0 : Aff) (v : Nat) : Option Nat := (List.range 3).find? fun c => Aff.entry E0 c v == 1

/-- the component the value of variable v is read from -/
def readComp (rule : ReadRule) (E0 : Aff) (v : Nat) : Option Nat :=
  (firstUnit E0 v).map fun c => match rule with
    | .found => c
    | .sameIndex => v

/-- W[v] for one atom position R -/
def solveVar (rule : ReadRule) (E0 : Aff) (mask : Nat) (R : V3) (v : Nat) : Rat :=
  if hasVar mask v then
    match readComp rule E0 v with
    | some c => V3.get R c - (Aff.tr E0 c : Rat) / 24
    | none => 0
  else 0

def solveW (rule : ReadRule) (E0 : Aff) (mask : Nat) (R : V3) : V3 :=
  (solveVar rule E0 mask R 0, solveVar rule E0 mask R 1, solveVar rule E0 mask R 2)

/-- the table property that makes the reading rule recover the parameters: for every free variable the
component that is read carries coefficient 1 of that variable and no other variable -/
def repSolvable (rule : ReadRule) (E0 : Aff) (mask : Nat) : Bool :=
  (List.range 3).all fun v =>
    !hasVar mask v ||
    match readComp rule E0 v with
    | some c => Aff.entry E0 c v == 1 && (List.range 3).all fun v' => v' == v || Aff.entry E0 c v' == 0
    | none => false

/-! ### periodic search (`_search_periodic_positions`) -/

def wrap01 (q : Rat) : Rat := q - (q.floor : Rat)

def foldHalf (d : Rat) : Rat := if d > 1 / 2 then d - 1 else if d < -(1 / 2) then d + 1 else d

/-- squared length of `displacement · cell.T` exactly as the code computes it
(cell given by its rows a, b, c; component j = Σ_k d_k · cell[j][k]) -/
def dist2 (cell : V3 × V3 × V3) (p t : V3) : Rat :=
  let d : V3 := (foldHalf (wrap01 p.1 - wrap01 t.1), foldHalf (wrap01 p.2.1 - wrap01 t.2.1), foldHalf (wrap01 p.2.2 - wrap01 t.2.2))
  let row (r : V3) : Rat := d.1 * r.1 + d.2.1 * r.2.1 + d.2.2 * r.2.2
  row cell.1 ^ 2 + row cell.2.1 ^ 2 + row cell.2.2 ^ 2

/-- a position within `acc` (Cartesian) of the target exists -/
def findNear (cell : V3 × V3 × V3) (positions : List V3) (target : V3) (acc : Rat) : Bool :=
  positions.any fun p => dist2 cell p target ≤ acc ^ 2

/-- all positions e_k(W) + t_c -/
def testPositions (exprs cents : List Aff) (W : V3) : List V3 :=
  (zeroT :: cents).flatMap fun t => exprs.map fun e => (e.addT t).act W

/-- the acceptance test for the candidate parameters obtained from atom R -/
def accepts (rule : ReadRule) (firstTol : Rat) (exprs cents : List Aff) (mask : Nat) (cell : V3 × V3 × V3) (atoms : List V3)
    (prec : Rat) (R : V3) : Option V3 :=
  match exprs with
  | [] => none
  | e0 :: _ =>
    let W := solveW rule e0 mask R
    if !(findNear cell [R] (e0.act W) firstTol) then none
    else if (testPositions exprs cents W).all (fun tp => findNear cell atoms tp prec) then some W else none

/-- the loop over the atoms of the set: first accepted candidate, or none (→ ValueError) -/
def solveParams (rule : ReadRule) (firstTol : Rat) (exprs cents : List Aff) (mask : Nat) (cell : V3 × V3 × V3) (atoms : List V3)
    (prec : Rat) : Option V3 :=
  atoms.findSome? (accepts rule firstTol exprs cents mask cell atoms prec)

/-- `get_wrapped_positions` on the parameters: modulo 1, values within 1e-5 of 0 or 1 become 0 -/
def wrapParam (q : Rat) : Rat :=
  let r := wrap01 q
  if r < 1 / 100000 then 0 else if 1 - r < 1 / 100000 then 0 else r

/-- `get_has_free_wyckoff_parameters`: some occupied letter has a non-empty variable set -/
def hasFreeParams (occupied : List Nat) (table : List (Nat × Nat)) : Bool :=
  occupied.any fun code => match table.find? (fun p => p.1 == code) with
    | some (_, mask) => mask != 0
    | none => false

end Matid.WyckoffParams
