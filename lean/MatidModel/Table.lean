/-
Exact-arithmetic model of the crystallographic tables of matid/data/symmetry_data.py and the
Boolean checkers the kernel runs on them (`decide +kernel`).

An affine map of fractional coordinates  w ↦ R·w + t  with integer R and t ∈ (1/24)ℤ is stored by
the translators as ONE natural number (12 base-24 digits: the nine entries of R row by row, each
shifted by +12, then the three components of 24·t reduced modulo 24).  `decode` is the reading of
that literal; all checkers work on the decoded `Aff` with plain `Int` arithmetic, so the soundness
lemmas (MatidProofs/TableSound.lean) never mention the packing.
-/
namespace Matid.Table

structure Aff where
  a11 : Int
  a12 : Int
  a13 : Int
  a21 : Int
  a22 : Int
  a23 : Int
  a31 : Int
  a32 : Int
  a33 : Int
  t1 : Int   -- translation, in 24ths
  t2 : Int
  t3 : Int
deriving DecidableEq, Repr

def digit (p k : Nat) : Nat := (p / 24 ^ k) % 24

def decode (p : Nat) : Aff :=
  { a11 := (digit p 0 : Int) - 12, a12 := (digit p 1 : Int) - 12, a13 := (digit p 2 : Int) - 12,
    a21 := (digit p 3 : Int) - 12, a22 := (digit p 4 : Int) - 12, a23 := (digit p 5 : Int) - 12,
    a31 := (digit p 6 : Int) - 12, a32 := (digit p 7 : Int) - 12, a33 := (digit p 8 : Int) - 12,
    t1 := digit p 9, t2 := digit p 10, t3 := digit p 11 }

def Aff.id : Aff := { a11 := 1, a12 := 0, a13 := 0, a21 := 0, a22 := 1, a23 := 0, a31 := 0, a32 := 0, a33 := 1, t1 := 0, t2 := 0, t3 := 0 }

/-- `A ∘ B` : first B, then A -/
def Aff.comp (A B : Aff) : Aff :=
  { a11 := A.a11 * B.a11 + A.a12 * B.a21 + A.a13 * B.a31
    a12 := A.a11 * B.a12 + A.a12 * B.a22 + A.a13 * B.a32
    a13 := A.a11 * B.a13 + A.a12 * B.a23 + A.a13 * B.a33
    a21 := A.a21 * B.a11 + A.a22 * B.a21 + A.a23 * B.a31
    a22 := A.a21 * B.a12 + A.a22 * B.a22 + A.a23 * B.a32
    a23 := A.a21 * B.a13 + A.a22 * B.a23 + A.a23 * B.a33
    a31 := A.a31 * B.a11 + A.a32 * B.a21 + A.a33 * B.a31
    a32 := A.a31 * B.a12 + A.a32 * B.a22 + A.a33 * B.a32
    a33 := A.a31 * B.a13 + A.a32 * B.a23 + A.a33 * B.a33
    t1 := A.a11 * B.t1 + A.a12 * B.t2 + A.a13 * B.t3 + A.t1
    t2 := A.a21 * B.t1 + A.a22 * B.t2 + A.a23 * B.t3 + A.t2
    t3 := A.a31 * B.t1 + A.a32 * B.t2 + A.a33 * B.t3 + A.t3 }

/-- add the translation part of `T` -/
def Aff.addT (A T : Aff) : Aff := { A with t1 := A.t1 + T.t1, t2 := A.t2 + T.t2, t3 := A.t3 + T.t3 }

def Aff.sameRot (A B : Aff) : Bool :=
  A.a11 == B.a11 && A.a12 == B.a12 && A.a13 == B.a13 &&
  A.a21 == B.a21 && A.a22 == B.a22 && A.a23 == B.a23 &&
  A.a31 == B.a31 && A.a32 == B.a32 && A.a33 == B.a33

/-- equal as maps of ℝ³/ℤ³ : same linear part, translations differ by integers -/
def Aff.eqMod (A B : Aff) : Bool :=
  A.sameRot B && (A.t1 - B.t1) % 24 == 0 && (A.t2 - B.t2) % 24 == 0 && (A.t3 - B.t3) % 24 == 0

def Aff.det (A : Aff) : Int :=
  A.a11 * (A.a22 * A.a33 - A.a23 * A.a32) - A.a12 * (A.a21 * A.a33 - A.a23 * A.a31)
    + A.a13 * (A.a21 * A.a32 - A.a22 * A.a31)

def Aff.isIdRot (A : Aff) : Bool := A.sameRot Aff.id

/-- action on a point of ℚ³ (the meaning of an `Aff`) -/
def Aff.act (A : Aff) (w : Rat × Rat × Rat) : Rat × Rat × Rat :=
  (A.a11 * w.1 + A.a12 * w.2.1 + A.a13 * w.2.2 + (A.t1 : Rat) / 24,
   A.a21 * w.1 + A.a22 * w.2.1 + A.a23 * w.2.2 + (A.t2 : Rat) / 24,
   A.a31 * w.1 + A.a32 * w.2.1 + A.a33 * w.2.2 + (A.t3 : Rat) / 24)

/-! ### Wyckoff positions -/

/-- one Wyckoff position of one space group, as translated from `WYCKOFF_SETS[n][letter]` -/
structure Letter where
  code : Nat                 -- the letter (character code)
  numeric : List Nat         -- packed affine maps from `matrices` / `constants`
  strings : List Nat         -- the `expressions`, each triple joined by ',', characters packed base 128 (first char lowest)
  vars : Nat                 -- `variables` as bit mask x=1, y=2, z=4
  exact : Bool               -- every matrix entry is an integer in [-12,11] and every constant a multiple of 1/24
  maps : List Nat            -- untrusted: all maps e_k + t_c (c = 0 first, then each centring vector), packed
  closeCert : List Nat       -- untrusted: one row per generator, packed base 512; digit i = index in `maps` of gen ∘ maps[i]
  transCert : List Nat       -- untrusted: for each entry of `maps` the index of an op g with g ∘ e₀ ≡ that map

def zeroT : Aff := { Aff.id with a11 := 0, a22 := 0, a33 := 0 }

/-- centring vector number `c` (0 = none) as a pure translation -/
def centOf (cents : List Aff) (c : Nat) : Aff :=
  match c with
  | 0 => zeroT
  | k + 1 => cents.getD k zeroT

/-- digits of a packed certificate row -/
def unpackRow (n row : Nat) : List Nat := (List.range n).map fun k => (row / 512 ^ k) % 512

/-- characters of a packed string (codes 1..127, terminated by the first 0 digit); fuel-bounded -/
def unpackStr : Nat → Nat → List Nat
  | 0, _ => []
  | fuel + 1, p => if p == 0 then [] else (p % 128) :: unpackStr fuel (p / 128)

/-- `maps` is exactly the list  e_k + t_c  (c = 0, then the centring vectors; k in table order) -/
def allMaps (exprs cents : List Aff) : List Aff :=
  (zeroT :: cents).flatMap fun t => exprs.map fun e => e.addT t

def mapsOk (exprs cents maps : List Aff) : Bool :=
  maps.length == (allMaps exprs cents).length && (maps.zip (allMaps exprs cents)).all fun (a, b) => a.eqMod b

/-- every generator maps every listed map onto a listed map (certificate-driven) -/
def closedOk (gens maps : List Aff) (cert : List Nat) : Bool :=
  cert.length == gens.length &&
  (gens.zip cert).all fun (g, prow) =>
    (maps.zip (unpackRow maps.length prow)).all fun (s, c) =>
      c < maps.length && (g.comp s).eqMod (maps.getD c Aff.id)

/-- every listed map is the image of the first expression under some op -/
def transitiveOk (ops maps : List Aff) (cert : List Nat) : Bool :=
  cert.length == maps.length &&
  match maps with
  | [] => false
  | e0 :: _ =>
    (maps.zip cert).all fun (s, c) =>
      c < ops.length && ((ops.getD c Aff.id).comp e0).eqMod s

/-- executable pairwise test: no two maps of the list agree modulo ℤ³ -/
def pairwiseDistinct : List Aff → Bool
  | [] => true
  | a :: l => l.all (fun b => !(a.eqMod b)) && pairwiseDistinct l

/-- bit mask of the parameters (columns) an expression list really uses -/
def usedVars (exprs : List Aff) : Nat :=
  (if exprs.any (fun e => e.a11 != 0 || e.a21 != 0 || e.a31 != 0) then 1 else 0) +
  (if exprs.any (fun e => e.a12 != 0 || e.a22 != 0 || e.a32 != 0) then 2 else 0) +
  (if exprs.any (fun e => e.a13 != 0 || e.a23 != 0 || e.a33 != 0) then 4 else 0)

/-! ### expression strings ("-x+1/2", "2x", "x-y", "3/4", "0") -/

-- character codes
def cPlus := 43
def cMinus := 45
def cSlash := 47
def cComma := 44
def cX := 120

structure LinForm where
  x : Int
  y : Int
  z : Int
  c : Int   -- constant in 24ths
  ok : Bool -- false on a syntax error or a constant that is not a multiple of 1/24
deriving DecidableEq, Repr

def LinForm.zero : LinForm := { x := 0, y := 0, z := 0, c := 0, ok := true }
def LinForm.bad : LinForm := { LinForm.zero with ok := false }

def isDigit (c : Nat) : Bool := 48 ≤ c && c ≤ 57

/-- read a decimal number; returns value, number of digits read, rest -/
def readNat : List Nat → Nat → Nat → Nat × Nat × List Nat
  | c :: cs, acc, n => if isDigit c then readNat cs (acc * 10 + (c - 48)) (n + 1) else (acc, n, c :: cs)
  | [], acc, n => (acc, n, [])

/-- one signed item: [N]var  |  N  |  N/N ; `sgn` is ±1 -/
def addItem (f : LinForm) (sgn : Int) (cs : List Nat) : LinForm × List Nat :=
  let (n, k, rest) := readNat cs 0 0
  match rest with
  | c :: rest' =>
    if c == cX then ({ f with x := f.x + sgn * (if k == 0 then 1 else n) }, rest')
    else if c == cX + 1 then ({ f with y := f.y + sgn * (if k == 0 then 1 else n) }, rest')
    else if c == cX + 2 then ({ f with z := f.z + sgn * (if k == 0 then 1 else n) }, rest')
    else if c == cSlash then
      let (d, kd, rest'') := readNat rest' 0 0
      if k == 0 || kd == 0 || d == 0 || (24 * n) % d != 0 then (LinForm.bad, [])
      else ({ f with c := f.c + sgn * ((24 * n / d : Nat) : Int) }, rest'')
    else if k == 0 then (LinForm.bad, [])
    else ({ f with c := f.c + sgn * (24 * n : Nat) }, c :: rest')
  | [] => if k == 0 then (LinForm.bad, []) else ({ f with c := f.c + sgn * (24 * n : Nat) }, [])

/-- parse a sum of signed items (fuel = length of the input) -/
def parseSum : Nat → LinForm → List Nat → LinForm
  | 0, f, cs => if cs.isEmpty then f else LinForm.bad
  | fuel + 1, f, cs =>
    match cs with
    | [] => f
    | c :: rest =>
      let (sgn, body) : Int × List Nat :=
        if c == cMinus then (-1, rest) else if c == cPlus then (1, rest) else (1, c :: rest)
      let (f', rest') := addItem f sgn body
      if !f'.ok then LinForm.bad
      else if rest'.length < cs.length then parseSum fuel f' rest' else LinForm.bad

def parseExpr (cs : List Nat) : LinForm := if cs.isEmpty then LinForm.bad else parseSum cs.length LinForm.zero cs

/-- split at commas -/
def splitComma : List Nat → List Nat → List (List Nat)
  | [], cur => [cur.reverse]
  | c :: cs, cur => if c == cComma then cur.reverse :: splitComma cs [] else splitComma cs (c :: cur)

/-- the affine map an expression triple denotes (row c = component c) -/
def parseTriple (cs : List Nat) : Option Aff :=
  match (splitComma cs []).map parseExpr with
  | [p, q, r] =>
    if p.ok && q.ok && r.ok then
      some { a11 := p.x, a12 := p.y, a13 := p.z, a21 := q.x, a22 := q.y, a23 := q.z,
             a31 := r.x, a32 := r.y, a33 := r.z, t1 := p.c, t2 := q.c, t3 := r.c }
    else none
  | _ => none

def exprsMatchOk (numeric : List Aff) (strings : List Nat) : Bool :=
  numeric.length == strings.length && !numeric.isEmpty &&
  (numeric.zip strings).all fun (a, s) =>
    match parseTriple (unpackStr 64 s) with
    | some b => a.eqMod b
    | none => false

/-- everything C14 asks of one Wyckoff position.  `gens`/`ops` are the decoded generators / operations of the
reference group (decoded once per group by the caller's literal lists). -/
def letterOk (gens ops cents : List Nat) (L : Letter) : Bool :=
  let ex := L.numeric.map decode
  let maps := L.maps.map decode
  L.exact && exprsMatchOk ex L.strings && usedVars ex == L.vars &&
  mapsOk ex (cents.map decode) maps &&
  closedOk (gens.map decode) maps L.closeCert && transitiveOk (ops.map decode) maps L.transCert &&
  pairwiseDistinct maps

/-! ### the reference group itself -/

def Aff.isPureT (t : Aff) : Bool :=
  t.a11 == 0 && t.a12 == 0 && t.a13 == 0 && t.a21 == 0 && t.a22 == 0 && t.a23 == 0 &&
  t.a31 == 0 && t.a32 == 0 && t.a33 == 0

/-- the pure translations among the reference operations are pairwise distinct modulo ℤ³ and are
exactly 0 and the tabulated centring vectors -/
def centsOk (ops cents : List Aff) : Bool :=
  let pure := ops.filter Aff.isIdRot
  pairwiseDistinct pure && pure.length == cents.length + 1 && cents.all Aff.isPureT &&
  (zeroT :: cents).all (fun t => pure.any fun p => p.eqMod (Aff.id.addT t))

/-- processes the ops left to right; `done` holds the ops already shown to be generated, newest first -/
def genLoop (gens : List Aff) : List Aff → List (Aff × Nat) → Bool
  | _, [] => true
  | done, (o, c) :: rest =>
    c % 256 < done.length && c / 256 < gens.length &&
    o.eqMod ((gens.getD (c / 256) Aff.id).comp (done.getD (done.length - 1 - c % 256) Aff.id)) &&
    genLoop gens (o :: done) rest

/-- `ops` is generated by `gens`: the first op is the identity and every later op is  gen_j ∘ (an earlier op);
certificate entry i = 256·j + k  (entry 0 unused) -/
def generatedOk (gens ops : List Aff) (cert : List Nat) : Bool :=
  cert.length == ops.length &&
  match ops.zip cert with
  | [] => false
  | (o0, _) :: rest => o0.eqMod Aff.id && genLoop gens [o0] rest

/-- no reference operation is improper -/
def isChiralOps (ops : List Aff) : Bool := ops.all fun g => g.det != -1

/-! ### normalizers -/

structure Norm where
  map : Nat                 -- packed 4×4 `transformation` (upper 3×4 block)
  inv : Nat                 -- untrusted: packed inverse
  perm : List (Nat × Nat)   -- `permutations` as (old letter code, new letter code)
  exact : Bool              -- entries representable (integers / 24ths) and last row = (0,0,0,1)
  conjCert : List Nat       -- untrusted: for each op g the index of n∘g∘n⁻¹ among the ops
  letterCert : List (Nat × Nat × Nat)
      -- untrusted, per letter of the group (in table order): (8·target expression index + centring, packed
      -- reparametrisation φ of (x,y,z), index of the target letter)

/-- metric families: a basis of the space of metric tensors of the lattice system, scaled to integers.
0 triclinic, 1 monoclinic (b unique), 2 orthorhombic, 3 tetragonal, 4 hexagonal/trigonal (hexagonal axes), 5 cubic -/
def metricBasis : Nat → List (Int × Int × Int × Int × Int × Int)  -- (g11,g22,g33,g12,g13,g23)
  | 0 => [(1,0,0,0,0,0), (0,1,0,0,0,0), (0,0,1,0,0,0), (0,0,0,1,0,0), (0,0,0,0,1,0), (0,0,0,0,0,1)]
  | 1 => [(1,0,0,0,0,0), (0,1,0,0,0,0), (0,0,1,0,0,0), (0,0,0,0,1,0)]
  | 2 => [(1,0,0,0,0,0), (0,1,0,0,0,0), (0,0,1,0,0,0)]
  | 3 => [(1,1,0,0,0,0), (0,0,1,0,0,0)]
  | 4 => [(2,2,0,-1,0,0), (0,0,1,0,0,0)]
  | _ => [(1,1,1,0,0,0)]

/-- Rᵀ·G·R = G for the symmetric G given by its six entries -/
def preservesMetric (A : Aff) (g : Int × Int × Int × Int × Int × Int) : Bool :=
  let (g11, g22, g33, g12, g13, g23) := g
  -- columns of R
  let q (u1 u2 u3 v1 v2 v3 : Int) : Int :=
    u1 * (g11 * v1 + g12 * v2 + g13 * v3) + u2 * (g12 * v1 + g22 * v2 + g23 * v3) + u3 * (g13 * v1 + g23 * v2 + g33 * v3)
  q A.a11 A.a21 A.a31 A.a11 A.a21 A.a31 == g11 && q A.a12 A.a22 A.a32 A.a12 A.a22 A.a32 == g22 &&
  q A.a13 A.a23 A.a33 A.a13 A.a23 A.a33 == g33 && q A.a11 A.a21 A.a31 A.a12 A.a22 A.a32 == g12 &&
  q A.a11 A.a21 A.a31 A.a13 A.a23 A.a33 == g13 && q A.a12 A.a22 A.a32 A.a13 A.a23 A.a33 == g23

def lookupPerm (perm : List (Nat × Nat)) (c : Nat) : Option Nat :=
  (perm.find? fun p => p.1 == c).map (·.2)

/-- the permutation is a bijection of the group's letters -/
def permOk (letters : List Nat) (perm : List (Nat × Nat)) : Bool :=
  perm.length == letters.length &&
  letters.all (fun c => (lookupPerm perm c).isSome) &&
  letters.all (fun c => perm.any fun p => p.2 == c)

/-- the normalizer maps the family of every letter onto the family of its tabulated image:
`n ∘ e₀ ≡ (e' + t) ∘ φ` with `e₀` the first expression of the letter, `e'` an expression of the image letter,
`t` a centring vector and `φ` a unimodular reparametrisation of (x, y, z) -/
def lettersMappedOk (n : Aff) (cents : List Aff) (letters : List (Nat × List Aff)) (perm : List (Nat × Nat))
    (cert : List (Nat × Nat × Nat)) : Bool :=
  cert.length == letters.length &&
  (letters.zip cert).all fun ((code, ex), (tc, phiP, tl)) =>
    match ex, letters.getD tl (0, []) with
    | e0 :: _, (code', ex') =>
      let phi := decode phiP
      lookupPerm perm code == some code' && tc / 8 < ex'.length && tc % 8 ≤ cents.length &&
      (phi.det == 1 || phi.det == -1) &&
      (n.comp e0).eqMod (((ex'.getD (tc / 8) Aff.id).addT (centOf cents (tc % 8))).comp phi)
    | [], _ => false

def normOk (system : Nat) (chiral : Bool) (ops cents : List Nat) (letters : List Letter) (N : Norm) : Bool :=
  let ops' := ops.map decode
  let n := decode N.map
  let ni := decode N.inv
  N.exact &&
  (n.comp ni).eqMod Aff.id && (ni.comp n).eqMod Aff.id &&
  -- maps the group onto itself:  n∘g ≡ g'∘n  for a listed g'
  N.conjCert.length == ops.length &&
  (ops'.zip N.conjCert).all (fun (g, c) => c < ops.length && (n.comp g).eqMod ((ops'.getD c Aff.id).comp n)) &&
  -- preserves every metric of the lattice system
  (metricBasis system).all (preservesMetric n) &&
  -- preserves handedness when the group is chiral
  (!chiral || n.det == 1) &&
  permOk (letters.map (·.code)) N.perm &&
  lettersMappedOk n (cents.map decode) (letters.map fun L => (L.code, L.numeric.map decode)) N.perm N.letterCert

/-! ### group records -/

structure Info where
  crystalSystem : List Nat   -- SPACE_GROUP_INFO[n]["crystal_system"], character codes
  bravais : List Nat         -- SPACE_GROUP_INFO[n]["bravais_lattice"]
  pointgroup : List Nat      -- SPACE_GROUP_INFO[n]["pointgroup"]
  refPointgroup : List Nat   -- spglib: pointgroup_international of the first Hall number
  refCentring : Nat          -- spglib: first character of international_short

structure Group where
  number : Nat
  ops : List Nat             -- reference: all operations of the first Hall number (spglib database), modulo ℤ³
  gens : List Nat            -- untrusted: a generating subset of `ops`
  genCert : List Nat         -- untrusted: how each op is obtained from an earlier one by a generator
  cents : List Nat           -- WYCKOFF_SETS[n]["translations"]
  letters : List Letter
  norms : List Norm
  info : Info

/-- crystal family index used for `metricBasis` from the space-group number (International Tables ranges) -/
def systemOf (n : Nat) : Nat :=
  if n ≤ 2 then 0 else if n ≤ 15 then 1 else if n ≤ 74 then 2 else if n ≤ 142 then 3 else if n ≤ 194 then 4 else 5

-- "triclinic", "monoclinic", "orthorhombic", "tetragonal", "trigonal", "hexagonal", "cubic"
def crystalSystemName (n : Nat) : List Nat :=
  if n ≤ 2 then [116,114,105,99,108,105,110,105,99]
  else if n ≤ 15 then [109,111,110,111,99,108,105,110,105,99]
  else if n ≤ 74 then [111,114,116,104,111,114,104,111,109,98,105,99]
  else if n ≤ 142 then [116,101,116,114,97,103,111,110,97,108]
  else if n ≤ 167 then [116,114,105,103,111,110,97,108]
  else if n ≤ 194 then [104,101,120,97,103,111,110,97,108]
  else [99,117,98,105,99]

/-- Pearson crystal-family letter: a m o t h h c -/
def pearsonFamily (n : Nat) : Nat :=
  if n ≤ 2 then 97 else if n ≤ 15 then 109 else if n ≤ 74 then 111 else if n ≤ 142 then 116 else if n ≤ 194 then 104 else 99

/-- `get_bravais_lattice`'s merge of the one-face centrings A, B, C into S -/
def mergeS (c : Nat) : Nat := if c == 65 || c == 66 || c == 67 then 83 else c

def infoOk (n : Nat) (i : Info) : Bool :=
  i.crystalSystem == crystalSystemName n &&
  (match i.bravais with
   | [f, c] => f == pearsonFamily n && mergeS c == mergeS i.refCentring
   | _ => false) &&
  i.pointgroup == i.refPointgroup

def groupHeadOk (G : Group) : Bool :=
  centsOk (G.ops.map decode) (G.cents.map decode) && infoOk G.number G.info && !G.letters.isEmpty &&
  generatedOk (G.gens.map decode) (G.ops.map decode) G.genCert

/-- everything C14 asks of the tables of one space group -/
def groupOk (G : Group) : Bool :=
  groupHeadOk G && G.letters.all (letterOk G.gens G.ops G.cents) &&
  G.norms.all (normOk (systemOf G.number) (isChiralOps (G.ops.map decode)) G.ops G.cents G.letters)

end Matid.Table
