/-
Model of the 2D-specific steps of SymmetryAnalyzer (set_system / get_conventional_system for n_pbc = 2):
the symmetry-breaking vacuum, the detection of the non-periodic axis of the standardised cell through spglib's
transformation matrix, and the restriction of the centring translation to that axis.
-/
import MatidModel.Frame
namespace Matid.TwoD
open Matid.Geom Matid.Frame

/-- squared length of the replaced non-periodic vector: max(5, 3·thickness)² with thickness² = extent²·|c|² -/
def vacuumLength2 (extent2c2 : Rat) : Rat := max 25 (9 * extent2c2)

/-- the first row of the transformation matrix that is supported on column `iPbc` only (threshold 1e-8 in the code;
exact zero test on rationals here); rows are given as triples -/
def detectAxis (P : List V3) (iPbc : Nat) : Option Nat :=
  let supp (row : V3) : Bool :=
    V3.get row iPbc != 0 && V3.get row ((iPbc + 1) % 3) == 0 && V3.get row ((iPbc + 2) % 3) == 0
  (P.zipIdx.find? fun p => supp p.1).map (·.2)

/-- the translation that centres the layer acts along the detected axis only -/
def restrictTranslation (t : V3) (axis : Nat) : V3 :=
  (if axis == 0 then t.1 else 0, if axis == 1 then t.2.1 else 0, if axis == 2 then t.2.2 else 0)

end Matid.TwoD
