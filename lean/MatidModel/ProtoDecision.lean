/-
Acceptance logic of `PeriodicFinder._find_proto_cell` (matid/core/periodicfinder.py): which candidate prototype cells are
returned, with how many spans and which periodicity.  The geometric sub-computations (span metrics, best basis, graphs,
averaged cell, dimensionality of the candidate cell, thickness, overlap) come in as data; the model is the decision tree
around them, including the span-validity rule `metric ≥ 0.4·max(metric)  or  metric ≥ 0.75·n_neighbours` (the two
thresholds are translated from the AST).
-/
namespace Matid.Proto

/-- thresholds of the span filter as exact fractions (numerator, denominator) -/
structure SpanRule where
  relMax : Nat × Nat        -- 0.4  = (2, 5)
  relNeigh : Nat × Nat      -- 0.75 = (3, 4)
deriving Repr, DecidableEq

/-- a span is valid when `metric ≥ relMax·max(metric)` or `metric ≥ relNeigh·n_neighbours` -/
def validSpan (r : SpanRule) (metric maxMetric nNeigh : Nat) : Bool :=
  decide (metric * r.relMax.2 ≥ r.relMax.1 * maxMetric) || decide (metric * r.relNeigh.2 ≥ r.relNeigh.1 * nNeigh)

def validSpans (r : SpanRule) (metrics : List Nat) (nNeigh : Nat) : List Nat :=
  let mx := metrics.foldl max 0
  (metrics.zipIdx.filter fun p => validSpan r p.1 mx nNeigh).map (·.2)

/-- result of `get_dimensionality` on a candidate cell -/
inductive DimOut where
  | error                 -- MatIDError
  | none                  -- several components
  | dim (d : Nat)
deriving Repr, DecidableEq

/-- everything the decision tree looks at -/
structure Inputs where
  totalValid : Nat             -- number of valid spans
  dim : Nat                    -- len(best_combo)
  seedInGraph : Bool           -- seed_group_index is not None
  cellFound : Bool             -- _find_proto_cell_3d / _2d returned a cell
  d3 : DimOut                  -- dimensionality of the 3-span candidate (only read when dim = 3)
  nPerSpans : Nat              -- periodic cell vectors short enough to be candidate spans
  nPerSelected : Nat           -- how many of them are in the best basis
  tooLong : Bool               -- some selected span longer than max_2d_single_cell_size
  d2 : DimOut                  -- dimensionality of the 2D candidate
  d2retry : DimOut             -- … of the seed's own sheet when the candidate had several components
  tooThick : Bool              -- thickness > max_2d_cell_height
  overlap : Bool               -- two atoms of the final cell closer than overlap_threshold
deriving Repr

structure Accepted where
  nSpans : Nat                 -- 3 or 2 (returned as `dim`)
  nPbc : Nat                   -- periodic directions of the returned cell
  nPerSelected : Nat
deriving Repr, DecidableEq

/-- the candidate (or, when it has several components, the seed's own sheet) is a two-dimensionally bonded network -/
def is2D (i : Inputs) : Bool :=
  match i.d2 with
  | .dim d => d == 2
  | .none => (match i.d2retry with | .dim d => d == 2 | _ => false)
  | .error => false

/-- the 2D tail of the tree -/
def accept2D (i : Inputs) : Option Accepted :=
  if i.nPerSpans > 0 && i.nPerSelected == 2 && i.tooLong then none else
  if !is2D i then none else
  if i.tooThick then none else
  if i.overlap then none else some { nSpans := 2, nPbc := 2, nPerSelected := i.nPerSelected }

def protoDecide (i : Inputs) : Option Accepted :=
  if i.totalValid == 0 then none else
  if i.dim == 1 then none else
  if !i.seedInGraph then none else
  if !i.cellFound then none else
  if i.dim == 3 then
    match i.d3 with
    | .error => none
    | .dim 3 => if i.overlap then none else some { nSpans := 3, nPbc := 3, nPerSelected := i.nPerSelected }
    | .dim 2 => accept2D i
    | _ => none
  else if i.dim == 2 then accept2D i
  else none

end Matid.Proto
