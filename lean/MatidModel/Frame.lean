/-
Exact-arithmetic model of the cell / frame helpers of matid/geometry/geometry.py:
to_scaled, to_cartesian (with wrapping), get_minimized_cell, swap_basis, complete_cell, inertia tensor assembly.
-/
import MatidModel.Geom
namespace Matid.Frame
open Matid.Geom

def wrap01 (q : Rat) : Rat := q - (q.floor : Rat)

/-- `fractional[:, i] %= 1.0` on periodic columns -/
def wrapFrac (pbc : Pbc) (f : V3) : V3 :=
  (if pbc.x then wrap01 f.1 else f.1, if pbc.y then wrap01 f.2.1 else f.2.1, if pbc.z then wrap01 f.2.2 else f.2.2)

/-- to_scaled(cell, p, wrap, pbc) -/
def toScaledW (c : Cell) (p : V3) (wrap : Bool) (pbc : Pbc) : Option V3 :=
  (toScaled c p).map fun f => if wrap then wrapFrac pbc f else f

/-- to_cartesian(cell, f, wrap, pbc) -/
def toCartesianW (c : Cell) (f : V3) (wrap : Bool) (pbc : Pbc) : V3 :=
  toCartesian c (if wrap then wrapFrac pbc f else f)

end Matid.Frame
namespace Matid.Geom
def V3.get (p : V3) (i : Nat) : Rat := match i with | 0 => p.1 | 1 => p.2.1 | _ => p.2.2
def V3.set (p : V3) (i : Nat) (x : Rat) : V3 := match i with | 0 => (x, p.2.1, p.2.2) | 1 => (p.1, x, p.2.2) | _ => (p.1, p.2.1, x)
def Cell.setRow (c : Cell) (i : Nat) (v : V3) : Cell := match i with | 0 => { c with a := v } | 1 => { c with b := v } | _ => { c with c := v }
end Matid.Geom
namespace Matid.Frame
open Matid.Geom

/-- swap_basis: exchange two cell vectors and their pbc flags, atoms untouched -/
def swapBasis (c : Cell) (p : Pbc) (i j : Nat) : Cell × Pbc :=
  let ci := c.row i
  let cj := c.row j
  let pi := p.get i
  let pj := p.get j
  let setP (q : Pbc) (k : Nat) (b : Bool) : Pbc := match k with | 0 => { q with x := b } | 1 => { q with y := b } | _ => { q with z := b }
  ((c.setRow i cj).setRow j ci, setP (setP p i pj) j pi)

/-- extent of the fractional coordinates along `axis`: (min, max) -/
def extent (fracs : List V3) (axis : Nat) : Rat × Rat :=
  let cs := fracs.map (V3.get · axis)
  (cs.foldl min (cs.headD 0), cs.foldl max (cs.headD 0))

/-- does get_minimized_cell inflate the cell?  `c_size < min_size` decided on squares (min_size ≥ 0) -/
def inflates (cell : Cell) (fracs : List V3) (axis : Nat) (minSize : Rat) : Bool :=
  let (lo, hi) := extent fracs axis
  decide ((hi - lo) * (hi - lo) * V3.norm2 (cell.row axis) < minSize * minSize)

/-- get_minimized_cell for a given scale s of the cell vector (s = extent when not inflated; otherwise the positive
number with s·|c| = min_size, which is irrational in general and therefore a parameter here):
new cell row = s·c, new fractional coordinate along the axis = (f − f_min)/s, centred when inflated -/
def minimizedWith (cell : Cell) (fracs : List V3) (axis : Nat) (s : Rat) (inflated : Bool) : Cell × List V3 :=
  let (lo, hi) := extent fracs axis
  let newCell := cell.setRow axis (V3.smul s (cell.row axis))
  let off : Rat := if inflated then ((hi - lo) - s) / (2 * s) else 0
  (newCell, fracs.map fun f => V3.set f axis ((V3.get f axis - lo) / s - off))

/-- unnormalised direction of complete_cell(a, b, length) = a × b; the result is length·(a×b)/|a×b| -/
def completeDir (a b : V3) : V3 := V3.cross a b

/-- inertia tensor Σ w_k (|r_k|²·1 − r_k r_kᵀ) about `centre`, as (I11, I22, I33, I12, I13, I23) -/
def inertia (centre : V3) (pos : List V3) (w : List Rat) : Rat × Rat × Rat × Rat × Rat × Rat :=
  (pos.zip w).foldl (fun acc (p, m) =>
    let r := V3.sub p centre
    (acc.1 + m * (r.2.1 * r.2.1 + r.2.2 * r.2.2), acc.2.1 + m * (r.1 * r.1 + r.2.2 * r.2.2),
     acc.2.2.1 + m * (r.1 * r.1 + r.2.1 * r.2.1), acc.2.2.2.1 - m * r.1 * r.2.1,
     acc.2.2.2.2.1 - m * r.1 * r.2.2, acc.2.2.2.2.2 - m * r.2.1 * r.2.2)) (0, 0, 0, 0, 0, 0)

end Matid.Frame
