/-
Entry of `SBC.get_clusters` (matid/clustering/sbc.py:71-111) along a non-periodic cell axis, in fractional coordinates:
if some atom lies outside [0, 1] along SOME non-periodic axis, the cell vector of every such axis is multiplied by (max − min) + 1
and the whole structure is centred (`Atoms.center()`: along every axis the middle of the extent goes to 1/2); afterwards every atom
has its coordinate along every non-periodic axis inside the cell (the rest of the pipeline — scaled positions, wrapping, cell lists —
relies on it).  The condition under which a box is enlarged is a parameter so that the translated source condition can be plugged in.
-/
namespace Matid.SbcEntry

/-- the condition of the source: `max_pos > 1 or min_pos < 0` -/
def outside (minPos maxPos : Rat) : Bool := decide (maxPos > 1) || decide (minPos < 0)

/-- scale factor applied to the cell vector of this axis (1 = untouched) -/
def scaleOf (cond : Rat → Rat → Bool) (minPos maxPos : Rat) : Rat :=
  if cond minPos maxPos then (maxPos - minPos) + 1 else 1

/-- fractional coordinate of an atom along the axis after the fix-up; `anyScaled` = the condition holds for at least one
non-periodic axis of the structure (then everything is centred) -/
def newFrac (cond : Rat → Rat → Bool) (anyScaled : Bool) (minPos maxPos f : Rat) : Rat :=
  if anyScaled then (f - (minPos + maxPos) / 2) / scaleOf cond minPos maxPos + 1 / 2 else f

end Matid.SbcEntry
