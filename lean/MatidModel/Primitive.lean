/-
Model of `SymmetryAnalyzer._get_primitive_system` and of the index mappings
original → primitive → conventional (matid/symmetry/symmetryanalyzer.py).
-/
import MatidModel.Chirality
namespace Matid.Chirality

def Mat3.transpose (A : Mat3) : Mat3 :=
  { a11 := A.a11, a12 := A.a21, a13 := A.a31, a21 := A.a12, a22 := A.a22, a23 := A.a32, a31 := A.a13, a32 := A.a23, a33 := A.a33 }

def Mat3.adj (A : Mat3) : Mat3 :=
  { a11 := A.a22 * A.a33 - A.a23 * A.a32, a12 := A.a13 * A.a32 - A.a12 * A.a33, a13 := A.a12 * A.a23 - A.a13 * A.a22
    a21 := A.a23 * A.a31 - A.a21 * A.a33, a22 := A.a11 * A.a33 - A.a13 * A.a31, a23 := A.a13 * A.a21 - A.a11 * A.a23
    a31 := A.a21 * A.a32 - A.a22 * A.a31, a32 := A.a12 * A.a31 - A.a11 * A.a32, a33 := A.a11 * A.a22 - A.a12 * A.a21 }

def Mat3.scalar (k : Int) : Mat3 := { a11 := k, a12 := 0, a13 := 0, a21 := 0, a22 := k, a23 := 0, a31 := 0, a32 := 0, a33 := k }

def Mat3.sdiv (A : Mat3) (k : Int) : Mat3 :=
  { a11 := A.a11 / k, a12 := A.a12 / k, a13 := A.a13 / k, a21 := A.a21 / k, a22 := A.a22 / k, a23 := A.a23 / k,
    a31 := A.a31 / k, a32 := A.a32 / k, a33 := A.a33 / k }

end Matid.Chirality

namespace Matid.Primitive
open Matid.Chirality Matid.Table

/-! ### np.unique(mapping, return_index=True) -/

/-- first occurrence of every distinct label, in order of appearance; the payload travels with it -/
def firstOcc {α} : List (Nat × α) → List (Nat × α)
  | [] => []
  | (v, c) :: t => (v, c) :: firstOcc (t.filter (fun p => p.1 != v))
termination_by l => l.length
decreasing_by
  simp only [List.length_cons, List.length_unattach]
  exact Nat.lt_succ_of_le (Nat.le_trans (List.length_filter_le _ _) (Nat.le_of_eq List.length_attach))

/-- what indexing with `np.unique(mapping, return_index=True)[1]` selects: the first occurrence of each
distinct label, ordered by label -/
def npUniqueFirst {α} (l : List (Nat × α)) : List (Nat × α) :=
  (firstOcc l).mergeSort (fun a b => a.1 ≤ b.1)

/-- `labels[mapping]` : fancy indexing -/
def takeIdx {α} (d : α) (labels : List α) (idx : List Nat) : List α := idx.map fun i => labels.getD i d

/-! ### centring matrices -/

/-- the matrix whose COLUMNS are the primitive vectors in conventional fractional coordinates, times 6:
`prim_cell = transform.T · conv_cell` makes them the columns of `transform` -/
def colsMatrix (six : Mat3) (usesTranspose : Bool) : Mat3 := if usesTranspose then six else Mat3.transpose six

/-- inverse of V/6, provided it is integral (checked by `centringOk`) -/
def invOfSix (V : Mat3) : Mat3 := (Mat3.scalar 6 |>.mul (Mat3.adj V)).sdiv V.det

def colOk (c1 c2 c3 : Int) (cents : List Aff) : Bool :=
  (zeroT :: cents).any fun t => (4 * c1 - t.t1) % 24 == 0 && (4 * c2 - t.t2) % 24 == 0 && (4 * c3 - t.t3) % 24 == 0

/-- V/6 is a basis of the lattice ℤ³ + centring vectors:
 * Q := (V/6)⁻¹ is an integer matrix (so ℤ³ ⊆ lattice of the columns) and det(V/6) = 1/m,
 * every column is 0 or a centring vector modulo ℤ³ (columns ∈ ℤ³ + centrings),
 * Q·t is integral for every centring vector t (centrings ∈ lattice of the columns) -/
def centringOk (V : Mat3) (m : Nat) (cents : List Aff) : Bool :=
  let Q := invOfSix V
  Q.mul V == Mat3.scalar 6 && V.mul Q == Mat3.scalar 6 && V.det * m == 216 && m == cents.length + 1 &&
  colOk V.a11 V.a21 V.a31 cents && colOk V.a12 V.a22 V.a32 cents && colOk V.a13 V.a23 V.a33 cents &&
  cents.all fun t =>
    (Q.a11 * t.t1 + Q.a12 * t.t2 + Q.a13 * t.t3) % 24 == 0 && (Q.a21 * t.t1 + Q.a22 * t.t2 + Q.a23 * t.t3) % 24 == 0 &&
    (Q.a31 * t.t1 + Q.a32 * t.t2 + Q.a33 * t.t3) % 24 == 0

/-- centring multiplicity by letter: P 1, A/B/C/I 2, R 3, F 4 -/
def multOfLetter (c : Nat) : Nat :=
  if c == 80 then 1 else if c == 82 then 3 else if c == 70 then 4 else 2

def groupCentringOk (table : List (Nat × Mat3)) (usesTranspose : Bool) (G : Group) : Bool :=
  let c := G.info.refCentring
  if c == 80 then G.cents.isEmpty     -- 'P': the conventional cell is returned unchanged
  else match table.find? (fun p => p.1 == c) with
    | some (_, six) => centringOk (colsMatrix six usesTranspose) (multOfLetter c) (G.cents.map decode)
    | none => false

/-! ### rational 3-vectors / cells for the driver -/

abbrev V3 := Rat × Rat × Rat

/-- prim_cell row i = Σ_j T[i][j]·conv_cell row j with T = transform.T or transform; entries of `six` are 6·transform -/
def primCell (six : Mat3) (usesTranspose : Bool) (a b c : V3) : V3 × V3 × V3 :=
  let T := if usesTranspose then Mat3.transpose six else six
  let comb (x y z : Int) : V3 :=
    (((x : Rat) * a.1 + y * b.1 + z * c.1) / 6, ((x : Rat) * a.2.1 + y * b.2.1 + z * c.2.1) / 6, ((x : Rat) * a.2.2 + y * b.2.2 + z * c.2.2) / 6)
  (comb T.a11 T.a12 T.a13, comb T.a21 T.a22 T.a23, comb T.a31 T.a32 T.a33)

def fracPart (q : Rat) : Rat := q - (q.floor : Rat)

/-- fractional coordinates in the primitive cell of a point given in conventional fractional coordinates:
f' = f · T⁻¹, wrapped into [0,1) -/
def primFrac (six : Mat3) (usesTranspose : Bool) (f : V3) : V3 :=
  let T := if usesTranspose then Mat3.transpose six else six
  let Q := invOfSix T      -- T/6 inverse; f' = f · Q  (row vector)
  (fracPart (f.1 * Q.a11 + f.2.1 * Q.a21 + f.2.2 * Q.a31), fracPart (f.1 * Q.a12 + f.2.1 * Q.a22 + f.2.2 * Q.a32),
   fracPart (f.1 * Q.a13 + f.2.1 * Q.a23 + f.2.2 * Q.a33))

end Matid.Primitive
