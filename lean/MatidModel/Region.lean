/-
The region tracking of `PeriodicFinder` (matid/core/periodicfinder.py: `_find_periodic_region`, `_find_region_rec`,
`_find_new_seeds_and_cell`) and what `LinkedUnitCollection` (matid/core/linkedunits.py) reports about it
(`get_basis_indices`, `get_connected_directions`) together with the acceptance test at the end of `get_region`.

The search is a breadth-first walk over unit-cell indices.  Its bookkeeping (cells already searched, atoms already used, seed
atoms already extended from, the atom → cell map, the search graph, the queue, the adaptively updated cell basis) is modelled
statement by statement; the two geometric sub-computations it calls — `get_matches` (which atoms sit on the basis positions of the
translated cell) and `get_matches_simple` (which atom sits at seed + lattice vector) — enter as ORACLE answers, one per call of
`_find_region_rec`: they are modelled and proved separately (`Matid.Geom.matchPositions`, C16).  Structural facts the model depends
on are read from the AST on every run (`MatidGen/RegionRule.lean`).
-/
import MatidModel.Geom

namespace Matid.Region
open Matid.Geom

abbrev CI := Int × Int × Int

def CI.add (a b : CI) : CI := (a.1 + b.1, a.2.1 + b.2.1, a.2.2 + b.2.2)
def CI.neg (a : CI) : CI := (-a.1, -a.2.1, -a.2.2)

/-- facts translated from the source -/
structure Rule where
  mult3 : List CI
  mult2 : List CI
  /-- `_find_region_rec` returns at once for a cell index in `searched_cell_indices` and records it otherwise -/
  checksSearched : Bool
  /-- `_find_new_seeds_and_cell` returns at once for a seed index in `used_points` and records it otherwise -/
  checksUsedPoints : Bool
  /-- guard of the extension: `seed_index is not None` (true) or the truth value of `seed_index` (false) -/
  seedGuardNotNone : Bool
  /-- guard of the displacement correction of the basis: `match is not None` (true) or the truth value of `match` (false) -/
  dispGuardNotNone : Bool
  /-- an atom matched as a new seed and not yet in the atom → cell map is entered with `cell_index + multiplier` -/
  icmSetWhenAbsent : Bool
  /-- target cells already searched are dropped from the multipliers -/
  filtersSearched : Bool
  /-- a matched seed already in `used_indices` is not queued, a queued one is added to `used_indices` -/
  skipsUsedSeeds : Bool
deriving Repr

/-- answers of `get_matches` in one call of `_find_region_rec` -/
structure RecO where
  found : List (Option Nat)
  substs : List (Option Nat)
  vacs : List V3

/-- answers of `get_matches_simple` in one call of `_find_new_seeds_and_cell` -/
structure SeedO where
  found : List (Option Nat)
  disps : List (Option V3)

structure QItem where
  seed : Option Nat
  seedPos : V3
  index : CI
  basis : Cell

structure LUnit where
  index : CI
  seed : Option Nat
  seedPos : V3
  cell : Cell
  basis : List (Option Nat)
  substs : List (Option Nat)
  vacs : List V3

structure St where
  searched : List CI := []
  used : List (Option Nat) := []
  usedPoints : List (Option Nat) := []
  icm : List (Nat × CI) := []          -- newest first; lookup takes the first
  vac : List V3 := []
  queue : List QItem := []
  units : List LUnit := []              -- in the order of creation
  edges : List (CI × CI × CI) := []     -- (from, to, multiplier), in the order of creation (multigraph)
  targets : List Nat := []              -- the matched atom each edge was created for (the `index` attribute of its target node)
  calls : Nat := 0                      -- number of calls that consulted `get_matches`
  seedCalls : Nat := 0                  -- number of calls that consulted `get_matches_simple`

def icmGet (m : List (Nat × CI)) (i : Nat) : Option CI := (m.find? (fun e => e.1 == i)).map (·.2)

def truthy (o : Option Nat) : Bool := match o with | some (_ + 1) => true | _ => false

def guard (notNone : Bool) (o : Option Nat) : Bool := if notNone then o.isSome else truthy o

def unitVec (i : Nat) : CI := match i with | 0 => (1, 0, 0) | 1 => (0, 1, 0) | _ => (0, 0, 1)

def Cell.setRow (c : Cell) (i : Nat) (v : V3) : Cell :=
  match i with | 0 => { c with a := v } | 1 => { c with b := v } | _ => { c with c := v }

/-- the basis update at the end of the loop body of `_find_new_seeds_and_cell` -/
def updateBasis (r : Rule) (cell : Cell) (m : CI) (disloc : V3) (mt : Option Nat) (disp : Option V3) : Cell :=
  let v := if guard r.dispGuardNotNone mt then V3.sub disloc (disp.getD V3.zero) else disloc
  let c0 := if m == unitVec 0 then Cell.setRow cell 0 v else cell
  let c1 := if m == unitVec 1 then Cell.setRow c0 1 v else c0
  if m == unitVec 2 then Cell.setRow c1 2 v else c1

structure Acc where
  used : List (Option Nat)
  icm : List (Nat × CI)
  edges : List (CI × CI × CI)
  targets : List Nat
  cell : Cell
  seeds : List (Option Nat × V3 × CI)   -- newest last

/-- the cell a matched seed atom `k` belongs to: the one it is already associated with, else `cell_index + multiplier` -/
def seedTarget (icm : List (Nat × CI)) (cellIndex m : CI) (k : Nat) : CI :=
  match icmGet icm k with
  | some t => t
  | none => CI.add cellIndex m

def seedIcm (r : Rule) (icm : List (Nat × CI)) (cellIndex m : CI) (mt : Option Nat) : List (Nat × CI) :=
  match mt with
  | none => icm
  | some k =>
    match icmGet icm k with
    | some _ => icm
    | none => if r.icmSetWhenAbsent then (k, CI.add cellIndex m) :: icm else icm

def seedEdges (icm : List (Nat × CI)) (edges : List (CI × CI × CI)) (cellIndex m : CI) (mt : Option Nat) : List (CI × CI × CI) :=
  match mt with
  | none => edges
  | some k => edges ++ [(cellIndex, seedTarget icm cellIndex m k, m)]

/-- a matched seed that is already used is not queued -/
def seedBlocked (r : Rule) (used : List (Option Nat)) (mt : Option Nat) : Bool :=
  match mt with
  | none => false
  | some k => r.skipsUsedSeeds && used.contains (some k)

/-- one iteration of the loop over (match, multiplier, dislocation, displacement) -/
def seedIter (r : Rule) (pos : List V3) (cellIndex : CI) (seedPos : V3) (a : Acc)
    (x : Option Nat × CI × V3 × Option V3) : Acc :=
  let guess := V3.add seedPos x.2.2.1
  let iSeedPos := match x.1 with | some k => pos.getD k guess | none => guess
  { used := if !seedBlocked r a.used x.1 && x.1.isSome && r.skipsUsedSeeds then x.1 :: a.used else a.used
    icm := seedIcm r a.icm cellIndex x.2.1 x.1
    edges := seedEdges a.icm a.edges cellIndex x.2.1 x.1
    targets := match x.1 with | some k => k :: a.targets | none => a.targets
    cell := updateBasis r a.cell x.2.1 x.2.2.1 x.1 x.2.2.2
    seeds := if seedBlocked r a.used x.1 then a.seeds else a.seeds ++ [(x.1, iSeedPos, CI.add x.2.1 cellIndex)] }

/-- `_find_new_seeds_and_cell`; the Boolean tells whether `get_matches_simple` was consulted -/
def findNewSeeds (r : Rule) (mults : List CI) (pos : List V3) (st : St) (seed : Option Nat) (seedPos : V3) (basis : Cell)
    (cellIndex : CI) (so : SeedO) : St × Cell × List (Option Nat × V3 × CI) × Bool :=
  if r.checksUsedPoints && st.usedPoints.contains seed then (st, basis, [], false)
  else
    let st1 := { st with usedPoints := seed :: st.usedPoints }
    let valid := mults.filter fun m => !(r.filtersSearched && st.searched.contains (CI.add m cellIndex))
    if guard r.seedGuardNotNone seed then
      let dislocs := valid.map (Cell.comb basis)
      let xs := List.zip so.found (List.zip valid (List.zip dislocs so.disps))
      let acc := xs.foldl (seedIter r pos cellIndex seedPos)
        { used := st1.used, icm := st1.icm, edges := st1.edges, targets := st1.targets, cell := basis, seeds := [] }
      ({ st1 with used := acc.used, icm := acc.icm, edges := acc.edges, targets := acc.targets, seedCalls := st1.seedCalls + 1 },
       acc.cell, acc.seeds, true)
    else (st1, basis, [], false)

def dist2 (a b : V3) : Rat := V3.norm2 (V3.sub a b)

/-- matched atoms are associated with this cell -/
def addFound (icm : List (Nat × CI)) (ci : CI) (found : List (Option Nat)) : List (Nat × CI) :=
  found.foldl (fun m x => match x with | some k => (k, ci) :: m | none => m) icm

/-- substitutions not seen before (`used` already holds the atoms matched in this call) -/
def validSubst (used : List (Option Nat)) (substs : List (Option Nat)) : List (Option Nat) :=
  substs.map fun s => match s with
    | some k => if used.contains (some k) then none else some k
    | none => none

/-- vacancies not seen before (compared with those of EARLIER calls only) -/
def newVacs (tol2 : Rat) (vac vacs : List V3) : List V3 := vacs.filter fun v => vac.all fun w => decide (dist2 w v > tol2)

/-- the bookkeeping of `_find_region_rec` before the search is extended -/
def recState (tol2 : Rat) (st : St) (it : QItem) (o : RecO) : St :=
  { st with searched := it.index :: st.searched
            icm := addFound st.icm it.index o.found
            used := (o.substs.filter Option.isSome).reverse ++ (o.found.reverse ++ st.used)
            vac := st.vac ++ newVacs tol2 st.vac o.vacs
            calls := st.calls + 1 }

def mkUnit (tol2 : Rat) (st : St) (it : QItem) (o : RecO) (cell : Cell) : LUnit :=
  { index := it.index, seed := it.seed, seedPos := it.seedPos, cell := cell, basis := o.found,
    substs := validSubst (o.found.reverse ++ st.used) o.substs, vacs := newVacs tol2 st.vac o.vacs }

/-- `_find_region_rec` for one queue item; the oracle answers are those of this call -/
def regionRec (r : Rule) (mults : List CI) (pos : List V3) (tol2 : Rat) (st : St) (it : QItem) (o : RecO) (so : SeedO) : St :=
  if r.checksSearched && st.searched.contains it.index then st
  else
    let fs := findNewSeeds r mults pos (recState tol2 st it o) it.seed it.seedPos it.basis it.index so
    { fs.1 with units := fs.1.units ++ [mkUnit tol2 st it o fs.2.1]
                queue := fs.1.queue ++ fs.2.2.1.map fun s => { seed := s.1, seedPos := s.2.1, index := s.2.2, basis := fs.2.1 } }

def noAnswer : RecO × SeedO := ({ found := [], substs := [], vacs := [] }, { found := [], disps := [] })

/-- does this queue item consult the oracle? -/
def consults (r : Rule) (st : St) (it : QItem) : Bool := !(r.checksSearched && st.searched.contains it.index)

/-- `_find_periodic_region`: first call on the seed, then the queue until it is empty.  The oracle answers are consumed in the order
of the calls that consult them; `fuel` bounds the number of queue items handled (see `Matid.Props.Region.terminates`) -/
def drain (r : Rule) (mults : List CI) (pos : List V3) (tol2 : Rat) : Nat → St → List (RecO × SeedO) → St
  | 0, st, _ => st
  | fuel + 1, st, os =>
    match st.queue with
    | [] => st
    | it :: rest =>
      let st' := { st with queue := rest }
      if consults r st' it then
        let o := os.headD noAnswer
        drain r mults pos tol2 fuel (regionRec r mults pos tol2 st' it o.1 o.2) os.tail
      else drain r mults pos tol2 fuel st' os

def multsFor (r : Rule) (is2d : Bool) : List CI := if is2d then r.mult2 else r.mult3

def findRegion (r : Rule) (is2d : Bool) (pos : List V3) (tol2 : Rat) (seed : Nat) (seedPos : V3) (basis : Cell)
    (fuel : Nat) (os : List (RecO × SeedO)) : St :=
  drain r (multsFor r is2d) pos tol2 fuel
    { queue := [{ seed := some seed, seedPos := seedPos, index := (0, 0, 0), basis := basis }] } os

/-! ### what the collection reports -/

/-- `LinkedUnitCollection.get_basis_indices` (as a duplicate-free list) -/
def basisIndices (units : List LUnit) : List Nat :=
  (units.flatMap fun u => u.basis.filterMap id).eraseDups

/-- `LinkedUnitCollection.get_connected_directions`: a direction is connected when some node of the search graph has an incoming
edge with multiplier +e and one with −e -/
def connectedDirections (edges : List (CI × CI × CI)) : List Bool :=
  [0, 1, 2].map fun d =>
    edges.any fun e => edges.any fun e' => e.2.1 == e'.2.1 && e.2.2 == unitVec d && e'.2.2 == CI.neg (unitVec d)

/-- the acceptance test at the end of `get_region` -/
def accepted (nBasis dim nPeriodicSpans : Nat) : Bool := decide (nBasis > 1 + dim) || decide (nPeriodicSpans ≥ 1)

end Matid.Region
