/-
State machine of the memoisation inside `matid.symmetry.symmetryanalyzer.SymmetryAnalyzer`.

The analyzer keeps the structure it was given (`set_system`) and a family of attributes `self._x` that its getters
fill on first use.  A structure is abstracted to a version number (a new number for every `set_system` call, also when the
caller passes the same object again after modifying it in place); a cache entry remembers the version it was computed
from.  `Rule` is what the translator extracts from the class on every run (tools/gen_analyzer_rule.py):
which attributes the getters assign, which `reset()` clears, and whether `set_system` starts with an unconditional `reset()`.
-/
namespace Matid.Analyzer

structure Rule where
  cached : List String        -- attributes assigned by the getters
  reset : List String         -- attributes cleared by reset()
  system : List String        -- attributes (re)assigned by set_system itself
  resetFirst : Bool           -- set_system begins with an unconditional self.reset()
deriving Repr

structure AState where
  sys : Nat                           -- version of the structure currently set
  cache : List (String × Nat)         -- filled caches: attribute ↦ version it was computed from
deriving Repr

inductive Op where
  | setSystem (v : Nat)               -- set_system(structure of version v)
  | get (fields : List String)        -- a getter whose result is assembled from these memoised attributes
deriving Repr

def lookup (c : List (String × Nat)) (f : String) : Option Nat := (c.find? (fun p => p.1 == f)).map (·.2)

/-- what set_system does to the caches -/
def clear (r : Rule) (c : List (String × Nat)) : List (String × Nat) :=
  if r.resetFirst then c.filter (fun p => !(r.reset.contains p.1) && !(r.system.contains p.1)) else
    c.filter (fun p => !(r.system.contains p.1))

/-- read-through of one attribute: filled from the current structure when empty -/
def fill (sys : Nat) (c : List (String × Nat)) (f : String) : List (String × Nat) :=
  match lookup c f with
  | some _ => c
  | none => (f, sys) :: c

/-- one operation; a getter reports, per attribute it used, the version its content belongs to -/
def step (r : Rule) (s : AState) : Op → AState × List (String × Nat)
  | .setSystem v => ({ sys := v, cache := clear r s.cache }, [])
  | .get fs =>
    let c := fs.foldl (fill s.sys) s.cache
    ({ s with cache := c }, fs.map fun f => (f, (lookup c f).getD s.sys))

def run (r : Rule) (s : AState) : List Op → AState × List (List (String × Nat))
  | [] => (s, [])
  | op :: ops =>
    let (s', o) := step r s op
    let (s'', os) := run r s' ops
    (s'', o :: os)

def init (v : Nat) : AState := { sys := v, cache := [] }

/-- the decidable condition on the extracted rule -/
def Rule.ok (r : Rule) : Bool :=
  r.resetFirst && r.cached.all (fun f => r.reset.contains f || r.system.contains f)

end Matid.Analyzer
