/-
Model of `matid.geometry.get_radii` (matid/geometry/geometry.py).

Radii are IEEE doubles that are either NaN or a finite decimal (stored in units of 1e-4 Å); the only
operations the function performs on them are comparison and selection, so
`R := nan | val q` with IEEE comparison semantics is an exact model.
The *shape* of each preset (which table / which conditional) is not written
here: it is translated from the function's AST into `Preset` terms by
tools/gen_radii.py (see MatidGen/Radii.lean).
-/
namespace Matid.Radii

inductive R where
  | nan
  | val (n : Int)   -- exact decimal, in units of 1e-4 Å (the translator checks representability)
deriving DecidableEq, Repr

def R.isNan : R → Bool
  | .nan => true
  | .val _ => false

/-- IEEE `!=` : true as soon as one side is NaN. -/
def R.ne : R → R → Bool
  | .val a, .val b => a != b
  | _, _ => true

/-- IEEE `==` : false as soon as one side is NaN. -/
def R.eq : R → R → Bool
  | .val a, .val b => a == b
  | _, _ => false

def R.finitePos : R → Bool
  | .val n => decide (0 < n)
  | .nan => false

/-- value sources that may appear inside the list comprehension of `get_radii` -/
inductive Src where
  | vdw      -- vdw_radii[i]
  | cov      -- covalent_radii[i]
  | nanLit   -- np.nan
deriving DecidableEq, Repr

inductive Test where
  | ne (a b : Src)        -- a != b
  | eq (a b : Src)        -- a == b
  | isnan (a : Src)       -- np.isnan(a) / math.isnan(a)
  | not (t : Test)        -- not t / ~t
deriving DecidableEq, Repr

/-- `thn if test else els` -/
structure Cond where
  test : Test
  thn : Src
  els : Src
deriving DecidableEq, Repr

inductive Preset where
  | table (s : Src)       -- radii = covalent_radii / vdw_radii
  | comp (c : Cond)       -- radii = np.array([c for i in range(len(vdw_radii))])
deriving DecidableEq, Repr

structure Tables where
  vdw : List R
  cov : List R

def Tables.get (t : Tables) (s : Src) (i : Nat) : R :=
  match s with
  | .vdw => t.vdw.getD i .nan
  | .cov => t.cov.getD i .nan
  | .nanLit => .nan

def Test.eval (t : Tables) (i : Nat) : Test → Bool
  | .ne a b => (t.get a i).ne (t.get b i)
  | .eq a b => (t.get a i).eq (t.get b i)
  | .isnan a => (t.get a i).isNan
  | .not s => !(s.eval t i)

def Cond.eval (t : Tables) (c : Cond) (i : Nat) : R :=
  if c.test.eval t i then t.get c.thn i else t.get c.els i

/-- radius that preset `p` assigns to atomic number `z` -/
def Preset.resolve (t : Tables) (p : Preset) (z : Nat) : R :=
  match p with
  | .table s => t.get s z
  | .comp c => c.eval t z

/-- `radii[atomic_numbers]` for a preset -/
def resolveAll (t : Tables) (p : Preset) (zs : List Nat) : List R := zs.map (p.resolve t)

/-- the documented behaviour of 'vdw_covalent' -/
def specVdwCovalent (t : Tables) (z : Nat) : R :=
  if (t.get .vdw z).isNan then t.get .cov z else t.get .vdw z

/-- a custom per-atom array is returned unchanged (the `isinstance(radii, str)` guard is false) -/
def resolveCustom (arr : List R) : List R := arr

def showR : R → String
  | .nan => "nan"
  | .val n => toString n

end Matid.Radii
