/- small parsing helpers for the line protocol of the driver -/
namespace Matid.Parse

def words (s : String) : List String :=
  (s.splitOn " ").filter (fun w => w != "")

def parseInt? (s : String) : Option Int := s.toInt?

def parseNat? (s : String) : Option Nat := s.toNat?

/-- "p/q" or "p" -/
def parseRat? (s : String) : Option Rat :=
  match s.splitOn "/" with
  | [p] => (p.toInt?).map (fun n => (n : Rat))
  | [p, q] => do
      let n ← p.toInt?
      let d ← q.toNat?
      if d == 0 then none else some ((n : Rat) / (d : Rat))
  | _ => none

def showRat (q : Rat) : String :=
  if q.den == 1 then toString q.num else toString q.num ++ "/" ++ toString q.den

/-- comma separated list; the empty string and "-" denote the empty list -/
def parseList? {α} (f : String → Option α) (s : String) : Option (List α) :=
  if s == "" || s == "-" then some [] else (s.splitOn ",").mapM f

def showList {α} (f : α → String) (l : List α) : String :=
  if l.isEmpty then "-" else ",".intercalate (l.map f)

def parseBool? (s : String) : Option Bool :=
  if s == "1" || s == "T" then some true else if s == "0" || s == "F" then some false else none

def showBool (b : Bool) : String := if b then "1" else "0"

end Matid.Parse
