/-
Exact-arithmetic (ℚ) model of the geometry kernel:
  matid/ext/geometry.cpp   (extend_system, get_cell_list, get_displacement_tensor)
  matid/ext/celllist.cpp   (CellList: bins, 27-bin query, per-pair minimum image)
  matid/geometry/geometry.py (get_displacement_tensor wrapper, get_matches, get_matches_simple)
Every finite IEEE double is a rational, so "for all inputs" covers every input of the real code; what is not
modelled is the rounding inside an operation (stated per property in DESIGN.md).
Square roots are avoided: `ceil(cutoff / h)` is computed from squares, distances are kept as squares.
-/
namespace Matid.Geom

abbrev V3 := Rat × Rat × Rat

def V3.add (a b : V3) : V3 := (a.1 + b.1, a.2.1 + b.2.1, a.2.2 + b.2.2)
def V3.sub (a b : V3) : V3 := (a.1 - b.1, a.2.1 - b.2.1, a.2.2 - b.2.2)
def V3.smul (k : Rat) (a : V3) : V3 := (k * a.1, k * a.2.1, k * a.2.2)
def V3.dot (a b : V3) : Rat := a.1 * b.1 + a.2.1 * b.2.1 + a.2.2 * b.2.2
def V3.cross (a b : V3) : V3 := (a.2.1 * b.2.2 - a.2.2 * b.2.1, a.2.2 * b.1 - a.1 * b.2.2, a.1 * b.2.1 - a.2.1 * b.1)
def V3.norm2 (a : V3) : Rat := V3.dot a a
def V3.isZero (a : V3) : Bool := a.1 == 0 && a.2.1 == 0 && a.2.2 == 0
def V3.zero : V3 := (0, 0, 0)

structure Cell where
  a : V3
  b : V3
  c : V3

structure Pbc where
  x : Bool
  y : Bool
  z : Bool

def Cell.row (c : Cell) (i : Nat) : V3 := match i with | 0 => c.a | 1 => c.b | _ => c.c
def Pbc.get (p : Pbc) (i : Nat) : Bool := match i with | 0 => p.x | 1 => p.y | _ => p.z

/-- integer vector times cell -/
def Cell.comb (c : Cell) (f : Int × Int × Int) : V3 :=
  V3.add (V3.add (V3.smul f.1 c.a) (V3.smul f.2.1 c.b)) (V3.smul f.2.2 c.c)

/-! ### ceil(cutoff / h) from squares -/

/-- least n ≥ 0 with n² ≥ q  (q ≥ 0) -/
def ceilSqrt (q : Rat) : Nat :=
  if q ≤ 0 then 0 else
  let f := q.ceil.toNat
  let s := Nat.sqrt f
  if s * s == f then s else s + 1

/-- the number of copies along one axis: `(int)ceil(extension / h)` from `ext2 = extension²` and `h2 = h²` -/
def copiesFrom (ext2 h2 : Rat) : Nat := ceilSqrt (ext2 / h2)

/-! ### extend_system -/

/-- copies along one axis: none when the axis is not periodic or its vector is zero; `none` = the C++ divides by
zero (height 0) -/
def axisCopies (per zero : Bool) (ext2 h2 : Rat) : Option Nat :=
  if per && !zero then (if h2 == 0 then none else some (copiesFrom ext2 h2)) else some 0

/-- squared perpendicular height of v over the plane with normal p: (v·p)² / (p·p) -/
def height2 (v p : V3) : Rat := (V3.dot v p) * (V3.dot v p) / V3.norm2 p

/-- the basis used for the translations (a zero vector is replaced by the cross product of the other two when
exactly one is missing) -/
def completedBasis (cell : Cell) : Cell :=
  let za := V3.isZero cell.a
  let zb := V3.isZero cell.b
  let zc := V3.isZero cell.c
  { a := if za && !zb && !zc then V3.cross cell.b cell.c else cell.a
    b := if zb && !za && !zc then V3.cross cell.a cell.c else cell.b
    c := if zc && !za && !zb then V3.cross cell.a cell.b else cell.c }

def nEmpty (cell : Cell) : Nat :=
  (if V3.isZero cell.a then 1 else 0) + (if V3.isZero cell.b then 1 else 0) + (if V3.isZero cell.c then 1 else 0)

/-- the (possibly completed) basis and the copy counts per axis;
`none` = the C++ would divide by zero (coplanar non-zero vectors), which the properties exclude -/
def extendPlan (cell : Cell) (pbc : Pbc) (ext2 : Rat) : Option (Cell × Nat × Nat × Nat) :=
  let za := V3.isZero cell.a
  let zb := V3.isZero cell.b
  let zc := V3.isZero cell.c
  if nEmpty cell ≤ 1 then
    let B := completedBasis cell
    let p1 := V3.cross B.b B.c
    let p2 := V3.cross B.c B.a
    let p3 := V3.cross B.a B.b
    if V3.isZero p1 || V3.isZero p2 || V3.isZero p3 then none else
    match axisCopies pbc.x za ext2 (height2 B.a p1), axisCopies pbc.y zb ext2 (height2 B.b p2),
          axisCopies pbc.z zc ext2 (height2 B.c p3) with
    | some n1, some n2, some n3 => some (B, n1, n2, n3)
    | _, _, _ => none
  else if nEmpty cell == 2 then
    match axisCopies pbc.x za ext2 (V3.norm2 cell.a), axisCopies pbc.y zb ext2 (V3.norm2 cell.b),
          axisCopies pbc.z zc ext2 (V3.norm2 cell.c) with
    | some n1, some n2, some n3 => some (cell, n1, n2, n3)
    | _, _, _ => none
  else some (cell, 0, 0, 0)

/-- multipliers in the order that keeps the original system first: 0 … m, −m … −1 -/
def multiples (m : Nat) : List Int :=
  (List.range (m + 1)).map (fun (j : Nat) => (j : Int)) ++ (List.range m).map (fun (j : Nat) => (j : Int) - (m : Int))

structure ExtAtom where
  pos : V3
  index : Nat            -- index of the original atom
  factor : Int × Int × Int
deriving Repr

inductive ExtErr where
  | negativeCutoff        -- invalid_argument("Cutoff must be positive.")  → ValueError
  | degenerate            -- division by zero in the C++ (coplanar non-zero cell vectors)
deriving Repr, DecidableEq

/-- extension given by its square (the extension for an infinite cutoff is a vector length) -/
def extendSystem2 (positions : List V3) (cell : Cell) (pbc : Pbc) (ext2 : Rat) : Except ExtErr (List ExtAtom) :=
  match extendPlan cell pbc ext2 with
  | none => .error .degenerate
  | some (basis, n1, n2, n3) =>
    .ok ((multiples n1).flatMap fun i => (multiples n2).flatMap fun j => (multiples n3).flatMap fun k =>
      positions.zipIdx.map fun (p, l) => { pos := V3.add p (Cell.comb basis (i, j, k)), index := l, factor := (i, j, k) })

def extendSystem (positions : List V3) (cell : Cell) (pbc : Pbc) (cutoff : Rat) : Except ExtErr (List ExtAtom) :=
  if cutoff < 0 then .error .negativeCutoff else extendSystem2 positions cell pbc (cutoff * cutoff)

/-! ### CellList -/

def padding : Rat := 1 / 10000

/-- C++ `int(x)` : truncation toward zero -/
def truncInt (q : Rat) : Int := if q ≥ 0 then q.floor else q.ceil

structure Axis where
  lo : Rat        -- xmin (padded)
  hi : Rat        -- xmax (padded)
  n : Nat         -- number of bins
  d : Rat         -- bin width; `none`-like value 0 is never used: for an infinite cutoff n = 1 and every index is 0
  inf : Bool      -- infinite cutoff: a single bin

def mkAxis (coords : List Rat) (cutoff : Option Rat) : Axis :=
  let lo := coords.foldl min (coords.headD 0) - padding
  let hi := coords.foldl max (coords.headD 0) + padding
  match cutoff with
  | none => { lo := lo, hi := hi, n := 1, d := 0, inf := true }
  | some c =>
    let n := max 1 (truncInt ((hi - lo) / c)).toNat
    { lo := lo, hi := hi, n := n, d := max c ((hi - lo) / n), inf := false }

def Axis.bin (a : Axis) (x : Rat) : Int := if a.inf then 0 else truncInt ((x - a.lo) / a.d)

/-- the clamped range of bins inspected for a query coordinate -/
def Axis.range (a : Axis) (x : Rat) : Int × Int :=
  let i0 := a.bin x
  (max (i0 - 1) 0, min (i0 + 1) ((a.n : Int) - 1))

structure CellList where
  atoms : List ExtAtom
  cutoff : Option Rat      -- none = +∞
  ax : Axis
  ay : Axis
  az : Axis

def mkCellList (atoms : List ExtAtom) (cutoff : Option Rat) : CellList :=
  { atoms := atoms, cutoff := cutoff,
    ax := mkAxis (atoms.map (·.pos.1)) cutoff, ay := mkAxis (atoms.map (·.pos.2.1)) cutoff,
    az := mkAxis (atoms.map (·.pos.2.2)) cutoff }

def inRange (r : Int × Int) (i : Int) : Bool := r.1 ≤ i && i ≤ r.2

/-- d² ≤ cutoff² (always true for an infinite cutoff) -/
def withinCutoff : Option Rat → Rat → Bool
  | none, _ => true
  | some c, d2 => decide (d2 ≤ c * c)

structure Neighbour where
  ext : Nat               -- index in the extended system
  index : Nat             -- original index
  dist2 : Rat
  disp : V3               -- query − stored position
  factor : Int × Int × Int
deriving Repr

/-- `get_neighbours_for_position`: the stored points in the (clamped) 27 bins around the query point with
d² ≤ cutoff² (as a list in storage order; the C++ order is the bin traversal order) -/
def CellList.query (cl : CellList) (q : V3) : List Neighbour :=
  let rx := cl.ax.range q.1
  let ry := cl.ay.range q.2.1
  let rz := cl.az.range q.2.2
  cl.atoms.zipIdx.filterMap fun (a, i) =>
    if inRange rx (cl.ax.bin a.pos.1) && inRange ry (cl.ay.bin a.pos.2.1) && inRange rz (cl.az.bin a.pos.2.2) then
      let d := V3.sub q a.pos
      let d2 := V3.norm2 d
      if withinCutoff cl.cutoff d2 then some { ext := i, index := a.index, dist2 := d2, disp := d, factor := a.factor } else none
    else none

/-- the specification of a query: ALL stored points within the cutoff, bins ignored -/
def CellList.querySpec (cl : CellList) (q : V3) : List Neighbour :=
  cl.atoms.zipIdx.filterMap fun (a, i) =>
    let d := V3.sub q a.pos
    let d2 := V3.norm2 d
    if withinCutoff cl.cutoff d2 then some { ext := i, index := a.index, dist2 := d2, disp := d, factor := a.factor } else none

inductive GeomErr where
  | value        -- ValueError (non-positive cell-list cutoff, negative extension)
  | degenerate
deriving Repr, DecidableEq

/-- `get_cell_list(positions, cell, pbc, extension, cutoff)` -/
def getCellList (positions : List V3) (cell : Cell) (pbc : Pbc) (extension : Rat) (cutoff : Option Rat) :
    Except GeomErr CellList :=
  match extendSystem positions cell pbc extension with
  | .error .negativeCutoff => .error .value
  | .error .degenerate => .error .degenerate
  | .ok ext =>
    match cutoff with
    | some c => if c ≤ 0 then .error .value else .ok (mkCellList ext cutoff)
    | none => .ok (mkCellList ext cutoff)

/-! ### get_displacement_tensor -/

/-- extension used for an infinite cutoff: the longest periodic cell vector; we keep its square and derive
the copy counts from it -/
def maxPeriodicLen2 (cell : Cell) (pbc : Pbc) : Rat :=
  max (max (if pbc.x then V3.norm2 cell.a else 0) (if pbc.y then V3.norm2 cell.b else 0)) (if pbc.z then V3.norm2 cell.c else 0)

/-- the cell list `get_displacement_tensor` builds: extension = cutoff, or the longest periodic vector for an
infinite cutoff -/
def tensorCellList (positions : List V3) (cell : Cell) (pbc : Pbc) (cutoff : Option Rat) : Except GeomErr CellList :=
  match cutoff with
  | some c => getCellList positions cell pbc c cutoff
  | none =>
    match extendSystem2 positions cell pbc (maxPeriodicLen2 cell pbc) with
    | .error _ => .error .degenerate
    | .ok ext => .ok (mkCellList ext none)

structure PairEntry where
  dist2 : Rat
  /-- all image factors (of atom j relative to atom i's own cell) that realise the minimum -/
  factors : List (Int × Int × Int)
deriving Repr

/-- entry (i, j), j < i, of the tensor: minimum over the stored images of j within the cutoff that the 27-bin
search around atom i sees; `none` = stays +∞ -/
def pairEntry (cl : CellList) (pi : V3) (j : Nat) : Option PairEntry :=
  let cands := (cl.query pi).filter fun nb => nb.index == j
  match cands with
  | [] => none
  | c0 :: _ =>
    let m := cands.foldl (fun acc nb => min acc nb.dist2) c0.dist2
    some { dist2 := m, factors := (cands.filter fun nb => nb.dist2 == m).map (·.factor) }

/-! ### frames -/

def Cell.det (c : Cell) : Rat := V3.dot c.a (V3.cross c.b c.c)

/-- fractional coordinates: solve  f·cell = p  (Cramer); `none` for a singular cell -/
def toScaled (c : Cell) (p : V3) : Option V3 :=
  let d := c.det
  if d == 0 then none else
  some (V3.dot p (V3.cross c.b c.c) / d, V3.dot p (V3.cross c.c c.a) / d, V3.dot p (V3.cross c.a c.b) / d)

def toCartesian (c : Cell) (f : V3) : V3 := V3.add (V3.add (V3.smul f.1 c.a) (V3.smul f.2.1 c.b)) (V3.smul f.2.2 c.c)

/-! ### get_matches -/

inductive MatchKind where
  | hit          -- nearest image within the tolerance, same species
  | substitution -- nearest image within the tolerance, other species
  | vacancy      -- nothing within the tolerance
deriving Repr, DecidableEq

structure MatchResult where
  kind : MatchKind
  /-- admissible (original index, factor) answers: all images at the minimal distance (ties are broken by
  the bin traversal order of the C++) ; for a vacancy the floor of the scaled position -/
  answers : List (Nat × (Int × Int × Int))
deriving Repr

def getMatch (cl : CellList) (cell : Cell) (numbers : List Nat) (q : V3) (z : Nat) (tol : Rat) : MatchResult :=
  let nbs := cl.query q
  let vac : MatchResult :=
    { kind := .vacancy, answers := match toScaled cell q with
        | some f => [(0, (f.1.floor, f.2.1.floor, f.2.2.floor))]
        | none => [] }
  match nbs with
  | [] => vac
  | n0 :: _ =>
    let m := nbs.foldl (fun acc nb => min acc nb.dist2) n0.dist2
    if m ≤ tol * tol then
      let best := nbs.filter fun nb => nb.dist2 == m
      -- the kind may depend on which of several equidistant images is met first; report per answer
      let same := best.filter fun nb => numbers.getD nb.index 0 == z
      if same.length == best.length then { kind := .hit, answers := best.map fun nb => (nb.index, nb.factor) }
      else if same.isEmpty then { kind := .substitution, answers := best.map fun nb => (nb.index, nb.factor) }
      else { kind := .hit, answers := (best.map fun nb => (nb.index, nb.factor)) }   -- ambiguous tie (not generated)
    else vac

end Matid.Geom
