/-
The basis assembly of `PeriodicFinder._find_proto_cell_3d` / `_find_proto_cell_2d` (matid/core/periodicfinder.py): after the
per-copy cells have been searched with `get_positions_within_basis` (modelled in WithinBasis.lean; here its answers are ORACLE
inputs), every atom network ("group") collects the relative position of each of its nodes from the first cell that holds the node,
groups that were seen too rarely are dropped, the copies are moved next to the one nearest to the origin and averaged, and the
position of the seed group in the new list is tracked.
-/
import MatidModel.Geom

namespace Matid.Assemble
open Matid.Geom

abbrev F3 := Int × Int × Int
abbrev Node := Nat × F3

/-- facts translated from the source -/
structure Rule where
  /-- 3D: a group is kept when `len ≥ num/den · max_occurrence` -/
  fracNum : Nat
  fracDen : Nat
  /-- 3D: … and only when it was seen at all (`len(scaled_pos) != 0`) -/
  requiresNonEmpty3 : Bool
  /-- 2D: a group is kept when it was seen at all -/
  requiresNonEmpty2 : Bool
deriving Repr

/-- what one searched cell holds: nodes (atom, image) with their relative positions, in the order of the search result -/
structure Inside where
  nodes : List Node
  pos : List V3

/-- `cell_nodes[group_node]` of an `OrderedDict(zip(nodes, range(n)))`: the LAST position of the key -/
def Inside.lookup (c : Inside) (n : Node) : Option V3 :=
  match ((c.nodes.zipIdx).filter fun e => e.1 == n).getLast? with
  | some e => c.pos[e.2]?
  | none => none

def Inside.has (c : Inside) (n : Node) : Bool := c.nodes.contains n

/-- the relative position of a group node: from the FIRST cell that holds the node -/
def firstPos (cells : List Inside) (n : Node) : Option V3 :=
  match cells.find? (fun c => c.has n) with
  | some c => c.lookup n
  | none => none

/-- `scaled_pos` of one group -/
def occurrences (cells : List Inside) (group : List Node) : List V3 := group.filterMap (firstPos cells)

/-! ### rounding and wrapping -/

/-- `np.rint`: to the nearest integer, halves to the even one -/
def rint (x : Rat) : Int :=
  let f := x.floor
  let d := x - f
  if d < 1 / 2 then f else if d > 1 / 2 then f + 1 else if f % 2 = 0 then f else f + 1

/-- `x % 1` for floats: x − floor x -/
def wrap1 (x : Rat) : Rat := x - x.floor

def V3.map2 (f : Rat → Rat) (two : Bool) (v : V3) : V3 := (f v.1, f v.2.1, if two then v.2.2 else f v.2.2)

/-- squared length used for "the copy nearest to the origin": all three components, or the two in-plane ones -/
def key (two : Bool) (v : V3) : Rat := v.1 * v.1 + v.2.1 * v.2.1 + (if two then 0 else v.2.2 * v.2.2)

/-- `np.argmin`: the first element with the smallest key -/
def argminBy (k : V3 → Rat) : List V3 → Option V3
  | [] => none
  | v :: rest =>
    match argminBy k rest with
    | none => some v
    | some w => if k w < k v then some w else some v

/-- a copy moved next to the reference copy: `p − rint(p − ref)` per wrapped component -/
def moveNear (two : Bool) (ref p : V3) : V3 :=
  (p.1 - rint (p.1 - ref.1), p.2.1 - rint (p.2.1 - ref.2.1), if two then p.2.2 else p.2.2 - rint (p.2.2 - ref.2.2))

def mean (l : List V3) : V3 :=
  let n : Rat := l.length
  let s := l.foldl V3.add (0, 0, 0)
  (s.1 / n, s.2.1 / n, s.2.2 / n)

/-- the averaged relative position of one group (`two` = the 2D routine: in-plane components wrapped into [0,1) first, the third
component averaged as it is) -/
def average (two : Bool) (occ : List V3) : Option V3 :=
  let occ' := if two then occ.map (V3.map2 wrap1 true) else occ
  match argminBy (key two) occ' with
  | none => none
  | some ref => some (mean (occ'.map (moveNear two ref)))

/-! ### which groups are kept, and where the seed group ends up -/

def keep (r : Rule) (two : Bool) (maxOcc n : Nat) : Bool :=
  if two then (!r.requiresNonEmpty2 || n != 0)
  else (!r.requiresNonEmpty3 || n != 0) && decide (r.fracDen * n ≥ r.fracNum * maxOcc)

structure Out where
  atoms : List (Nat × V3)          -- (atomic number, averaged relative position), in group order
  seedIndex : Option Int           -- `new_group_index`: None, or len(list so far) − 1 at the seed group (−1 possible)

/-- one pass of the loop over the groups: `x` = (group number, its occurrences, its atomic number) -/
def assembleStep (r : Rule) (two : Bool) (maxOcc seedGroup : Nat) (acc : List (Nat × V3) × Option Int) (x : Nat × List V3 × Nat) :
    List (Nat × V3) × Option Int :=
  let atoms :=
    if keep r two maxOcc x.2.1.length then
      match average two x.2.1 with
      | some p => acc.1 ++ [(x.2.2, p)]
      | none => acc.1 ++ [(x.2.2, (0, 0, 0))]      -- np.mean of an empty array (nan): only reachable without the non-empty test
    else acc.1
  (atoms, if x.1 == seedGroup then some ((atoms.length : Int) - 1) else acc.2)

def maxOccOf (occs : List (List V3)) : Nat := (occs.map List.length).foldl max 0

/-- the loop over the groups -/
def assemble (r : Rule) (two : Bool) (cells : List Inside) (groups : List (List Node)) (nums : List Nat) (seedGroup : Nat) : Out :=
  let occs := groups.map (occurrences cells)
  let res := ((List.range groups.length).zip (occs.zip nums)).foldl (assembleStep r two (maxOccOf occs) seedGroup) ([], none)
  { atoms := res.1, seedIndex := res.2 }

end Matid.Assemble
