/-
Exact-arithmetic model of `matid.geometry.get_positions_within_basis` (used by the periodic finder to populate a candidate
prototype cell): which atoms — and which of their periodic images — lie inside the parallelepiped `origin + [0,1]³·basis`
(padded by `tolerance`), with their coordinates relative to that basis.

Faithful to the code, including its choice of corner points: the images that are scanned are those whose cell offset lies
in the box spanned by the offsets of SEVEN points  origin+a, origin+b, origin+b (sic: `max_c = origin + basis[1, :]`),
origin+a+b, origin+a+c, origin+b+c, origin+a+b+c.  The corners `origin` and `origin + c` are not among them.
-/
import MatidModel.Geom

namespace Matid.WithinBasis
open Matid.Geom

def floorV (f : V3) : Int × Int × Int := (f.1.floor, f.2.1.floor, f.2.2.floor)

/-- the seven points whose cell offsets span the scanned box (as coded) -/
def cornersCoded (basis : Cell) (origin : V3) : List V3 :=
  [V3.add origin basis.a, V3.add origin basis.b, V3.add origin basis.b,
   V3.add (V3.add origin basis.a) basis.b, V3.add (V3.add origin basis.a) basis.c, V3.add (V3.add origin basis.b) basis.c,
   V3.add (V3.add (V3.add origin basis.a) basis.b) basis.c]

/-- all eight corners of the parallelepiped -/
def cornersAll (basis : Cell) (origin : V3) : List V3 :=
  origin :: V3.add origin basis.c :: cornersCoded basis origin

def minOf (l : List Int) : Int := l.foldl min (l.headD 0)
def maxOf (l : List Int) : Int := l.foldl max (l.headD 0)

/-- integers lo, lo+1, …, hi (python `range(lo, hi + 1)`) -/
def intRange (lo hi : Int) : List Int := (List.range (hi - lo + 1).toNat).map fun (k : Nat) => lo + (k : Int)

structure Ranges where
  a : Int × Int
  b : Int × Int
  c : Int × Int
deriving Repr, DecidableEq

/-- scaled coordinates by Cramer's rule (the value `to_scaled` returns for a non-singular cell) -/
def scaledOf (c : Cell) (p : V3) : V3 :=
  (V3.dot p (V3.cross c.b c.c) / c.det, V3.dot p (V3.cross c.c c.a) / c.det, V3.dot p (V3.cross c.a c.b) / c.det)

/-- per axis the smallest and largest cell offset (floor of the scaled coordinate) among the given points;
`none` for a singular cell (numpy raises LinAlgError) -/
def rangesOf (cell : Cell) (pts : List V3) : Option Ranges :=
  if cell.det == 0 then none else
    let fl := pts.map fun p => floorV (scaledOf cell p)
    some { a := (minOf (fl.map (·.1)), maxOf (fl.map (·.1))),
           b := (minOf (fl.map (·.2.1)), maxOf (fl.map (·.2.1))),
           c := (minOf (fl.map (·.2.2)), maxOf (fl.map (·.2.2))) }

/-- the image offsets that are scanned, in the order of `cartesian((a_range, b_range, c_range))`, restricted to offsets
that vanish along non-periodic axes -/
def directions (pbc : Pbc) (r : Ranges) : List (Int × Int × Int) :=
  ((intRange r.a.1 r.a.2).flatMap fun i => (intRange r.b.1 r.b.2).flatMap fun j => (intRange r.c.1 r.c.2).map fun k => (i, j, k)).filter
    fun f => (f.1 == 0 || pbc.x) && (f.2.1 == 0 || pbc.y) && (f.2.2 == 0 || pbc.z)

/-- `0 - tol/|b| ≤ x ≤ 1 + tol/|b|` decided on squares (`n2 = |b|²`, tol ≥ 0) -/
def within (x n2 tol : Rat) : Bool :=
  (decide (0 ≤ x) || decide (x * x * n2 ≤ tol * tol)) && (decide (x ≤ 1) || decide ((x - 1) * (x - 1) * n2 ≤ tol * tol))

structure Found where
  index : Nat
  rel : V3
  factor : Int × Int × Int
deriving Repr

structure Mask where
  a : Bool
  b : Bool
  c : Bool

/-- the atoms of one image that fall inside the (padded) parallelepiped -/
def scanImage (positions : List V3) (cell basis : Cell) (origin : V3) (tol : Rat) (mask : Mask) (f : Int × Int × Int) : List Found :=
  positions.zipIdx.filterMap fun (p, i) =>
    match toScaled basis (V3.sub (V3.add p (Cell.comb cell f)) origin) with
    | none => none
    | some rel =>
      if (!mask.a || within rel.1 (V3.norm2 basis.a) tol) && (!mask.b || within rel.2.1 (V3.norm2 basis.b) tol)
          && (!mask.c || within rel.2.2 (V3.norm2 basis.c) tol)
      then some { index := i, rel := rel, factor := f } else none

/-- `get_positions_within_basis(system, basis, origin, tolerance, mask, pbc)`; `none` = the cell or the basis is singular
(the Python raises) -/
def positionsWithinBasis (positions : List V3) (cell : Cell) (pbc : Pbc) (basis : Cell) (origin : V3) (tol : Rat) (mask : Mask) :
    Option (List Found) :=
  if basis.det == 0 then none else
  match rangesOf cell (cornersCoded basis origin) with
  | none => none
  | some r => some ((directions pbc r).flatMap (scanImage positions cell basis origin tol mask))

/-- the same function with the scanned box spanned by ALL eight corners of the parallelepiped (the specification the
seven-corner version approximates) -/
def positionsWithinBasisAll (positions : List V3) (cell : Cell) (pbc : Pbc) (basis : Cell) (origin : V3) (tol : Rat) (mask : Mask) :
    Option (List Found) :=
  if basis.det == 0 then none else
  match rangesOf cell (cornersAll basis origin) with
  | none => none
  | some r => some ((directions pbc r).flatMap (scanImage positions cell basis origin tol mask))

end Matid.WithinBasis
