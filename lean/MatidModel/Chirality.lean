/-
Model of `SymmetryAnalyzer.get_is_chiral` (matid/symmetry/symmetryanalyzer.py): scan the rotation parts of the
symmetry operations (integer 3×3 matrices in the basis of the input cell) for determinant −1.
-/
import MatidModel.Table
namespace Matid.Chirality
open Matid.Table

structure Mat3 where
  a11 : Int
  a12 : Int
  a13 : Int
  a21 : Int
  a22 : Int
  a23 : Int
  a31 : Int
  a32 : Int
  a33 : Int
deriving DecidableEq, Repr

def Mat3.det (A : Mat3) : Int :=
  A.a11 * (A.a22 * A.a33 - A.a23 * A.a32) - A.a12 * (A.a21 * A.a33 - A.a23 * A.a31)
    + A.a13 * (A.a21 * A.a32 - A.a22 * A.a31)

def Mat3.mul (A B : Mat3) : Mat3 :=
  { a11 := A.a11 * B.a11 + A.a12 * B.a21 + A.a13 * B.a31
    a12 := A.a11 * B.a12 + A.a12 * B.a22 + A.a13 * B.a32
    a13 := A.a11 * B.a13 + A.a12 * B.a23 + A.a13 * B.a33
    a21 := A.a21 * B.a11 + A.a22 * B.a21 + A.a23 * B.a31
    a22 := A.a21 * B.a12 + A.a22 * B.a22 + A.a23 * B.a32
    a23 := A.a21 * B.a13 + A.a22 * B.a23 + A.a23 * B.a33
    a31 := A.a31 * B.a11 + A.a32 * B.a21 + A.a33 * B.a31
    a32 := A.a31 * B.a12 + A.a32 * B.a22 + A.a33 * B.a32
    a33 := A.a31 * B.a13 + A.a32 * B.a23 + A.a33 * B.a33 }

def Mat3.one : Mat3 := { a11 := 1, a12 := 0, a13 := 0, a21 := 0, a22 := 1, a23 := 0, a31 := 0, a32 := 0, a33 := 1 }

/-- the exact-arithmetic reading of the loop in `get_is_chiral` -/
def isChiral (rots : List Mat3) : Bool := rots.all fun R => R.det != -1

def ofAff (A : Aff) : Mat3 :=
  { a11 := A.a11, a12 := A.a12, a13 := A.a13, a21 := A.a21, a22 := A.a22, a23 := A.a23,
    a31 := A.a31, a32 := A.a32, a33 := A.a33 }

/-- the 65 Sohncke space-group types (International Tables) -/
def isSohncke (n : Nat) : Bool :=
  n == 1 || (3 ≤ n && n ≤ 5) || (16 ≤ n && n ≤ 24) || (75 ≤ n && n ≤ 80) || (89 ≤ n && n ≤ 98) ||
  (143 ≤ n && n ≤ 146) || (149 ≤ n && n ≤ 155) || (168 ≤ n && n ≤ 173) || (177 ≤ n && n ≤ 182) ||
  (195 ≤ n && n ≤ 199) || (207 ≤ n && n ≤ 214)

def parseMat3? (l : List Int) : Option Mat3 :=
  match l with
  | [a, b, c, d, e, f, g, h, i] => some { a11 := a, a12 := b, a13 := c, a21 := d, a22 := e, a23 := f, a31 := g, a32 := h, a33 := i }
  | _ => none

end Matid.Chirality
