import MatidModel.Parse
import MatidModel.Radii
