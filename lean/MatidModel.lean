import MatidModel.Parse
import MatidModel.Radii
import MatidModel.Table
import MatidModel.Chirality
import MatidModel.Primitive
import MatidModel.WyckoffParams
import MatidModel.Select
import MatidModel.Geom
