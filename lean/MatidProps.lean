import MatidProps.C19
