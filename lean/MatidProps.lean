import MatidProps.C19
import MatidProps.C14
import MatidProps.C15
import MatidProps.C12
import MatidProps.C08
import MatidProps.C06
import MatidProps.C05
import MatidProps.C07
