import MatidProps.C19
import MatidProps.C14
