import MatidGen.Radii
import MatidGen.AllGroups
