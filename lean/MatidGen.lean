import MatidGen.Radii
