import MatidGen.Radii
import MatidGen.AllGroups
import MatidGen.Centring
import MatidGen.WyckoffRule
import MatidGen.DimRule
import MatidGen.ClusterRule
import MatidGen.AnalyzerRule
import MatidGen.SbcRule
