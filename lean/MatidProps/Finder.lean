/-
Theorems about the geometric helper of the periodic finder that is inside the model
(matid.geometry.get_positions_within_basis, MatidModel/WithinBasis.lean) — the prototype-cell population step named in the
anchors of C02, C03 and C04.  Exact arithmetic over ℚ; tied to the code by the `withinbasis` correspondence
(harness/finder_helpers.py).
-/
import MatidProofs.WithinBasisProofs
import MatidProps.C20

namespace Matid.Props.Finder
open Matid.Geom Matid.WithinBasis

/-- soundness: whatever is reported is an atom shifted by an admissible integer cell offset inside the scanned box, with exactly
the reported relative coordinates, and it passes the padded inside test -/
theorem within_basis_sound (positions : List V3) (cell : Cell) (pbc : Pbc) (basis : Cell) (origin : V3) (tol : Rat) (mask : Mask)
    (l : List Found) (h : positionsWithinBasis positions cell pbc basis origin tol mask = some l) :
    ∃ r, rangesOf cell (cornersCoded basis origin) = some r ∧ ∀ d ∈ l,
      ∃ p, positions[d.index]? = some p ∧ toScaled basis (V3.sub (V3.add p (Cell.comb cell d.factor)) origin) = some d.rel ∧
        insideTest basis tol mask d.rel = true ∧ admissibleF pbc d.factor ∧ inBox r d.factor :=
  Matid.WithinBasis.within_basis_sound positions cell pbc basis origin tol mask l h

/-- completeness relative to the box the code scans (spanned by the cell offsets of its seven corner points) -/
theorem within_basis_complete_in_scanned_box (positions : List V3) (cell : Cell) (pbc : Pbc) (basis : Cell) (origin : V3) (tol : Rat)
    (mask : Mask) (l : List Found) (h : positionsWithinBasis positions cell pbc basis origin tol mask = some l)
    (r : Ranges) (hr : rangesOf cell (cornersCoded basis origin) = some r)
    (i : Nat) (p : V3) (hp : positions[i]? = some p) (f : Int × Int × Int) (hadm : admissibleF pbc f) (hbox : inBox r f)
    (rel : V3) (hs : toScaled basis (V3.sub (V3.add p (Cell.comb cell f)) origin) = some rel)
    (hin : insideTest basis tol mask rel = true) :
    ∃ d ∈ l, d.index = i ∧ d.factor = f ∧ d.rel = rel :=
  within_basis_complete_in_box positions cell pbc basis origin tol mask l h r hr i p hp f hadm hbox rel hs hin

theorem within_basis_no_duplicates (positions : List V3) (cell : Cell) (pbc : Pbc) (basis : Cell) (origin : V3) (tol : Rat)
    (mask : Mask) (l : List Found) (h : positionsWithinBasis positions cell pbc basis origin tol mask = some l) :
    (l.map fun d => (d.index, d.factor)).Nodup :=
  Matid.WithinBasis.within_basis_no_duplicates positions cell pbc basis origin tol mask l h

theorem insideTest_of_unit (basis : Cell) (tol : Rat) (mask : Mask) (rel : V3)
    (h1 : 0 ≤ rel.1 ∧ rel.1 ≤ 1) (h2 : 0 ≤ rel.2.1 ∧ rel.2.1 ≤ 1) (h3 : 0 ≤ rel.2.2 ∧ rel.2.2 ≤ 1) :
    insideTest basis tol mask rel = true := by
  simp [insideTest, within, h1.1, h1.2, h2.1, h2.2, h3.1, h3.2]

theorem floor_add_int_of_unit (s : Rat) (f : Int) (h0 : 0 ≤ s) (h1 : s < 1) : (s + (f : Rat)).floor = f := by
  apply le_antisymm
  · have : (s + (f : Rat)).floor < f + 1 := by
      rw [Rat.floor_lt_iff]; push_cast; linarith
    omega
  · rw [Rat.le_floor_iff]; linarith

/-- **with the box spanned by ALL eight corners the search is complete**: for non-singular cell and basis, every image (admissible
integer offset) of every atom lying inside the cell whose coordinates relative to (origin, basis) are in [0,1]³ is reported, for
every tolerance and mask -/
theorem all_corners_complete (positions : List V3) (cell : Cell) (pbc : Pbc) (basis : Cell) (origin : V3) (tol : Rat) (mask : Mask)
    (hcell : cell.det ≠ 0) (hbasis : basis.det ≠ 0)
    (i : Nat) (s : V3) (hp : positions[i]? = some (toCartesian cell s))
    (hs1 : 0 ≤ s.1 ∧ s.1 < 1) (hs2 : 0 ≤ s.2.1 ∧ s.2.1 < 1) (hs3 : 0 ≤ s.2.2 ∧ s.2.2 < 1)
    (f : Int × Int × Int) (hadm : admissibleF pbc f) (rel : V3)
    (hrel : toScaled basis (V3.sub (V3.add (toCartesian cell s) (Cell.comb cell f)) origin) = some rel)
    (h1 : 0 ≤ rel.1 ∧ rel.1 ≤ 1) (h2 : 0 ≤ rel.2.1 ∧ rel.2.1 ≤ 1) (h3 : 0 ≤ rel.2.2 ∧ rel.2.2 ≤ 1) :
    ∃ l, positionsWithinBasisAll positions cell pbc basis origin tol mask = some l ∧
      ∃ d ∈ l, d.index = i ∧ d.factor = f ∧ d.rel = rel := by
  -- the image point is a point of the parallelepiped
  obtain ⟨rel', hrel', hcart⟩ := Matid.Props.C20.cartesian_of_scaled basis hbasis (V3.sub (V3.add (toCartesian cell s) (Cell.comb cell f)) origin)
  rw [hrel] at hrel'
  cases hrel'
  have hP : V3.add (toCartesian cell s) (Cell.comb cell f) = boxPoint basis origin rel.1 rel.2.1 rel.2.2 := by
    obtain ⟨o1, o2, o3⟩ := origin
    obtain ⟨⟨a1, a2, a3⟩, ⟨b1, b2, b3⟩, ⟨c1, c2, c3⟩⟩ := basis
    obtain ⟨r1, r2, r3⟩ := rel
    generalize V3.add (toCartesian cell s) (Cell.comb cell f) = P at hcart ⊢
    obtain ⟨p1, p2, p3⟩ := P
    simp only [toCartesian, V3.add, V3.smul, V3.sub, boxPoint, Prod.mk.injEq] at hcart ⊢
    obtain ⟨e1, e2, e3⟩ := hcart
    refine ⟨?_, ?_, ?_⟩ <;> linarith
  obtain ⟨r, hr, hbox⟩ := all_corners_box cell hcell basis origin rel.1 rel.2.1 rel.2.2 h1.1 h1.2 h2.1 h2.2 h3.1 h3.2
  -- its cell offset is f
  have hsc : scaledOf cell (V3.add (toCartesian cell s) (Cell.comb cell f)) = (s.1 + f.1, s.2.1 + f.2.1, s.2.2 + f.2.2) := by
    have hcomb : V3.add (toCartesian cell s) (Cell.comb cell f) = toCartesian cell (s.1 + f.1, s.2.1 + f.2.1, s.2.2 + f.2.2) := by
      obtain ⟨⟨a1, a2, a3⟩, ⟨b1, b2, b3⟩, ⟨c1, c2, c3⟩⟩ := cell
      obtain ⟨s1, s2, s3⟩ := s
      obtain ⟨f1, f2, f3⟩ := f
      simp only [toCartesian, Cell.comb, V3.add, V3.smul, Prod.mk.injEq]
      refine ⟨?_, ?_, ?_⟩ <;> ring
    rw [hcomb]
    have := Matid.Props.C20.scaled_of_cartesian cell hcell (s.1 + f.1, s.2.1 + f.2.1, s.2.2 + f.2.2)
    rw [Matid.Props.C20.toScaled_eq cell hcell] at this
    simpa [scaledOf] using this
  rw [← hP, hsc] at hbox
  have hfl : floorV ((s.1 + (f.1 : Rat), s.2.1 + (f.2.1 : Rat), s.2.2 + (f.2.2 : Rat)) : V3) = f := by
    simp only [floorV, floor_add_int_of_unit _ _ hs1.1 hs1.2, floor_add_int_of_unit _ _ hs2.1 hs2.2, floor_add_int_of_unit _ _ hs3.1 hs3.2]
  rw [hfl] at hbox
  have hb : (basis.det == 0) = false := by simpa using hbasis
  refine ⟨_, by unfold positionsWithinBasisAll; rw [hb, hr]; rfl, ?_⟩
  refine ⟨{ index := i, rel := rel, factor := f }, ?_, rfl, rfl, rfl⟩
  simp only [List.mem_flatMap]
  exact ⟨f, (mem_directions pbc r f).mpr ⟨hbox, hadm⟩,
    (mem_scanImage _ _ _ _ _ _ _ _).mpr ⟨_, hp, hrel, insideTest_of_unit basis tol mask rel h1 h2 h3, rfl⟩⟩

/-- **the code's seven corner points are not enough** (it takes `origin + basis[1]` twice and neither `origin` nor
`origin + basis[2]`): a 4 Å cubic cell, the basis a = (1,0,1), b = (0,1,1), c = (0,0,−1) at origin (½,½,½); the atom at
(0.6, 0.6, 3.9) has its image at z = −0.1 inside the parallelepiped (relative coordinates (0.1, 0.1, 0.8)) — the seven-corner box
does not contain the offset (0,0,−1) and the atom is not reported, the eight-corner box does -/
def wCell : Cell := { a := (4, 0, 0), b := (0, 4, 0), c := (0, 0, 4) }
def wBasis : Cell := { a := (1, 0, 1), b := (0, 1, 1), c := (0, 0, -1) }
def wPbc : Pbc := { x := true, y := true, z := true }
def wMask : Mask := { a := true, b := true, c := true }
theorem omitted_corner_witness :
    (positionsWithinBasis [((3 : Rat) / 5, (3 : Rat) / 5, (39 : Rat) / 10)] wCell wPbc wBasis (1 / 2, 1 / 2, 1 / 2) 0 wMask).map
        (·.map fun d => (d.index, d.factor, d.rel)) == some [] ∧
    (positionsWithinBasisAll [((3 : Rat) / 5, (3 : Rat) / 5, (39 : Rat) / 10)] wCell wPbc wBasis (1 / 2, 1 / 2, 1 / 2) 0 wMask).map
        (·.map fun d => (d.index, d.factor, d.rel)) == some [(0, (0, 0, -1), ((1 : Rat) / 10, (1 : Rat) / 10, (4 : Rat) / 5))] := by
  decide +kernel

end Matid.Props.Finder
