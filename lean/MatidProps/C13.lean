/-
C13 — Cluster.get_dimensionality agrees with get_dimensionality of the cluster's atoms.
`MatidGen.ClusterRule` says whether the source NOW invalidates the caches when `indices` is assigned and whether
the shortcut forwards the clustering radii (translated from the AST of cluster.py).
-/
import MatidModel.ClusterCache
import MatidGen.ClusterRule
import MatidGen.SbcRule

namespace Matid.Props.C13
open Matid.ClusterCache

theorem fresh_init (l : List Nat) : Fresh (init l) := ⟨Or.inl rfl, Or.inl rfl⟩

/-- one step preserves freshness when assignments invalidate the caches -/
theorem fresh_step (s : CState) (op : Op) (h : Fresh s) : Fresh (step true s op).1 := by
  obtain ⟨hm, hd⟩ := h
  cases op with
  | getMatrix =>
    simp only [step]
    cases hc : s.cacheM with
    | none => exact ⟨Or.inr rfl, by simpa using hd⟩
    | some l => simp only [hc]; exact ⟨by rw [hc] at hm; simpa [hc] using hm, hd⟩
  | getDim =>
    simp only [step]
    cases hc : s.cacheD with
    | some p => obtain ⟨m, a⟩ := p; simp only [hc]; exact ⟨hm, by rw [hc] at hd; simpa [hc] using hd⟩
    | none =>
      simp only
      have hm' : s.cacheM.getD s.indices = s.indices := by
        rcases hm with h | h <;> simp [h]
      exact ⟨Or.inr (by simp [hm']), Or.inr (by simp [hm'])⟩
  | setIndices l => simp [step, Fresh]

/-- with invalidation, in a fresh state every dimensionality request returns the fresh evaluation for the
current atoms -/
theorem getDim_fresh (s : CState) (h : Fresh s) : (step true s .getDim).2 = .dim s.indices s.indices := by
  obtain ⟨hm, hd⟩ := h
  simp only [step]
  cases hc : s.cacheD with
  | some p =>
    obtain ⟨m, a⟩ := p
    rw [hc] at hd
    rcases hd with h | h
    · cases h
    · simp only [Option.some.injEq, Prod.mk.injEq] at h; simp [h.1, h.2]
  | none =>
    have hm' : s.cacheM.getD s.indices = s.indices := by rcases hm with h | h <;> simp [h]
    simp [hm']

/-- **for every operation history** (creation, any number of matrix requests, dimensionality requests and index
reassignments in any order) every state is fresh … -/
theorem fresh_run (ops : List Op) : ∀ s, Fresh s → Fresh (run true s ops).1 := by
  induction ops with
  | nil => intro s h; exact h
  | cons op ops ih => intro s h; simp only [run]; exact ih _ (fresh_step s op h)

/-- … so a dimensionality request after ANY history returns the fresh evaluation for the current atoms, and
repeating the request returns the same computation -/
theorem getDim_correct (l : List Nat) (ops : List Op) :
    let s := (run true (init l) ops).1
    (step true s .getDim).2 = .dim s.indices s.indices ∧
    (step true (step true s .getDim).1 .getDim).2 = (step true s .getDim).2 := by
  intro s
  have hs : Fresh s := fresh_run ops _ (fresh_init l)
  have h1 := getDim_fresh s hs
  refine ⟨h1, ?_⟩
  have hs' : Fresh (step true s .getDim).1 := fresh_step s .getDim hs
  have h2 := getDim_fresh _ hs'
  rw [h2, h1]
  have : (step true s .getDim).1.indices = s.indices := by
    simp only [step]; cases s.cacheD with
    | none => rfl
    | some p => rfl
  rw [this]

/-- without invalidation the property is false: after outlier removal the stale sub-matrix is reused -/
theorem stale_cache_witness :
    (run false (init [0, 1, 2, 3]) [.getMatrix, .setIndices [0, 1, 2], .getDim]).2
      = [.matrix [0, 1, 2, 3], .unit, .dim [0, 1, 2, 3] [0, 1, 2]] := by decide

/-- the source as it is now invalidates on assignment and forwards the clustering radii -/
theorem source_invalidates : MatidGen.ClusterRule.invalidatesOnSet = true := by decide
theorem source_forwards_radii : MatidGen.ClusterRule.forwardsRadii = true := by decide
/-- atoms, radii and the cached sub-matrix are taken in the same order, and nothing outside the class writes the caches the state
machine above is about (e.g. a pre-filled dimensionality) -/
theorem source_aligned_and_private : MatidGen.ClusterRule.atomsInIndexOrder = true ∧ MatidGen.ClusterRule.externalCacheWrites = [] := by decide

/-- the shared distance information of get_clusters is computed with the resolved clustering radii, and every `Cluster(...)` construction in sbc.py (the search loop AND the merge step) passes the structure, the distances, the
clustering radii and the bond threshold on — a cluster created without them would evaluate its shortcut with defaults -/
theorem constructors_forward_radii :
    MatidGen.SbcRule.distancesUseRadii = true ∧ MatidGen.SbcRule.ctorForwardsByName = true ∧ MatidGen.SbcRule.ctorKeywords ≠ [] ∧
    MatidGen.SbcRule.ctorKeywords.all (fun k => k.contains "radii" && k.contains "bond_threshold" && k.contains "distances"
      && k.contains "system") = true := by decide

end Matid.Props.C13
