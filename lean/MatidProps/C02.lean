/-
C02 — SBC groups a single crystal (bulk or slab) into exactly one complete cluster.
CONDITIONAL theorem: under contract F ("started from any seed atom of the crystal, the periodic finder returns a
region whose basis atoms are all atoms") and connectedness of the bonding graph, for every seed, every RNG stream
and every merge threshold / merge radius, the pipeline returns exactly one cluster containing every atom.
Contract F itself is a statement about the heuristic finder on noisy crystals; it is sampled, not proved.
-/
import MatidProofs.SBCFamily

namespace Matid.Props.C02
open Matid.SBC

theorem sbc_single_cluster (numbers : List Nat) (f : FinderOut) (basis : List Nat) (hb : f.basis = some basis)
    (hall : ∀ i, i < numbers.length → i ∈ basis)            -- contract F
    (thr : Rat) (near : Nat → Nat → Bool) :
    ∃ c, driverStep numbers (List.range numbers.length) f = ([], some c) ∧     -- one iteration assigns every atom
      (∀ i, i < numbers.length → i ∈ c.idx) ∧                                   -- the cluster is complete
      mergeClusters numbers thr [c] = [c] ∧                                     -- nothing to merge with
      (∀ n, localize near n [c.idx] = [c.idx]) ∧                                -- nothing to localise
      (c.idx ≠ [] → cleanOne [c.idx] = [c.idx]) := by                           -- connected ⇒ nothing cleaned away
  obtain ⟨c, h1, h2, h3⟩ := driver_single_crystal numbers f basis hb hall
  refine ⟨c, h1, h2, merge_singleton numbers thr c h3, ?_, clean_connected c.idx⟩
  apply localize_id_of_disjoint
  intro j
  simp only [memCount, List.countP_cons, List.countP_nil]
  split <;> omega

end Matid.Props.C02
