/-
C17 — classifier output is consistent with dimensionality and with its own region.
-/
import MatidModel.Classifier
import Mathlib.Data.List.Basic
import Mathlib.Data.List.Perm.Basic
import Mathlib.Tactic.Linarith
import MatidGen.ClassifierRule

namespace Matid.Props.C17
open Matid.Classifier

/-- with a dimensionality in {undefined, 0, 1, 2, 3} — which is all `get_dimensionality` can return for at most three
periodic directions (C09.dimension_in_range) — the classifier always produces a class, and exactly the one the
property lists -/
theorem classify2D_cases (nAtoms : Nat) (minCov : Rat) (regions : List (Option RegionInfo)) :
    classify2D nAtoms minCov regions = .class2D ∨ classify2D nAtoms minCov regions = .surface ∨
    classify2D nAtoms minCov regions = .material2D := by
  unfold classify2D
  cases crossValidate nAtoms regions none 0 with
  | none => simp
  | some r => simp only; split <;> (try split) <;> simp

theorem classify_total (dim : Option Int) (hd : dim = none ∨ dim = some 0 ∨ dim = some 1 ∨ dim = some 2 ∨ dim = some 3)
    (nAtoms : Nat) (minCov : Rat) (regions : List (Option RegionInfo)) :
    let c := classify dim nAtoms minCov regions
    c ≠ .noResult ∧
    (dim = none → c = .unknown) ∧
    (dim = some 0 → c = if nAtoms = 1 then .atom else .class0D) ∧
    (dim = some 1 → c = .class1D) ∧
    (dim = some 2 → c = .class2D ∨ c = .surface ∨ c = .material2D) ∧
    (dim = some 3 → c = .class3D) := by
  intro c
  have h2 := classify2D_cases nAtoms minCov regions
  rcases hd with h | h | h | h | h <;> subst h <;> simp only [c, classify]
  · simp
  · by_cases hn : nAtoms = 1 <;> simp [hn]
  · simp
  · simp only [show (2 : Int) ≠ 0 by decide, show (2 : Int) ≠ 1 by decide, if_false, if_true]
    refine ⟨?_, by simp, by simp, by simp, fun _ => h2, by simp⟩
    rcases h2 with h | h | h <;> rw [h] <;> simp
  · simp

/-- a refined 2D class always carries a region that covers at least min_coverage of the atoms and is cyclically
connected in exactly two directions; Material2D iff that region is flagged 2D -/
theorem refined_has_region (dim : Option Int) (nAtoms : Nat) (minCov : Rat) (regions : List (Option RegionInfo))
    (h : classify dim nAtoms minCov regions = .surface ∨ classify dim nAtoms minCov regions = .material2D) :
    dim = some 2 ∧ ∃ r, crossValidate nAtoms regions none 0 = some r ∧ (r.nBasis : Rat) / nAtoms ≥ minCov ∧ r.nConn = 2 ∧
      (classify dim nAtoms minCov regions = .material2D ↔ r.is2d = true) := by
  have hdim : dim = some 2 := by
    unfold classify at h
    cases dim with
    | none => simp at h
    | some d =>
      simp only at h
      by_cases h0 : d = 0
      · simp only [h0, if_true] at h; by_cases hn : nAtoms = 1 <;> simp [hn] at h
      · by_cases h1 : d = 1
        · simp [h0, h1] at h
        · by_cases h2 : d = 2
          · rw [h2]
          · by_cases h3 : d = 3
            · simp [h0, h1, h2, h3] at h
            · simp [h0, h1, h2, h3] at h
  subst hdim
  refine ⟨rfl, ?_⟩
  have hc : classify (some 2) nAtoms minCov regions = classify2D nAtoms minCov regions := by
    simp [classify]
  rw [hc] at h ⊢
  unfold classify2D at h ⊢
  cases hcv : crossValidate nAtoms regions none 0 with
  | none => rw [hcv] at h; simp at h
  | some r =>
    rw [hcv] at h
    simp only at h ⊢
    by_cases hcond : (decide ((r.nBasis : Rat) / nAtoms ≥ minCov) && r.nConn == 2) = true
    · simp only [hcond, if_true] at h ⊢
      simp only [Bool.and_eq_true, decide_eq_true_eq, beq_iff_eq] at hcond
      refine ⟨r, rfl, hcond.1, hcond.2, ?_⟩
      cases r.is2d <;> simp
    · simp [hcond] at h

/-- the region search returns a region that was actually found; a full-coverage region wins as soon as it is met,
otherwise no found region has more basis atoms than the returned one -/
theorem crossValidate_mem (nAtoms : Nat) : ∀ (regions : List (Option RegionInfo)) (best : Option RegionInfo) (most : Nat) (r : RegionInfo),
    crossValidate nAtoms regions best most = some r → best = some r ∨ some r ∈ regions := by
  intro regions
  induction regions with
  | nil => intro best most r h; simp [crossValidate] at h; exact Or.inl h
  | cons x xs ih =>
    intro best most r h
    cases x with
    | none =>
      simp only [crossValidate] at h
      rcases ih best most r h with h1 | h1
      · exact Or.inl h1
      · exact Or.inr (List.mem_cons_of_mem _ h1)
    | some q =>
      simp only [crossValidate] at h
      split at h
      · simp only [Option.some.injEq] at h; subst h; exact Or.inr List.mem_cons_self
      · split at h
        · rcases ih (some q) q.nBasis r h with h1 | h1
          · simp only [Option.some.injEq] at h1; subst h1; exact Or.inr List.mem_cons_self
          · exact Or.inr (List.mem_cons_of_mem _ h1)
        · rcases ih best most r h with h1 | h1
          · exact Or.inl h1
          · exact Or.inr (List.mem_cons_of_mem _ h1)

/-- basis atoms and outliers partition the atoms (for a basis inside the index range, without repetitions) -/
theorem basis_outliers_partition (nAtoms : Nat) (basis : List Nat) (hb : ∀ i ∈ basis, i < nAtoms) :
    (∀ i, i < nAtoms → (i ∈ basis ∨ i ∈ outliers nAtoms basis)) ∧
    (∀ i, i ∈ outliers nAtoms basis → i ∉ basis ∧ i < nAtoms) ∧ (∀ i ∈ basis, i ∉ outliers nAtoms basis) := by
  refine ⟨fun i hi => ?_, fun i hi => ?_, fun i hi ho => ?_⟩
  · by_cases h : i ∈ basis
    · exact Or.inl h
    · exact Or.inr (List.mem_filter.mpr ⟨List.mem_range.mpr hi, by simpa using h⟩)
  · obtain ⟨h1, h2⟩ := List.mem_filter.mp hi
    exact ⟨by simpa using h2, List.mem_range.mp h1⟩
  · have := (List.mem_filter.mp ho).2
    simp at this
    exact this hi

/-! ### repeated calls on one Classifier object -/

/-- `classify` as a step of the Classifier object: it reads the configuration `cfg` (constructor parameters) and the input,
returns a class and overwrites only scratch attributes (`system`, `abs_pos_tol`, `abs_delaunay_threshold`).  `touches` says
whether a call may change the configuration (it is `false` exactly when the translated source assigns no configuration
attribute and modifies no attribute in place). -/
def callSeq {Cfg Inp Out Scratch : Type} (f : Cfg → Inp → Out) (g : Cfg → Inp → Scratch) (touch : Cfg → Inp → Cfg) (touches : Bool) :
    Cfg × Scratch → List Inp → List Out
  | _, [] => []
  | (c, _), x :: xs => f c x :: callSeq f g touch touches ((if touches then touch c x else c), g c x) xs

/-- with a read-only configuration every call of every sequence returns what a fresh Classifier with the same parameters
returns for that input — in particular repeated calls on one structure give the same class -/
theorem repeated_calls_agree {Cfg Inp Out Scratch : Type} (f : Cfg → Inp → Out) (g : Cfg → Inp → Scratch) (touch : Cfg → Inp → Cfg)
    (c : Cfg) (s : Scratch) (xs : List Inp) : callSeq f g touch false (c, s) xs = xs.map (f c) := by
  induction xs generalizing s with
  | nil => rfl
  | cons x xs ih => simp only [callSeq, Bool.false_eq_true, if_false, List.map_cons]; rw [ih]

/-- the source as translated: classify() assigns no configuration attribute and modifies no attribute in place -/
theorem classifier_config_readonly :
    MatidGen.ClassifierRule.augAssigned = [] ∧ MatidGen.ClassifierRule.reassignedConfig = [] := by decide

/-- the hypothesis matters: a call that rescales its tolerance in place answers differently the second time -/
example : callSeq (fun (c : Nat) (_ : Unit) => decide (c < 10)) (fun _ _ => ()) (fun c _ => 2 * c) true (6, ()) [(), ()] = [true, false] := by
  decide

/-! non-vacuity -/
#guard classify (some 2) 10 (1 / 2) [none, some ⟨6, 2, false, 1⟩, some ⟨8, 2, false, 2⟩] == .surface
#guard classify (some 2) 10 (1 / 2) [some ⟨4, 2, true, 1⟩] == .class2D
example : connectedDirections [(0, (1, 0, 0)), (0, (-1, 0, 0)), (1, (0, 1, 0))] = (true, false, false) := by decide

end Matid.Props.C17
