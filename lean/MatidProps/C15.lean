/-
C15 — the chirality flag is true exactly for the 65 Sohncke space groups.
-/
import MatidModel.Chirality
import MatidGen.AllGroups
import Mathlib.Tactic.Ring
import Mathlib.Tactic.LinearCombination

namespace Matid.Props.C15
open Matid.Table Matid.Chirality MatidGen

/-- the flag is true iff no operation has determinant −1 -/
theorem isChiral_iff (rots : List Mat3) : isChiral rots = true ↔ ∀ R ∈ rots, R.det ≠ -1 := by
  simp [isChiral, List.all_eq_true]

theorem det_mul (A B : Mat3) : (A.mul B).det = A.det * B.det := by
  simp only [Mat3.mul, Mat3.det]; ring

/-- the determinant of an operation does not depend on the lattice basis in which it is written:
if R' is R expressed in another basis (R'·P = P·R for an invertible integer — after scaling, any rational —
basis-change matrix P, which includes unimodular shears, axis permutations and centring changes) then
det R' = det R -/
theorem det_basis_invariant (P R R' : Mat3) (hP : P.det ≠ 0) (h : R'.mul P = P.mul R) : R'.det = R.det := by
  have h1 := congrArg Mat3.det h
  rw [det_mul, det_mul] at h1
  have : P.det * (R'.det - R.det) = 0 := by linear_combination h1
  rcases mul_eq_zero.mp this with h0 | h0
  · exact absurd h0 hP
  · omega

/-- hence the flag itself is basis independent -/
theorem isChiral_basis_invariant (P : Mat3) (hP : P.det ≠ 0) :
    ∀ (rots rots' : List Mat3), List.Forall₂ (fun R R' => R'.mul P = P.mul R) rots rots' →
      isChiral rots' = isChiral rots
  | _, _, .nil => rfl
  | _, _, .cons (a := R) (b := R') hr hrest => by
    have ih := isChiral_basis_invariant P hP _ _ hrest
    simp only [isChiral, List.all_cons] at ih ⊢
    rw [ih, det_basis_invariant P R R' hP hr]

/-- exhaustive over the reference groups: the operations of group n contain no improper one exactly for the
65 Sohncke types -/
theorem chiral_iff_sohncke :
    allGroups.all (fun G => isChiral ((G.ops.map decode).map ofAff) == isSohncke G.number) = true := by
  decide +kernel

theorem sohncke_count : ((List.range' 1 230).filter isSohncke).length = 65 := by decide +kernel

/-- the flag computed on the operations of group n written in ANY lattice basis -/
theorem chiral_iff_sohncke_any_basis (P : Mat3) (hP : P.det ≠ 0) :
    ∀ G ∈ allGroups, ∀ rots', List.Forall₂ (fun R R' => R'.mul P = P.mul R) ((G.ops.map decode).map ofAff) rots' →
      isChiral rots' = isSohncke G.number := by
  intro G hG rots' h
  rw [isChiral_basis_invariant P hP _ _ h]
  have := List.all_eq_true.mp chiral_iff_sohncke G hG
  simpa using this

/-! non-vacuity: a unimodular basis change for which floating-point determinants are inexact -/
example : (Mat3.mk 1 2 (-2) 0 (-3) 4 0 (-2) 3).det = -1 := by decide

end Matid.Props.C15
