/-
C06 — symmetry results are a normal form: independent of how the crystal is presented.
Model: Matid.Select (ranking of `_find_wyckoff_ground_state`, set assembly, id string); tables: MatidGen.allGroups.
-/
import MatidGen.AllGroups
import MatidProofs.SelectProofs
import Mathlib.Data.String.Basic
import Mathlib.Data.List.Sort

namespace Matid.Props.C06
open Matid.Table Matid.Select MatidGen

/-! ### the ranking -/

/-- the coded double loop with its early exit computes the plain left-to-right filtering over all
(letter, element) keys -/
theorem coded_loops_eq_fold {ρ : Type} (cnt : ρ → Nat × Nat → Nat) (numbers ws : List Nat) (reps : List ρ) :
    runCoded cnt numbers reps ws = run cnt reps (ws.flatMap fun w => numbers.map fun z => (w, z)) :=
  runCoded_eq_run cnt numbers ws reps

/-- the candidate list never becomes empty (no IndexError) and all survivors have equal dictionaries on every
ranked key (the `MatIDError` branch is unreachable when the permutations are total) -/
theorem ranking_total {ρ κ : Type} (cnt : ρ → κ → Nat) (keys : List κ) (reps : List ρ) (h : reps ≠ []) :
    run cnt reps keys ≠ [] ∧
    ∀ r ∈ run cnt reps keys, ∀ r' ∈ run cnt reps keys, ∀ k ∈ keys, cnt r k = cnt r' k :=
  ⟨run_ne_nil cnt keys reps h, run_agree cnt keys reps⟩

/-- atom order is irrelevant: counts only see the multiset of (letter, element) pairs -/
theorem counts_atom_order_invariant (letters numbers letters' numbers' : List Nat) (perm : List (Nat × Nat))
    (k : Nat × Nat) (h : (letters.zip numbers).Perm (letters'.zip numbers')) :
    cntOf letters numbers perm k = cntOf letters' numbers' perm k :=
  cntOf_perm_invariant _ _ _ _ perm k h

/-- the chosen dictionary is a function of the SET of candidate dictionaries -/
theorem chosen_dictionary_setwise {ρ ρ' κ : Type} (cnt : ρ → κ → Nat) (cnt' : ρ' → κ → Nat) (keys : List κ)
    (reps : List ρ) (reps' : List ρ') (h : SameCnts cnt cnt' reps reps') :
    ∀ r ∈ run cnt reps keys, ∀ r' ∈ run cnt' reps' keys, ∀ k ∈ keys, cnt r k = cnt' r' k :=
  chosen_counts_eq cnt cnt' keys reps reps' h

/-! ### the tabulated letter permutations form a group (all 230 space groups) -/

def permCompose (p q : List (Nat × Nat)) (c : Nat) : Option Nat := (lookupPerm q c).bind (lookupPerm p)

/-- identity plus tabulated permutations -/
def permsOf (G : Group) : List (List (Nat × Nat)) := (G.letters.map fun L => (L.code, L.code)) :: G.norms.map (·.perm)

/-- closed under composition and under right division: Π∘q = Π for every q ∈ Π -/
def permsGroupOk (G : Group) : Bool :=
  let letters := G.letters.map (·.code)
  let P := permsOf G
  P.all fun q => P.all fun p =>
    (P.any fun r => letters.all fun c => lookupPerm r c == permCompose p q c) &&
    (P.any fun r => letters.all fun c => permCompose r q c == lookupPerm p c) &&
    letters.all fun c => match lookupPerm q c with
      | some d => letters.contains d
      | none => false

theorem letter_perms_form_groups : allGroups.all permsGroupOk = true := by decide +kernel

/-- **origin / setting independence**: if spglib's standardisation of another description of the same crystal
differs by a tabulated normalizer q (letters L become q∘L), the ranking reaches the same (letter, element,
count) dictionary on every ranked key -/
theorem select_normalizer_invariant (G : Group) (hG : G ∈ allGroups) (q : List (Nat × Nat)) (hq : q ∈ permsOf G)
    (letters numbers : List Nat) (hL : ∀ c ∈ letters, c ∈ G.letters.map (·.code)) (keys : List (Nat × Nat)) :
    let f : Nat → Nat := fun c => (lookupPerm q c).getD c
    ∀ r ∈ run (cntOf (letters.map f) numbers) (permsOf G) keys,
    ∀ r' ∈ run (cntOf letters numbers) (permsOf G) keys,
    ∀ k ∈ keys, cntOf (letters.map f) numbers r k = cntOf letters numbers r' k := by
  intro f
  have hok := List.all_eq_true.mp letter_perms_form_groups G hG
  simp only [permsGroupOk, List.all_eq_true, Bool.and_eq_true, List.any_eq_true, beq_iff_eq] at hok
  have hq' := hok q hq
  apply chosen_counts_eq
  apply relabel_sameCnts
  · -- every candidate p' for the relabelled letters is p ∘ q⁻¹, i.e. p'(q c) = p c with p = p' ∘ q
    intro p' hp'
    obtain ⟨⟨⟨r, hr, hrc⟩, _⟩, htot⟩ := hq' p' hp'
    refine ⟨r, hr, fun c hc => ?_⟩
    have hc' := hL c hc
    have h1 := hrc c hc'
    have h2 := htot c hc'
    simp only [applyPerm, f]
    cases hqc : lookupPerm q c with
    | none => rw [hqc] at h2; simp at h2
    | some d => simp only [permCompose, hqc, Option.bind_some] at h1; simp [h1]
  · intro p hp
    obtain ⟨⟨_, ⟨r, hr, hrc⟩⟩, htot⟩ := hq' p hp
    refine ⟨r, hr, fun c hc => ?_⟩
    have hc' := hL c hc
    have h1 := hrc c hc'
    have h2 := htot c hc'
    simp only [applyPerm, f]
    cases hqc : lookupPerm q c with
    | none => rw [hqc] at h2; simp at h2
    | some d => simp only [permCompose, hqc, Option.bind_some] at h1; simp [← h1]

/-! ### the material id string -/

/-- the pre-hash string of `get_material_id` -/
def idString (number : Nat) (wyckoffStrings : List String) (twoD : Bool) : String :=
  let s := toString number ++ " " ++ ", ".intercalate (wyckoffStrings.mergeSort fun a b => decide (a ≤ b))
  if twoD then "2D " ++ s else s

/-- the id depends only on (number, multiset of "El letter n" strings, 2D flag): any reordering of the sets
gives the same string, hence (function congruence through sha512/base64) the same id -/
theorem id_string_canonical (number : Nat) (l₁ l₂ : List String) (twoD : Bool) (h : l₁.Perm l₂) :
    idString number l₁ twoD = idString number l₂ twoD := by
  have : l₁.mergeSort (fun a b => decide (a ≤ b)) = l₂.mergeSort (fun a b => decide (a ≤ b)) :=
    List.Perm.eq_of_sortedLE List.sortedLE_mergeSort List.sortedLE_mergeSort
      (((List.mergeSort_perm _ _).trans h).trans (List.mergeSort_perm _ _).symm)
  simp only [idString, this]

/-! non-vacuity -/
example : permsOf SG.g225 ≠ [] ∧ (permsOf SG.g225).length = 2 := by decide +kernel
-- evaluated by the compiler (strings do not reduce in the kernel); a sanity check of the definition, not a theorem
#guard idString 225 ["Na a 4", "Cl b 4"] false == "225 Cl b 4, Na a 4"
#guard idString 2 ["C a 2"] true == "2D 2 C a 2"

end Matid.Props.C06
