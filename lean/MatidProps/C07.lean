/-
C07 — Wyckoff sets are exactly the symmetry orbits of the conventional cell.
-/
import MatidGen.AllGroups
import MatidProofs.SetsProofs
import MatidProofs.NormSound
import MatidProps.C14

namespace Matid.Props.C07
open Matid.Table Matid.Select MatidGen

/-- the reported sets partition the atoms (each atom in the set of its equivalence label and in no other),
no set is empty, all atoms of a set carry the set's label, labels of different sets differ; multiplicity is the
length of the index list by construction -/
theorem sets_partition_atoms (equiv : List Nat) :
    (∀ i, i < equiv.length → ∃ s ∈ formSets equiv, i ∈ s.2 ∧ ∀ s' ∈ formSets equiv, i ∈ s'.2 → s' = s) ∧
    (∀ s ∈ formSets equiv, s.2 ≠ []) ∧
    (∀ s ∈ formSets equiv, ∀ i ∈ s.2, equiv[i]? = some s.1) ∧
    ((formSets equiv).map (·.1)).Nodup :=
  ⟨fun i hi => sets_partition equiv i hi, sets_nonempty equiv, (sets_labels equiv).1, (sets_labels equiv).2⟩

/-- if equal equivalence label implies equal (letter, element) (spglib contract S2), every atom of a set has
the set's letter and element (which are read from the set's first atom) -/
theorem sets_homogeneous (letters numbers equiv : List Nat)
    (hS2 : ∀ i j, i < equiv.length → j < equiv.length → equiv[i]? = equiv[j]? →
      letters.getD i 0 = letters.getD j 0 ∧ numbers.getD i 0 = numbers.getD j 0) :
    ∀ s ∈ formSets equiv, ∀ i ∈ s.2,
      letters.getD i 0 = letters.getD (s.2.headD 0) 0 ∧ numbers.getD i 0 = numbers.getD (s.2.headD 0) 0 := by
  intro s hs i hi
  have hne := sets_nonempty equiv s hs
  have hlab := (sets_labels equiv).1 s hs
  cases hl : s.2 with
  | nil => exact absurd hl hne
  | cons j rest =>
    have hj : j ∈ s.2 := by rw [hl]; exact List.mem_cons_self
    have e1 := hlab i hi
    have e2 := hlab j hj
    have hi' : i < equiv.length := by
      by_contra hcon
      rw [List.getElem?_eq_none (by omega)] at e1; cases e1
    have hj' : j < equiv.length := by
      by_contra hcon
      rw [List.getElem?_eq_none (by omega)] at e2; cases e2
    simpa [List.headD] using hS2 i j hi' hj' (by rw [e1, e2])

/-- orbit transport: a set of positions that the space group maps into itself (modulo lattice translations)
is mapped by a tabulated normalizer n onto a set with the same property — the sets of the returned structure
are again unions of orbits of the standard-setting group -/
theorem orbit_transport (G : Group) (hG : G ∈ allGroups) (N : Norm) (hN : N ∈ G.norms) (S : List Aff)
    (hS : ∀ g ∈ G.ops.map decode, ClosedUnder g S) :
    ∀ g' ∈ G.ops.map decode, (∃ g ∈ G.ops.map decode, ((decode N.map).comp g).Cong (g'.comp (decode N.map))) →
      ClosedUnder g' (S.map fun s => (decode N.map).comp s) := by
  intro g' _ ⟨g, hg, hc⟩ s hs
  obtain ⟨s0, hs0, rfl⟩ := List.mem_map.mp hs
  obtain ⟨s1, hs1, c1⟩ := hS g hg s0 hs0
  refine ⟨(decode N.map).comp s1, List.mem_map.mpr ⟨s1, hs1, rfl⟩, ?_⟩
  -- g' ∘ (n ∘ s0) = (g' ∘ n) ∘ s0 ≡ (n ∘ g) ∘ s0 = n ∘ (g ∘ s0) ≡ n ∘ s1
  rw [← Aff.comp_assoc]
  have a : ((g'.comp (decode N.map)).comp s0).Cong (((decode N.map).comp g).comp s0) := Aff.Cong.comp_left hc.symm s0
  rw [Aff.comp_assoc (decode N.map) g s0] at a
  exact a.trans (Aff.Cong.comp_right _ c1)

/-- the letters of the transformed atoms are the tabulated images: the normalizer maps the position family of
every letter onto the family of the permuted letter (C14) -/
theorem letters_follow_permutation : ∀ G ∈ allGroups, ∀ N ∈ G.norms,
    ∀ L ∈ (G.letters.map fun L => (L.code, L.numeric.map decode)), ∃ e0, L.2.head? = some e0 ∧
      ∃ L' ∈ (G.letters.map fun L => (L.code, L.numeric.map decode)), lookupPerm N.perm L.1 = some L'.1 ∧
      ∃ e' ∈ L'.2, ∃ t ∈ zeroT :: G.cents.map decode, ∃ φ : Aff, (φ.det = 1 ∨ φ.det = -1) ∧
        ((decode N.map).comp e0).Cong ((e'.addT t).comp φ) :=
  fun G hG N hN => (C14.normalizers_ok G hG N hN).letters_mapped

/-! non-vacuity -/
example : formSets [3, 0, 3, 0, 7] = [(0, [1, 3]), (3, [0, 2]), (7, [4])] := by decide

end Matid.Props.C07
