/-
C18 — classifier recognises pristine slabs and monolayers and isolates adsorbates.
CONDITIONAL theorem: if the structure has dimensionality 2 and the region found for it (contract F, finder started
from the classifier's seeds) has the slab atoms as basis atoms, covers at least min_coverage and is connected in two
directions, the result is Surface (Material2D when the region is flagged 2D) and its outliers are exactly the
atoms that are not slab atoms — the adsorbates.  Contract F is sampled.
-/
import MatidModel.Classifier
import MatidProps.C17

namespace Matid.Props.C18
open Matid.Classifier

theorem surface_with_outliers (nAtoms : Nat) (minCov : Rat) (r : RegionInfo) (rest : List (Option RegionInfo))
    (hfull : r.nBasis ≠ nAtoms → ∀ q ∈ rest, ∀ x, q = some x → x.nBasis ≤ r.nBasis ∧ x.nBasis ≠ nAtoms)
    (hcov : (r.nBasis : Rat) / nAtoms ≥ minCov) (hconn : r.nConn = 2) (hpos : 0 < r.nBasis) :
    classify (some 2) nAtoms minCov (some r :: rest) = if r.is2d then .material2D else .surface := by
  have hcv : crossValidate nAtoms (some r :: rest) none 0 = some r := by
    simp only [crossValidate]
    by_cases hf : r.nBasis = nAtoms
    · simp [hf]
    · have hlt : r.nBasis > 0 := hpos
      simp only [hf, beq_iff_eq, if_false, hlt, if_true]
      have key : ∀ (l : List (Option RegionInfo)), (∀ q ∈ l, ∀ x, q = some x → x.nBasis ≤ r.nBasis ∧ x.nBasis ≠ nAtoms) →
          crossValidate nAtoms l (some r) r.nBasis = some r := by
        intro l
        induction l with
        | nil => intro _; simp [crossValidate]
        | cons q qs ih =>
          intro h
          cases q with
          | none => simp only [crossValidate]; exact ih (fun q hq => h q (List.mem_cons_of_mem _ hq))
          | some x =>
            obtain ⟨h1, h2⟩ := h (some x) List.mem_cons_self x rfl
            simp only [crossValidate, beq_iff_eq, h2, if_false]
            rw [if_neg (by omega)]
            exact ih (fun q hq => h q (List.mem_cons_of_mem _ hq))
      exact key rest (hfull hf)
  simp only [classify, show (2 : Int) ≠ 0 by decide, show (2 : Int) ≠ 1 by decide, if_false, if_true, classify2D, hcv]
  simp [hcov, hconn]

/-- the outliers are exactly the atoms outside the slab -/
theorem outliers_are_adsorbates (nAtoms : Nat) (slab : List Nat) (i : Nat) :
    i ∈ outliers nAtoms slab ↔ i < nAtoms ∧ i ∉ slab := by
  simp [outliers, List.mem_filter, List.mem_range]

end Matid.Props.C18
