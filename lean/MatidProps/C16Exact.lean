/-
C16 — the assembled statement for position matching: the nearest image over ALL lattice images.
-/
import MatidProps.C16
import MatidProofs.MatchAssemble

namespace Matid.Props.C16
open Matid.Geom

/-- **position matching is exact over all lattice images.**  Non-singular cell, atoms and query point inside the cell along the
periodic axes, 0 ≤ tol ≤ extension, tol ≤ cutoff.  The result is a vacancy exactly when NO periodic image of any atom lies within
the tolerance; otherwise every admissible answer (atom j, offset f) is an image within the tolerance that is at least as near as
every periodic image of every atom. -/
theorem match_exact (positions : List V3) (cell : Cell) (pbc : Pbc) (ext c tol : Rat) (hext : 0 ≤ ext) (hc : 0 < c)
    (htol0 : 0 ≤ tol) (htole : tol ≤ ext) (htolc : tol ≤ c) (hdet : cell.det ≠ 0)
    (cl : CellList) (hcl : getCellList positions cell pbc ext (some c) = .ok cl)
    (frac : List V3) (hpos : positions = frac.map (toCartesian cell)) (hin : ∀ t ∈ frac, insideCell pbc t)
    (s : V3) (hs : insideCell pbc s) (numbers : List Nat) (z : Nat) :
    let q := toCartesian cell s
    let r := getMatch cl cell numbers q z tol
    (r.kind = .vacancy ↔ ∀ (j : Nat) (t : V3) (n : Int × Int × Int), frac[j]? = some t → admissible pbc n → tol * tol < imageDist2 cell q (toCartesian cell t) n) ∧
    (r.kind ≠ .vacancy → ∀ ans ∈ r.answers, ∃ t, frac[ans.1]? = some t ∧ admissible pbc ans.2 ∧
        imageDist2 cell q (toCartesian cell t) ans.2 ≤ tol * tol ∧
        ∀ (j : Nat) (t' : V3) (n : Int × Int × Int), frac[j]? = some t' → admissible pbc n →
          imageDist2 cell q (toCartesian cell t) ans.2 ≤ imageDist2 cell q (toCartesian cell t') n) := by
  intro q r
  obtain ⟨hsound, hcomplete⟩ := query_images positions cell pbc ext c hext hc hdet cl hcl s hs
  have hspec := match_spec cl cell numbers q z tol
  have htt : tol * tol ≤ ext * ext := by nlinarith
  have htc : tol * tol ≤ c * c := by nlinarith
  have hget : ∀ (j : Nat) (t : V3), frac[j]? = some t → positions[j]? = some (toCartesian cell t) := by
    intro j t h; rw [hpos, List.getElem?_map, h]; rfl
  have hfr : ∀ (j : Nat) (p : V3), positions[j]? = some p → ∃ t, frac[j]? = some t ∧ p = toCartesian cell t := by
    intro j p h
    rw [hpos, List.getElem?_map] at h
    cases hf : frac[j]? with
    | none => simp [hf] at h
    | some t => simp only [hf, Option.map_some, Option.some.injEq] at h; exact ⟨t, rfl, h.symm⟩
  -- an image within the tolerance is returned by the query
  have hfound : ∀ (j : Nat) (t : V3) (n : Int × Int × Int), frac[j]? = some t → admissible pbc n → imageDist2 cell q (toCartesian cell t) n ≤ tol * tol →
      ∃ nb ∈ cl.query q, nb.index = j ∧ nb.factor = n ∧ nb.dist2 = imageDist2 cell q (toCartesian cell t) n := by
    intro j t n hj hn hd
    exact hcomplete j t n (hget j t hj) (hin t (List.mem_of_getElem? hj)) hn (le_trans hd htt) (le_trans hd htc)
  obtain ⟨hvac, hans⟩ := hspec
  constructor
  · rw [hvac]
    constructor
    · intro hall j t n hj hn
      by_contra hcon
      obtain ⟨nb, hnb, _, _, hd⟩ := hfound j t n hj hn (le_of_not_gt hcon)
      exact hall nb hnb (by rw [hd]; exact le_of_not_gt hcon)
    · intro hall nb hnb hle
      obtain ⟨p, hp, hadm, hd, _⟩ := hsound nb hnb
      obtain ⟨t, ht, rfl⟩ := hfr _ p hp
      have := hall nb.index t nb.factor ht hadm
      rw [← hd] at this
      exact absurd hle (not_le.mpr this)
  · intro hne ans ha
    obtain ⟨nb, hnb, hpair, hle, hmin⟩ := hans hne ans ha
    obtain ⟨p, hp, hadm, hd, _⟩ := hsound nb hnb
    obtain ⟨t, ht, rfl⟩ := hfr _ p hp
    have h1 : ans.1 = nb.index := by rw [← hpair]
    have h2 : ans.2 = nb.factor := by rw [← hpair]
    refine ⟨t, by rw [h1]; exact ht, by rw [h2]; exact hadm, by rw [h2, ← hd]; exact hle, ?_⟩
    intro j t' n hj hn
    rw [h2, ← hd]
    by_cases hd' : imageDist2 cell q (toCartesian cell t') n ≤ tol * tol
    · obtain ⟨nb', hnb', _, _, hd2⟩ := hfound j t' n hj hn hd'
      rw [← hd2]; exact hmin nb' hnb'
    · exact le_trans hle (le_of_lt (lt_of_not_ge hd'))


end Matid.Props.C16
