/-
The span loop of `_find_proto_cell` and `_find_graphs` (model MatidModel/SpanGraph.lean): what the metric counts, that periodic cell
vectors always pass the filter, and that the atom networks the prototype cell is built from are connected and of one species — for
EVERY answer of the position matcher that respects the species it was asked for (which `get_matches` does: C16 `match_spec`).
-/
import MatidModel.SpanGraph
import MatidGen.ProtoRule
import Mathlib.Data.List.Nodup
import Mathlib.Data.List.Lattice

namespace Matid.Props.SpanGraph
open Matid.SpanGraph

/-! ### the metric -/

def hits (x : Node × (Option Nat × F3) × (Option Nat × F3)) : Nat :=
  (if x.2.1.1.isSome then 1 else 0) + (if x.2.2.1.isSome then 1 else 0)

theorem adjStep_metric (acc : Adj) (x : Node × (Option Nat × F3) × (Option Nat × F3)) :
    (adjStep acc x).metric = acc.metric + hits x := by
  unfold adjStep hits
  cases h1 : x.2.1.1 <;> cases h2 : x.2.2.1 <;> simp

theorem foldl_metric (xs : List (Node × (Option Nat × F3) × (Option Nat × F3))) (acc : Adj) :
    (xs.foldl adjStep acc).metric = acc.metric + (xs.map hits).sum := by
  induction xs generalizing acc with
  | nil => simp
  | cons x xs ih => simp only [List.foldl_cons, List.map_cons, List.sum_cons]; rw [ih, adjStep_metric]; omega

/-- **the metric of a span is the number of neighbours that have a partner at +span plus the number that have one at −span** -/
theorem metric_counts_matches (neigh : List Node) (o : SpanO) :
    (spanAdj neigh o).metric = ((neigh.zip (o.add.zip o.sub)).map hits).sum := by
  unfold spanAdj
  rw [foldl_metric]; simp [Adj.empty]

theorem sum_hits_le (xs : List (Node × (Option Nat × F3) × (Option Nat × F3))) : (xs.map hits).sum ≤ 2 * xs.length := by
  induction xs with
  | nil => simp
  | cons x xs ih =>
    simp only [List.map_cons, List.sum_cons, List.length_cons]
    have : hits x ≤ 2 := by unfold hits; split <;> split <;> omega
    omega

/-- it never exceeds twice the number of neighbours … -/
theorem metric_le_twice_neighbours (neigh : List Node) (o : SpanO) : (spanAdj neigh o).metric ≤ 2 * neigh.length := by
  rw [metric_counts_matches]
  refine Nat.le_trans (sum_hits_le _) ?_
  have : (neigh.zip (o.add.zip o.sub)).length ≤ neigh.length := by simp only [List.length_zip]; omega
  omega

/-- … which is what a periodic cell vector gets -/
theorem periodic_metric_full (neigh : List Node) (k : Nat) : (periodicAdj neigh k).metric = 2 * neigh.length := by
  unfold periodicAdj
  have h : ∀ (l : List Node) (acc : Adj), acc.metric = 2 * neigh.length →
      (l.foldl (periodicStep k (2 * neigh.length)) acc).metric = 2 * neigh.length := by
    intro l
    induction l with
    | nil => intro acc h; exact h
    | cons x xs ih => intro acc _; simp only [List.foldl_cons]; exact ih _ rfl
  exact h neigh _ rfl

/-- **a periodic cell vector that is short enough always passes the span filter** (its metric 2n is at least 3/4 of the n neighbours),
whatever the other spans score -/
theorem periodic_span_always_valid (neigh : List Node) (k : Nat) (maxMetric : Nat) :
    Matid.Proto.validSpan MatidGen.ProtoRule.spanRule (periodicAdj neigh k).metric maxMetric neigh.length = true := by
  rw [periodic_metric_full]
  unfold Matid.Proto.validSpan
  have : (MatidGen.ProtoRule.spanRule.relNeigh.1, MatidGen.ProtoRule.spanRule.relNeigh.2) = (3, 4) := by decide
  simp only [Prod.mk.injEq] at this
  rw [this.1, this.2]
  simp only [Bool.or_eq_true, decide_eq_true_eq]
  right; omega

/-! ### species -/

/-- the oracle answers respect the species asked for: a matched atom has the atomic number of the neighbour it was searched from -/
def OracleSameSpecies (num : Nat → Nat) (neigh : List Node) (o : SpanO) : Prop :=
  ∀ x ∈ neigh.zip (o.add.zip o.sub), (∀ i, x.2.1.1 = some i → num i = num x.1.1) ∧ (∀ i, x.2.2.1 = some i → num i = num x.1.1)

def EdgeOk (num : Nat → Nat) (e : Node × Node) : Prop := num e.1.1 = num e.2.1

def AdjOk (num : Nat → Nat) (a : Adj) : Prop := (∀ e ∈ a.all, EdgeOk num e) ∧ (∀ e ∈ a.add, EdgeOk num e) ∧ (∀ e ∈ a.sub, EdgeOk num e)

theorem adjStep_ok (num : Nat → Nat) (acc : Adj) (x : Node × (Option Nat × F3) × (Option Nat × F3)) (h : AdjOk num acc)
    (h1 : ∀ i, x.2.1.1 = some i → num i = num x.1.1) (h2 : ∀ i, x.2.2.1 = some i → num i = num x.1.1) : AdjOk num (adjStep acc x) := by
  unfold adjStep
  obtain ⟨ha, hb, hc⟩ := h
  cases e1 : x.2.1.1 with
  | none =>
    cases e2 : x.2.2.1 with
    | none => exact ⟨ha, hb, hc⟩
    | some j =>
      have := h2 j e2
      refine ⟨?_, hb, ?_⟩ <;> intro e he <;> simp only [List.mem_append, List.mem_singleton] at he <;> rcases he with he | rfl
      · exact ha e he
      · exact this.symm
      · exact hc e he
      · exact this.symm
  | some i =>
    have hi := h1 i e1
    cases e2 : x.2.2.1 with
    | none =>
      refine ⟨?_, ?_, hc⟩ <;> intro e he <;> simp only [List.mem_append, List.mem_singleton] at he <;> rcases he with he | rfl
      · exact ha e he
      · exact hi.symm
      · exact hb e he
      · exact hi.symm
    | some j =>
      have hj := h2 j e2
      refine ⟨?_, ?_, ?_⟩ <;> intro e he <;> simp only [List.mem_append, List.mem_singleton] at he
      · rcases he with (he | rfl) | rfl
        · exact ha e he
        · exact hi.symm
        · exact hj.symm
      · rcases he with he | rfl
        · exact hb e he
        · exact hi.symm
      · rcases he with he | rfl
        · exact hc e he
        · exact hj.symm

/-- **every adjacency entry of a probed span joins two atoms of the same species** when the matcher respects the species -/
theorem foldl_adj_ok (num : Nat → Nat) (xs : List (Node × (Option Nat × F3) × (Option Nat × F3))) (acc : Adj) (h0 : AdjOk num acc)
    (h : ∀ x ∈ xs, (∀ i, x.2.1.1 = some i → num i = num x.1.1) ∧ (∀ i, x.2.2.1 = some i → num i = num x.1.1)) :
    AdjOk num (xs.foldl adjStep acc) := by
  induction xs generalizing acc with
  | nil => exact h0
  | cons x xs ih =>
    simp only [List.foldl_cons]
    apply ih
    · exact adjStep_ok num acc x h0 (h x List.mem_cons_self).1 (h x List.mem_cons_self).2
    · intro y hy; exact h y (List.mem_cons_of_mem _ hy)

theorem edges_preserve_species (num : Nat → Nat) (neigh : List Node) (o : SpanO) (h : OracleSameSpecies num neigh o) :
    AdjOk num (spanAdj neigh o) := by
  unfold spanAdj
  apply foldl_adj_ok num _ _ _ h
  refine ⟨?_, ?_, ?_⟩ <;> intro e he <;> simp [Adj.empty] at he

/-- the links of a periodic cell vector join an atom with its own images -/
theorem periodic_edges_preserve_species (num : Nat → Nat) (neigh : List Node) (k : Nat) : AdjOk num (periodicAdj neigh k) := by
  unfold periodicAdj
  have h : ∀ (l : List Node) (acc : Adj), AdjOk num acc → AdjOk num (l.foldl (periodicStep k (2 * neigh.length)) acc) := by
    intro l
    induction l with
    | nil => intro acc h; exact h
    | cons x xs ih =>
      intro acc ⟨ha, hb, hc⟩
      simp only [List.foldl_cons]
      apply ih
      unfold periodicStep
      refine ⟨?_, ?_, ?_⟩ <;> intro e he <;> simp only [List.mem_append, List.mem_cons, List.not_mem_nil, or_false] at he
      · rcases he with he | rfl | rfl
        · exact ha e he
        · rfl
        · rfl
      · rcases he with he | rfl
        · exact hb e he
        · rfl
      · rcases he with he | rfl
        · exact hc e he
        · rfl
  apply h
  refine ⟨?_, ?_, ?_⟩ <;> intro e he <;> simp [Adj.empty] at he

/-! ### connectivity -/

/-- joined by a chain of edges, in either direction -/
inductive Reach (edges : List (Node × Node)) : Node → Node → Prop
  | refl (v) : Reach edges v v
  | step {u v w} : Reach edges u v → ((v, w) ∈ edges ∨ (w, v) ∈ edges) → Reach edges u w

/-- **atoms joined by a chain of species-preserving edges have the same species** -/
theorem chain_same_species (num : Nat → Nat) (edges : List (Node × Node)) (h : ∀ e ∈ edges, EdgeOk num e) (u v : Node)
    (r : Reach edges u v) : num u.1 = num v.1 := by
  induction r with
  | refl => rfl
  | step _ he ih =>
    rcases he with he | he
    · exact ih.trans (h _ he)
    · exact ih.trans (h _ he).symm

theorem mem_nbrs (edges : List (Node × Node)) (v w : Node) (h : w ∈ nbrs edges v) : (v, w) ∈ edges ∨ (w, v) ∈ edges := by
  unfold nbrs at h
  rw [List.mem_eraseDups, List.mem_filterMap] at h
  obtain ⟨e, he, hw⟩ := h
  split at hw
  · rename_i h1
    simp only [Option.some.injEq] at hw
    left
    have : e.1 = v := by simpa using h1
    rw [← this, ← hw]; exact he
  · split at hw
    · rename_i _ h2
      simp only [Option.some.injEq] at hw
      right
      have : e.2 = v := by simpa using h2
      rw [← this, ← hw]; exact he
    · cases hw

theorem bfs_sound (edges : List (Node × Node)) (s : Node) (fuel : Nat) (frontier vis : List Node)
    (hf : ∀ w ∈ frontier, Reach edges s w) (hv : ∀ w ∈ vis, Reach edges s w) : ∀ w ∈ bfs edges fuel frontier vis, Reach edges s w := by
  induction fuel generalizing frontier vis with
  | zero => unfold bfs; exact hv
  | succ f ih =>
    cases frontier with
    | nil => unfold bfs; exact hv
    | cons v rest =>
      unfold bfs
      have hvr := hf v List.mem_cons_self
      have hnew : ∀ w ∈ (nbrs edges v).filter (fun w => !vis.contains w), Reach edges s w := by
        intro w hw
        exact Reach.step hvr (mem_nbrs edges v w (List.mem_filter.mp hw).1)
      apply ih
      · intro w hw
        rcases List.mem_append.mp hw with hw | hw
        · exact hf w (List.mem_cons_of_mem _ hw)
        · exact hnew w hw
      · intro w hw
        rcases List.mem_append.mp hw with hw | hw
        · exact hv w hw
        · exact hnew w hw

/-- **every node of a computed component is joined to its first node by a chain of edges** -/
theorem component_is_connected (edges : List (Node × Node)) (v w : Node) (h : w ∈ componentOf edges v) : Reach edges v w := by
  unfold componentOf at h
  exact bfs_sound edges v _ [v] [v] (by intro x hx; simp at hx; rw [hx]; exact Reach.refl v)
    (by intro x hx; simp at hx; rw [hx]; exact Reach.refl v) w h

/-- … hence **every atom network consists of atoms of one species** when the edges preserve the species -/
theorem component_same_species (num : Nat → Nat) (edges : List (Node × Node)) (h : ∀ e ∈ edges, EdgeOk num e) (v w : Node)
    (hw : w ∈ componentOf edges v) : num v.1 = num w.1 :=
  chain_same_species num edges h v w (component_is_connected edges v w hw)

/-! ### completeness of the closure: a computed network is a WHOLE connected component -/

theorem nbrs_of_edge (edges : List (Node × Node)) (v w : Node) (h : (v, w) ∈ edges ∨ (w, v) ∈ edges) : w ∈ nbrs edges v := by
  unfold nbrs
  rw [List.mem_eraseDups, List.mem_filterMap]
  rcases h with h | h
  · exact ⟨(v, w), h, by simp⟩
  · refine ⟨(w, v), h, ?_⟩
    by_cases e : w = v
    · subst e; simp
    · have : (w == v) = false := by simpa using e
      simp [this]

theorem nbrs_mem_nodes (edges : List (Node × Node)) (v w : Node) (h : w ∈ nbrs edges v) : w ∈ nodesOf edges := by
  unfold nodesOf
  rw [List.mem_eraseDups, List.mem_flatMap]
  rcases mem_nbrs edges v w h with h | h
  · exact ⟨(v, w), h, by simp⟩
  · exact ⟨(w, v), h, by simp⟩

theorem nodup_eraseDups_node (l : List Node) : l.eraseDups.Nodup := by
  match l with
  | [] => simp
  | a :: as =>
    rw [List.eraseDups_cons]
    have : (as.filter fun b => !b == a).length < as.length + 1 := Nat.lt_succ_of_le (List.length_filter_le _ _)
    refine List.nodup_cons.mpr ⟨?_, nodup_eraseDups_node _⟩
    rw [List.mem_eraseDups, List.mem_filter]; simp
termination_by l.length

theorem nbrs_nodup (edges : List (Node × Node)) (v : Node) : (nbrs edges v).Nodup := nodup_eraseDups_node _

/-- the state of the search: `vis = done ++ frontier`, no node twice, every handled node has all its neighbours visited, everything
visited is the start node or a node of the graph -/
structure BfsInv (edges : List (Node × Node)) (s : Node) (done frontier vis : List Node) : Prop where
  split : vis = done ++ frontier
  nodup : vis.Nodup
  closed : ∀ d ∈ done, ∀ w ∈ nbrs edges d, w ∈ vis
  sub : ∀ w ∈ vis, w = s ∨ w ∈ nodesOf edges
  start : s ∈ vis

theorem length_le_of_sub (edges : List (Node × Node)) (s : Node) (vis : List Node) (hn : vis.Nodup)
    (hs : ∀ w ∈ vis, w = s ∨ w ∈ nodesOf edges) : vis.length ≤ (nodesOf edges).length + 1 := by
  have hsub : vis ⊆ s :: nodesOf edges := by
    intro w hw
    rcases hs w hw with rfl | h
    · exact List.mem_cons_self
    · exact List.mem_cons_of_mem _ h
  have := List.Nodup.length_le_of_subset hn hsub
  simpa using this

theorem bfs_complete_aux (edges : List (Node × Node)) (s : Node) (fuel : Nat) (done frontier vis : List Node)
    (h : BfsInv edges s done frontier vis) (hf : (nodesOf edges).length + 1 ≤ fuel + done.length) :
    ∀ u w, u ∈ bfs edges fuel frontier vis → w ∈ nbrs edges u → w ∈ bfs edges fuel frontier vis := by
  induction fuel generalizing done frontier vis with
  | zero =>
    -- all fuel used: every possible node has been handled, so the frontier is empty
    have hl := length_le_of_sub edges s vis h.nodup h.sub
    have : frontier = [] := by
      have e : vis.length = done.length + frontier.length := by rw [h.split, List.length_append]
      have : frontier.length = 0 := by omega
      exact List.eq_nil_of_length_eq_zero this
    subst this
    unfold bfs
    intro u w hu hw
    have : u ∈ done := by rw [h.split] at hu; simpa using hu
    exact h.closed u this w hw
  | succ f ih =>
    cases frontier with
    | nil =>
      unfold bfs
      intro u w hu hw
      have : u ∈ done := by rw [h.split] at hu; simpa using hu
      exact h.closed u this w hw
    | cons v rest =>
      unfold bfs
      apply ih (done ++ [v]) (rest ++ (nbrs edges v).filter fun w => !vis.contains w) (vis ++ (nbrs edges v).filter fun w => !vis.contains w)
      · constructor
        · rw [h.split]; simp
        · rw [List.nodup_append]
          refine ⟨h.nodup, (nbrs_nodup edges v).filter _, ?_⟩
          intro a ha b hb
          rw [List.mem_filter] at hb
          have : b ∉ vis := by simpa using hb.2
          intro e; exact this (e ▸ ha)
        · intro d hd w hw
          rcases List.mem_append.mp hd with hd | hd
          · exact List.mem_append_left _ (h.closed d hd w hw)
          · simp only [List.mem_singleton] at hd
            subst hd
            by_cases hv : w ∈ vis
            · exact List.mem_append_left _ hv
            · exact List.mem_append_right _ (List.mem_filter.mpr ⟨hw, by simpa using hv⟩)
        · intro w hw
          rcases List.mem_append.mp hw with hw | hw
          · exact h.sub w hw
          · right; exact nbrs_mem_nodes edges v w (List.mem_filter.mp hw).1
        · exact List.mem_append_left _ h.start
      · simp only [List.length_append, List.length_singleton]; omega

/-- **a computed network contains every node that is joined to its first node by a chain of links** — with `component_is_connected`:
it is exactly the connected component of that node -/
theorem component_is_whole (edges : List (Node × Node)) (v w : Node) (r : Reach edges v w) : w ∈ componentOf edges v := by
  have hinv : BfsInv edges v [] [v] [v] :=
    ⟨rfl, by simp, (by intro d hd; cases hd), (by intro w hw; left; simpa using hw), by simp⟩
  have hclosed := bfs_complete_aux edges v ((nodesOf edges).length + 1) [] [v] [v] hinv (by simp)
  have hstart : v ∈ componentOf edges v := by
    unfold componentOf
    -- the start node stays visited: `vis` only grows
    have grow : ∀ (fuel : Nat) (fr vis : List Node), v ∈ vis → v ∈ bfs edges fuel fr vis := by
      intro fuel
      induction fuel with
      | zero => intro fr vis h; unfold bfs; exact h
      | succ f ih =>
        intro fr vis h
        cases fr with
        | nil => unfold bfs; exact h
        | cons x rest => unfold bfs; exact ih _ _ (List.mem_append_left _ h)
    exact grow _ _ _ (by simp)
  induction r with
  | refl => exact hstart
  | step _ he ih => exact hclosed _ _ ih (nbrs_of_edge edges _ _ he)

/-- the two directions together -/
theorem component_iff (edges : List (Node × Node)) (v w : Node) : w ∈ componentOf edges v ↔ Reach edges v w :=
  ⟨component_is_connected edges v w, component_is_whole edges v w⟩

/-! ### the list of networks is a partition of the node set into connected components -/

theorem Reach.trans {edges : List (Node × Node)} {u v w : Node} (h1 : Reach edges u v) (h2 : Reach edges v w) : Reach edges u w := by
  induction h2 with
  | refl => exact h1
  | step _ he ih => exact Reach.step ih he

theorem Reach.symm {edges : List (Node × Node)} {u v : Node} (h : Reach edges u v) : Reach edges v u := by
  induction h with
  | refl => exact Reach.refl _
  | step _ he ih =>
    exact Reach.trans (Reach.step (Reach.refl _) (by rcases he with he | he; exact Or.inr he; exact Or.inl he)) ih

theorem self_mem_component (edges : List (Node × Node)) (v : Node) : v ∈ componentOf edges v :=
  component_is_whole edges v v (Reach.refl v)

/-- invariant of the fold that collects the components: every collected list is the component of one of the nodes handled so far, every
handled node lies in a collected list, and two collected lists never share a node -/
structure CompInv (edges : List (Node × Node)) (handled : List Node) (acc : List (List Node)) : Prop where
  isComp : ∀ c ∈ acc, ∃ v ∈ handled, c = componentOf edges v
  covers : ∀ v ∈ handled, ∃ c ∈ acc, v ∈ c
  disjoint : acc.Pairwise fun c d => ∀ x, x ∈ c → x ∉ d

theorem components_fold (edges : List (Node × Node)) (todo handled : List Node) (acc : List (List Node)) (h : CompInv edges handled acc) :
    CompInv edges (handled ++ todo)
      (todo.foldl (fun acc v => if acc.any (·.contains v) then acc else acc ++ [componentOf edges v]) acc) := by
  induction todo generalizing handled acc with
  | nil => simpa using h
  | cons v rest ih =>
    simp only [List.foldl_cons]
    have e : handled ++ v :: rest = (handled ++ [v]) ++ rest := by simp
    rw [e]
    apply ih
    by_cases hv : acc.any (·.contains v) = true
    · simp only [hv, if_true]
      refine ⟨?_, ?_, h.disjoint⟩
      · intro c hc
        obtain ⟨u, hu, e⟩ := h.isComp c hc
        exact ⟨u, List.mem_append_left _ hu, e⟩
      · intro u hu
        rcases List.mem_append.mp hu with hu | hu
        · exact h.covers u hu
        · simp only [List.mem_singleton] at hu
          subst hu
          rw [List.any_eq_true] at hv
          obtain ⟨c, hc, hcv⟩ := hv
          exact ⟨c, hc, by simpa using hcv⟩
    · have hv' : ∀ c ∈ acc, v ∉ c := by
        intro c hc hvc
        exact hv (List.any_eq_true.mpr ⟨c, hc, by simpa using hvc⟩)
      simp only [hv, if_false, Bool.false_eq_true]
      refine ⟨?_, ?_, ?_⟩
      · intro c hc
        rcases List.mem_append.mp hc with hc | hc
        · obtain ⟨u, hu, e⟩ := h.isComp c hc
          exact ⟨u, List.mem_append_left _ hu, e⟩
        · simp only [List.mem_singleton] at hc
          exact ⟨v, by simp, hc⟩
      · intro u hu
        rcases List.mem_append.mp hu with hu | hu
        · obtain ⟨c, hc, huc⟩ := h.covers u hu
          exact ⟨c, List.mem_append_left _ hc, huc⟩
        · simp only [List.mem_singleton] at hu
          subst hu
          exact ⟨componentOf edges u, by simp, self_mem_component edges u⟩
      · rw [List.pairwise_append]
        refine ⟨h.disjoint, List.pairwise_singleton _ _, ?_⟩
        intro c hc d hd x hxc hxd
        simp only [List.mem_singleton] at hd
        subst hd
        obtain ⟨u, _, rfl⟩ := h.isComp c hc
        -- x is joined to u and to v, hence v is joined to u: v would lie in the component of u
        have h1 := component_is_connected edges u x hxc
        have h2 := component_is_connected edges v x hxd
        exact hv' _ hc (component_is_whole edges u v (Reach.trans h1 (Reach.symm h2)))

/-- **the networks are the connected components**: every node of the graph lies in exactly one of the lists, each list is the set of
nodes joined to its first node by a chain of links, and two lists share no node -/
theorem components_partition (edges : List (Node × Node)) :
    (∀ v ∈ nodesOf edges, ∃ c ∈ components edges, v ∈ c) ∧
    (∀ c ∈ components edges, ∃ v ∈ nodesOf edges, ∀ w, w ∈ c ↔ Reach edges v w) ∧
    (components edges).Pairwise (fun c d => ∀ x, x ∈ c → x ∉ d) := by
  have h0 : CompInv edges [] [] := ⟨(by intro c hc; cases hc), (by intro v hv; cases hv), List.Pairwise.nil⟩
  have h := components_fold edges (nodesOf edges) [] [] h0
  simp only [List.nil_append] at h
  refine ⟨h.covers, ?_, h.disjoint⟩
  intro c hc
  obtain ⟨v, hv, rfl⟩ := h.isComp c hc
  exact ⟨v, hv, fun w => component_iff edges v w⟩

/-- the group reported for the seed atom holds the seed atom's node in the home cell -/
theorem seed_in_its_group (adjs : List Adj) (neigh : List Node) (seed : Nat) (g : Groups) (i : Nat)
    (h : findGraphs adjs neigh seed = some g) (hi : g.seedGroup = some i) : ∃ c, g.groups[i]? = some c ∧ (seed, ((0 : Int), (0 : Int), (0 : Int))) ∈ c := by
  unfold findGraphs at h
  simp only at h
  split at h
  · cases h
  · split at h
    · cases h
    · simp only [Option.some.injEq] at h
      rw [← h] at hi ⊢
      simp only at hi ⊢
      rw [Option.map_eq_some_iff] at hi
      obtain ⟨⟨c, j⟩, hlast, hj⟩ := hi
      simp only at hj
      subst hj
      have hmem := List.mem_of_getLast? hlast
      rw [List.mem_filter] at hmem
      obtain ⟨hz, hc⟩ := hmem
      have := List.mem_zipIdx hz
      refine ⟨c, ?_, by simpa using hc⟩
      simp only [Nat.zero_add, Nat.sub_zero, Nat.zero_le, true_and] at this
      obtain ⟨hlt, hc2⟩ := this
      rw [List.getElem?_eq_getElem hlt]
      exact congrArg some hc2.symm

/-- the links added by the expansion through other periodic images join atoms of one species too -/
theorem expansion_preserves_species (num : Nat → Nat) (edges : List (Node × Node)) (neigh : List Node) (h : ∀ e ∈ edges, EdgeOk num e) :
    ∀ e ∈ expansion edges neigh, EdgeOk num e := by
  intro e he
  unfold expansion at he
  rw [List.mem_flatMap] at he
  obtain ⟨v, _, hv⟩ := he
  split at hv
  · cases hv
  · cases hc : nodeConn edges neigh v.1 with
    | none => rw [hc] at hv; cases hv
    | some conn =>
      rw [hc] at hv
      simp only [List.mem_map] at hv
      obtain ⟨c, hcm, rfl⟩ := hv
      unfold nodeConn at hc
      simp only at hc
      split at hc
      · rename_i n hn
        simp only [Option.some.injEq] at hc
        rw [← hc] at hcm
        obtain ⟨w, hw, rfl⟩ := List.mem_map.mp hcm
        have hn' := List.mem_of_getLast? hn
        rw [List.mem_filter] at hn'
        have hnv : n.1 = v.1 := by
          have := hn'.2
          simp only [Bool.and_eq_true, beq_iff_eq] at this
          exact this.1
        have hreach : num n.1 = num w.1 := by
          rcases mem_nbrs edges n w hw with h1 | h1
          · exact h _ h1
          · exact (h _ h1).symm
        unfold EdgeOk
        simp only
        rw [← hnv]; exact hreach
      · cases hc

/-- a concrete neighbourhood (two atoms of one species and their images along a periodic vector): one network, holding the seed -/
example :
    let neigh : List Node := [(0, (0, 0, 0)), (1, (0, 0, 0))]
    let o : SpanO := { add := [(some 1, (0, 0, 0)), (none, (0, 0, 0))], sub := [(none, (0, 0, 0)), (some 0, (0, 0, 0))] }
    (spanAdj neigh o).metric = 2 ∧ (periodicAdj neigh 0).metric = 4 ∧
    ((findGraphs [spanAdj neigh o, periodicAdj neigh 0] neigh 0).map fun g => (g.groups.length, g.seedGroup)) = some (1, some 0) := by
  decide +kernel

end Matid.Props.SpanGraph
