/-
C16 — periodic neighbour search and position matching are complete and exact.
-/
import MatidProofs.GeomStruct

namespace Matid.Props.C16
open Matid.Geom

/-- every entry of the extended system is an original atom (valid index) translated by an integer combination
of the basis whose multipliers are bounded by the copy counts, and there are no copies along non-periodic axes -/
theorem extended_entries (positions : List V3) (cell : Cell) (pbc : Pbc) (ext2 : Rat) (l : List ExtAtom)
    (h : extendSystem2 positions cell pbc ext2 = .ok l) :
    ∃ basis n1 n2 n3, extendPlan cell pbc ext2 = some (basis, n1, n2, n3) ∧
      (pbc.x = false → n1 = 0) ∧ (pbc.y = false → n2 = 0) ∧ (pbc.z = false → n3 = 0) ∧
      ∀ e ∈ l, ∃ p, positions[e.index]? = some p ∧ e.pos = V3.add p (Cell.comb basis e.factor) ∧
        |e.factor.1| ≤ (n1 : Int) ∧ |e.factor.2.1| ≤ (n2 : Int) ∧ |e.factor.2.2| ≤ (n3 : Int) := by
  obtain ⟨basis, n1, n2, n3, hplan, hall⟩ := extend_entries positions cell pbc ext2 l h
  obtain ⟨a, b, c⟩ := plan_nonperiodic cell pbc ext2 basis n1 n2 n3 hplan
  exact ⟨basis, n1, n2, n3, hplan, a, b, c, hall⟩

/-- … and it contains every original atom with every multiplier triple up to the copy counts -/
theorem extended_contains_all (positions : List V3) (cell : Cell) (pbc : Pbc) (ext2 : Rat) (l : List ExtAtom)
    (basis : Cell) (n1 n2 n3 : Nat) (hplan : extendPlan cell pbc ext2 = some (basis, n1, n2, n3))
    (h : extendSystem2 positions cell pbc ext2 = .ok l) (idx : Nat) (p : V3) (hp : positions[idx]? = some p)
    (f : Int × Int × Int) (h1 : |f.1| ≤ (n1 : Int)) (h2 : |f.2.1| ≤ (n2 : Int)) (h3 : |f.2.2| ≤ (n3 : Int)) :
    ∃ e ∈ l, e.index = idx ∧ e.factor = f ∧ e.pos = V3.add p (Cell.comb basis f) :=
  extend_contains positions cell pbc ext2 l basis n1 n2 n3 hplan h idx p hp f h1 h2 h3

/-- the multipliers of an axis are pairwise different (each image is listed once) and start with 0
(the original system comes first) -/
theorem multipliers_once_originals_first (m : Nat) :
    (multiples m).Nodup ∧ (∃ rest, multiples m = 0 :: rest) ∧ ∀ k : Int, k ∈ multiples m ↔ |k| ≤ (m : Int) :=
  ⟨multiples_nodup m, multiples_head m, mem_multiples m⟩

/-- copies suffice: see C10.extend_complete_axis (same theorem, restated for this property) -/
theorem copies_suffice (a b c : V3) (hdet : V3.dot a (V3.cross b c) ≠ 0) (s t : V3) (n1 n2 n3 : Int)
    (ext2 : Rat) (hs : |s.1 - t.1| < 1)
    (hv : V3.norm2 (V3.add (V3.add (V3.smul (s.1 - t.1 - n1) a) (V3.smul (s.2.1 - t.2.1 - n2) b))
            (V3.smul (s.2.2 - t.2.2 - n3) c)) ≤ ext2) :
    |n1| ≤ (copiesFrom ext2 (height2 a (V3.cross b c)) : Int) :=
  Matid.Geom.extend_complete_axis a b c hdet s t n1 n2 n3 ext2 hs hv

/-- a neighbour query returns precisely the stored points with d² ≤ cutoff², each with its exact displacement,
squared distance, original index and cell offset -/
theorem query_exact (atoms : List ExtAtom) (c : Rat) (hc : 0 < c) (q : V3) :
    (mkCellList atoms (some c)).query q = (mkCellList atoms (some c)).querySpec q ∧
    ∀ nb ∈ (mkCellList atoms (some c)).query q, ∃ a, atoms[nb.ext]? = some a ∧ nb.index = a.index ∧
      nb.factor = a.factor ∧ nb.disp = V3.sub q a.pos ∧ nb.dist2 = V3.norm2 (V3.sub q a.pos) ∧ nb.dist2 ≤ c * c := by
  refine ⟨query_complete atoms c hc q, fun nb hnb => ?_⟩
  obtain ⟨a, ha, h1, h2, h3, h4, h5⟩ := query_sound _ q nb hnb
  exact ⟨a, ha, h1, h2, h3, h4, h5 c rfl⟩

/-- matching: a vacancy is reported exactly when no returned neighbour is within the tolerance; otherwise every
reported answer is a neighbour at the minimal distance, and that distance is within the tolerance -/
theorem match_spec (cl : CellList) (cell : Cell) (numbers : List Nat) (q : V3) (z : Nat) (tol : Rat) :
    let r := getMatch cl cell numbers q z tol
    (r.kind = .vacancy ↔ ∀ nb ∈ cl.query q, ¬ nb.dist2 ≤ tol * tol) ∧
    (r.kind ≠ .vacancy → ∀ ans ∈ r.answers, ∃ nb ∈ cl.query q, (nb.index, nb.factor) = ans ∧ nb.dist2 ≤ tol * tol ∧
      ∀ nb' ∈ cl.query q, nb.dist2 ≤ nb'.dist2) := by
  intro r
  simp only [r, getMatch]
  cases hq : cl.query q with
  | nil => simp
  | cons n0 rest =>
    simp only
    set nbs := n0 :: rest with hnbs
    set m := nbs.foldl (fun acc nb => min acc nb.dist2) n0.dist2 with hm
    have hfold : m = (nbs.map (·.dist2)).foldl min n0.dist2 := by rw [hm, List.foldl_map]
    have hle : ∀ nb ∈ nbs, m ≤ nb.dist2 := fun nb hnb => by
      rw [hfold]; exact foldl_min_le _ _ _ (List.mem_map.mpr ⟨nb, hnb, rfl⟩)
    have hatt : ∃ nb ∈ nbs, nb.dist2 = m := by
      rcases foldl_min_mem (nbs.map (·.dist2)) n0.dist2 with h0 | hm'
      · exact ⟨n0, by simp [hnbs], by rw [hfold, h0]⟩
      · obtain ⟨nb, hnb, e⟩ := List.mem_map.mp hm'
        exact ⟨nb, hnb, by rw [hfold]; exact e⟩
    by_cases hmt : m ≤ tol * tol
    · simp only [hmt, if_true]
      have key : ∀ ans ∈ (nbs.filter fun nb => nb.dist2 == m).map (fun nb => (nb.index, nb.factor)),
          ∃ nb ∈ nbs, (nb.index, nb.factor) = ans ∧ nb.dist2 ≤ tol * tol ∧ ∀ nb' ∈ nbs, nb.dist2 ≤ nb'.dist2 := by
        intro ans hans
        obtain ⟨nb, hnb, rfl⟩ := List.mem_map.mp hans
        obtain ⟨h1, h2⟩ := List.mem_filter.mp hnb
        have e : nb.dist2 = m := by simpa using h2
        exact ⟨nb, h1, rfl, by rw [e]; exact hmt, fun nb' hnb' => by rw [e]; exact hle nb' hnb'⟩
      obtain ⟨nbm, hnbm, em⟩ := hatt
      constructor
      · constructor
        · intro hk; split at hk <;> (try split at hk) <;> simp at hk
        · intro hall; exact absurd (by rw [em]; exact hmt) (hall nbm hnbm)
      · intro _
        split
        · exact key
        · split <;> exact key
    · simp only [hmt, if_false]
      constructor
      · simp only [true_iff]
        intro nb hnb hcon
        exact hmt (le_trans (hle nb hnb) hcon)
      · intro h; exact absurd rfl h

end Matid.Props.C16
