/- The adaptive cell vectors are differences of periodic-image positions, always oriented along +span (C02–C04: prototype cell). -/
import MatidModel.AdaptiveCell
import Mathlib.Tactic.Ring

namespace Matid.Props.Adaptive
open Matid.Geom Matid.Adaptive

/-- measured from a "+span" neighbour, the vector leads from the node's image to the neighbour's image -/
theorem measured_plus (cell : Cell) (pNode : V3) (fNode : F3) (pNb : V3) (fNb : F3) :
    measured cell pNode fNode pNb fNb 1 = V3.sub (imagePos cell pNb fNb) (imagePos cell pNode fNode) := by
  obtain ⟨⟨a1, a2, a3⟩, ⟨b1, b2, b3⟩, ⟨c1, c2, c3⟩⟩ := cell
  obtain ⟨x1, x2, x3⟩ := pNode; obtain ⟨y1, y2, y3⟩ := pNb
  obtain ⟨f1, f2, f3⟩ := fNode; obtain ⟨g1, g2, g3⟩ := fNb
  simp only [measured, imagePos, Cell.comb, V3.smul, V3.add, V3.sub, Prod.mk.injEq]
  refine ⟨?_, ?_, ?_⟩ <;> push_cast <;> ring

/-- measured from a "−span" neighbour, it leads from the NEIGHBOUR's image to the node's image: the same orientation (+span) -/
theorem measured_minus (cell : Cell) (pNode : V3) (fNode : F3) (pNb : V3) (fNb : F3) :
    measured cell pNode fNode pNb fNb (-1) = V3.sub (imagePos cell pNode fNode) (imagePos cell pNb fNb) := by
  obtain ⟨⟨a1, a2, a3⟩, ⟨b1, b2, b3⟩, ⟨c1, c2, c3⟩⟩ := cell
  obtain ⟨x1, x2, x3⟩ := pNode; obtain ⟨y1, y2, y3⟩ := pNb
  obtain ⟨f1, f2, f3⟩ := fNode; obtain ⟨g1, g2, g3⟩ := fNb
  simp only [measured, imagePos, Cell.comb, V3.smul, V3.add, V3.sub, Prod.mk.injEq]
  refine ⟨?_, ?_, ?_⟩ <;> push_cast <;> ring

/-- **if the graph edges are ±span translations up to an error vector, so is every adaptive cell vector** (with the same error,
up to sign): for a "+span" edge  image(nb) = image(node) + span + e  gives  span + e,  for a "−span" edge
image(nb) = image(node) − span + e  gives  span − e;  without a usable neighbour the span itself -/
theorem adaptive_close (cell : Cell) (idx : Nat) (pNode : V3) (fNode : F3) (add sub : Option (Nat × V3 × F3)) (span : V3) (e : V3)
    (hadd : ∀ n p g, add = some (n, p, g) → imagePos cell p g = V3.add (V3.add (imagePos cell pNode fNode) span) e)
    (hsub : ∀ n p g, sub = some (n, p, g) → imagePos cell p g = V3.add (V3.sub (imagePos cell pNode fNode) span) e) :
    adaptiveVector cell idx pNode fNode add sub span = span ∨
    adaptiveVector cell idx pNode fNode add sub span = V3.add span e ∨
    adaptiveVector cell idx pNode fNode add sub span = V3.sub span e := by
  unfold adaptiveVector
  cases add with
  | some t =>
    obtain ⟨n, p, g⟩ := t
    simp only
    split
    · right; left
      rw [measured_plus, hadd n p g rfl]
      obtain ⟨q1, q2, q3⟩ := imagePos cell pNode fNode
      obtain ⟨s1, s2, s3⟩ := span; obtain ⟨e1, e2, e3⟩ := e
      simp only [V3.add, V3.sub, Prod.mk.injEq]
      refine ⟨?_, ?_, ?_⟩ <;> ring
    · left; rfl
  | none =>
    cases sub with
    | some t =>
      obtain ⟨n, p, g⟩ := t
      simp only
      split
      · right; right
        rw [measured_minus, hsub n p g rfl]
        obtain ⟨q1, q2, q3⟩ := imagePos cell pNode fNode
        obtain ⟨s1, s2, s3⟩ := span; obtain ⟨e1, e2, e3⟩ := e
        simp only [V3.add, V3.sub, Prod.mk.injEq]
        refine ⟨?_, ?_, ?_⟩ <;> ring
      · left; rfl
    | none => left; rfl

/-- the two slips this guards against: the multiplier applied to the displacement only, and the image correction with the wrong sign,
both give a vector that is off by twice a lattice translation when the neighbour lies across a cell face -/
example : measured { a := (4, 0, 0), b := (0, 4, 0), c := (0, 0, 4) } (1 / 2, 0, 0) (0, 0, 0) (7 / 2, 0, 0) (-1, 0, 0) (-1) = (1, 0, 0) := by
  decide +kernel

end Matid.Props.Adaptive
