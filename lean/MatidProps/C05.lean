/-
C05 — the conventional cell is the same crystal as the input, chirality preserved.
What MatID itself does to spglib's standardised cell is: choose a tabulated normalizer (C06's ranking) and
apply it to the fractional coordinates, then wrap.  The theorems say that every transformation that CAN be
chosen is an isometry of every lattice of the crystal system, maps the space group onto itself, and is proper
whenever the group is chiral; wrapping moves atoms by lattice vectors only.
-/
import MatidGen.AllGroups
import MatidProofs.NormSound
import MatidProofs.SelectProofs
import MatidProps.C14
import Mathlib.Tactic.LinearCombination

namespace Matid.Props.C05
open Matid.Table Matid.Select Matid.WyckoffParams MatidGen

/-- squared length of a fractional vector d in the lattice with metric tensor g -/
def normSq (g : MetricQ) (d : Rat × Rat × Rat) : Rat := qformQ g d.1 d.2.1 d.2.2 d.1 d.2.1 d.2.2

/-- linear part of an affine map applied to a difference vector -/
def Aff.lin (A : Aff) (d : Rat × Rat × Rat) : Rat × Rat × Rat :=
  (A.a11 * d.1 + A.a12 * d.2.1 + A.a13 * d.2.2, A.a21 * d.1 + A.a22 * d.2.1 + A.a23 * d.2.2,
   A.a31 * d.1 + A.a32 * d.2.1 + A.a33 * d.2.2)

/-- a transformation with Rᵀ·G·R = G preserves the length of every difference vector, i.e. all interatomic
distances, in the lattice with metric G -/
theorem isometry_of_preserves (A : Aff) (g : MetricQ) (h : PreservesQ A g) (d : Rat × Rat × Rat) :
    normSq g (Aff.lin A d) = normSq g d := by
  obtain ⟨e11, e22, e33, e12, e13, e23⟩ := h
  obtain ⟨d1, d2, d3⟩ := d
  simp only [normSq, Aff.lin, qformQ] at *
  linear_combination d1 * d1 * e11 + d2 * d2 * e22 + d3 * d3 * e33 + 2 * d1 * d2 * e12 + 2 * d1 * d3 * e13 + 2 * d2 * d3 * e23

/-- differences of images are the linear part applied to differences -/
theorem act_sub (A : Aff) (p q : Rat × Rat × Rat) :
    ((A.act p).1 - (A.act q).1, (A.act p).2.1 - (A.act q).2.1, (A.act p).2.2 - (A.act q).2.2)
      = Aff.lin A (p.1 - q.1, p.2.1 - q.2.1, p.2.2 - q.2.2) := by
  simp only [Aff.act, Aff.lin, Prod.mk.injEq]
  refine ⟨?_, ?_, ?_⟩ <;> ring

/-- **every selectable transformation is a symmetry-preserving rigid motion**: for every group, every tabulated
normalizer and every metric tensor of the crystal system, all interatomic distances are preserved; the
space group is mapped onto itself; and the transformation is proper whenever the group is chiral -/
theorem every_normalizer_is_admissible : ∀ G ∈ allGroups, ∀ N ∈ G.norms,
    (∀ g, MetricOfSystem (systemOf G.number) g → ∀ p q : Rat × Rat × Rat,
        normSq g (((decode N.map).act p).1 - ((decode N.map).act q).1, ((decode N.map).act p).2.1 - ((decode N.map).act q).2.1,
                  ((decode N.map).act p).2.2 - ((decode N.map).act q).2.2)
          = normSq g (p.1 - q.1, p.2.1 - q.2.1, p.2.2 - q.2.2)) ∧
    (∀ g ∈ G.ops.map decode, ∃ g' ∈ G.ops.map decode, ((decode N.map).comp g).Cong (g'.comp (decode N.map))) ∧
    (isChiralOps (G.ops.map decode) = true → (decode N.map).det = 1) := by
  intro G hG N hN
  have S := C14.normalizers_ok G hG N hN
  refine ⟨fun g hg p q => ?_, S.normalizes, S.proper⟩
  rw [act_sub]
  exact isometry_of_preserves _ g (S.metric g hg) _

/-- the identity representation (always a candidate) is trivially admissible; so whatever the ranking selects
— index 0 or a table entry — is admissible.  `selectRep` only ever returns an index of the candidate list. -/
theorem selected_index_in_range (tablePerms : List (List (Nat × Nat))) (letters numbers : List Nat) (i : Nat)
    (h : selectRep tablePerms letters numbers = .ok i) : i ≤ tablePerms.length := by
  unfold selectRep at h
  simp only at h
  split at h
  · cases h; omega
  · split at h
    · cases h
    · split at h
      · rename_i tl hfin
        cases h
        have hj : i ∈ i :: tl := List.mem_cons_self
        rw [← hfin, runCoded_eq_run] at hj
        have := run_subset _ _ _ _ hj
        simp at this
        omega
      · cases h

/-- wrapping (`get_wrapped_positions`) changes a coordinate by an integer, or snaps a value within 1e-5 of a
lattice plane onto it: the atom stays within 1e-5 (fractional) of a lattice translate of its image -/
theorem wrap_moves_by_lattice (q : Rat) : ∃ k : Int, |wrapCoord q - (q - k)| < 1 / 100000 := by
  unfold wrapCoord wrapParam wrap01
  simp only
  have h0 : 0 ≤ q - (q.floor : Rat) := by have := Rat.floor_le q; linarith
  have h1 : q - (q.floor : Rat) < 1 := by
    have := Rat.lt_floor_add_one q; push_cast at this; linarith
  split
  · rename_i h
    refine ⟨q.floor, ?_⟩
    rw [abs_lt]; constructor <;> linarith
  · split
    · rename_i h
      refine ⟨q.floor + 1, ?_⟩
      push_cast
      rw [abs_lt]; constructor <;> linarith
    · refine ⟨q.floor, ?_⟩
      simp

/-! non-vacuity: in the chiral group 214 nothing but the identity can be selected; in 225 the tabulated
normalizer is the shift by (1/2,1/2,1/2) -/
example : SG.g214.norms.length = 0 ∧ SG.g225.norms.length = 1 := by decide +kernel

end Matid.Props.C05
