/-
C11 — 2D materials get a vacuum-, orientation- and labelling-independent normal form.
-/
import MatidModel.TwoD
import MatidProps.C06
import MatidProps.C20

namespace Matid.Props.C11
open Matid.Geom Matid.Frame Matid.TwoD Matid.Props.C06

/-- if row i of the transformation matrix P (x' = P·x) is supported on column c only, the new coordinate i of a
point depends on its old coordinate c alone: the planes x_c = const (the layer) are the planes x'_i = const, so the
detected axis i of the standardised cell is the non-periodic one and the other two new axes lie in the layer plane -/
theorem detectAxis_sound (row x y : V3) (c : Nat) (hc : c < 3)
    (h1 : V3.get row ((c + 1) % 3) = 0) (h2 : V3.get row ((c + 2) % 3) = 0) (hxy : V3.get x c = V3.get y c) :
    V3.dot row x = V3.dot row y := by
  obtain ⟨r1, r2, r3⟩ := row
  obtain ⟨x1, x2, x3⟩ := x
  obtain ⟨y1, y2, y3⟩ := y
  have hc' : c = 0 ∨ c = 1 ∨ c = 2 := by omega
  rcases hc' with rfl | rfl | rfl <;> simp only [V3.get, V3.dot] at * <;> subst_vars <;> simp_all

/-- what `detectAxis` returns is a row with exactly that support -/
theorem detectAxis_spec (P : List V3) (iPbc i : Nat) (h : detectAxis P iPbc = some i) :
    ∃ row, P[i]? = some row ∧ V3.get row iPbc ≠ 0 ∧ V3.get row ((iPbc + 1) % 3) = 0 ∧ V3.get row ((iPbc + 2) % 3) = 0 := by
  unfold detectAxis at h
  simp only [Option.map_eq_some_iff] at h
  obtain ⟨⟨row, j⟩, hf, rfl⟩ := h
  have hm := List.mem_of_find?_eq_some hf
  have hp := List.find?_some hf
  simp only [Bool.and_eq_true, bne_iff_ne, ne_eq, beq_iff_eq] at hp
  exact ⟨row, List.mem_zipIdx_iff_getElem?.mp hm, hp.1.1, hp.1.2, hp.2⟩

/-- the symmetry-breaking vacuum depends only on the extent of the layer along the non-periodic vector: it is
unchanged when all atoms are shifted along that vector (differences of coordinates) and never below 5 Å -/
theorem vacuum_at_least_five (e : Rat) : 25 ≤ vacuumLength2 e := le_max_left _ _

theorem extent_shift_invariant (lo hi t : Rat) : (hi + t) - (lo + t) = hi - lo := by ring

/-- the centring translation has no component along the periodic axes -/
theorem restrictTranslation_spec (t : V3) :
    restrictTranslation t 2 = (0, 0, t.2.2) ∧ restrictTranslation t 0 = (t.1, 0, 0) ∧ restrictTranslation t 1 = (0, t.2.1, 0) := by
  simp [restrictTranslation]

/-! ### the id of a 2D material differs from the id string of any 3D crystal -/

theorem second_char_not_D : ∀ n, n < 1000 → (Nat.toDigits 10 n ++ [' ']).getD 1 'x' ≠ 'D' := by decide +kernel

theorem digits_len : ∀ n, n < 1000 → 1 ≤ (Nat.toDigits 10 n).length := by decide +kernel

/-- for every pair of space-group numbers (< 1000, in particular 1 … 230) and all set-string lists the pre-hash
string of the 2D material starts with "2D", the 3D one with a decimal number: their second characters differ -/
theorem id_2d_ne_3d (n m : Nat) (hm : m < 1000) (s t : List String) : idString n s true ≠ idString m t false := by
  intro h
  have h2 := congrArg (fun x => x.toList.getD 1 'x') h
  simp only [idString, if_true, Bool.false_eq_true, if_false] at h2
  have hl : ("2D " ++ (toString n ++ " " ++ ", ".intercalate (s.mergeSort fun a b => decide (a ≤ b)))).toList.getD 1 'x' = 'D' := by
    rw [String.toList_append]
    rfl
  have hr : (toString m ++ " " ++ ", ".intercalate (t.mergeSort fun a b => decide (a ≤ b))).toList.getD 1 'x'
      = (Nat.toDigits 10 m ++ [' ']).getD 1 'x' := by
    rw [String.toList_append, String.toList_append]
    have e1 : (toString m).toList = Nat.toDigits 10 m := by
      show (String.ofList (Nat.toDigits 10 m)).toList = _
      rw [String.toList_ofList]
    have e2 : (" " : String).toList = [' '] := rfl
    rw [e1, e2]
    have hlen := digits_len m hm
    rw [List.getD_eq_getElem?_getD, List.getD_eq_getElem?_getD, List.getElem?_append_left (by simp; omega)]
  rw [hl, hr] at h2
  exact second_char_not_D m hm h2.symm

/-! the shape clauses of the conventional 2D system (atoms inside [0,1] along c, thickness = max(extent, min_2d_thickness),
in-plane vectors and coordinates untouched) are C20.minimized_inside / minimized_length / minimized_only_axis;
invariance of id and letters under relabelling, supercells and motions is C06 applied to the vacuum-padded cell. -/
example : detectAxis [(0, 1, 0), (0, 0, 2), (1, 0, 0)] 2 = some 1 := by decide

end Matid.Props.C11
