/-
C09 — dimensionality is the rank of the periodic bonding network, however presented.
-/
import MatidModel.Dim
import MatidProofs.Cover
import MatidProofs.GeomProofs
import MatidProofs.Components
import MatidProofs.Dim2x

namespace Matid.Props.C09
open Matid.Cover Matid.Dim Matid.Geom Relation

variable {V A : Type} [AddCommGroup A]

/-- **covering theorem**: for a connected voltage graph over a finite abelian group A (the bonding network of the
cell with lattice offsets reduced to A; no bound on the number of atoms or bonds), the derived graph — for
A = (ℤ/2)ᵏ the bonding graph of the 2× supercell — has exactly |A| / |H| components, H the group of closed-walk
voltages at a base atom -/
theorem components_times_stabiliser (E : V → V → A → Prop) [Fintype A] [Fintype (Comp E)]
    (hconn : ∀ u v, EqvGen (fun u v => ∃ a, E u v a) u v) (u0 : V)
    [Fintype (AddAction.stabilizer A (⟦(u0, (0:A))⟧ : Comp E))] :
    Fintype.card (Comp E) * Fintype.card (AddAction.stabilizer A (⟦(u0, (0:A))⟧ : Comp E)) = Fintype.card A :=
  card_comp_mul_card_stab E hconn u0

theorem stabiliser_is_closed_walk_group (E : V → V → A → Prop) (u0 : V) (a : A) :
    a ∈ AddAction.stabilizer A (⟦(u0, (0:A))⟧ : Comp E) ↔ EqvGen (Der E) (u0, a) (u0, 0) :=
  mem_stab_iff E u0 a

/-- for the 2× supercell: N₂ₓ = 2^(k − r), 2^r = number of closed-walk offsets modulo 2 -/
theorem components_power_of_two (k : Nat) (E : V → V → (Fin k → ZMod 2) → Prop) [Fintype (Comp E)]
    (hconn : ∀ u v, EqvGen (fun u v => ∃ a, E u v a) u v) (u0 : V) :
    ∃ r, r ≤ k ∧ Fintype.card (Comp E) = 2 ^ (k - r) ∧
      Nat.card (AddAction.stabilizer (Fin k → ZMod 2) (⟦(u0, (0 : Fin k → ZMod 2))⟧ : Comp E)) = 2 ^ r :=
  Matid.Cover.components_power_of_two k E hconn u0

/-- hence the value of the formula D = k − log₂ N₂ₓ is the GF(2)-rank r of the closed-walk offsets and lies in
0 … k (so the classifier's dispatch on 0, 1, 2, 3 is total) -/
theorem dimension_in_range (k : Nat) (E : V → V → (Fin k → ZMod 2) → Prop) [Fintype (Comp E)]
    (hconn : ∀ u v, EqvGen (fun u v => ∃ a, E u v a) u v) (u0 : V) :
    ∃ r, r ≤ k ∧ Nat.log 2 (Fintype.card (Comp E)) = k - r ∧ k - Nat.log 2 (Fintype.card (Comp E)) = r := by
  obtain ⟨r, hr, hc, _⟩ := Matid.Cover.components_power_of_two k E hconn u0
  refine ⟨r, hr, ?_, ?_⟩
  · rw [hc, Nat.log_pow (by norm_num)]
  · rw [hc, Nat.log_pow (by norm_num)]; omega

/-- the only values of N₂ₓ that occur for k ≤ 3 are 1, 2, 4, 8, on which the model's (and libm's) log₂ is exact -/
theorem log2_table : ∀ l, l ≤ 3 → log2Exact (2 ^ l) = some l := by decide

/-- after the entry wrap the fractional coordinates along periodic axes lie in [−eps, 1 − eps): the atoms are
inside the cell (up to ASE's eps = 1e-7), which is the precondition of C10's exactness theorems -/
theorem wrap_inside_cell (x : Rat) :
    let eps : Rat := 1 / 10000000;
    (-eps) ≤ x - ((x + eps).floor : Rat) ∧ x - ((x + eps).floor : Rat) < 1 - eps := by
  intro eps
  have h1 := Rat.floor_le (x + eps)
  have h2 := Rat.lt_floor_add_one (x + eps)
  push_cast at h2
  constructor <;> linarith

/-! ### the executable counter computes the components, and the doubled cell is the covering graph -/

/-- the bonding matrix the model reads off the minimum-image table is square, has a true diagonal and is symmetric -/
theorem bond_matrix_wellformed (cl : CellList) (positions : List V3) (radii : List Rat) (thr : Rat) :
    WF (bondMatrix cl positions radii thr) := bondMatrix_wf cl positions radii thr

/-- **the labelling `components` (n rounds of minimum-label propagation, the model of DBSCAN(min_samples = 1) on the bonding
matrix) computes the connected components**: two atoms get the same label exactly when they are connected by bonds; the label
is the smallest atom of the component — for every square, reflexive, symmetric matrix of any size -/
theorem components_are_connected_components (adj : List (List Bool)) (hwf : WF adj) (i j : Nat) (hi : i < adj.length) (hj : j < adj.length) :
    ((components adj).getD i i = (components adj).getD j j ↔ Connected adj i j) ∧
    Connected adj i ((components adj).getD i i) ∧ (∀ v, Connected adj i v → (components adj).getD i i ≤ v) :=
  components_spec adj hwf i j hi hj

open Classical in
/-- … and the number of distinct labels (what the code takes the log₂ of) is the number of components: one smallest atom each -/
theorem count_is_number_of_components (adj : List (List Bool)) (hwf : WF adj) :
    countDistinct (components adj) = ((Finset.range adj.length).filter fun i => ∀ v, Connected adj i v → i ≤ v).card :=
  count_components adj hwf

/-- **`mic_2x_edges`**: in the minimum-image table of the doubled cell the copy (m, i) of atom i and the copy (m', j) of atom j
(stored at index J) have an entry within the bonding reach σ ≤ cutoff exactly when SOME lattice image n ≡ m' − m (mod 2) of atom j
lies within σ of atom i in the original cell: the bonding graph of the 2× supercell is the derived (covering) graph of the cell's
voltage graph over (ℤ/2)ᵏ, to which `components_times_stabiliser` applies.  Any non-singular cell, pbc, atoms inside the cell. -/
theorem bonded_2x_iff (cell : Cell) (pbc : Pbc) (hdet : cell.det ≠ 0) (c σ : Rat) (hc : 0 < c) (hσ0 : 0 ≤ σ) (hσc : σ ≤ c)
    (pos2 : List V3) (cl2 : CellList) (hcl : tensorCellList pos2 (Matid.Dim2x.cell2 cell pbc) pbc (some c) = .ok cl2)
    (s u : V3) (hs : insideCell pbc s) (hu : insideCell pbc u) (m m' : Int × Int × Int)
    (hm : Matid.Dim2x.isCopy pbc m) (hm' : Matid.Dim2x.isCopy pbc m')
    (J : Nat) (hJ : pos2[J]? = some (toCartesian cell (Matid.Dim2x.shiftF u m'))) :
    (∃ e, pairEntry cl2 (toCartesian cell (Matid.Dim2x.shiftF s m)) J = some e ∧ e.dist2 ≤ σ * σ) ↔
    (∃ n : Int × Int × Int, admissible pbc n ∧
      (∃ t : Int × Int × Int, admissible pbc t ∧ n = (m'.1 - m.1 + 2 * t.1, m'.2.1 - m.2.1 + 2 * t.2.1, m'.2.2 - m.2.2 + 2 * t.2.2)) ∧
      imageDist2 cell (toCartesian cell s) (toCartesian cell u) n ≤ σ * σ) :=
  Matid.Dim2x.bonded_2x_iff cell pbc hdet c σ hc hσ0 hσc pos2 cl2 hcl s u hs hu m m' hm hm' J hJ

/-- non-vacuity: a three-atom chain 0–1 and an isolated atom 2 -/
example : components [[true, true, false], [true, true, false], [false, false, true]] = [0, 0, 2] ∧
    countDistinct (components [[true, true, false], [true, true, false], [false, false, true]]) = 2 := by decide

/-! non-vacuity: a one-atom chain (edge with voltage 1 over ℤ/2) is connected -/
example : log2Exact 4 = some 2 ∧ log2Exact 3 = none := by decide

end Matid.Props.C09
