/-
C09 — dimensionality is the rank of the periodic bonding network, however presented.
-/
import MatidModel.Dim
import MatidProofs.Cover
import MatidProofs.GeomProofs

namespace Matid.Props.C09
open Matid.Cover Matid.Dim Matid.Geom Relation

variable {V A : Type} [AddCommGroup A]

/-- **covering theorem**: for a connected voltage graph over a finite abelian group A (the bonding network of the
cell with lattice offsets reduced to A; no bound on the number of atoms or bonds), the derived graph — for
A = (ℤ/2)ᵏ the bonding graph of the 2× supercell — has exactly |A| / |H| components, H the group of closed-walk
voltages at a base atom -/
theorem components_times_stabiliser (E : V → V → A → Prop) [Fintype A] [Fintype (Comp E)]
    (hconn : ∀ u v, EqvGen (fun u v => ∃ a, E u v a) u v) (u0 : V)
    [Fintype (AddAction.stabilizer A (⟦(u0, (0:A))⟧ : Comp E))] :
    Fintype.card (Comp E) * Fintype.card (AddAction.stabilizer A (⟦(u0, (0:A))⟧ : Comp E)) = Fintype.card A :=
  card_comp_mul_card_stab E hconn u0

theorem stabiliser_is_closed_walk_group (E : V → V → A → Prop) (u0 : V) (a : A) :
    a ∈ AddAction.stabilizer A (⟦(u0, (0:A))⟧ : Comp E) ↔ EqvGen (Der E) (u0, a) (u0, 0) :=
  mem_stab_iff E u0 a

/-- for the 2× supercell: N₂ₓ = 2^(k − r), 2^r = number of closed-walk offsets modulo 2 -/
theorem components_power_of_two (k : Nat) (E : V → V → (Fin k → ZMod 2) → Prop) [Fintype (Comp E)]
    (hconn : ∀ u v, EqvGen (fun u v => ∃ a, E u v a) u v) (u0 : V) :
    ∃ r, r ≤ k ∧ Fintype.card (Comp E) = 2 ^ (k - r) ∧
      Nat.card (AddAction.stabilizer (Fin k → ZMod 2) (⟦(u0, (0 : Fin k → ZMod 2))⟧ : Comp E)) = 2 ^ r :=
  Matid.Cover.components_power_of_two k E hconn u0

/-- hence the value of the formula D = k − log₂ N₂ₓ is the GF(2)-rank r of the closed-walk offsets and lies in
0 … k (so the classifier's dispatch on 0, 1, 2, 3 is total) -/
theorem dimension_in_range (k : Nat) (E : V → V → (Fin k → ZMod 2) → Prop) [Fintype (Comp E)]
    (hconn : ∀ u v, EqvGen (fun u v => ∃ a, E u v a) u v) (u0 : V) :
    ∃ r, r ≤ k ∧ Nat.log 2 (Fintype.card (Comp E)) = k - r ∧ k - Nat.log 2 (Fintype.card (Comp E)) = r := by
  obtain ⟨r, hr, hc, _⟩ := Matid.Cover.components_power_of_two k E hconn u0
  refine ⟨r, hr, ?_, ?_⟩
  · rw [hc, Nat.log_pow (by norm_num)]
  · rw [hc, Nat.log_pow (by norm_num)]; omega

/-- the only values of N₂ₓ that occur for k ≤ 3 are 1, 2, 4, 8, on which the model's (and libm's) log₂ is exact -/
theorem log2_table : ∀ l, l ≤ 3 → log2Exact (2 ^ l) = some l := by decide

/-- after the entry wrap the fractional coordinates along periodic axes lie in [−eps, 1 − eps): the atoms are
inside the cell (up to ASE's eps = 1e-7), which is the precondition of C10's exactness theorems -/
theorem wrap_inside_cell (x : Rat) :
    let eps : Rat := 1 / 10000000;
    (-eps) ≤ x - ((x + eps).floor : Rat) ∧ x - ((x + eps).floor : Rat) < 1 - eps := by
  intro eps
  have h1 := Rat.floor_le (x + eps)
  have h2 := Rat.lt_floor_add_one (x + eps)
  push_cast at h2
  constructor <;> linarith

/-! non-vacuity: a one-atom chain (edge with voltage 1 over ℤ/2) is connected -/
example : log2Exact 4 = some 2 ∧ log2Exact 3 = none := by decide

end Matid.Props.C09
