/-
The basis choice of the finder (model MatidModel/BestBasis.lean): the selection rule stated outright, for EVERY list of spans and metrics.
-/
import MatidModel.BestBasis
import Mathlib.Tactic.Linarith

namespace Matid.Props.BestBasis
open Matid.Geom Matid.BestBasis

theorem argminF_mem {α} (k : α → Rat) (l : List α) (v : α) (h : argminF k l = some v) : v ∈ l := by
  induction l generalizing v with
  | nil => simp [argminF] at h
  | cons x xs ih =>
    unfold argminF at h
    cases hr : argminF k xs with
    | none => rw [hr] at h; simp only [Option.some.injEq] at h; rw [← h]; exact List.mem_cons_self
    | some w =>
      rw [hr] at h
      simp only at h
      split at h
      · simp only [Option.some.injEq] at h; rw [← h]; exact List.mem_cons_of_mem _ (ih w hr)
      · simp only [Option.some.injEq] at h; rw [← h]; exact List.mem_cons_self

theorem argminF_none {α} (k : α → Rat) (l : List α) (h : argminF k l = none) : l = [] := by
  cases l with
  | nil => rfl
  | cons y ys =>
    unfold argminF at h
    cases h2 : argminF k ys <;> rw [h2] at h <;> simp only at h
    · cases h
    · split at h <;> cases h

theorem argminF_min {α} (k : α → Rat) (l : List α) (v : α) (h : argminF k l = some v) : ∀ p ∈ l, k v ≤ k p := by
  induction l generalizing v with
  | nil => simp [argminF] at h
  | cons x xs ih =>
    unfold argminF at h
    cases hr : argminF k xs with
    | none =>
      rw [hr] at h; simp only [Option.some.injEq] at h
      have := argminF_none k xs hr
      subst this
      intro p hp; simp only [List.mem_singleton] at hp; rw [hp, h]
    | some w =>
      rw [hr] at h
      simp only at h
      have hw := ih w hr
      intro p hp
      rcases List.mem_cons.mp hp with rfl | hp
      · split at h
        · rename_i hlt; simp only [Option.some.injEq] at h; rw [← h]; exact le_of_lt hlt
        · simp only [Option.some.injEq] at h; rw [← h]
      · split at h
        · simp only [Option.some.injEq] at h; rw [← h]; exact hw p hp
        · rename_i hge; simp only [Option.some.injEq] at h; rw [← h]; exact le_trans (not_lt.mp hge) (hw p hp)

theorem le_maxNat (l : List Nat) (x : Nat) (h : x ∈ l) : x ≤ maxNat l := by
  unfold maxNat
  have gen : ∀ (l : List Nat) (a : Nat), a ≤ l.foldl max a ∧ ∀ x ∈ l, x ≤ l.foldl max a := by
    intro l
    induction l with
    | nil => intro a; exact ⟨Nat.le_refl _, by intro x hx; cases hx⟩
    | cons y ys ih =>
      intro a
      simp only [List.foldl_cons]
      obtain ⟨h1, h2⟩ := ih (max a y)
      refine ⟨Nat.le_trans (Nat.le_max_left a y) h1, ?_⟩
      intro x hx
      rcases List.mem_cons.mp hx with rfl | hx
      · exact Nat.le_trans (Nat.le_max_right a x) h1
      · exact h2 x hx
  exact (gen l 0).2 x h

theorem max3_eq (p : Params) (spans : List V3) (metrics : List Nat) :
    max3 p spans metrics = (adm3 p spans).filter fun c => msum3 metrics c == maxNat ((adm3 p spans).map (msum3 metrics)) := rfl

theorem small3_eq (p : Params) (spans : List V3) (metrics : List Nat) :
    small3 p spans metrics = (match minRat ((max3 p spans metrics).map (vol3 spans)) with
      | some mn => (max3 p spans metrics).filter fun c => decide (vol3 spans c ≤ (1 + p.tol) * mn)
      | none => []) := rfl

theorem max2_eq (p : Params) (spans : List V3) (metrics : List Nat) :
    max2 p spans metrics = (adm2 p spans).filter fun c => msum2 metrics c == maxNat ((adm2 p spans).map (msum2 metrics)) := rfl

theorem small2_eq (p : Params) (spans : List V3) (metrics : List Nat) :
    small2 p spans metrics = (match minRat ((max2 p spans metrics).map (area2 spans)) with
      | some mn => (max2 p spans metrics).filter fun c => decide (area2 spans c < (1 + p.tol) * (1 + p.tol) * mn)
      | none => []) := rfl

theorem absR_nonneg (q : Rat) : 0 ≤ absR q := by unfold absR; split <;> linarith

/-- **the chosen triple**: its three plane angles are at least the angle tolerance; no admissible triple has a larger metric sum; its
volume is within (1 + cell_size_tol) of the volume of every triple with that metric sum; and no triple passing these three tests is more
orthogonal (cell_size_tol ≥ 0, as in every configuration of the class) -/
theorem choice3_spec (p : Params) (htol : 0 ≤ p.tol) (spans : List V3) (metrics : List Nat) (c : Nat × Nat × Nat)
    (h : choice3 p spans metrics = some c) :
    c ∈ combos3 spans.length ∧ angleOk3 p (vAt spans c.1) (vAt spans c.2.1) (vAt spans c.2.2) = true ∧
    (∀ c' ∈ adm3 p spans, msum3 metrics c' ≤ msum3 metrics c) ∧
    (∀ c' ∈ max3 p spans metrics, vol3 spans c ≤ (1 + p.tol) * vol3 spans c') ∧
    (∀ c' ∈ small3 p spans metrics, orth3 spans c ≤ orth3 spans c') := by
  unfold choice3 at h
  have hmem := argminF_mem _ _ _ h
  have hmin := argminF_min _ _ _ h
  rw [small3_eq] at hmem
  cases hmn : minRat ((max3 p spans metrics).map (vol3 spans)) with
  | none => rw [hmn] at hmem; cases hmem
  | some mn =>
    rw [hmn] at hmem
    simp only at hmem
    obtain ⟨hs2, hvol⟩ := List.mem_filter.mp hmem
    have hs2' := hs2
    rw [max3_eq] at hs2'
    obtain ⟨hadm, hms⟩ := List.mem_filter.mp hs2'
    have hadm' := hadm
    unfold adm3 at hadm'
    obtain ⟨hc3, hang⟩ := List.mem_filter.mp hadm'
    refine ⟨hc3, hang, ?_, ?_, hmin⟩
    · intro c' hc'
      have := le_maxNat _ _ (List.mem_map_of_mem (f := msum3 metrics) hc')
      have e : msum3 metrics c = maxNat ((adm3 p spans).map (msum3 metrics)) := by simpa using hms
      rw [e]; exact this
    · intro c' hc'
      have hmnmin := argminF_min id _ mn hmn (vol3 spans c') (List.mem_map_of_mem (f := vol3 spans) hc')
      simp only [id] at hmnmin
      have hv : vol3 spans c ≤ (1 + p.tol) * mn := by simpa using hvol
      exact le_trans hv (mul_le_mul_of_nonneg_left hmnmin (by linarith))

/-- **the chosen pair** (when no triple is admissible): the sine of its angle is at least that of the angle tolerance; no admissible pair
has a larger metric sum; its area is within (1 + cell_size_tol) of that of every pair with that metric sum; and no pair passing these
tests is closer to a right angle -/
theorem choice2_spec (p : Params) (htol : 0 ≤ p.tol) (spans : List V3) (metrics : List Nat) (c : Nat × Nat)
    (h : choice2 p spans metrics = some c) :
    c ∈ combos2 spans.length ∧ sin2Of spans c ≥ p.sin2 ∧
    (∀ c' ∈ adm2 p spans, msum2 metrics c' ≤ msum2 metrics c) ∧
    (∀ c' ∈ max2 p spans metrics, area2 spans c ≤ (1 + p.tol) * (1 + p.tol) * area2 spans c') ∧
    (∀ c' ∈ small2 p spans metrics, sin2Of spans c' ≤ sin2Of spans c) := by
  unfold choice2 argmaxF at h
  have hmem := argminF_mem _ _ _ h
  have hmin := argminF_min _ _ _ h
  rw [small2_eq] at hmem
  cases hmn : minRat ((max2 p spans metrics).map (area2 spans)) with
  | none => rw [hmn] at hmem; cases hmem
  | some mn =>
    rw [hmn] at hmem
    simp only at hmem
    obtain ⟨hs2, harea⟩ := List.mem_filter.mp hmem
    have hs2' := hs2
    rw [max2_eq] at hs2'
    obtain ⟨hadm, hms⟩ := List.mem_filter.mp hs2'
    have hadm' := hadm
    unfold adm2 at hadm'
    obtain ⟨hc2, hang⟩ := List.mem_filter.mp hadm'
    have hang' : sin2Of spans c ≥ p.sin2 := by
      simp only [Bool.and_eq_true, decide_eq_true_eq] at hang
      exact hang.2
    refine ⟨hc2, hang', ?_, ?_, ?_⟩
    · intro c' hc'
      have := le_maxNat _ _ (List.mem_map_of_mem (f := msum2 metrics) hc')
      have e : msum2 metrics c = maxNat ((adm2 p spans).map (msum2 metrics)) := by simpa using hms
      rw [e]; exact this
    · intro c' hc'
      have hmnmin := argminF_min id _ mn hmn (area2 spans c') (List.mem_map_of_mem (f := area2 spans) hc')
      simp only [id] at hmnmin
      have hv : area2 spans c < (1 + p.tol) * (1 + p.tol) * mn := by simpa using harea
      have hpos : 0 ≤ (1 + p.tol) * (1 + p.tol) := mul_nonneg (by linarith) (by linarith)
      exact le_of_lt (lt_of_lt_of_le hv (mul_le_mul_of_nonneg_left hmnmin hpos))
    · intro c' hc'
      have := hmin c' hc'
      linarith

theorem choice3_mem (p : Params) (spans : List V3) (metrics : List Nat) (c : Nat × Nat × Nat) (h : choice3 p spans metrics = some c) :
    c ∈ combos3 spans.length := by
  unfold choice3 at h
  have hm := argminF_mem _ _ _ h
  rw [small3_eq] at hm
  split at hm
  · have h1 := (List.mem_filter.mp hm).1
    rw [max3_eq] at h1
    exact (List.mem_filter.mp (List.mem_filter.mp h1).1).1
  · cases hm

theorem choice2_mem (p : Params) (spans : List V3) (metrics : List Nat) (c : Nat × Nat) (h : choice2 p spans metrics = some c) :
    c ∈ combos2 spans.length := by
  unfold choice2 argmaxF at h
  have hm := argminF_mem _ _ _ h
  rw [small2_eq] at hm
  split at hm
  · have h1 := (List.mem_filter.mp hm).1
    rw [max2_eq] at h1
    exact (List.mem_filter.mp (List.mem_filter.mp h1).1).1
  · cases hm

theorem mem_combos3 (n : Nat) (c : Nat × Nat × Nat) (h : c ∈ combos3 n) : c.1 < c.2.1 ∧ c.2.1 < c.2.2 ∧ c.2.2 < n := by
  unfold combos3 at h
  simp only [List.mem_flatMap, List.mem_filterMap, List.mem_range] at h
  obtain ⟨i, _, j, _, k, hk, hc⟩ := h
  split at hc
  · rename_i hlt
    simp only [Option.some.injEq] at hc
    rw [← hc]; exact ⟨hlt.1, hlt.2, hk⟩
  · cases hc

theorem mem_combos2 (n : Nat) (c : Nat × Nat) (h : c ∈ combos2 n) : c.1 < c.2 ∧ c.2 < n := by
  unfold combos2 at h
  simp only [List.mem_flatMap, List.mem_filterMap, List.mem_range] at h
  obtain ⟨i, _, j, hj, hc⟩ := h
  split at hc
  · rename_i hlt
    simp only [Option.some.injEq] at hc
    rw [← hc]; exact ⟨hlt, hj⟩
  · cases hc

/-- the returned indices are distinct positions of the span list, in increasing order -/
theorem basis_indices_in_range (p : Params) (spans : List V3) (metrics : List Nat) (hne : spans ≠ []) :
    (∀ i ∈ bestBasis p spans metrics, i < spans.length) ∧ (bestBasis p spans metrics).Pairwise (· < ·) := by
  have hpos : 0 < spans.length := List.length_pos_iff.mpr hne
  have h2d : (∀ i ∈ best2d p spans metrics, i < spans.length) ∧ (best2d p spans metrics).Pairwise (· < ·) := by
    unfold best2d
    cases hc : choice2 p spans metrics with
    | some c =>
      simp only
      have hmem : c ∈ combos2 spans.length := choice2_mem p spans metrics c hc
      obtain ⟨h1, h2⟩ := mem_combos2 _ _ hmem
      refine ⟨?_, by simp [h1]⟩
      intro i hi
      simp only [List.mem_cons, List.not_mem_nil, or_false] at hi
      rcases hi with rfl | rfl <;> omega
    | none =>
      simp only
      cases ha : argminF (fun i => V3.norm2 (spans.getD i (0, 0, 0))) (List.range spans.length) with
      | some i =>
        simp only
        have := argminF_mem _ _ _ ha
        refine ⟨?_, by simp⟩
        intro j hj
        simp only [List.mem_singleton] at hj
        rw [hj]; exact List.mem_range.mp this
      | none => simp
  unfold bestBasis
  split
  · rename_i h1
    have : spans.length = 1 := by simpa using h1
    refine ⟨?_, by simp⟩
    intro i hi; simp only [List.mem_singleton] at hi; omega
  · split
    · exact h2d
    · cases hc : choice3 p spans metrics with
      | some c =>
        simp only
        have hmem : c ∈ combos3 spans.length := choice3_mem p spans metrics c hc
        obtain ⟨h1, h2, h3⟩ := mem_combos3 _ _ hmem
        refine ⟨?_, by simp [h1, h2]; omega⟩
        intro i hi
        simp only [List.mem_cons, List.not_mem_nil, or_false] at hi
        rcases hi with rfl | rfl | rfl <;> omega
      | none => simp only; exact h2d

/-- one, two or three spans are returned (never none, never more) -/
theorem basis_size (p : Params) (spans : List V3) (metrics : List Nat) (hne : spans ≠ []) :
    (bestBasis p spans metrics).length = 1 ∨ (bestBasis p spans metrics).length = 2 ∨ (bestBasis p spans metrics).length = 3 := by
  have hpos : 0 < spans.length := List.length_pos_iff.mpr hne
  have h2d : (best2d p spans metrics).length = 1 ∨ (best2d p spans metrics).length = 2 := by
    unfold best2d
    cases choice2 p spans metrics with
    | some c => right; rfl
    | none =>
      simp only
      cases ha : argminF (fun i => V3.norm2 (spans.getD i (0, 0, 0))) (List.range spans.length) with
      | some i => left; rfl
      | none =>
        have := argminF_none _ _ ha
        have : spans.length = 0 := by simpa using this
        omega
  unfold bestBasis
  split
  · left; rfl
  · split
    · rcases h2d with h | h
      · left; exact h
      · right; left; exact h
    · cases choice3 p spans metrics with
      | some c => right; right; rfl
      | none =>
        simp only
        rcases h2d with h | h
        · left; exact h
        · right; left; exact h

/-- a cubic neighbourhood: the three shortest orthogonal spans win over the diagonals -/
example : bestBasis { sin2 := 3 / 100, tol := 1 / 10 } [(2, 0, 0), (0, 2, 0), (2, 2, 0), (0, 0, 2), (2, 0, 2)] [8, 8, 8, 8, 8] = [0, 1, 3] := by
  decide +kernel

end Matid.Props.BestBasis
