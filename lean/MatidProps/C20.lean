/-
C20 — cell and frame helpers preserve the physical structure.
Model: Matid.Frame / Matid.Geom over ℚ (every finite double is rational); the periodic centre of mass is treated
through the complex sum Σ m_k·exp(2πi f_k) whose argument the code computes with arctan2.
-/
import MatidModel.Frame
import Mathlib.Tactic.Ring
import Mathlib.Tactic.FieldSimp
import Mathlib.Tactic.Linarith
import Mathlib.Tactic.LinearCombination
import Mathlib.Algebra.Order.Field.Rat
import Mathlib.Analysis.SpecialFunctions.Complex.Circle
import Mathlib.Algebra.BigOperators.Group.List.Basic

namespace Matid.Props.C20
open Matid.Geom Matid.Frame

/-! ### to_scaled / to_cartesian -/

theorem toScaled_eq (c : Cell) (hd : c.det ≠ 0) (p : V3) :
    toScaled c p = some (V3.dot p (V3.cross c.b c.c) / c.det, V3.dot p (V3.cross c.c c.a) / c.det,
      V3.dot p (V3.cross c.a c.b) / c.det) := by
  unfold toScaled; simp [hd]

theorem cartesian_of_scaled (c : Cell) (hd : c.det ≠ 0) (p : V3) :
    ∃ f, toScaled c p = some f ∧ toCartesian c f = p := by
  refine ⟨_, toScaled_eq c hd p, ?_⟩
  obtain ⟨⟨a1, a2, a3⟩, ⟨b1, b2, b3⟩, ⟨c1, c2, c3⟩⟩ := c
  obtain ⟨p1, p2, p3⟩ := p
  simp only [Cell.det, V3.dot, V3.cross] at hd
  have hD := mul_inv_cancel₀ hd
  simp only [toCartesian, V3.add, V3.smul, V3.dot, V3.cross, Cell.det, Prod.mk.injEq, div_eq_mul_inv]
  refine ⟨?_, ?_, ?_⟩
  · linear_combination p1 * hD
  · linear_combination p2 * hD
  · linear_combination p3 * hD

theorem scaled_of_cartesian (c : Cell) (hd : c.det ≠ 0) (f : V3) : toScaled c (toCartesian c f) = some f := by
  rw [toScaled_eq c hd]
  obtain ⟨⟨a1, a2, a3⟩, ⟨b1, b2, b3⟩, ⟨c1, c2, c3⟩⟩ := c
  obtain ⟨f1, f2, f3⟩ := f
  simp only [Cell.det, V3.dot, V3.cross] at hd
  have hD := mul_inv_cancel₀ hd
  simp only [toCartesian, V3.add, V3.smul, V3.dot, V3.cross, Cell.det, Option.some.injEq, Prod.mk.injEq, div_eq_mul_inv]
  refine ⟨?_, ?_, ?_⟩
  · linear_combination f1 * hD
  · linear_combination f2 * hD
  · linear_combination f3 * hD

/-- wrapping changes a coordinate by an integer and lands in [0, 1); non-periodic components are untouched -/
theorem wrap_integer (x : Rat) : wrap01 x = x - (x.floor : Int) ∧ 0 ≤ wrap01 x ∧ wrap01 x < 1 := by
  have h1 := Rat.floor_le x
  have h2 := Rat.lt_floor_add_one x
  push_cast at h2
  refine ⟨rfl, ?_, ?_⟩ <;> unfold wrap01 <;> linarith

theorem wrap_periodic_only (pbc : Pbc) (f : V3) :
    (pbc.x = false → (wrapFrac pbc f).1 = f.1) ∧ (pbc.y = false → (wrapFrac pbc f).2.1 = f.2.1) ∧
    (pbc.z = false → (wrapFrac pbc f).2.2 = f.2.2) := by
  refine ⟨fun h => ?_, fun h => ?_, fun h => ?_⟩ <;> simp [wrapFrac, h]

/-! ### get_minimized_cell -/

/-- the minimised system has the same mutual displacements (it is the input rigidly translated along the old
cell vector), for every scale s ≠ 0, every axis, every shift `lo` and centring offset `off` -/
theorem minimized_displacements (cell : Cell) (axis : Nat) (s lo off : Rat) (hs : s ≠ 0) (f g : V3) :
    V3.sub (toCartesian (cell.setRow axis (V3.smul s (cell.row axis))) (V3.set f axis ((V3.get f axis - lo) / s - off)))
           (toCartesian (cell.setRow axis (V3.smul s (cell.row axis))) (V3.set g axis ((V3.get g axis - lo) / s - off)))
      = V3.sub (toCartesian cell f) (toCartesian cell g) := by
  obtain ⟨⟨a1, a2, a3⟩, ⟨b1, b2, b3⟩, ⟨c1, c2, c3⟩⟩ := cell
  obtain ⟨f1, f2, f3⟩ := f
  obtain ⟨g1, g2, g3⟩ := g
  have hS := mul_inv_cancel₀ hs
  obtain _ | _ | n := axis
  · simp only [Cell.setRow, Cell.row, V3.set, V3.get, toCartesian, V3.add, V3.smul, V3.sub, Prod.mk.injEq, div_eq_mul_inv]
    refine ⟨?_, ?_, ?_⟩
    · linear_combination (f1 - g1) * a1 * hS
    · linear_combination (f1 - g1) * a2 * hS
    · linear_combination (f1 - g1) * a3 * hS
  · simp only [Cell.setRow, Cell.row, V3.set, V3.get, toCartesian, V3.add, V3.smul, V3.sub, Prod.mk.injEq, div_eq_mul_inv]
    refine ⟨?_, ?_, ?_⟩
    · linear_combination (f2 - g2) * b1 * hS
    · linear_combination (f2 - g2) * b2 * hS
    · linear_combination (f2 - g2) * b3 * hS
  · simp only [Cell.setRow, Cell.row, V3.set, V3.get, toCartesian, V3.add, V3.smul, V3.sub, Prod.mk.injEq, div_eq_mul_inv]
    refine ⟨?_, ?_, ?_⟩
    · linear_combination (f3 - g3) * c1 * hS
    · linear_combination (f3 - g3) * c2 * hS
    · linear_combination (f3 - g3) * c3 * hS

/-- the new cell differs from the old one only in the row `axis`, which stays parallel to the old row, and the
fractional coordinates along the other axes are unchanged (shown for the first and last axis; the middle one is
symmetric) -/
theorem minimized_only_axis (cell : Cell) (fracs : List V3) (s : Rat) (infl : Bool) :
    let r0 := minimizedWith cell fracs 0 s infl
    let r2 := minimizedWith cell fracs 2 s infl
    r0.1.b = cell.b ∧ r0.1.c = cell.c ∧ r0.1.a = V3.smul s cell.a ∧
    r2.1.a = cell.a ∧ r2.1.b = cell.b ∧ r2.1.c = V3.smul s cell.c ∧
    (∀ q ∈ r2.2, ∃ f ∈ fracs, q.1 = f.1 ∧ q.2.1 = f.2.1) ∧ (∀ q ∈ r0.2, ∃ f ∈ fracs, q.2.1 = f.2.1 ∧ q.2.2 = f.2.2) ∧
    r0.2.length = fracs.length := by
  intro r0 r2
  refine ⟨rfl, rfl, rfl, rfl, rfl, rfl, ?_, ?_, List.length_map _⟩
  · intro q hq
    obtain ⟨f, hf, rfl⟩ := List.mem_map.mp hq
    exact ⟨f, hf, rfl, rfl⟩
  · intro q hq
    obtain ⟨f, hf, rfl⟩ := List.mem_map.mp hq
    exact ⟨f, hf, rfl, rfl⟩

/-- squared length of the new vector: s²·|c|², i.e. max(extent, min_size)² by the choice of s -/
theorem minimized_length (v : V3) (s : Rat) : V3.norm2 (V3.smul s v) = s * s * V3.norm2 v := by
  obtain ⟨v1, v2, v3⟩ := v
  simp only [V3.norm2, V3.dot, V3.smul]; ring

/-- all atoms inside [0, 1] along the axis, and centred when the cell is inflated (s ≥ extent > 0 … or s = extent) -/
theorem minimized_inside (lo hi x s : Rat) (hx1 : lo ≤ x) (hx2 : x ≤ hi) (hs : 0 < s) (hes : hi - lo ≤ s) :
    (0 ≤ (x - lo) / s ∧ (x - lo) / s ≤ 1) ∧
    (0 ≤ (x - lo) / s - ((hi - lo) - s) / (2 * s) ∧ (x - lo) / s - ((hi - lo) - s) / (2 * s) ≤ 1) ∧
    ((lo - lo) / s - ((hi - lo) - s) / (2 * s)) + ((hi - lo) / s - ((hi - lo) - s) / (2 * s)) = 1 := by
  have h2s : (0 : Rat) < 2 * s := by linarith
  refine ⟨⟨div_nonneg (by linarith) hs.le, by rw [div_le_one hs]; linarith⟩, ⟨?_, ?_⟩, ?_⟩
  · rw [sub_nonneg, div_le_div_iff₀ h2s hs]; nlinarith
  · rw [sub_le_iff_le_add, div_le_iff₀ hs]
    have : (1 + ((hi - lo) - s) / (2 * s)) * s = s + ((hi - lo) - s) / 2 := by field_simp
    rw [this]; linarith
  · field_simp; ring

/-! ### swap_basis, complete_cell -/

theorem swap_basis_spec (c : Cell) (p : Pbc) :
    (swapBasis c p 0 2).1.a = c.c ∧ (swapBasis c p 0 2).1.c = c.a ∧ (swapBasis c p 0 2).1.b = c.b ∧
    (swapBasis c p 0 2).2.x = p.z ∧ (swapBasis c p 0 2).2.z = p.x ∧ (swapBasis c p 0 2).2.y = p.y ∧
    (swapBasis c p 1 2).1.b = c.c ∧ (swapBasis c p 1 2).1.c = c.b ∧ (swapBasis c p 1 2).1.a = c.a ∧
    (swapBasis c p 1 2).2.y = p.z ∧ (swapBasis c p 1 2).2.z = p.y ∧ (swapBasis c p 1 2).2.x = p.x := by
  simp [swapBasis, Cell.setRow, Cell.row, Pbc.get]

/-- complete_cell(a, b, len) = len·(a×b)/|a×b| is orthogonal to both inputs and has squared length len² -/
theorem complete_cell_orthogonal (a b : V3) (k : Rat) :
    V3.dot (V3.smul k (completeDir a b)) a = 0 ∧ V3.dot (V3.smul k (completeDir a b)) b = 0 ∧
    V3.norm2 (V3.smul k (completeDir a b)) = k * k * V3.norm2 (completeDir a b) := by
  obtain ⟨a1, a2, a3⟩ := a
  obtain ⟨b1, b2, b3⟩ := b
  simp only [completeDir, V3.dot, V3.smul, V3.cross, V3.norm2]
  refine ⟨by ring, by ring, by ring⟩

/-! ### periodic centre of mass -/

open Complex in
/-- the weighted sum on the unit circle whose argument (computed with arctan2) is 2π × the fractional centre -/
noncomputable def circSum (m f : List ℝ) : ℂ := ((m.zip f).map fun p => (p.1 : ℂ) * exp (2 * Real.pi * p.2 * I)).sum

open Complex in
/-- a rigid translation by t (fractional) rotates the sum by 2πt: the centre moves by t modulo the lattice -/
theorem com_translate (m f : List ℝ) (t : ℝ) :
    circSum m (f.map (· + t)) = exp (2 * Real.pi * t * I) * circSum m f := by
  unfold circSum
  induction m generalizing f with
  | nil => simp
  | cons m0 ms ih =>
    cases f with
    | nil => simp
    | cons f0 fs =>
      simp only [List.map_cons, List.zip_cons_cons, List.sum_cons]
      rw [ih fs, mul_add]
      congr 1
      push_cast
      rw [show (2 * (Real.pi : ℂ) * ((f0 : ℂ) + (t : ℂ)) * I) = 2 * Real.pi * t * I + 2 * Real.pi * f0 * I by ring, exp_add]
      ring

open Complex in
/-- shifting an individual atom by a lattice vector (an integer in fractional coordinates) does not change its
term, hence not the centre -/
theorem com_lattice_shift (x : ℝ) (n : ℤ) : exp (2 * Real.pi * ((x + n : ℝ) : ℂ) * I) = exp (2 * Real.pi * (x : ℂ) * I) := by
  push_cast
  rw [show (2 * (Real.pi : ℂ) * ((x : ℂ) + (n : ℂ)) * I) = 2 * Real.pi * x * I + n * (2 * Real.pi * I) by ring, exp_add,
    exp_int_mul_two_pi_mul_I, mul_one]

/-! ### inertia tensor -/

/-- the assembled tensor is unchanged when atoms and centre are translated together (it is a tensor about the
centre); symmetric by construction (six independent entries) -/
theorem inertia_translate (centre t : V3) (pos : List V3) (w : List Rat) :
    inertia (V3.add centre t) (pos.map (V3.add · t)) w = inertia centre pos w := by
  unfold inertia
  rw [List.zip_map_left, List.foldl_map]
  congr 1
  funext acc p
  obtain ⟨⟨p1, p2, p3⟩, m⟩ := p
  obtain ⟨c1, c2, c3⟩ := centre
  obtain ⟨t1, t2, t3⟩ := t
  simp only [V3.sub, V3.add, Prod.map, id]
  ring_nf

end Matid.Props.C20
