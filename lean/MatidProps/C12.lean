/-
C12 — original, primitive and conventional descriptions are mutually consistent.
`MatidGen.Centring` is translated on every run from the AST of `_get_primitive_system`
(the five centring matrices and whether `transform.T` or `transform` multiplies the cell).
-/
import MatidGen.AllGroups
import MatidGen.Centring
import MatidProofs.PrimitiveCount
import Mathlib.Tactic.FieldSimp

namespace Matid.Props.C12
open Matid.Table Matid.Chirality Matid.Primitive MatidGen

/-- for every space group: the centring matrix selected by the first letter of the short symbol is a basis of
the lattice ℤ³ + (centring translations of that group's table): its inverse is integral, its determinant is
1/m with m = 1, 2, 3, 4 for P, A/C/I, R, F = number of centring vectors + 1, its vectors are centring vectors,
and every centring vector is an integer combination of them.  Hence the cell it produces is primitive and has
1/m of the conventional volume. -/
theorem centring_matrices_ok :
    allGroups.all (groupCentringOk Centring.letters Centring.usesTranspose) = true := by decide +kernel

def det3 (r : V3 × V3 × V3) : Rat :=
  r.1.1 * (r.2.1.2.1 * r.2.2.2.2 - r.2.1.2.2 * r.2.2.2.1) - r.1.2.1 * (r.2.1.1 * r.2.2.2.2 - r.2.1.2.2 * r.2.2.1)
    + r.1.2.2 * (r.2.1.1 * r.2.2.2.1 - r.2.1.2.1 * r.2.2.1)

/-- volume of the primitive cell = det(transform) · volume of the conventional cell, for every cell -/
theorem volume_ratio (six : Mat3) (t : Bool) (a b c : V3) :
    det3 (primCell six t a b c) = (six.det : Rat) / 216 * det3 (a, b, c) := by
  cases t <;> simp only [primCell, det3, Mat3.det, Mat3.transpose, if_true, if_false, Bool.false_eq_true] <;>
    push_cast <;> ring

/-- (letter, element) classes: if every primitive label occurs exactly m times among the conventional atoms
and atoms with equal label share their class, every class occurs m times as often in the conventional list as
in the list selected by `np.unique(mapping, return_index=True)` -/
theorem class_counts_ratio {α} [DecidableEq α] (m : Nat) (l : List (Nat × α))
    (hconst : ∀ p ∈ l, ∀ q ∈ l, p.1 = q.1 → p.2 = q.2)
    (hm : ∀ p ∈ l, (l.filter (fun q => q.1 == p.1)).length = m) (c : α) :
    (l.map (·.2)).count c = m * ((npUniqueFirst l).map (·.2)).count c :=
  count_ratio_npUnique m l hconst hm c

/-- atom counts: |conventional| = m · |primitive| -/
theorem atom_count_ratio (m : Nat) (l : List (Nat × Unit))
    (hm : ∀ p ∈ l, (l.filter (fun q => q.1 == p.1)).length = m) : l.length = m * (npUniqueFirst l).length :=
  length_ratio m l hm

/-- one label per atom: fancy indexing returns exactly one entry per index -/
theorem labels_one_per_atom {α} (d : α) (labels : List α) (idx : List Nat) : (takeIdx d labels idx).length = idx.length := by
  simp [takeIdx]

/-! non-vacuity -/
example : Centring.letters.length = 5 ∧ Centring.usesTranspose = true := by decide
example : (npUniqueFirst [(2, 'a'), (0, 'b'), (2, 'a'), (0, 'b')]).map (·.2) = ['b', 'a'] := by
  simp [npUniqueFirst, firstOcc_cons, firstOcc_nil, List.mergeSort]

end Matid.Props.C12
