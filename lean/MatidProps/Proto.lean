/-
What `_find_proto_cell` can return (model MatidModel/ProtoDecision.lean) — the clause of C01 "each cluster exposes a prototype
cell that is periodic in two or three directions" and the clause of C04 "periodic in three directions for bulk crystals and slabs
and in exactly two for monolayers", for EVERY outcome of the geometric sub-computations.
-/
import MatidModel.ProtoDecision
import MatidGen.ProtoRule

namespace Matid.Props.Proto
open Matid.Proto

/-- **an accepted prototype cell is periodic in exactly two or three directions**, three exactly when three spans were kept and
the candidate cell is a three-dimensionally bonded network, two exactly when the (possibly reduced) candidate is a
two-dimensionally bonded network that is not too thick; never when atoms overlap -/
theorem accepted_periodicity (i : Inputs) (a : Accepted) (h : protoDecide i = some a) :
    (a.nSpans = 3 ∧ a.nPbc = 3 ∧ i.dim = 3 ∧ i.d3 = .dim 3 ∨
     a.nSpans = 2 ∧ a.nPbc = 2 ∧ (i.d2 = .dim 2 ∨ i.d2 = .none ∧ i.d2retry = .dim 2) ∧ i.tooThick = false ∧
       (i.dim = 2 ∨ i.dim = 3 ∧ i.d3 = .dim 2)) ∧
    i.overlap = false ∧ i.seedInGraph = true ∧ i.cellFound = true ∧ i.totalValid ≠ 0 := by
  unfold protoDecide at h
  split at h; · cases h
  split at h; · cases h
  split at h; · cases h
  split at h; · cases h
  rename_i h0 h1 hs hc
  have hs' : i.seedInGraph = true := by simpa using hs
  have hc' : i.cellFound = true := by simpa using hc
  have h0' : i.totalValid ≠ 0 := by simpa using h0
  have two : ∀ a, accept2D i = some a → a.nSpans = 2 ∧ a.nPbc = 2 ∧ (i.d2 = .dim 2 ∨ i.d2 = .none ∧ i.d2retry = .dim 2) ∧
      i.tooThick = false ∧ i.overlap = false := by
    intro a ha
    unfold accept2D at ha
    split at ha; · cases ha
    split at ha; · cases ha
    split at ha; · cases ha
    split at ha; · cases ha
    rename_i _ hok ht ho
    cases ha
    refine ⟨rfl, rfl, ?_, by simpa using ht, by simpa using ho⟩
    have hok' : is2D i = true := by simpa using hok
    unfold is2D at hok'
    cases hd : i.d2 with
    | error => simp [hd] at hok'
    | dim d => left; simp [hd] at hok'; rw [hok']
    | none =>
      right
      refine ⟨rfl, ?_⟩
      cases hr : i.d2retry with
      | error => simp [hd, hr] at hok'
      | none => simp [hd, hr] at hok'
      | dim d => simp [hd, hr] at hok'; rw [hok']
  split at h
  · rename_i hd3
    have hd3' : i.dim = 3 := by simpa using hd3
    split at h
    · cases h
    · rename_i heq
      split at h
      · cases h
      · cases h
        rename_i ho
        exact ⟨Or.inl ⟨rfl, rfl, hd3', heq⟩, by simpa using ho, hs', hc', h0'⟩
    · rename_i heq
      obtain ⟨x1, x2, x3, x4, x5⟩ := two a h
      exact ⟨Or.inr ⟨x1, x2, x3, x4, Or.inr ⟨hd3', heq⟩⟩, x5, hs', hc', h0'⟩
    · cases h
  · split at h
    · rename_i hd2
      obtain ⟨x1, x2, x3, x4, x5⟩ := two a h
      exact ⟨Or.inr ⟨x1, x2, x3, x4, Or.inl (by simpa using hd2)⟩, x5, hs', hc', h0'⟩
    · cases h

/-- the span filter as translated from the source: thresholds 0.4 of the largest metric, 0.75 of the neighbour count -/
theorem span_rule_ok : MatidGen.ProtoRule.spanRule = { relMax := (2, 5), relNeigh := (3, 4) } := by decide

/-- the filter never rejects the span with the largest metric, so at least one span is valid whenever there is a span -/
theorem best_span_valid (r : SpanRule) (hr : r.relMax.1 ≤ r.relMax.2) (m n : Nat) : validSpan r m m n = true := by
  unfold validSpan
  have : m * r.relMax.2 ≥ r.relMax.1 * m := by
    rw [Nat.mul_comm r.relMax.1 m]; exact Nat.mul_le_mul_left m hr
  simp [this]

/-- a span that explains fewer than three quarters of the neighbourhood and less than 40 % of the best span is rejected
(the partial translations that make a sheet look three-dimensional) -/
example : validSpan { relMax := (2, 5), relNeigh := (3, 4) } 25 74 37 = false ∧
          validSpan { relMax := (2, 5), relNeigh := (13, 20) } 25 74 37 = true := by decide

/-! non-vacuity -/
example : protoDecide { totalValid := 3, dim := 3, seedInGraph := true, cellFound := true, d3 := .dim 3, nPerSpans := 0, nPerSelected := 0, tooLong := false, d2 := .error, d2retry := .error, tooThick := false, overlap := false } = some ⟨3, 3, 0⟩ := by decide
example : protoDecide { totalValid := 3, dim := 3, seedInGraph := true, cellFound := true, d3 := .dim 2, nPerSpans := 2, nPerSelected := 2, tooLong := false, d2 := .none, d2retry := .dim 2, tooThick := false, overlap := false } = some ⟨2, 2, 2⟩ := by decide

end Matid.Props.Proto
