/-
C19 — radii presets and custom radii are honoured uniformly.

`MatidGen.Radii` is regenerated on every run from the AST of
`matid.geometry.get_radii` and from the two ASE tables the function uses, so the
theorems below are statements about what the source says *now*.
-/
import MatidModel.Radii
import MatidGen.Radii
import MatidGen.DimRule

namespace Matid.Props.C19
open Matid.Radii MatidGen.Radii

/-! ### general facts about the model (all tables, all indices) -/

/-- IEEE: comparing anything with NaN by `!=` is true — the reason a `!= np.nan`
test can never select the fallback branch. -/
theorem ne_nanLit_always (t : Tables) (a : Src) (i : Nat) :
    Test.eval t i (.ne a .nanLit) = true := by
  simp only [Test.eval]
  cases t.get a i <;> rfl

/-- a conditional that tests with `isnan` implements the documented fallback, for
every table and every index (the shape the repaired source has) -/
theorem isnan_cond_is_spec (t : Tables) (z : Nat) :
    Cond.eval t { test := .not (.isnan .vdw), thn := .vdw, els := .cov } z = specVdwCovalent t z := by
  unfold Cond.eval specVdwCovalent
  simp only [Test.eval]
  by_cases h : (t.get .vdw z).isNan = true <;> simp [h]

/-- the documented fallback yields a finite positive radius whenever one of the two tables has one -/
theorem spec_finitePos (t : Tables) (z : Nat)
    (h : (t.get .vdw z).finitePos = true ∨ ((t.get .vdw z).isNan = true ∧ (t.get .cov z).finitePos = true)) :
    (specVdwCovalent t z).finitePos = true := by
  unfold specVdwCovalent
  rcases h with h | ⟨h1, h2⟩
  · cases hv : t.get .vdw z with
    | nan => rw [hv] at h; simp [R.finitePos] at h
    | val q => simpa [R.isNan, hv] using h
  · simp [h1, h2]

/-- a custom per-atom array is used unchanged -/
theorem custom_unchanged (arr : List R) : resolveCustom arr = arr := rfl

/-- passing the numbers a preset resolves to as a custom array gives the consumer the
very same array, for every preset, table and list of atomic numbers -/
theorem consumer_equal (t : Tables) (p : Preset) (zs : List Nat) :
    resolveCustom (resolveAll t p zs) = resolveAll t p zs := rfl

/-! ### the presets as the source defines them now (generated) -/

theorem preset_covalent_spec :
    ∀ z, z < 119 → preset_covalent.resolve tables z = tables.get .cov z := by
  decide +kernel

theorem preset_vdw_spec :
    ∀ z, z < 104 → preset_vdw.resolve tables z = tables.get .vdw z := by
  decide +kernel

/-- 'vdw_covalent' = van der Waals radius where defined, covalent radius otherwise; Z = 1..103 -/
theorem preset_vdw_covalent_spec :
    ∀ z, z < 104 → 1 ≤ z → preset_vdw_covalent.resolve tables z = specVdwCovalent tables z := by
  decide +kernel

/-- every element with either radius gets a finite positive value -/
theorem preset_vdw_covalent_finite_positive :
    ∀ z, z < 104 → 1 ≤ z →
      ((tables.get .vdw z).finitePos || (tables.get .cov z).finitePos) = true →
      (preset_vdw_covalent.resolve tables z).finitePos = true := by
  decide +kernel

/-- every Z = 1..103 has a positive covalent radius in the table, so the premise above is never vacuous -/
theorem cov_defined : ∀ z, z < 104 → 1 ≤ z → (tables.get .cov z).finitePos = true := by
  decide +kernel

/-- the comprehension runs over the whole vdW table -/
theorem preset_vdw_covalent_len_ok : preset_vdw_covalent_len = vdwTable.length := by
  decide +kernel

/-! ### non-vacuity: the fallback branch is really exercised -/
example : (tables.get .vdw 61).isNan = true ∧ (tables.get .cov 61).finitePos = true := by decide +kernel
example : (tables.get .vdw 6).isNan = false := by decide +kernel

/-- the three consumers (get_dimensionality, get_distances, SBC.get_clusters) resolve their `radii` argument once and
unconditionally through get_radii, and get_radii hands a custom array back unchanged (both translated from the AST) — the
syntactic basis on which `consumer_equal` applies to them -/
theorem consumers_resolve_via_get_radii :
    MatidGen.DimRule.consumersResolveViaGetRadii = true ∧ MatidGen.DimRule.customReturnedUnchanged = true := by decide

end Matid.Props.C19
