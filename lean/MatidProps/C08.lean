/-
C08 — reported free Wyckoff parameters regenerate the atoms of their set.
`MatidGen.WyckoffRule` (reading rule, first tolerance) is translated from the AST of `_get_wyckoff_sets`;
the tables are `MatidGen.allGroups`.
-/
import MatidModel.WyckoffParams
import MatidGen.AllGroups
import MatidGen.WyckoffRule
import MatidProofs.TableSound
import MatidProofs.ParamsComplete

namespace Matid.Props.C08
open Matid.Table Matid.WyckoffParams MatidGen

/-- every one of the 1 731 tabulated positions is solvable by the reading rule the source uses now: for each
free variable the component that is read carries coefficient 1 of it and no other variable -/
theorem repSolvable_all :
    allGroups.all (fun G => G.letters.all fun L =>
      match L.numeric.map decode with
      | e0 :: _ => repSolvable WyckoffRule.rule e0 L.vars
      | [] => false) = true := by decide +kernel

/-- soundness of what is returned: accepted parameters reproduce (first tolerance) the atom they were read from
and every position e_k(W) + t_c is matched by an atom of the set within `precision` — for any table, atoms, cell
and tolerance -/
theorem params_sound (rule : ReadRule) (tol : Rat) (exprs cents : List Aff) (mask : Nat) (cell : V3 × V3 × V3)
    (atoms : List V3) (prec : Rat) (W : V3) (h : solveParams rule tol exprs cents mask cell atoms prec = some W) :
    ∃ e0, exprs.head? = some e0 ∧ ∃ R ∈ atoms, W = solveW rule e0 mask R ∧
      findNear cell [R] (e0.act W) tol = true ∧
      ∀ tp ∈ testPositions exprs cents W, findNear cell atoms tp prec = true := by
  unfold solveParams at h
  obtain ⟨R, hR, hacc⟩ := List.exists_of_findSome?_eq_some h
  cases exprs with
  | nil => simp [accepts] at hacc
  | cons e0 rest =>
    simp only [accepts] at hacc
    split at hacc
    · cases hacc
    · rename_i h1
      split at hacc
      · rename_i h2
        cases hacc
        refine ⟨e0, rfl, R, hR, rfl, by simpa using h1, ?_⟩
        exact fun tp htp => List.all_eq_true.mp h2 tp htp
      · cases hacc

/-- the representative expression evaluated at the reported parameters is within the first tolerance of an
atom of the set (the clause of the property, in the code's own metric) -/
theorem representative_hits_an_atom (rule : ReadRule) (tol : Rat) (exprs cents : List Aff) (mask : Nat)
    (cell : V3 × V3 × V3) (atoms : List V3) (prec : Rat) (W : V3)
    (h : solveParams rule tol exprs cents mask cell atoms prec = some W) :
    ∃ e0, exprs.head? = some e0 ∧ ∃ R ∈ atoms, dist2 cell R (e0.act W) ≤ tol ^ 2 := by
  obtain ⟨e0, he0, R, hR, _, hnear, _⟩ := params_sound rule tol exprs cents mask cell atoms prec W h
  refine ⟨e0, he0, R, hR, ?_⟩
  simpa [findNear] using hnear

/-- shifting the parameters by integers moves every position by a lattice vector (integer matrices) -/
theorem act_add_int (e : Aff) (w : V3) (k1 k2 k3 : Int) :
    ∃ j1 j2 j3 : Int, e.act (w.1 + k1, w.2.1 + k2, w.2.2 + k3) = ((e.act w).1 + j1, (e.act w).2.1 + j2, (e.act w).2.2 + j3) := by
  refine ⟨e.a11 * k1 + e.a12 * k2 + e.a13 * k3, e.a21 * k1 + e.a22 * k2 + e.a23 * k3, e.a31 * k1 + e.a32 * k2 + e.a33 * k3, ?_⟩
  simp only [Aff.act, Prod.mk.injEq]
  push_cast
  refine ⟨?_, ?_, ?_⟩ <;> ring

/-- reported values lie in [0, 1) -/
theorem wrapParam_range (q : Rat) : 0 ≤ wrapParam q ∧ wrapParam q < 1 := by
  have h0 : 0 ≤ wrap01 q := by
    unfold wrap01
    have := Rat.floor_le q
    linarith
  have h1 : wrap01 q < 1 := by
    unfold wrap01
    have := Rat.lt_floor_add_one q
    push_cast at this
    linarith
  unfold wrapParam
  simp only
  split
  · exact ⟨le_refl _, by norm_num⟩
  · split
    · exact ⟨le_refl _, by norm_num⟩
    · exact ⟨h0, h1⟩

/-- the free-parameter flag is true exactly when some occupied letter has a non-empty variable set -/
theorem flag_iff (occupied : List Nat) (table : List (Nat × Nat)) :
    hasFreeParams occupied table = true ↔
      ∃ code ∈ occupied, ∃ p, table.find? (fun p => p.1 == code) = some p ∧ p.2 ≠ 0 := by
  simp only [hasFreeParams, List.any_eq_true]
  constructor
  · rintro ⟨code, hc, h⟩
    refine ⟨code, hc, ?_⟩
    cases hf : table.find? (fun p => p.1 == code) with
    | none => rw [hf] at h; cases h
    | some p => rw [hf] at h; exact ⟨p, rfl, by simpa using h⟩
  · rintro ⟨code, hc, p, hf, hp⟩
    exact ⟨code, hc, by rw [hf]; simpa using hp⟩

/-- **completeness** ("asking for the Wyckoff sets with parameters succeeds"): if the representative of the position is solvable
by the reading rule (true for all 1 731 tabulated positions: `repSolvable_all`) and the atoms of the set occupy, modulo lattice
translations, every position e_k(w) + t_c for some parameter values w (zero on the variables that are not free), the solver
returns parameters — for every cell, every order of the atoms, every tolerance; by `params_sound` they regenerate the set -/
theorem params_complete (rule : ReadRule) (firstTol prec : Rat) (e0 : Aff) (rest cents : List Aff) (mask : Nat)
    (cell : V3 × V3 × V3) (atoms : List V3) (hsolv : repSolvable rule e0 mask = true)
    (w : V3) (hw : zeroOnFixed mask w)
    (horbit : ∀ tp ∈ testPositions (e0 :: rest) cents w, ∃ a ∈ atoms, IntClose a tp) :
    ∃ W, solveParams rule firstTol (e0 :: rest) cents mask cell atoms prec = some W :=
  Matid.WyckoffParams.params_complete rule firstTol prec e0 rest cents mask cell atoms hsolv w hw horbit

/-! non-vacuity: 98 e ("-x, x, 0") is solvable by the `found` rule and not by the `sameIndex` rule -/
example : (match SG.g098.letters.getD 4 SG.g098_l0 |>.numeric.map decode with
    | e0 :: _ => (repSolvable .found e0 1, repSolvable .sameIndex e0 1)
    | [] => (false, false)) = (true, false) := by decide +kernel

end Matid.Props.C08
