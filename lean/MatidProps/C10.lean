/-
C10 — the displacement tensor is a sound and, within range, exact minimum-image table.
Model: Matid.Geom (MatidModel/Geom.lean) — exact arithmetic on the rational inputs.
-/
import MatidProofs.GeomAssemble

namespace Matid.Props.C10
open Matid.Geom

/-- copies per axis = ceil(extension / height): the least natural number n with n² ≥ ext²/h² -/
theorem ceilSqrt_spec (q : Rat) (hq : 0 ≤ q) :
    q ≤ ((ceilSqrt q : Nat) : Rat) ^ 2 ∧ ∀ n : Nat, q ≤ (n : Rat) ^ 2 → ceilSqrt q ≤ n :=
  Matid.Geom.ceilSqrt_spec q hq

theorem copies_bound (x : Rat) (n : Int) (m : Nat) (q : Rat) (hx : |x| < 1) (hm : q ≤ (m : Rat) ^ 2)
    (hq : (x - n) ^ 2 ≤ q) : |n| ≤ (m : Int) :=
  Matid.Geom.copies_bound x n m q hx hm hq

/-- **no image within the extension is missed**: for any non-singular cell (rows a, b, c in any order), any
query point and atom inside the cell (fractional offset < 1 along the axis) and any lattice offset
(n₁, n₂, n₃): if the image lies within the extension of the query, |n₁| ≤ the number of copies the C++ takes.
With `extend_contains` (all multipliers up to the copy counts are generated) the extended system contains every
image within the extension of every point of the cell. -/
theorem extend_complete_axis (a b c : V3) (hdet : V3.dot a (V3.cross b c) ≠ 0) (s t : V3) (n1 n2 n3 : Int)
    (ext2 : Rat) (hs : |s.1 - t.1| < 1)
    (hv : V3.norm2 (V3.add (V3.add (V3.smul (s.1 - t.1 - n1) a) (V3.smul (s.2.1 - t.2.1 - n2) b))
            (V3.smul (s.2.2 - t.2.2 - n3) c)) ≤ ext2) :
    |n1| ≤ (copiesFrom ext2 (height2 a (V3.cross b c)) : Int) :=
  Matid.Geom.extend_complete_axis a b c hdet s t n1 n2 n3 ext2 hs hv

/-- the 27-bin search inspects every bin that can hold a point within the cutoff (one axis) … -/
theorem bin_neighbour (lo d c x p : Rat) (n : Nat) (hd : 0 < d) (hcd : c ≤ d) (hp : lo ≤ p)
    (hbin : truncInt ((p - lo) / d) ≤ (n : Int) - 1) (hxp : |x - p| ≤ c) :
    max (truncInt ((x - lo) / d) - 1) 0 ≤ truncInt ((p - lo) / d) ∧
    truncInt ((p - lo) / d) ≤ min (truncInt ((x - lo) / d) + 1) ((n : Int) - 1) :=
  Matid.Geom.bin_neighbour lo d c x p n hd hcd hp hbin hxp

/-- … hence a query returns exactly the stored points with d² ≤ cutoff² -/
theorem query_exact (atoms : List ExtAtom) (c : Rat) (hc : 0 < c) (q : V3) :
    (mkCellList atoms (some c)).query q = (mkCellList atoms (some c)).querySpec q :=
  query_complete atoms c hc q

/-- every finite entry is a genuine periodic image: it comes from a stored point of the extended system, with
that point's own original index and integer cell offset, displacement = r_i − (r_j + f·cell) and distance² = |displacement|²,
never beyond the cutoff -/
theorem pairEntry_sound (cl : CellList) (pi : V3) (j : Nat) (e : PairEntry) (h : pairEntry cl pi j = some e) :
    e.factors ≠ [] ∧ ∀ f ∈ e.factors, ∃ nb ∈ cl.query pi, nb.index = j ∧ nb.dist2 = e.dist2 ∧ nb.factor = f ∧
      ∃ a, cl.atoms[nb.ext]? = some a ∧ a.index = j ∧ a.factor = f ∧ nb.disp = V3.sub pi a.pos ∧
        e.dist2 = V3.norm2 (V3.sub pi a.pos) ∧ (∀ c, cl.cutoff = some c → e.dist2 ≤ c * c) := by
  obtain ⟨_, h2, h3⟩ := pairEntry_spec cl pi j e h
  refine ⟨h3, fun f hf => ?_⟩
  obtain ⟨nb, hnb, hj, hd, hfac⟩ := h2 f hf
  obtain ⟨a, ha, hi, hfa, hdisp, hd2, hcut⟩ := query_sound cl pi nb hnb
  exact ⟨nb, hnb, hj, hd, hfac, a, ha, by rw [← hi, hj], by rw [← hfa, hfac], hdisp, by rw [← hd, hd2],
    fun c hc => by rw [← hd]; exact hcut c hc⟩

/-- the entry is the minimum over all images of j the search returns; with `query_exact` and
`extend_complete_axis` these are all images within the cutoff, so within range the entry is the true minimum image -/
theorem pairEntry_is_min (cl : CellList) (pi : V3) (j : Nat) (e : PairEntry) (h : pairEntry cl pi j = some e) :
    ∀ nb ∈ cl.query pi, nb.index = j → e.dist2 ≤ nb.dist2 :=
  (pairEntry_spec cl pi j e h).1

/-- an entry stays +∞ exactly when no stored image of j is within the cutoff of atom i -/
theorem pairEntry_none_iff (cl : CellList) (pi : V3) (j : Nat) :
    pairEntry cl pi j = none ↔ ∀ nb ∈ cl.query pi, nb.index ≠ j := by
  unfold pairEntry
  simp only
  cases hc : (cl.query pi).filter (fun nb => nb.index == j) with
  | nil =>
    simp only [true_iff]
    intro nb hnb hj
    have : nb ∈ (cl.query pi).filter (fun nb => nb.index == j) := List.mem_filter.mpr ⟨hnb, by simpa using hj⟩
    rw [hc] at this; cases this
  | cons c0 rest =>
    simp only [false_iff, reduceCtorEq]
    intro hall
    have : c0 ∈ (cl.query pi).filter (fun nb => nb.index == j) := by rw [hc]; exact List.mem_cons_self
    obtain ⟨h1, h2⟩ := List.mem_filter.mp this
    exact hall c0 h1 (by simpa using h2)


/-! ### the assembled statement (exact arithmetic): entry = true minimum image -/

/-- **finite cutoff.**  For every non-singular cell, every pbc combination, every list of atoms, every cutoff c > 0,
every atom j and every query atom whose fractional coordinates along the periodic axes lie in [0,1):
a finite entry is the squared length of a genuine image of j at an integer offset that vanishes on the non-periodic
axes (for each reported factor), it is ≤ c², and it is ≤ the squared distance to EVERY such image — i.e. it is the
true minimum-image distance; and the entry is +∞ exactly when every image is beyond the cutoff. -/
theorem tensor_entry_exact_finite (positions : List V3) (cell : Cell) (pbc : Pbc) (c : Rat) (hc : 0 < c)
    (hdet : cell.det ≠ 0) (cl : CellList) (hcl : tensorCellList positions cell pbc (some c) = .ok cl)
    (j : Nat) (s t : V3) (hj : positions[j]? = some (toCartesian cell t))
    (hs : insideCell pbc s) (ht : insideCell pbc t) :
    (∀ e, pairEntry cl (toCartesian cell s) j = some e →
        e.factors ≠ [] ∧
        (∀ f ∈ e.factors, admissible pbc f ∧ e.dist2 = imageDist2 cell (toCartesian cell s) (toCartesian cell t) f) ∧
        e.dist2 ≤ c * c ∧
        ∀ n, admissible pbc n → e.dist2 ≤ imageDist2 cell (toCartesian cell s) (toCartesian cell t) n) ∧
    (pairEntry cl (toCartesian cell s) j = none ↔
        ∀ n, admissible pbc n → c * c < imageDist2 cell (toCartesian cell s) (toCartesian cell t) n) :=
  Matid.Geom.tensor_entry_exact_finite positions cell pbc c hc hdet cl hcl j s t hj hs ht

/-- **unbounded cutoff** (extension = longest periodic cell vector L): no entry is +∞, every entry is a genuine
image, and whenever some image of j lies within L the entry is the true minimum over all images. -/
theorem tensor_entry_exact_infinite (positions : List V3) (cell : Cell) (pbc : Pbc)
    (hdet : cell.det ≠ 0) (cl : CellList) (hcl : tensorCellList positions cell pbc none = .ok cl)
    (j : Nat) (s t : V3) (hj : positions[j]? = some (toCartesian cell t))
    (hs : insideCell pbc s) (ht : insideCell pbc t) :
    ∃ e, pairEntry cl (toCartesian cell s) j = some e ∧
      e.factors ≠ [] ∧
      (∀ f ∈ e.factors, admissible pbc f ∧ e.dist2 = imageDist2 cell (toCartesian cell s) (toCartesian cell t) f) ∧
      ((∃ n, admissible pbc n ∧ imageDist2 cell (toCartesian cell s) (toCartesian cell t) n ≤ maxPeriodicLen2 cell pbc) →
        ∀ m, admissible pbc m → e.dist2 ≤ imageDist2 cell (toCartesian cell s) (toCartesian cell t) m) :=
  Matid.Geom.tensor_entry_exact_infinite positions cell pbc hdet cl hcl j s t hj hs ht

/-- the hypotheses are satisfiable and the conclusion is not trivial: a sheared cell, pbc (T,T,F), two atoms whose
nearest image is across the cell boundary (offset (−1,0,0)) -/
def exCell : Cell := { a := (2, 0, 0), b := (1, 3, 0), c := (0, 0, 5) }
def exPbc : Pbc := { x := true, y := true, z := false }
def exPos : List V3 := [toCartesian exCell (1/8, 1/4, 1/2), toCartesian exCell (7/8, 1/4, 1/2)]
example : exCell.det ≠ 0 ∧ insideCell exPbc (1/8, 1/4, 1/2) ∧ insideCell exPbc (7/8, 1/4, 1/2) := by
  refine ⟨by decide +kernel, ?_, ?_⟩ <;> (unfold insideCell exPbc; norm_num)
example : (match tensorCellList exPos exCell exPbc (some 1) with
    | .ok cl => (pairEntry cl (toCartesian exCell (1/8, 1/4, 1/2)) 1).map (fun e => (e.dist2, e.factors))
    | .error _ => none) = some (1/4, [(-1, 0, 0)]) := by decide +kernel

/-! non-vacuity -/
example : ceilSqrt (9 / 4) = 2 ∧ ceilSqrt 4 = 2 ∧ ceilSqrt 0 = 0 := by decide +kernel
example : multiples 2 = [0, 1, 2, -2, -1] := by decide

end Matid.Props.C10
