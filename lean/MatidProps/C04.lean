/-
C04 — a cluster's prototype cell identifies the material it was cut from.
What Lean carries here is only the last step: if the prototype cell and the source crystal's own cell are analysed
to the same space-group number and the same multiset of (element, letter, count) strings, their material ids are
equal (C06.id_string_canonical: the id is a function of exactly that data).  That the finder's prototype cell IS a
description of the source crystal (contract P) is sampled on the crystal families.
-/
import MatidProps.C06

namespace Matid.Props.C04
open Matid.Props.C06

theorem same_id_of_same_analysis (number : Nat) (setsProto setsSource : List String) (twoD : Bool)
    (h : setsProto.Perm setsSource) : idString number setsProto twoD = idString number setsSource twoD :=
  id_string_canonical number setsProto setsSource twoD h

end Matid.Props.C04
