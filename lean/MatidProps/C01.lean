/-
C01 — SBC always returns a well-formed, disjoint, connected set of clusters.
The theorems hold for EVERY output of the periodic finder, every "near" relation (merge radius) and every partition
into bonded components (DBSCAN contract D1); no bound on the number of atoms, clusters or iterations.
-/
import MatidProofs.SBCPipeline
import MatidGen.SbcRule

namespace Matid.Props.C01
open Matid.SBC

/-- after `_localize_clusters` every atom belongs to at most one cluster -/
theorem localize_disjoint (near : Nat → Nat → Bool) (n : Nat) (cs : List (List Nat)) (j : Nat) (hj : j < n) :
    memCount (localize near n cs) j ≤ 1 :=
  Matid.SBC.localize_disjoint near n cs j hj

/-- … and localisation never adds an atom to a cluster (for every atom, the number of clusters holding it does not
increase), so all earlier invariants (in range, species) survive it -/
theorem localize_only_removes (near : Nat → Nat → Bool) (n : Nat) (cs : List (List Nat)) (j : Nat) :
    memCount (localize near n cs) j ≤ memCount cs j :=
  localize_count_le near j n cs

/-- species consistency: if every atom of every input cluster carries a species of its cluster, the same holds for
every cluster after any number of merges -/
theorem merge_species_invariant (numbers : List Nat) (thr : Rat) (cl : List Clu) (h : ∀ c ∈ cl, Consistent numbers c) :
    ∀ c ∈ mergeClusters numbers thr cl, Consistent numbers c :=
  mergeLoop_preserves numbers thr (Consistent numbers) (mergeTwo_consistent numbers) _ [] cl (by simp) h

/-- the merge loop terminates: it never runs out of the fuel `#clusters + 1` it is given -/
theorem merge_terminates (numbers : List Nat) (thr : Rat) (cl : List Clu) :
    mergeLoop numbers thr (cl.length + 2) [] cl = mergeClusters numbers thr cl := by
  unfold mergeClusters
  apply mergeLoop_fuel
  have : unmerged cl ≤ cl.length := List.countP_le_length
  omega

/-- merging creates no atoms: every index of an output cluster was in some input cluster -/
theorem merge_keeps_atoms_in_range (numbers : List Nat) (thr : Rat) (cl : List Clu) (n : Nat)
    (h : ∀ c ∈ cl, ∀ x ∈ c.idx, x < n) : ∀ c ∈ mergeClusters numbers thr cl, ∀ x ∈ c.idx, x < n :=
  mergeLoop_preserves numbers thr (fun c => ∀ x ∈ c.idx, x < n)
    (fun a b ha hb x hx => by rcases mergeTwo_idx_subset numbers a b x hx with h1 | h1; exact ha x h1; exact hb x h1)
    _ [] cl (by simp) h

/-- cleaning returns a largest class of the partition into bonded components: non-empty, one of the components,
at least as large as every other; an empty cluster has no admissible result and is dropped -/
theorem clean_is_largest_component (components : List (List Nat)) :
    ∀ a ∈ cleanOne components, a ∈ components ∧ a ≠ [] ∧ ∀ c ∈ components, c.length ≤ a.length :=
  cleanOne_spec components

/-- the driver loop makes progress: whenever the finder's mask contains the seed it was started from, or a region
is found (the new cluster always contains the seed), the set of unassigned atoms shrinks — so the loop ends after at
most N iterations -/
theorem driver_terminates (numbers : List Nat) (remaining : List Nat) (f : FinderOut)
    (hseed : f.seed ∈ remaining) (hprog : f.seed ∈ f.mask ∨ f.basis.isSome = true) :
    (driverStep numbers remaining f).1.length < remaining.length :=
  driverStep_decreases numbers remaining f hseed hprog

/-- a new cluster consists of the seed and the region's basis atoms, contains the seed (non-empty), is species
consistent and not flagged as merged -/
theorem driver_indices_in_range (numbers : List Nat) (remaining : List Nat) (f : FinderOut) (c : Clu)
    (h : (driverStep numbers remaining f).2 = some c) :
    (∀ x ∈ c.idx, x = f.seed ∨ ∃ b, f.basis = some b ∧ x ∈ b) ∧ f.seed ∈ c.idx ∧ Consistent numbers c ∧ c.merged = false :=
  driverStep_cluster numbers remaining f c h


/-! ### the whole pipeline, in the order the source applies it -/

/-- the order of the three post-processing stages in `get_clusters` (translated from the AST on every run) is
merge → localize → clean, each stage consumes the previous result and the last result is returned -/
theorem pipeline_order_ok :
    MatidGen.SbcRule.pipelineOrder.mapM Stage.ofString? = some [.merge, .localize, .clean] ∧
    MatidGen.SbcRule.returnsClusters = true := by decide

/-- the entry of `get_clusters` as translated: a cell vector is tested by its row, a zero vector raises ValueError along a
periodic direction and is completed along a non-periodic one, the box is enlarged when an atom lies outside [0,1] along a
non-periodic axis, and the loop removes the tested atoms and the new cluster's atoms from the search -/
theorem entry_rules_ok :
    MatidGen.SbcRule.zeroTestIsRow = true ∧ MatidGen.SbcRule.zeroPbcRaises = true ∧ MatidGen.SbcRule.scaleCond = true ∧
    MatidGen.SbcRule.repairGuardNotAll = true ∧ MatidGen.SbcRule.loopRemovesTested = true := by decide

/-- no state survives a call: class SBC has no constructor, the only attribute it assigns is the random generator (seeded
at entry of every call), and `PeriodicFinder.get_region` assigns its attributes unconditionally at the start of each call —
the syntactic basis of "a deterministic function of (structure, parameters, seed)" -/
theorem sbc_keeps_no_state :
    MatidGen.SbcRule.sbcHasInit = false ∧ MatidGen.SbcRule.sbcSelfFields = ["rng"] ∧ MatidGen.SbcRule.finderCondAssign = [] := by
  decide

/-- **well-formed output of the whole pipeline** merge → localize → clean, for every cluster list the search loop can produce,
every threshold, every "near" relation, every partition into bonded components (contract `EnvOk`): index lists non-empty,
in range, every atom in at most one cluster, species-consistent, each cluster a largest bonded component of the index set
it was cut from. -/
theorem pipeline_wellformed (e : Env) (he : EnvOk e) (cs0 : List Clu)
    (h0 : ∀ c ∈ cs0, Consistent e.numbers c ∧ ∀ x ∈ c.idx, x < e.numbers.length) :
    let out := pipeline e [.merge, .localize, .clean] cs0
    (∀ c ∈ out, c.idx ≠ []) ∧
    (∀ c ∈ out, ∀ x ∈ c.idx, x < e.numbers.length) ∧
    (∀ j, memCount (out.map (·.idx)) j ≤ 1) ∧
    (∀ c ∈ out, Consistent e.numbers c) ∧
    (∀ c ∈ out, ∃ S, c.idx ∈ e.comps S ∧ ∀ c' ∈ e.comps S, c'.length ≤ c.idx.length) :=
  Matid.SBC.pipeline_wellformed e he cs0 h0

/-- the order matters: with cleaning BEFORE localisation a returned cluster can be disconnected.  Chain 0–1–2 plus atom 3;
regions {0,1,2} and {1,3}; atom 1 is nearer to the second region, so localisation takes the bridge out of the first. -/
def exEnv : Env :=
  { numbers := [6, 6, 6, 6], thr := 1, near := fun _ j => j == 3,
    comps := fun S => if S == [0, 2] then [[0], [2]] else if S.isEmpty then [] else [S],
    pick := fun l => (cleanOne l).head? }
def exClusters : List Clu :=
  [{ idx := [0, 1, 2], species := [6], rsize := 3, rid := 1, merged := false },
   { idx := [1, 3], species := [6], rsize := 2, rid := 2, merged := false }]
example : (pipeline exEnv [.merge, .clean, .localize] exClusters).map (·.idx) = [[0, 2], [1, 3]] ∧
    exEnv.comps [0, 2] = [[0], [2]] := by decide +kernel
example : (pipeline exEnv [.merge, .localize, .clean] exClusters).map (·.idx) = [[0], [1, 3]] := by decide +kernel

/-! non-vacuity -/
example : localize (fun _ _ => true) 4 [[0, 1, 2], [1, 2, 3]] = [[0, 1, 2], [3]] := by decide
example : cleanOne [[0, 1], [2, 3], [4]] = [[0, 1], [2, 3]] ∧ cleanOne [] = [] := by decide

end Matid.Props.C01
