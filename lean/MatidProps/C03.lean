/-
C03 — SBC separates a two-material stack into exactly the two slabs.
CONDITIONAL theorem: under contract F for two components A and B (the finder started in A returns exactly A, started
in B exactly B), the two clusters do not overlap, so — in either discovery order, for any non-negative merge
threshold and any merge radius — they are not merged, localisation changes nothing and cleaning keeps each
connected slab whole.  Contract F is sampled.
-/
import MatidProofs.SBCFamily

namespace Matid.Props.C03
open Matid.SBC

theorem sbc_two_slabs (numbers : List Nat) (thr : Rat) (hthr : 0 ≤ thr) (near : Nat → Nat → Bool) (a b : Clu)
    (ha : a.merged = false) (hb : b.merged = false) (hdisj : inter a.idx b.idx = [])
    (hdisj' : ∀ j, ¬(j ∈ a.idx ∧ j ∈ b.idx)) :
    mergeClusters numbers thr [a, b] = [a, b] ∧
    (∀ n, localize near n [a.idx, b.idx] = [a.idx, b.idx]) ∧
    (a.idx ≠ [] → cleanOne [a.idx] = [a.idx]) ∧ (b.idx ≠ [] → cleanOne [b.idx] = [b.idx]) := by
  refine ⟨merge_two_disjoint numbers thr hthr a b ha hb hdisj, ?_, clean_connected a.idx, clean_connected b.idx⟩
  apply localize_id_of_disjoint
  intro j
  have := hdisj' j
  simp only [memCount, List.countP_cons, List.countP_nil, List.contains_eq_mem, decide_eq_true_eq]
  by_cases h1 : j ∈ a.idx <;> by_cases h2 : j ∈ b.idx
  · exact absurd ⟨h1, h2⟩ this
  · simp [h1, h2]
  · simp [h1, h2]
  · simp [h1, h2]

end Matid.Props.C03
