/- Entry fix-up of get_clusters (C01 "returns normally … for every structure with a valid cell", C02 "independent of rigid translation"). -/
import MatidModel.SbcEntry
import Mathlib.Tactic.Linarith
import Mathlib.Tactic.FieldSimp
import Mathlib.Tactic.Ring
import Mathlib.Tactic.NormNum
import Mathlib.Algebra.Order.Field.Rat

namespace Matid.Props.SbcEntry
open Matid.SbcEntry

/-- **after the entry fix-up every atom lies inside the cell along a non-periodic axis** — wherever the atoms were (any extent,
any rigid translation): for min ≤ f ≤ max the new coordinate is in [0, 1].  `hany`: the flag is set whenever this axis needs it. -/
theorem fixup_inside (anyScaled : Bool) (minPos maxPos f : Rat) (h1 : minPos ≤ f) (h2 : f ≤ maxPos)
    (hany : outside minPos maxPos = true → anyScaled = true) :
    0 ≤ newFrac outside anyScaled minPos maxPos f ∧ newFrac outside anyScaled minPos maxPos f ≤ 1 := by
  unfold newFrac scaleOf
  have hw : 0 ≤ maxPos - minPos := by linarith
  cases hA : anyScaled with
  | true =>
    simp only [if_true]
    by_cases hc : outside minPos maxPos = true
    · rw [if_pos hc]
      have hs : 0 < maxPos - minPos + 1 := by linarith
      constructor
      · have : -(1 / 2 : Rat) ≤ (f - (minPos + maxPos) / 2) / (maxPos - minPos + 1) := by
          rw [le_div_iff₀ hs]; nlinarith
        linarith
      · have : (f - (minPos + maxPos) / 2) / (maxPos - minPos + 1) ≤ 1 / 2 := by
          rw [div_le_iff₀ hs]; nlinarith
        linarith
    · rw [if_neg hc]
      simp only [outside, Bool.or_eq_true, decide_eq_true_eq, not_or, not_lt] at hc
      constructor <;> linarith [hc.1, hc.2]
  | false =>
    simp only [Bool.false_eq_true, if_false]
    have hc : ¬ outside minPos maxPos = true := fun h => by rw [hany h] at hA; cases hA
    simp only [outside, Bool.or_eq_true, decide_eq_true_eq, not_or, not_lt] at hc
    exact ⟨le_trans hc.2 h1, le_trans h2 hc.1⟩

/-- the scale factor is at least 1 (the cell is never shrunk) … -/
theorem scale_ge_one (cond : Rat → Rat → Bool) (minPos maxPos : Rat) (h : minPos ≤ maxPos) : 1 ≤ scaleOf cond minPos maxPos := by
  unfold scaleOf; split <;> linarith

/-- … and mutual displacements along the axis are exactly divided by it (a rigid move plus a change of the cell, nothing else) -/
theorem displacement_scaled (cond : Rat → Rat → Bool) (anyScaled : Bool) (minPos maxPos f g : Rat) (h : minPos ≤ maxPos) :
    (newFrac cond anyScaled minPos maxPos f - newFrac cond anyScaled minPos maxPos g) * scaleOf cond minPos maxPos = (f - g) *
      (if anyScaled then 1 else scaleOf cond minPos maxPos) := by
  have hs : scaleOf cond minPos maxPos ≠ 0 := by have := scale_ge_one cond minPos maxPos h; linarith
  unfold newFrac
  cases anyScaled with
  | true => simp only [if_true]; field_simp; ring
  | false => simp

/-- the condition matters: enlarging the box only when the atoms do not FIT (`max − min > 1`) leaves a slab that was translated
out of its box outside the cell -/
example : newFrac (fun lo hi => decide (hi - lo > 1)) false (3 / 2) 2 (3 / 2) = 3 / 2 ∧
    newFrac outside true (3 / 2) 2 (3 / 2) = 1 / 3 := by
  constructor <;> norm_num [newFrac, outside, scaleOf]

end Matid.Props.SbcEntry
