/-
Shared by C05, C06, C07, C08, C12, C14, C15 (every property observed through a `SymmetryAnalyzer`):
what the getters of an analyzer return belongs to the structure given by the LATEST `set_system`, for every history of
`set_system` / getter calls on one analyzer object — re-using an analyzer is equivalent to creating a fresh one.
The rule (which attributes the getters memoise, which `reset()` clears, whether `set_system` starts with an unconditional
`reset()`) is re-extracted from the class on every run (MatidGen/AnalyzerRule.lean).
-/
import MatidProofs.AnalyzerProofs
import MatidGen.AnalyzerRule

namespace Matid.Props.Analyzer
open Matid.Analyzer

def generatedRule : Rule :=
  { cached := MatidGen.AnalyzerRule.cachedFields, reset := MatidGen.AnalyzerRule.resetFields,
    system := MatidGen.AnalyzerRule.systemFields, resetFirst := MatidGen.AnalyzerRule.resetFirst }

/-- the class as it is now: set_system starts with an unconditional reset(), and every attribute any getter memoises is
cleared by reset() (or re-assigned by set_system itself) -/
theorem rule_ok : generatedRule.ok = true := by decide +kernel

/-- the constructor goes through set_system -/
theorem init_sets_system : MatidGen.AnalyzerRule.initSetsSystem = true := by decide

/-- every public getter only memoises attributes that are in the extracted list -/
theorem getters_touch_cached_only :
    MatidGen.AnalyzerRule.getterFields.all (fun g => g.2.all (fun f => generatedRule.cached.contains f)) = true := by
  decide +kernel

/-- **all histories**: for any sequence of `set_system` calls and getter calls (each getter assembling its answer from any
of the memoised attributes), the answer of every getter call belongs to the structure set by the latest `set_system`
before it. -/
theorem getters_fresh (v0 : Nat) (ops : List Op) (hops : ∀ op ∈ ops, opOk generatedRule op)
    (pre : List Op) (fs : List String) (post : List Op) (hsplit : ops = pre ++ .get fs :: post) :
    ∀ o ∈ ((run generatedRule (init v0) ops).2.getD pre.length []), o.2 = sysAfter v0 pre :=
  run_outputs_current generatedRule rule_ok (init v0) ops hops (init_fresh _ v0) pre fs post hsplit

/-- non-vacuity: a concrete history (analyse structure 1, read, switch to structure 2, read again) -/
example : (run generatedRule (init 1) [.get ["_symmetry_dataset"], .setSystem 2, .get ["_symmetry_dataset", "_conventional_system"]]).2
    = [[("_symmetry_dataset", 1)], [], [("_symmetry_dataset", 2), ("_conventional_system", 2)]] := by decide +kernel

/-- the hypothesis is needed: an attribute memoised by a getter but not cleared by reset() is served stale -/
example : (run { cached := ["_is_chiral"], reset := [], system := [], resetFirst := true } (init 1)
    [.get ["_is_chiral"], .setSystem 2, .get ["_is_chiral"]]).2 = [[("_is_chiral", 1)], [], [("_is_chiral", 1)]] := by decide +kernel

/-- … and so is the unconditional reset -/
example : (run { cached := ["_symmetry_dataset"], reset := ["_symmetry_dataset"], system := [], resetFirst := false } (init 1)
    [.get ["_symmetry_dataset"], .setSystem 2, .get ["_symmetry_dataset"]]).2
    = [[("_symmetry_dataset", 1)], [], [("_symmetry_dataset", 1)]] := by decide +kernel

end Matid.Props.Analyzer
