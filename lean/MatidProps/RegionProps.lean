/-
The region tracking of `PeriodicFinder` (model MatidModel/Region.lean) — what C02/C03 (the atoms of a cluster are the basis atoms of a
tracked region), C17/C18 (coverage, connected directions, outliers) and C01 (well-formed results, the search ends) rely on, for EVERY
sequence of answers of `get_matches` / `get_matches_simple`, every structure size, every prototype cell.
The structural facts used as hypotheses are those of `MatidGen.RegionRule.rule`, translated from the AST on every run (`rule_ok`).
-/
import MatidProofs.RegionProofs
import MatidGen.RegionRule

namespace Matid.Props.Region
open Matid.Geom Matid.Region

/-- the facts the theorems below need: cells already searched and seed atoms already extended from are skipped and recorded -/
def Rule.ok (r : Rule) : Bool := r.checksSearched && r.checksUsedPoints && r.seedGuardNotNone && r.icmSetWhenAbsent

theorem Rule.ok_iff (r : Rule) : Rule.ok r = true ↔
    r.checksSearched = true ∧ r.checksUsedPoints = true ∧ r.seedGuardNotNone = true ∧ r.icmSetWhenAbsent = true := by
  unfold Rule.ok; simp [and_assoc]

/-- the translated rule has them, and the search directions are the 26 (3D) / 8 (2D, in-plane) neighbours, each once -/
theorem rule_ok : Rule.ok MatidGen.RegionRule.rule = true ∧
    MatidGen.RegionRule.rule.mult3.length = 26 ∧ MatidGen.RegionRule.rule.mult2.length = 8 ∧
    MatidGen.RegionRule.rule.mult3.Nodup ∧ MatidGen.RegionRule.rule.mult2.Nodup ∧
    (∀ m ∈ MatidGen.RegionRule.rule.mult3, m ≠ (0, 0, 0) ∧ m.1 ∈ [0, 1, -1] ∧ m.2.1 ∈ [0, 1, -1] ∧ m.2.2 ∈ [0, 1, -1]) ∧
    (∀ m ∈ MatidGen.RegionRule.rule.mult2, m ≠ (0, 0, 0) ∧ m.1 ∈ [0, 1, -1] ∧ m.2.1 ∈ [0, 1, -1] ∧ m.2.2 = 0) := by
  decide +kernel

/-- **every unit cell index is handled once**: the units of the collection have pairwise different cell indices (so
`LinkedUnitCollection.__setitem__` never refuses a unit), whatever the oracle answers -/
theorem cells_processed_once (r : Rule) (hr : Rule.ok r = true) (is2d : Bool) (pos : List V3) (tol2 : Rat) (seed : Nat) (seedPos : V3)
    (basis : Cell) (fuel : Nat) (os : List (RecO × SeedO)) :
    ((findRegion r is2d pos tol2 seed seedPos basis fuel os).units.map (·.index)).Nodup := by
  have hr' : r.checksSearched = true := ((Rule.ok_iff r).mp hr).1
  exact (drain_inv1 r hr' _ pos tol2 fuel _ os ⟨by simp, by simp⟩).1

/-- **every seed atom extends the search once** -/
theorem seeds_extend_once (r : Rule) (hr : Rule.ok r = true) (is2d : Bool) (pos : List V3) (tol2 : Rat) (seed : Nat) (seedPos : V3)
    (basis : Cell) (fuel : Nat) (os : List (RecO × SeedO)) :
    (findRegion r is2d pos tol2 seed seedPos basis fuel os).usedPoints.Nodup := by
  have hr' : r.checksUsedPoints = true := ((Rule.ok_iff r).mp hr).2.1
  exact drain_usedPoints r hr' _ pos tol2 fuel _ os (by simp)

/-- **the search ends**: for a structure of `n` atoms (seed and oracle answers are atom indices below `n`) the queue is empty after
at most `1 + (number of directions)·(n + 1)` handled items — 27 + 26 n in three dimensions, 9 + 8 n in two — for every sequence of
oracle answers, every cell, every tolerance -/
theorem terminates (r : Rule) (hr : Rule.ok r = true) (is2d : Bool) (pos : List V3) (tol2 : Rat) (seed : Nat) (seedPos : V3)
    (basis : Cell) (os : List (RecO × SeedO)) (n : Nat) (hseed : seed < n) (hos : OracleOk n os) (fuel : Nat)
    (hfuel : 1 + (multsFor r is2d).length * (n + 1) ≤ fuel) :
    (findRegion r is2d pos tol2 seed seedPos basis fuel os).queue = [] := by
  have hr' : r.checksUsedPoints = true := ((Rule.ok_iff r).mp hr).2.1
  unfold findRegion
  apply drain_terminates r hr' _ pos tol2 n fuel _ os
  · intro it hit
    simp only [List.mem_singleton] at hit
    rw [hit, mem_allSeeds]
    intro k hk
    cases hk
    exact hseed
  · exact hos
  · rw [potential_init]; exact hfuel

/-- **the atom → cell map sends every basis atom to a unit that holds it** (the map is what the search graph and the classifier's
connectivity test are built from) -/
theorem basis_atoms_have_a_processed_cell (r : Rule) (is2d : Bool) (pos : List V3) (tol2 : Rat) (seed : Nat) (seedPos : V3)
    (basis : Cell) (fuel : Nat) (os : List (RecO × SeedO)) (k : Nat)
    (hk : k ∈ basisIndices (findRegion r is2d pos tol2 seed seedPos basis fuel os).units) :
    ∃ c, icmGet (findRegion r is2d pos tol2 seed seedPos basis fuel os).icm k = some c ∧
      ∃ u ∈ (findRegion r is2d pos tol2 seed seedPos basis fuel os).units, u.index = c ∧ some k ∈ u.basis := by
  have h3 : Inv3 (findRegion r is2d pos tol2 seed seedPos basis fuel os) :=
    drain_inv3 r _ pos tol2 fuel _ os (by intro u hu; simp at hu)
  unfold basisIndices at hk
  rw [List.mem_eraseDups] at hk
  obtain ⟨u, hu, hku⟩ := List.mem_flatMap.mp hk
  have : some k ∈ u.basis := by
    obtain ⟨a, ha, e⟩ := List.mem_filterMap.mp hku
    simp only [id] at e
    rw [e] at ha; exact ha
  exact h3 u hu k this

/-- **an atom is reported as a substitution at most once, and never by a unit created after one that holds it** (as a matched basis
atom or as a substitution) -/
theorem substitution_reported_once (r : Rule) (is2d : Bool) (pos : List V3) (tol2 : Rat) (seed : Nat) (seedPos : V3)
    (basis : Cell) (fuel : Nat) (os : List (RecO × SeedO)) :
    (findRegion r is2d pos tol2 seed seedPos basis fuel os).units.Pairwise
      fun u u' => ∀ k, (some k ∈ u.basis ∨ some k ∈ u.substs) → some k ∉ u'.substs :=
  (drain_inv4 r _ pos tol2 fuel _ os ⟨by intro u hu; simp at hu, by simp [SubstOnce]⟩).2

/-- **every atom index is treated alike as a seed**: a seed atom that has not extended the search yet — atom 0 included — always
does (the guard is `seed_index is not None`, not the truth value of the index) -/
theorem every_seed_extends (r : Rule) (hr : Rule.ok r = true) (mults : List CI) (pos : List V3) (st : St) (k : Nat) (seedPos : V3)
    (basis : Cell) (ci : CI) (so : SeedO) (hk : some k ∉ st.usedPoints) :
    (findNewSeeds r mults pos st (some k) seedPos basis ci so).2.2.2 = true :=
  findNewSeeds_consults r ((Rule.ok_iff r).mp hr).2.2.1 mults pos st k seedPos basis ci so hk

/-- with the truth value as guard atom 0 would never extend the search -/
example : (findNewSeeds { MatidGen.RegionRule.rule with seedGuardNotNone := false } MatidGen.RegionRule.rule.mult2 [] {} (some 0) (0, 0, 0)
    { a := (1, 0, 0), b := (0, 1, 0), c := (0, 0, 1) } (0, 0, 0) { found := [], disps := [] }).2.2.2 = false := by decide +kernel

/-- **every atom that the search graph holds a target node for is known to the atom → cell map** (a later visit of the same atom
from another cell therefore leads to the same node: this is what `get_connected_directions` counts on) -/
theorem graph_targets_are_mapped (r : Rule) (hr : Rule.ok r = true) (is2d : Bool) (pos : List V3) (tol2 : Rat) (seed : Nat) (seedPos : V3)
    (basis : Cell) (fuel : Nat) (os : List (RecO × SeedO)) :
    ∀ k ∈ (findRegion r is2d pos tol2 seed seedPos basis fuel os).targets,
      ∃ c, icmGet (findRegion r is2d pos tol2 seed seedPos basis fuel os).icm k = some c :=
  drain_targets r ((Rule.ok_iff r).mp hr).2.2.2 _ pos tol2 fuel _ os (by intro k hk; simp at hk)

/-- `get_basis_indices`: exactly the atoms matched in some unit, each once -/
theorem basis_indices_spec (units : List LUnit) :
    (basisIndices units).Nodup ∧ ∀ k, k ∈ basisIndices units ↔ ∃ u ∈ units, some k ∈ u.basis := by
  unfold basisIndices
  refine ⟨nodup_eraseDups _, ?_⟩
  intro k
  rw [List.mem_eraseDups, List.mem_flatMap]
  constructor
  · rintro ⟨u, hu, hk⟩
    obtain ⟨a, ha, e⟩ := List.mem_filterMap.mp hk
    simp only [id] at e
    exact ⟨u, hu, e ▸ ha⟩
  · rintro ⟨u, hu, hk⟩
    exact ⟨u, hu, List.mem_filterMap.mpr ⟨some k, hk, rfl⟩⟩

/-- `get_connected_directions`: direction d counts as connected exactly when some node of the search graph is entered along +e_d
and along −e_d -/
theorem connected_direction_spec (edges : List (CI × CI × CI)) (d : Nat) (hd : d < 3) :
    (connectedDirections edges)[d]? = some true ↔
      ∃ node, (∃ src, (src, node, unitVec d) ∈ edges) ∧ (∃ src, (src, node, CI.neg (unitVec d)) ∈ edges) := by
  have key : ∀ d : Nat, (edges.any fun e => edges.any fun e' => e.2.1 == e'.2.1 && e.2.2 == unitVec d && e'.2.2 == CI.neg (unitVec d)) = true ↔
      ∃ node, (∃ src, (src, node, unitVec d) ∈ edges) ∧ (∃ src, (src, node, CI.neg (unitVec d)) ∈ edges) := by
    intro d
    simp only [List.any_eq_true, Bool.and_eq_true, beq_iff_eq]
    constructor
    · rintro ⟨⟨s, t, m⟩, he, ⟨s', t', m'⟩, he', ⟨h1, h2⟩, h3⟩
      simp only at h1 h2 h3
      subst h1 h2 h3
      exact ⟨t, ⟨s, he⟩, ⟨s', he'⟩⟩
    · rintro ⟨node, ⟨s, he⟩, ⟨s', he'⟩⟩
      exact ⟨_, he, _, he', ⟨rfl, rfl⟩, rfl⟩
  unfold connectedDirections
  have : d = 0 ∨ d = 1 ∨ d = 2 := by omega
  rcases this with rfl | rfl | rfl <;> simp only [List.map_cons, List.map_nil, List.getElem?_cons_zero, List.getElem?_cons_succ,
    Option.some.injEq] <;> exact key _

/-- the acceptance test at the end of `get_region` -/
theorem accepted_iff (nBasis dim nPeriodicSpans : Nat) :
    accepted nBasis dim nPeriodicSpans = true ↔ nBasis > 1 + dim ∨ nPeriodicSpans ≥ 1 := by
  unfold accepted; simp

/-- a non-trivial history: two oracle answers, the second one for the cell reached along +b -/
def exampleOracle : List (RecO × SeedO) :=
  [({ found := [some 0], substs := [none], vacs := [] }, { found := [some 1], disps := [some (0, 0, 0)] }),
   ({ found := [some 1], substs := [none], vacs := [] }, { found := [], disps := [] })]

def exampleRun : St :=
  findRegion MatidGen.RegionRule.rule true [(0, 0, 0), (0, 2, 0)] (1 / 4) 0 (0, 0, 0) { a := (2, 0, 0), b := (0, 2, 0), c := (0, 0, 1) } 30 exampleOracle

/-- the hypotheses of the theorems are met by it, and it does something -/
example : exampleRun.queue = [] ∧ exampleRun.units.map (·.index) = [(0, 0, 0), (0, 1, 0)] ∧ basisIndices exampleRun.units = [0, 1] := by
  decide +kernel

example : OracleOk 2 exampleOracle := by
  intro o ho k hk
  simp only [exampleOracle, List.mem_cons, List.not_mem_nil, or_false] at ho
  rcases ho with rfl | rfl <;> simp at hk <;> omega

end Matid.Props.Region
