/- Round-trip check of the table translator: print what the Lean side reads out of the generated literals.
   Run with `lake env lean --run DumpTables.lean`; harness/props/c14.py compares the output with the Python
   objects of matid/data/symmetry_data.py and spglib's database. -/
import MatidGen.AllGroups
open Matid.Table MatidGen

def showAff (a : Aff) : String :=
  s!"{a.a11} {a.a12} {a.a13} {a.a21} {a.a22} {a.a23} {a.a31} {a.a32} {a.a33} {a.t1} {a.t2} {a.t3}"

def showCodes (l : List Nat) : String := String.ofList (l.map Char.ofNat)

def main : IO Unit := do
  let out ← IO.getStdout
  for G in allGroups do
    out.putStrLn s!"G {G.number} sys={showCodes G.info.crystalSystem} brav={showCodes G.info.bravais} pg={showCodes G.info.pointgroup} refpg={showCodes G.info.refPointgroup} refc={showCodes [G.info.refCentring]}"
    for o in G.ops do out.putStrLn s!"O {showAff (decode o)}"
    for c in G.cents do out.putStrLn s!"C {showAff (decode c)}"
    for L in G.letters do
      out.putStrLn s!"L {showCodes [L.code]} vars={L.vars} exact={L.exact}"
      for e in L.numeric do out.putStrLn s!"E {showAff (decode e)}"
      for s in L.strings do out.putStrLn s!"S {showCodes (unpackStr 64 s)}"
    for N in G.norms do
      let perm := " ".intercalate (N.perm.map fun p => showCodes [p.1] ++ ">" ++ showCodes [p.2])
      out.putStrLn s!"N {showAff (decode N.map)} exact={N.exact} perm={perm}"
  out.flush
