"""Translator: matid.geometry.get_radii (AST) + ASE radii tables  ->  lean/MatidGen/Radii.lean

The *shape* of every preset branch is read from the function's AST, not assumed:
    radii = covalent_radii                      -> Preset.table .cov
    radii = vdw_radii                           -> Preset.table .vdw
    radii = np.array([A if T else B for i in range(len(vdw_radii))])
                                                -> Preset.comp {test, thn, els}
with T one of  X != Y, X == Y, np.isnan(X), math.isnan(X), not T, ~T
and A, B, X, Y one of vdw_radii[i], covalent_radii[i], np.nan / float('nan').
Anything else raises TranslationError (the check then falls back to the failing-input search).
"""
import ast
import os
import sys
from fractions import Fraction

REPO = os.environ.get("VERIF_REPO", "/repo")
VERIF = os.path.dirname(os.path.dirname(os.path.abspath(__file__)))


class TranslationError(Exception):
    pass


def _src(node, loopvar):
    if isinstance(node, ast.Subscript) and isinstance(node.value, ast.Name):
        idx = node.slice
        if isinstance(idx, ast.Name) and idx.id == loopvar:
            if node.value.id == "vdw_radii":
                return ".vdw"
            if node.value.id == "covalent_radii":
                return ".cov"
    if isinstance(node, ast.Attribute) and node.attr in ("nan", "NaN", "NAN") and isinstance(node.value, ast.Name):
        return ".nanLit"
    if isinstance(node, ast.Call) and isinstance(node.func, ast.Name) and node.func.id == "float" and node.args \
            and isinstance(node.args[0], ast.Constant) and str(node.args[0].value).lower() == "nan":
        return ".nanLit"
    raise TranslationError("unsupported value expression: " + ast.dump(node))


def _test(node, loopvar):
    if isinstance(node, ast.Compare) and len(node.ops) == 1:
        a = _src(node.left, loopvar)
        b = _src(node.comparators[0], loopvar)
        if isinstance(node.ops[0], ast.NotEq):
            return "(.ne %s %s)" % (a, b)
        if isinstance(node.ops[0], ast.Eq):
            return "(.eq %s %s)" % (a, b)
        raise TranslationError("unsupported comparison " + ast.dump(node))
    if isinstance(node, ast.UnaryOp) and isinstance(node.op, (ast.Not, ast.Invert)):
        return "(.not %s)" % _test(node.operand, loopvar)
    if isinstance(node, ast.Call) and isinstance(node.func, ast.Attribute) and node.func.attr == "isnan" and len(node.args) == 1:
        return "(.isnan %s)" % _src(node.args[0], loopvar)
    raise TranslationError("unsupported test " + ast.dump(node))


def _preset_value(value):
    """RHS of `radii = ...` inside a preset branch."""
    if isinstance(value, ast.Name):
        if value.id == "covalent_radii":
            return "(.table .cov)", None
        if value.id == "vdw_radii":
            return "(.table .vdw)", None
        raise TranslationError("unknown table " + value.id)
    # np.array([...comprehension...])
    if isinstance(value, ast.Call) and isinstance(value.func, ast.Attribute) and value.func.attr in ("array", "asarray") and value.args:
        comp = value.args[0]
        if isinstance(comp, ast.ListComp) and len(comp.generators) == 1:
            gen = comp.generators[0]
            if not isinstance(gen.target, ast.Name) or gen.ifs:
                raise TranslationError("unsupported comprehension")
            loopvar = gen.target.id
            it = gen.iter
            # range(len(TABLE))
            ok = (isinstance(it, ast.Call) and isinstance(it.func, ast.Name) and it.func.id == "range" and len(it.args) == 1
                  and isinstance(it.args[0], ast.Call) and isinstance(it.args[0].func, ast.Name) and it.args[0].func.id == "len"
                  and isinstance(it.args[0].args[0], ast.Name))
            if not ok:
                raise TranslationError("unsupported iteration " + ast.dump(it))
            length_of = it.args[0].args[0].id
            elt = comp.elt
            if isinstance(elt, ast.IfExp):
                return "(.comp { test := %s, thn := %s, els := %s })" % (_test(elt.test, loopvar), _src(elt.body, loopvar), _src(elt.orelse, loopvar)), length_of
            s = _src(elt, loopvar)
            return "(.table %s)" % s, length_of
    raise TranslationError("unsupported preset value " + ast.dump(value))


def translate_get_radii(path=None):
    path = path or os.path.join(REPO, "matid", "geometry", "geometry.py")
    tree = ast.parse(open(path).read())
    fn = None
    for node in tree.body:
        if isinstance(node, ast.FunctionDef) and node.name == "get_radii":
            fn = node
    if fn is None:
        raise TranslationError("get_radii not found")
    body = [n for n in fn.body if not (isinstance(n, ast.Expr) and isinstance(n.value, ast.Constant))]
    # expected: if isinstance(radii, str): <chain>; radii = radii[atomic_numbers]   ; return radii
    if len(body) != 2 or not isinstance(body[0], ast.If) or not isinstance(body[1], ast.Return):
        raise TranslationError("unexpected function body shape")
    top = body[0]
    t = top.test
    if not (isinstance(t, ast.Call) and isinstance(t.func, ast.Name) and t.func.id == "isinstance"
            and isinstance(t.args[0], ast.Name) and t.args[0].id == "radii" and isinstance(t.args[1], ast.Name) and t.args[1].id == "str"):
        raise TranslationError("unexpected guard")
    if top.orelse:
        raise TranslationError("custom branch is no longer the identity")
    if not (isinstance(body[1].value, ast.Name) and body[1].value.id == "radii"):
        raise TranslationError("return value is not `radii`")
    stmts = top.body
    if len(stmts) != 2 or not isinstance(stmts[0], ast.If) or not isinstance(stmts[1], ast.Assign):
        raise TranslationError("unexpected preset block shape")
    # radii = radii[atomic_numbers]
    a = stmts[1]
    ok = (isinstance(a.targets[0], ast.Name) and a.targets[0].id == "radii" and isinstance(a.value, ast.Subscript)
          and isinstance(a.value.value, ast.Name) and a.value.value.id == "radii"
          and isinstance(a.value.slice, ast.Name) and a.value.slice.id == "atomic_numbers")
    if not ok:
        raise TranslationError("indexing by atomic_numbers changed")
    presets = {}
    node = stmts[0]
    while node is not None:
        c = node.test
        ok = (isinstance(c, ast.Compare) and isinstance(c.left, ast.Name) and c.left.id == "radii" and len(c.ops) == 1
              and isinstance(c.ops[0], ast.Eq) and isinstance(c.comparators[0], ast.Constant))
        if not ok:
            raise TranslationError("unexpected preset test")
        name = c.comparators[0].value
        if len(node.body) != 1 or not isinstance(node.body[0], ast.Assign) or node.body[0].targets[0].id != "radii":
            raise TranslationError("unexpected preset body for %r" % name)
        presets[name] = _preset_value(node.body[0].value)
        if len(node.orelse) == 1 and isinstance(node.orelse[0], ast.If):
            node = node.orelse[0]
        elif not node.orelse:
            node = None
        else:
            raise TranslationError("unexpected else branch")
    return presets


def lean_R(x):
    import math
    if isinstance(x, float) and math.isnan(x):
        return ".nan"
    f = Fraction(repr(float(x))) * 10000
    if f.denominator != 1:
        raise TranslationError("radius %r is not a multiple of 1e-4" % x)
    return "(.val %d)" % f.numerator


def generate(out=None):
    out = out or os.path.join(VERIF, "lean", "MatidGen", "Radii.lean")
    sys.path.insert(0, REPO)
    # the tables get_radii actually uses (module-level names of matid.geometry.geometry)
    import matid.geometry.geometry as G
    cov = list(G.covalent_radii)
    vdw = list(G.vdw_radii)
    presets = translate_get_radii()
    lines = ["-- GENERATED by tools/gen_radii.py from %s ; do not edit" % os.path.join(REPO, "matid/geometry/geometry.py"),
             "import MatidModel.Radii", "namespace MatidGen.Radii", "open Matid.Radii", ""]
    lines.append("def covTable : List R := [" + ", ".join(lean_R(x) for x in cov) + "]")
    lines.append("def vdwTable : List R := [" + ", ".join(lean_R(x) for x in vdw) + "]")
    lines.append("def tables : Tables := { vdw := vdwTable, cov := covTable }")
    for name in ("covalent", "vdw", "vdw_covalent"):
        if name not in presets:
            raise TranslationError("preset %r missing" % name)
    for name, (expr, length_of) in sorted(presets.items()):
        ident = "preset_" + name
        lines.append("def %s : Preset := %s" % (ident, expr))
        if length_of is not None:
            n = len(vdw) if length_of == "vdw_radii" else len(cov)
            lines.append("def %s_len : Nat := %d" % (ident, n))
    lines.append("def presetNames : List String := [" + ", ".join('"%s"' % n for n in sorted(presets)) + "]")
    lines += ["", "end MatidGen.Radii", ""]
    text = "\n".join(lines)
    old = open(out).read() if os.path.exists(out) else None
    if old != text:
        with open(out, "w") as f:
            f.write(text)
    return presets


if __name__ == "__main__":
    print(generate())
