#!/bin/bash
# Run every quick check on the unchanged tree (clean /repo required) so that the committed evidence comes from /verif run against
# /repo itself; prints one line per check and validates the evidence files against the schema.
cd "$(dirname "$0")/.."
if [ -n "$(git -C /repo status --porcelain)" ]; then echo "/repo not clean"; exit 2; fi
/venv/bin/python -W ignore tools/gen_all.py > /dev/null
rc=0
for i in 01 02 03 04 05 06 07 08 09 10 11 12 13 14 15 16 17 18 19 20; do
  s=$(date +%s); out=$(VERIF_SEED=${VERIF_SEED:-0} ./check C$i --tier quick 2>&1); e=$?
  echo "C$i exit=$e $(( $(date +%s)-s ))s $(echo "$out" | grep -c '^KNOWN-FINDING') known | $(echo "$out" | tail -1)"
  [ $e != 0 ] && rc=1 && echo "$out" | grep VIOLATION
done
python3-vt - <<'PY'
import json, glob, jsonschema
schema = json.load(open('/root/.vp/EVIDENCE.schema.json'))
for f in sorted(glob.glob('/verif/evidence/C*.json')):
    e = json.load(open(f))
    try:
        jsonschema.validate(e, schema)
        c = e['coverage']
        ok = c.get('discharged') == c.get('obligations')
        print(f.split('/')[-1], 'valid', 'discharged==obligations' if ok else 'DISCHARGED!=OBLIGATIONS', e.get('violations'))
    except Exception as ex:
        print(f.split('/')[-1], 'INVALID', str(ex)[:200])
PY
exit $rc
