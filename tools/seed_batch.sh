#!/bin/bash
# usage: seed_batch.sh <ID> [extra check ids...] — confirm /tmp/seedout/<ID>/m1,m2 and run the quick check(s) against each
ID=$1; shift; EXTRA="$@"
mkdir -p /tmp/seedres
for m in m1 m2 m3; do
  D=/tmp/seedout/$ID/$m; [ -f $D/patch.diff ] || continue
  c=$(./tools/seed_confirm.sh $D | tail -2 | tr '\n' ' ')
  r=$(./tools/seed_run.sh $D/patch.diff $ID $EXTRA | tr '\n' ' ')
  for x in $ID $EXTRA; do cp /tmp/seedrun_$x.log /tmp/seedres/$ID-$m-$x.log 2>/dev/null; done
  echo "$ID $m | $c | $r" | tee -a /tmp/seedres/summary.txt
done
