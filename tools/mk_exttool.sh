#!/bin/bash
# Recreate the stand-alone C++ rebuild kit used by seeded C++ changes and their demos (default /tmp/exttool):
# a copy of /verif/shim + harness/extshim.py reading the tree from $MATID_WT, and a pytest plugin.
T=${1:-/tmp/exttool}; V=$(cd "$(dirname "$0")/.." && pwd)
mkdir -p $T && rm -rf $T/shim && cp -r $V/shim $T/shim
sed -e 's#^VERIF = .*#VERIF = os.path.dirname(os.path.abspath(__file__))#' -e 's#REPO = os.environ.get("VERIF_REPO", "/repo")#REPO = os.environ["MATID_WT"]#' $V/harness/extshim.py > $T/extshim.py
cat > $T/conftest_plugin.py <<'PY'
import os, sys
sys.path.insert(0, os.path.dirname(os.path.abspath(__file__)))
import extshim
extshim.install()
PY
echo $T
