"""Exact affine maps of fractional coordinates (integer linear part, translation in 24ths) — the Python
twin of lean/MatidModel/Table.lean used by the translators (to find certificates, which the Lean kernel
re-checks) and by the failing-input searches."""
from fractions import Fraction

import numpy as np


class Unrepresentable(Exception):
    pass


def snap_int(x, tol=1e-6):
    r = int(round(float(x)))
    if abs(float(x) - r) > tol:
        raise Unrepresentable("not an integer: %r" % (x,))
    return r


def snap24(x, tol=1e-4):
    """float -> integer number of 24ths (not reduced); table constants are rounded to 6 decimals"""
    v = float(x) * 24
    r = int(round(v))
    if abs(v - r) > 24 * tol:
        raise Unrepresentable("not a multiple of 1/24: %r" % (x,))
    return r


class Aff:
    __slots__ = ("R", "t")

    def __init__(self, R, t):
        self.R = tuple(tuple(int(v) for v in row) for row in R)
        self.t = tuple(int(v) for v in t)   # 24ths, unreduced

    @staticmethod
    def identity():
        return Aff(((1, 0, 0), (0, 1, 0), (0, 0, 1)), (0, 0, 0))

    @staticmethod
    def translation(t):
        return Aff(((0, 0, 0), (0, 0, 0), (0, 0, 0)), t)

    def comp(self, B):
        R = [[sum(self.R[i][k] * B.R[k][j] for k in range(3)) for j in range(3)] for i in range(3)]
        t = [sum(self.R[i][k] * B.t[k] for k in range(3)) + self.t[i] for i in range(3)]
        return Aff(R, t)

    def addT(self, T):
        return Aff(self.R, [a + b for a, b in zip(self.t, T.t)])

    def eq_mod(self, B):
        return self.R == B.R and all((a - b) % 24 == 0 for a, b in zip(self.t, B.t))

    def key(self):
        return (self.R, tuple(v % 24 for v in self.t))

    def det(self):
        R = self.R
        return (R[0][0] * (R[1][1] * R[2][2] - R[1][2] * R[2][1]) - R[0][1] * (R[1][0] * R[2][2] - R[1][2] * R[2][0])
                + R[0][2] * (R[1][0] * R[2][1] - R[1][1] * R[2][0]))

    def is_id_rot(self):
        return self.R == ((1, 0, 0), (0, 1, 0), (0, 0, 1))

    def inverse(self):
        """exact inverse for unimodular R"""
        d = self.det()
        if d not in (1, -1):
            raise Unrepresentable("not unimodular")
        R = self.R
        cof = [[(R[(j + 1) % 3][(i + 1) % 3] * R[(j + 2) % 3][(i + 2) % 3] - R[(j + 1) % 3][(i + 2) % 3] * R[(j + 2) % 3][(i + 1) % 3]) * d
                for j in range(3)] for i in range(3)]
        t = [-sum(cof[i][k] * self.t[k] for k in range(3)) for i in range(3)]
        return Aff(cof, t)

    def act(self, w):
        """w: 3 Fractions -> 3 Fractions"""
        return tuple(sum(Fraction(self.R[i][k]) * w[k] for k in range(3)) + Fraction(self.t[i], 24) for i in range(3))

    def pack(self):
        digits = []
        for row in self.R:
            for v in row:
                if not (-12 <= v <= 11):
                    raise Unrepresentable("entry out of range %r" % v)
                digits.append(v + 12)
        for v in self.t:
            digits.append(v % 24)
        return sum(d * 24 ** k for k, d in enumerate(digits))

    def __repr__(self):
        return "Aff(%r,%r)" % (self.R, self.t)


def unpack(p):
    d = [(p // 24 ** k) % 24 for k in range(12)]
    return Aff([[d[3 * i + j] - 12 for j in range(3)] for i in range(3)], d[9:12])


def from_expression_numeric(M, C):
    """WYCKOFF_SETS matrices are M[var][comp]; affine matrix row = component"""
    R = [[snap_int(M[v][c]) for v in range(3)] for c in range(3)]
    t = [snap24(C[c]) for c in range(3)]
    return Aff(R, t)


def from_op(rot, trans):
    return Aff([[snap_int(v) for v in row] for row in rot], [snap24(v) for v in trans])


def from_4x4(T):
    T = np.asarray(T, dtype=float)
    if not np.allclose(T[3], [0, 0, 0, 1], atol=1e-9):
        raise Unrepresentable("last row is not (0,0,0,1)")
    return Aff([[snap_int(v) for v in row[:3]] for row in T[:3]], [snap24(v) for v in T[:3, 3]])


# ---- expression strings (independent twin of Table.parseExpr; used only by searches) -------------------
def parse_expr(s):
    """'-x+1/2' -> (cx, cy, cz, const 24ths) or None"""
    import re
    if not s:
        return None
    pos = 0
    coef = [0, 0, 0, 0]
    first = True
    while pos < len(s):
        sgn = 1
        if s[pos] in "+-":
            sgn = -1 if s[pos] == "-" else 1
            pos += 1
        elif not first:
            return None
        first = False
        m = re.match(r"(\d*)([xyz])", s[pos:])
        if m:
            n = int(m.group(1)) if m.group(1) else 1
            coef["xyz".index(m.group(2))] += sgn * n
            pos += m.end()
            continue
        m = re.match(r"(\d+)/(\d+)", s[pos:])
        if m:
            n, d = int(m.group(1)), int(m.group(2))
            if d == 0 or (24 * n) % d:
                return None
            coef[3] += sgn * (24 * n // d)
            pos += m.end()
            continue
        m = re.match(r"(\d+)", s[pos:])
        if m:
            coef[3] += sgn * 24 * int(m.group(1))
            pos += m.end()
            continue
        return None
    return tuple(coef)


def from_expression_strings(triple):
    rows = [parse_expr(e) for e in triple]
    if any(r is None for r in rows):
        return None
    return Aff([r[:3] for r in rows], [r[3] for r in rows])
