#!/bin/bash
# round 2: confirm /tmp/seedout2/<ID>/m1,m2 and run the quick check against each
ID=$1; shift; EXTRA="$@"
mkdir -p /tmp/seedres2
for m in m1 m2; do
  D=/tmp/seedout2/$ID/$m; [ -f $D/patch.diff ] || continue
  c=$(./tools/seed_confirm.sh $D | tail -2 | tr '\n' ' ')
  r=$(./tools/seed_run.sh $D/patch.diff $ID $EXTRA | tr '\n' ' ')
  echo "$ID $m | $c | $r" | tee -a /tmp/seedres2/summary.txt
done
