#!/usr/bin/env python3
"""Copy confirmed seeded changes from /tmp/seedout into /verif/seeded/<id>/ with meta.json.
usage: seed_save.py   (reads tools/seed_catalog.json: id -> {property, src, needs, summary} and /tmp/seedres/summary.txt)"""
import json, os, re, shutil, sys
V = os.path.dirname(os.path.dirname(os.path.abspath(__file__)))
cat = json.load(open(os.path.join(V, "tools", "seed_catalog.json")))
res = {}
if os.path.exists("/tmp/seedres/summary.txt"):
    for l in open("/tmp/seedres/summary.txt"):
        m = re.match(r"(C\d\d) (m\d) \| (.*?) \| (.*)", l)
        if m:
            res[(m.group(1), m.group(2))] = (m.group(3).strip(), m.group(4).strip())
res2 = {}
if os.path.exists("/tmp/seedres2/summary.txt"):
    for l in open("/tmp/seedres2/summary.txt"):
        m = re.match(r"(C\d\d) (m\d) \| (.*?) \| (.*)", l)
        if m:
            res2[(m.group(1), m.group(2))] = (m.group(3).strip(), m.group(4).strip())
for sid, e in cat.items():
    src = e["src"]
    if not os.path.isdir(src):
        continue
    dst = os.path.join(V, "seeded", sid)
    os.makedirs(dst, exist_ok=True)
    for f in ("patch.diff", "demo.py", "notes.md"):
        if os.path.exists(os.path.join(src, f)):
            shutil.copy(os.path.join(src, f), os.path.join(dst, f))
    prop, mk = e["property"], os.path.basename(src)
    conf, run = (res2 if "seedout2" in src else res).get((prop, mk), ("", ""))
    meta_p = os.path.join(dst, "meta.json")
    meta = json.load(open(meta_p)) if os.path.exists(meta_p) else {}
    meta.update({"id": sid, "property": prop, "summary": e["summary"], "needs_to_manifest": e["needs"],
                 "touches_cpp": "+++ b/matid/ext/" in open(os.path.join(dst, "patch.diff")).read(),
                 "confirmed_by": "tools/seed_confirm.sh in a scratch worktree of /repo HEAD: demo passes on the reference tree, patch applies, "
                                 "pinned suite (110 tests) passes with the patch, demo fails with the patch",
                 "confirmation": conf or meta.get("confirmation", "")})
    if run:
        meta.setdefault("check_runs", [])
        entry = {"when": "initial (before strengthening)", "cmd": "tools/seed_run.sh patch.diff %s  (git -C /repo apply; ./check %s --tier quick; git -C /repo checkout -- .)" % (prop, prop), "result": run}
        if not any(r.get("when") == entry["when"] for r in meta["check_runs"]):
            meta["check_runs"].append(entry)
    json.dump(meta, open(meta_p, "w"), indent=1)
print("saved", len(cat))
