"""Translator: matid/data/symmetry_data.py (+ reference data from the installed spglib)
 -> lean/MatidGen/SG/G001.lean … G230.lean, lean/MatidGen/AllGroups.lean

What is copied (trusted, ~ the `pack` calls below): numbers and strings of the three tables and of the
spglib Hall database.  What is computed (untrusted certificates, re-checked by the Lean kernel): inverse of a
normalizer, index of the image of every (operation, expression) pair, reparametrisations of Wyckoff families.
`problems` collects every table entry for which no certificate exists — the input of C14's failing-input search.
"""
import hashlib
import itertools
import os
import sys

import numpy as np

sys.path.insert(0, os.path.dirname(os.path.abspath(__file__)))
from affine import Aff, Unrepresentable, from_expression_numeric, from_op, from_4x4, snap24  # noqa: E402

REPO = os.environ.get("VERIF_REPO", "/repo")
VERIF = os.path.dirname(os.path.dirname(os.path.abspath(__file__)))
OUT = os.path.join(VERIF, "lean", "MatidGen", "SG")

_ref_cache = {}
METRIC_BASIS = {
    0: [(1, 0, 0, 0, 0, 0), (0, 1, 0, 0, 0, 0), (0, 0, 1, 0, 0, 0), (0, 0, 0, 1, 0, 0), (0, 0, 0, 0, 1, 0), (0, 0, 0, 0, 0, 1)],
    1: [(1, 0, 0, 0, 0, 0), (0, 1, 0, 0, 0, 0), (0, 0, 1, 0, 0, 0), (0, 0, 0, 0, 1, 0)],
    2: [(1, 0, 0, 0, 0, 0), (0, 1, 0, 0, 0, 0), (0, 0, 1, 0, 0, 0)],
    3: [(1, 1, 0, 0, 0, 0), (0, 0, 1, 0, 0, 0)],
    4: [(2, 2, 0, -1, 0, 0), (0, 0, 1, 0, 0, 0)],
    5: [(1, 1, 1, 0, 0, 0)],
}


def reference():
    """spglib's Hall database: first Hall number, operations, point group, centring letter per group"""
    if _ref_cache:
        return _ref_cache
    import spglib
    first = {}
    for h in range(1, 531):
        t = spglib.get_spacegroup_type(h)
        first.setdefault(t.number, h)
    for n, h in first.items():
        t = spglib.get_spacegroup_type(h)
        d = spglib.get_symmetry_from_database(h)
        ops = [from_op(r, tr) for r, tr in zip(d["rotations"], d["translations"])]
        _ref_cache[n] = {"hall": h, "ops": ops, "pointgroup": t.pointgroup_international.strip(),
                         "centring": t.international_short[0], "short": t.international_short}
    return _ref_cache


def load_tables():
    if REPO not in sys.path:
        sys.path.insert(0, REPO)
    import matid.data.symmetry_data as sd
    return sd.SPACE_GROUP_INFO, sd.WYCKOFF_SETS, sd.CHIRALITY_PRESERVING_EUCLIDEAN_NORMALIZERS


def codes(s):
    return "[" + ", ".join(str(ord(c)) for c in s) + "]"


def pack_str(s):
    assert all(0 < ord(c) < 128 for c in s), s
    return sum(ord(c) * 128 ** k for k, c in enumerate(s))


def letters_of(wy):
    return [k for k in wy.keys() if k != "translations"]


def system_of(n):
    return 0 if n <= 2 else 1 if n <= 15 else 2 if n <= 74 else 3 if n <= 142 else 4 if n <= 194 else 5


def find_phi(nE0, targets, cents):
    """certificate for `n∘e0 ≡ e'∘φ + t (mod ℤ³)`: returns (8*idx+cent, packed φ) or None"""
    N = nE0
    ucols = [v for v in range(3) if any(N.R[c][v] != 0 for c in range(3))]
    vecs = list(itertools.product((-1, 0, 1), repeat=3))
    for idx, e in enumerate(targets):
        ecols = [v for v in range(3) if any(e.R[c][v] != 0 for c in range(3))]
        if len(ecols) != len(ucols):
            continue
        cand = []
        free_units = [u for u in range(3) if u not in ecols]
        for v in range(3):
            col = [N.R[c][v] for c in range(3)]
            if v in ucols:
                cv = [p for p in vecs if all(sum(e.R[c][k] * p[k] for k in range(3)) == col[c] for c in range(3))
                      and all(p[k] == 0 for k in free_units)]
            else:
                cv = [tuple(1 if k == u else 0 for k in range(3)) for u in free_units]
            cand.append(cv)
        for cols in itertools.product(*cand):
            Phi = [[cols[v][k] for v in range(3)] for k in range(3)]
            A = Aff(Phi, (0, 0, 0))
            if A.det() not in (1, -1):
                continue
            # shift: E' s ≡ rhs (mod 24)
            for ci, t in enumerate([Aff.translation((0, 0, 0))] + cents):
                rhs = [(N.t[c] - e.t[c] - t.t[c]) % 24 for c in range(3)]
                rng = [range(24) if k in ecols else (0,) for k in range(3)]
                # common denominators first
                for s in _shift_candidates(rng):
                    if all((sum(e.R[c][k] * s[k] for k in range(3)) - rhs[c]) % 24 == 0 for c in range(3)):
                        return idx * 8 + ci, Aff(Phi, s).pack()
    return None


def _shift_candidates(rng):
    order = [0, 12, 6, 18, 8, 16, 4, 20, 3, 9, 15, 21, 2, 10, 14, 22, 1, 5, 7, 11, 13, 17, 19, 23]
    lists = [[v for v in order if v in r] for r in rng]
    return itertools.product(*lists)


def generators(ops):
    """greedy generating set of the operations modulo Z^3, BFS order of all ops and the certificate
    (entry i = 256*j + k with ops[i] = gens[j] o ops[k], k < i)"""
    by_key = {g.key(): g for g in ops}
    ident = [g for g in ops if g.is_id_rot() and all(v % 24 == 0 for v in g.t)][0]
    gens = []

    def closure(gens):
        order = [ident]
        cert = [0]
        seen = {ident.key(): 0}
        i = 0
        while i < len(order):
            for j, g in enumerate(gens):
                h = g.comp(order[i])
                k = h.key()
                if k not in seen:
                    if k not in by_key:
                        raise Unrepresentable("reference operations are not closed")
                    seen[k] = len(order)
                    order.append(by_key[k])
                    cert.append(256 * j + i)
            i += 1
        return order, cert, seen
    order, cert, seen = closure(gens)
    # prefer generators of high order first so that few are needed
    for g in ops:
        if g.key() not in seen:
            gens.append(g)
            order, cert, seen = closure(gens)
    assert len(order) == len(ops)
    return gens, order, cert


def build_group(n, info, wy, norms, ref, problems):
    gens, ops, gen_cert = generators(ref["ops"])
    ops_key = {g.key(): i for i, g in enumerate(ops)}
    try:
        cents = [Aff.translation([snap24(v) for v in t]) for t in np.asarray(wy["translations"]).reshape(-1, 3)]
        cents_exact = True
    except Unrepresentable:
        cents, cents_exact = [], False
        problems.append({"group": n, "what": "centring translations not representable"})
    T = [Aff.translation((0, 0, 0))] + cents
    L = []
    L.append("-- GENERATED by tools/gen_tables.py from matid/data/symmetry_data.py and spglib's Hall database; do not edit")
    L.append("import MatidModel.Table")
    L.append("set_option maxRecDepth 100000")
    L.append("set_option linter.unusedSimpArgs false")
    L.append("namespace MatidGen.SG")
    L.append("open Matid.Table")
    g = "g%03d" % n
    L.append("def %s_ops : List Nat := [%s]" % (g, ", ".join(str(o.pack()) for o in ops)))
    L.append("def %s_gens : List Nat := [%s]" % (g, ", ".join(str(o.pack()) for o in gens)))
    L.append("def %s_genCert : List Nat := [%s]" % (g, ", ".join(map(str, gen_cert))))
    L.append("def %s_cents : List Nat := [%s]" % (g, ", ".join(str(c.pack()) for c in cents)))
    letter_names = letters_of(wy)
    letter_exprs = {}
    lnames = []
    for li, letter in enumerate(letter_names):
        d = wy[letter]
        exact = cents_exact and len(letter) == 1
        exprs = []
        try:
            for M, C in zip(d["matrices"], d["constants"]):
                exprs.append(from_expression_numeric(M, C))
            packed = [e.pack() for e in exprs]
        except Unrepresentable as e:
            exact = False
            packed = []
            exprs = []
            problems.append({"group": n, "letter": letter, "what": "numeric entry not representable: %s" % e})
        letter_exprs[letter] = exprs
        strings = [",".join(tr) for tr in d["expressions"]]
        vars_mask = sum(b for v, b in (("x", 1), ("y", 2), ("z", 4)) if v in d["variables"])
        extra = set(d["variables"]) - {"x", "y", "z"}
        if extra:
            exact = False
        # independent twin of the Lean-side string check (for the failing-input search only)
        from affine import from_expression_strings
        for k, (e, tr) in enumerate(zip(exprs, d["expressions"])):
            pe = from_expression_strings(tr)
            if pe is None or not pe.eq_mod(e):
                problems.append({"group": n, "letter": letter, "what": "expression string differs from matrix/constant", "expr": k,
                                 "string": ",".join(tr), "constant": [float(v) for v in d["constants"][k]]})
        used = sum(b for v, b in ((0, 1), (1, 2), (2, 4)) if any(e.R[c][v] != 0 for e in exprs for c in range(3)))
        if used != vars_mask:
            problems.append({"group": n, "letter": letter, "what": "variables set differs from the non-zero matrix rows"})
        # certificates
        maps = [e.addT(t) for t in T for e in exprs]
        mkey = {}
        for i, m in enumerate(maps):
            if m.key() in mkey:
                problems.append({"group": n, "letter": letter, "what": "listed positions are not distinct", "map": i})
            mkey.setdefault(m.key(), i)
        close_rows = []
        for gi, gop in enumerate(gens):
            row = 0
            for k, m in enumerate(maps):
                hit = mkey.get(gop.comp(m).key())
                if hit is None:
                    problems.append({"group": n, "letter": letter, "what": "not closed", "op": ops_key[gop.key()], "map": k})
                    hit = 0
                row += hit * 512 ** k
            close_rows.append(row)
        trans = []
        if exprs:
            img = {}
            for gi, gop in enumerate(ops):
                img.setdefault(gop.comp(exprs[0]).key(), gi)
            for k, m in enumerate(maps):
                gi = img.get(m.key())
                if gi is None:
                    problems.append({"group": n, "letter": letter, "what": "not transitive", "map": k})
                    gi = 0
                trans.append(gi)
        name = "%s_l%d" % (g, li)
        lnames.append(name)
        L.append("def %s : Letter := { code := %d, numeric := [%s], strings := [%s], vars := %d, exact := %s, maps := [%s], closeCert := [%s], transCert := [%s] }" % (
            name, ord(letter[0]), ", ".join(map(str, packed)), ", ".join(str(pack_str(s)) for s in strings), vars_mask,
            "true" if exact else "false", ", ".join(str(m.pack()) for m in maps), ", ".join(map(str, close_rows)), ", ".join(map(str, trans))))
    # normalizers
    nnames = []
    for ni, entry in enumerate(norms):
        exact = True
        try:
            nm = from_4x4(entry["transformation"])
            inv = nm.inverse()
            pm, pinv = nm.pack(), inv.pack()
        except Unrepresentable as e:
            exact = False
            nm = inv = None
            pm = pinv = 0
            problems.append({"group": n, "normalizer": ni, "what": "transformation not representable: %s" % e})
        perm = entry["permutations"]
        if nm is not None:
            # python twins of the remaining kernel checks (failing-input search only)
            R = nm.R
            for gb in METRIC_BASIS[system_of(n)]:
                Gm = [[gb[0], gb[3], gb[4]], [gb[3], gb[1], gb[5]], [gb[4], gb[5], gb[2]]]
                RtGR = [[sum(R[k][i] * Gm[k][l] * R[l][j] for k in range(3) for l in range(3)) for j in range(3)] for i in range(3)]
                if RtGR != Gm:
                    problems.append({"group": n, "normalizer": ni, "what": "does not preserve the metric of the lattice system", "metric": list(gb)})
                    break
            if all(o.det() == 1 for o in ops) and nm.det() != 1:
                problems.append({"group": n, "normalizer": ni, "what": "improper transformation in a chiral group", "det": nm.det()})
            if set(perm.keys()) != set(letter_names) or set(perm.values()) != set(letter_names):
                problems.append({"group": n, "normalizer": ni, "what": "letter permutation is not a bijection of the letters"})
        perm_txt = ", ".join("(%d, %d)" % (ord(str(a)[0]), ord(str(b)[0])) for a, b in perm.items())
        if any(len(str(a)) != 1 or len(str(b)) != 1 for a, b in perm.items()):
            exact = False
        conj = []
        lcert = []
        if nm is not None:
            for gi, gop in enumerate(ops):
                hit = ops_key.get(nm.comp(gop).comp(inv).key())
                if hit is not None and not nm.comp(gop).eq_mod(ops[hit].comp(nm)):
                    hit = None
                if hit is None:
                    problems.append({"group": n, "normalizer": ni, "what": "does not map the group onto itself", "op": gi})
                    hit = 0
                conj.append(hit)
            for letter in letter_names:
                tgt = perm.get(letter)
                ex = letter_exprs.get(letter) or []
                tex = letter_exprs.get(tgt) or []
                cert = find_phi(nm.comp(ex[0]), tex, cents) if ex and tex else None
                if cert is None:
                    problems.append({"group": n, "normalizer": ni, "what": "letter family not mapped as tabulated", "letter": letter, "to": tgt})
                    lcert.append((0, Aff.identity().pack(), letter_names.index(tgt) if tgt in letter_names else 0))
                else:
                    lcert.append((cert[0], cert[1], letter_names.index(tgt)))
        name = "%s_n%d" % (g, ni)
        nnames.append(name)
        L.append("def %s : Norm := { map := %d, inv := %d, perm := [%s], exact := %s, conjCert := [%s], letterCert := [%s] }" % (
            name, pm, pinv, perm_txt, "true" if exact else "false", ", ".join(map(str, conj)),
            ", ".join("(%d, %d, %d)" % c for c in lcert)))
    CS = ["triclinic"] * 2 + ["monoclinic"] * 13 + ["orthorhombic"] * 59 + ["tetragonal"] * 68 + ["trigonal"] * 25 + ["hexagonal"] * 27 + ["cubic"] * 36
    fam = "a" * 2 + "m" * 13 + "o" * 59 + "t" * 68 + "h" * 52 + "c" * 36
    mg = lambda c: "S" if c in "ABC" else c
    bl = info["bravais_lattice"]
    if info["crystal_system"] != CS[n - 1]:
        problems.append({"group": n, "what": "crystal system differs from the International Tables range", "table": info["crystal_system"], "expected": CS[n - 1]})
    if len(bl) != 2 or bl[0] != fam[n - 1] or mg(bl[1]) != mg(ref["centring"]):
        problems.append({"group": n, "what": "Bravais lattice differs from the reference", "table": bl, "expected": fam[n - 1] + mg(ref["centring"])})
    if info["pointgroup"] != ref["pointgroup"]:
        problems.append({"group": n, "what": "point group differs from the reference", "table": info["pointgroup"], "expected": ref["pointgroup"]})
    L.append("def %s_info : Info := { crystalSystem := %s, bravais := %s, pointgroup := %s, refPointgroup := %s, refCentring := %d }" % (
        g, codes(info["crystal_system"]), codes(info["bravais_lattice"]), codes(info["pointgroup"]), codes(ref["pointgroup"]), ord(ref["centring"])))
    L.append("def %s_letters : List Letter := [%s]" % (g, ", ".join(lnames)))
    L.append("def %s_norms : List Norm := [%s]" % (g, ", ".join(nnames)))
    L.append("def %s : Group := { number := %d, ops := %s_ops, gens := %s_gens, genCert := %s_genCert, cents := %s_cents, letters := %s_letters, norms := %s_norms, info := %s_info }" % (
        g, n, g, g, g, g, g, g, g))
    # per-entry kernel checks
    L.append("")
    L.append("theorem %s_head : groupHeadOk %s = true := by decide +kernel" % (g, g))
    for name in lnames:
        L.append("theorem %s_ok : letterOk %s_gens %s_ops %s_cents %s = true := by decide +kernel" % (name, g, g, g, name))
    for name in nnames:
        L.append("theorem %s_ok : normOk (systemOf %d) (isChiralOps (%s_ops.map decode)) %s_ops %s_cents %s_letters %s = true := by decide +kernel" % (
            name, n, g, g, g, g, name))
    L.append("theorem %s_letters_ok : %s_letters.all (letterOk %s_gens %s_ops %s_cents) = true := by" % (g, g, g, g, g))
    L.append("  simp only [%s_letters, List.all_cons, List.all_nil, Bool.and_true, Bool.and_self, %s]" % (g, ", ".join(x + "_ok" for x in lnames)))
    L.append("theorem %s_norms_ok : %s_norms.all (normOk (systemOf %d) (isChiralOps (%s_ops.map decode)) %s_ops %s_cents %s_letters) = true := by" % (g, g, n, g, g, g, g))
    if nnames:
        L.append("  simp only [%s_norms, List.all_cons, List.all_nil, Bool.and_true, Bool.and_self, %s]" % (g, ", ".join(x + "_ok" for x in nnames)))
    else:
        L.append("  rfl")
    L.append("theorem %s_ok : groupOk %s = true := by" % (g, g))
    L.append("  unfold groupOk")
    L.append("  rw [%s_head]" % g)
    L.append("  show (true && %s_letters.all (letterOk %s_gens %s_ops %s_cents) && %s_norms.all (normOk (systemOf %d) (isChiralOps (%s_ops.map decode)) %s_ops %s_cents %s_letters)) = true" % (g, g, g, g, g, n, g, g, g, g))
    L.append("  rw [%s_letters_ok, %s_norms_ok]; rfl" % (g, g))
    L.append("end MatidGen.SG")
    return "\n".join(L) + "\n"


def write_if_changed(path, text):
    old = open(path).read() if os.path.exists(path) else None
    if old != text:
        os.makedirs(os.path.dirname(path), exist_ok=True)
        with open(path, "w") as f:
            f.write(text)
        return True
    return False


def generate(groups=None):
    info, wyck, norms = load_tables()
    ref = reference()
    problems = []
    changed = 0
    for n in range(1, 231):
        if groups and n not in groups:
            continue
        text = build_group(n, info[n], wyck[n], norms.get(n, []), ref[n], problems)
        changed += write_if_changed(os.path.join(OUT, "G%03d.lean" % n), text)
    if not groups:
        L = ["-- GENERATED by tools/gen_tables.py; do not edit"]
        L += ["import MatidGen.SG.G%03d" % n for n in range(1, 231)]
        L += ["set_option maxRecDepth 1000000", "set_option linter.unusedSimpArgs false", "namespace MatidGen", "open Matid.Table MatidGen.SG", ""]
        L.append("def allGroups : List Group := [" + ", ".join("g%03d" % n for n in range(1, 231)) + "]")
        L.append("theorem allGroups_ok : allGroups.all groupOk = true := by")
        L.append("  simp only [allGroups, List.all_cons, List.all_nil, Bool.and_true, Bool.and_self, " + ", ".join("g%03d_ok" % n for n in range(1, 231)) + "]")
        L.append("theorem allGroups_numbers : allGroups.map (·.number) = List.range' 1 230 := by decide +kernel")
        L += ["end MatidGen", ""]
        changed += write_if_changed(os.path.join(VERIF, "lean", "MatidGen", "AllGroups.lean"), "\n".join(L))
    return {"changed_files": changed, "problems": problems}


if __name__ == "__main__":
    gs = [int(a) for a in sys.argv[1:]] or None
    r = generate(gs)
    print("changed", r["changed_files"], "problems", len(r["problems"]))
    for p in r["problems"][:40]:
        print(p)
