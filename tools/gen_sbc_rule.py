"""Translator: structure of matid.clustering.sbc.SBC.get_clusters and the state kept by SBC / PeriodicFinder (AST)
 -> lean/MatidGen/SbcRule.lean

 * pipelineOrder      : the order in which get_clusters applies _merge_clusters / _localize_clusters / _clean_clusters to `clusters`
 * returnsClusters    : the function returns the variable the last stage assigned
 * zeroTestIsRow      : a cell vector is tested for zero by `basis[i, :].any()` (row i of the cell = i-th cell vector)
 * zeroPbcRaises      : … and a zero vector along a periodic direction raises ValueError, along a non-periodic one triggers completion
 * scaleCond          : the cell along a non-periodic axis is enlarged when `max_pos > 1 or min_pos < 0`
 * loopRemovesTested  : `indices -= tested_indices` and `indices -= i_indices` in the search loop
 * ctorKeywords       : keyword arguments of every `Cluster(...)` construction in sbc.py
 * sbcSelfFields      : attributes assigned on `self` anywhere in class SBC ; sbcHasInit
 * finderCondAssign   : attributes of PeriodicFinder assigned inside a conditional/loop of get_region (memoisation across calls)
"""
import ast
import os

REPO = os.environ.get("VERIF_REPO", "/repo")
VERIF = os.path.dirname(os.path.dirname(os.path.abspath(__file__)))


class TranslationError(Exception):
    pass


def _self_attr_targets(node):
    res = []

    def tgt(t):
        if isinstance(t, ast.Attribute) and isinstance(t.value, ast.Name) and t.value.id == "self":
            res.append(t.attr)
        elif isinstance(t, (ast.Tuple, ast.List)):
            for e in t.elts:
                tgt(e)
    for n in ast.walk(node):
        if isinstance(n, ast.Assign):
            for t in n.targets:
                tgt(t)
        elif isinstance(n, (ast.AugAssign, ast.AnnAssign)):
            tgt(n.target)
    return res


def translate():
    tree = ast.parse(open(os.path.join(REPO, "matid", "clustering", "sbc.py")).read())
    cls = [n for n in tree.body if isinstance(n, ast.ClassDef) and n.name == "SBC"]
    if not cls:
        raise TranslationError("class SBC not found")
    cls = cls[0]
    fns = {n.name: n for n in cls.body if isinstance(n, ast.FunctionDef)}
    if "get_clusters" not in fns:
        raise TranslationError("get_clusters not found")
    gc = fns["get_clusters"]
    order, last_var = [], None
    stage_names = {"_merge_clusters": "merge", "_localize_clusters": "localize", "_clean_clusters": "clean"}
    returns = None
    for st in gc.body:
        if isinstance(st, ast.Assign) and isinstance(st.value, ast.Call) and isinstance(st.value.func, ast.Attribute) \
                and isinstance(st.value.func.value, ast.Name) and st.value.func.value.id == "self" and st.value.func.attr in stage_names:
            if len(st.targets) != 1 or not isinstance(st.targets[0], ast.Name):
                raise TranslationError("stage result assigned to a non-name")
            # the stage must consume the variable the previous stage produced
            argnames = [a.id for a in st.value.args if isinstance(a, ast.Name)]
            if last_var is not None and last_var not in argnames:
                raise TranslationError("stage %s does not consume the previous stage's result" % st.value.func.attr)
            order.append(stage_names[st.value.func.attr])
            last_var = st.targets[0].id
        elif isinstance(st, ast.Return):
            returns = ast.unparse(st.value) if st.value is not None else None
    # stage calls anywhere else (nested) are not understood
    nested = [n.func.attr for n in ast.walk(gc) if isinstance(n, ast.Call) and isinstance(n.func, ast.Attribute) and n.func.attr in stage_names]
    if len(nested) != len(order):
        raise TranslationError("a pipeline stage is called in a nested position")
    src = ast.unparse(gc).replace(" ", "").replace("\n", "")
    zero_row = "ifnotbasis[i,:].any():" in src
    zero_raise = "ifnotbasis[i,:].any():ifnotpbc[i]:requires_completion=Trueelse:raiseValueError(" in src \
        and "ifrequires_completion:system_copy.set_cell(ase.geometry.complete_cell(basis))" in src
    scale = "ifmax_pos>1ormin_pos<0:scale_cell=True" in src
    # the box repair runs whenever SOME direction is non-periodic (`if not all(pbc)`), per non-periodic axis (`if not pbc[i]`)
    guard = "ifnotall(pbc):scaled_positions=system_copy.get_scaled_positions()" in src and "foriinrange(3):ifnotpbc[i]:i_pos=scaled_positions[:,i]" in src
    loop = "indices-=tested_indices" in src and "indices-=i_indices" in src and "i_indices={i_seed}" in src \
        and "i_indices.update(i_grain.get_basis_indices())" in src
    dist_radii = "distances=matid.geometry.get_distances(system_copy,radii)" in src and "radii=matid.geometry.get_radii(radii,atomic_numbers)" in src
    ctor = []
    for n in ast.walk(tree):
        if isinstance(n, ast.Call) and isinstance(n.func, ast.Name) and n.func.id == "Cluster":
            ctor.append(sorted(k.arg for k in n.keywords if k.arg))
    # the bond threshold / distances a Cluster is constructed with are the caller's own (by name), and _merge_clusters receives
    # get_clusters' values at the positions of its parameters of the same name
    def _kw_is_name(call, kw, name):
        return any(k.arg == kw and isinstance(k.value, ast.Name) and k.value.id == name for k in call.keywords)
    ctor_calls = [n for n in ast.walk(tree) if isinstance(n, ast.Call) and isinstance(n.func, ast.Name) and n.func.id == "Cluster"]
    fwd = bool(ctor_calls) and all(_kw_is_name(c, "bond_threshold", "bond_threshold") and _kw_is_name(c, "distances", "distances") for c in ctor_calls)
    mdef = fns.get("_merge_clusters")
    mcalls = [n for n in ast.walk(gc) if isinstance(n, ast.Call) and isinstance(n.func, ast.Attribute) and n.func.attr == "_merge_clusters"]
    if mdef is None or len(mcalls) != 1:
        fwd = False
    else:
        params = [a.arg for a in mdef.args.args][1:]
        call = mcalls[0]
        bound = {p_: a_ for p_, a_ in zip(params, call.args)}
        bound.update({k.arg: k.value for k in call.keywords if k.arg})
        for p_ in ("bond_threshold", "merge_threshold", "distances"):
            v = bound.get(p_)
            if not (isinstance(v, ast.Name) and v.id == p_):
                fwd = False
    sbc_fields = sorted(set(_self_attr_targets(cls)))
    # PeriodicFinder.get_region
    ptree = ast.parse(open(os.path.join(REPO, "matid", "core", "periodicfinder.py")).read())
    pcls = [n for n in ptree.body if isinstance(n, ast.ClassDef) and n.name == "PeriodicFinder"]
    if not pcls:
        raise TranslationError("class PeriodicFinder not found")
    gr = [n for n in pcls[0].body if isinstance(n, ast.FunctionDef) and n.name == "get_region"]
    if not gr:
        raise TranslationError("get_region not found")
    top = set()
    for st in gr[0].body:
        if isinstance(st, (ast.Assign, ast.AugAssign, ast.AnnAssign)):
            top |= set(_self_attr_targets(st))
    cond = sorted(set(_self_attr_targets(gr[0])) - top)
    return {"order": order, "returns": returns == last_var, "zero_row": zero_row, "zero_raise": zero_raise, "scale": scale, "repair_guard": guard, "loop": loop,
            "ctor": ctor, "ctor_fwd": fwd, "dist_radii": dist_radii, "sbc_fields": sbc_fields, "sbc_init": "__init__" in fns, "finder_cond": cond}


def generate(out=None):
    out = out or os.path.join(VERIF, "lean", "MatidGen", "SbcRule.lean")
    r = translate()
    q = lambda l: "[" + ", ".join('"%s"' % x for x in l) + "]"
    b = lambda v: "true" if v else "false"
    text = "\n".join(["-- GENERATED by tools/gen_sbc_rule.py from matid/clustering/sbc.py and matid/core/periodicfinder.py; do not edit",
                      "namespace MatidGen.SbcRule",
                      "def pipelineOrder : List String := " + q(r["order"]),
                      "def returnsClusters : Bool := " + b(r["returns"]),
                      "def zeroTestIsRow : Bool := " + b(r["zero_row"]),
                      "def zeroPbcRaises : Bool := " + b(r["zero_raise"]),
                      "def scaleCond : Bool := " + b(r["scale"]),
                      "/-- the box repair is attempted whenever some direction is non-periodic, along every non-periodic axis -/",
                      "def repairGuardNotAll : Bool := " + b(r["repair_guard"]),
                      "def loopRemovesTested : Bool := " + b(r["loop"]),
                      "/-- the shared distance information is computed with the resolved clustering radii -/",
                      "def distancesUseRadii : Bool := " + b(r["dist_radii"]),
                      "def ctorKeywords : List (List String) := [" + ", ".join(q(k) for k in r["ctor"]) + "]",
                      "/-- every Cluster(...) gets `bond_threshold=bond_threshold` and `distances=distances`, and _merge_clusters is handed get_clusters' own values under the same names -/",
                      "def ctorForwardsByName : Bool := " + b(r["ctor_fwd"]),
                      "def sbcSelfFields : List String := " + q(r["sbc_fields"]),
                      "def sbcHasInit : Bool := " + b(r["sbc_init"]),
                      "def finderCondAssign : List String := " + q(r["finder_cond"]),
                      "end MatidGen.SbcRule", ""])
    old = open(out).read() if os.path.exists(out) else None
    if old != text:
        open(out, "w").write(text)
    return r


if __name__ == "__main__":
    print(generate())
