"""Run every translator.  Each writes its file only when the content changes; a translator is skipped when the
hash of its inputs (source files in /repo, the translator itself, library versions) is unchanged since the last
successful run, so every check can call `generate_all()` first and always sees generated Lean files that belong
to /repo's current working tree."""
import hashlib
import json
import os
import sys

sys.path.insert(0, os.path.dirname(os.path.abspath(__file__)))
REPO = os.environ.get("VERIF_REPO", "/repo")
VERIF = os.path.dirname(os.path.dirname(os.path.abspath(__file__)))
STAMP = os.path.join(VERIF, "build", "gen_stamp.json")

SPECS = {
    "radii": ("gen_radii", ["matid/geometry/geometry.py"], ["MatidGen/Radii.lean"]),
    "tables": ("gen_tables", ["matid/data/symmetry_data.py"], ["MatidGen/AllGroups.lean", "MatidGen/SG/G001.lean", "MatidGen/SG/G230.lean"]),
    "centring": ("gen_centring", ["matid/symmetry/symmetryanalyzer.py"], ["MatidGen/Centring.lean"]),
    "wyckoff_rule": ("gen_wyckoff_rule", ["matid/symmetry/symmetryanalyzer.py"], ["MatidGen/WyckoffRule.lean"]),
    "cluster_rule": ("gen_cluster_rule", ["matid"], ["MatidGen/ClusterRule.lean"]),
    "analyzer_rule": ("gen_analyzer_rule", ["matid/symmetry/symmetryanalyzer.py"], ["MatidGen/AnalyzerRule.lean"]),
    "sbc_rule": ("gen_sbc_rule", ["matid/clustering/sbc.py", "matid/core/periodicfinder.py"], ["MatidGen/SbcRule.lean"]),
    "classifier_rule": ("gen_classifier_rule", ["matid/classification/classifier.py"], ["MatidGen/ClassifierRule.lean"]),
    "proto_rule": ("gen_proto_rule", ["matid/core/periodicfinder.py"], ["MatidGen/ProtoRule.lean"]),
    "region_rule": ("gen_region_rule", ["matid/core/periodicfinder.py"], ["MatidGen/RegionRule.lean"]),
    "assemble_rule": ("gen_assemble_rule", ["matid/core/periodicfinder.py"], ["MatidGen/AssembleRule.lean"]),
    "dim_rule": ("gen_dim_rule", ["matid/geometry/geometry.py", "matid/clustering/sbc.py"], ["MatidGen/DimRule.lean"]),
}


def _digest(mod, sources):
    h = hashlib.sha256()
    for rel in sources:
        full = os.path.join(REPO, rel)
        if os.path.isdir(full):          # every python file below it (excluding the data tables, which hold no code)
            for root, _, files in sorted(os.walk(full)):
                for fn in sorted(files):
                    if fn.endswith(".py") and fn != "symmetry_data.py":
                        with open(os.path.join(root, fn), "rb") as f:
                            h.update(fn.encode() + f.read())
            continue
        with open(full, "rb") as f:
            h.update(f.read())
    for tool in (mod + ".py", "affine.py"):
        with open(os.path.join(VERIF, "tools", tool), "rb") as f:
            h.update(f.read())
    try:
        import spglib, ase
        h.update((spglib.__version__ + ase.__version__).encode())
    except Exception:
        pass
    return h.hexdigest()


def generate_all(only=None):
    """returns dict name -> error string for translators that failed"""
    try:
        stamp = json.load(open(STAMP))
    except Exception:
        stamp = {}
    errs = {}
    for name, (mod, sources, outputs) in SPECS.items():
        if only and name not in only:
            continue
        try:
            d = _digest(mod, sources)
        except Exception as e:  # noqa
            errs[name] = repr(e)
            continue
        if stamp.get(name) == d and all(os.path.exists(os.path.join(VERIF, "lean", o)) for o in outputs):
            continue
        try:
            m = __import__(mod)
            m.generate()
            stamp[name] = d
        except Exception as e:  # noqa
            stamp.pop(name, None)
            errs[name] = "%s: %s" % (type(e).__name__, e)
    os.makedirs(os.path.dirname(STAMP), exist_ok=True)
    json.dump(stamp, open(STAMP, "w"))
    return errs


if __name__ == "__main__":
    print(generate_all())
