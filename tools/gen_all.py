"""Run every translator (each is content-hash idempotent: files are rewritten only when they change)."""
import os, sys
sys.path.insert(0, os.path.dirname(os.path.abspath(__file__)))


def generate_all():
    errs = {}
    import gen_radii
    import gen_tables
    import gen_centring
    import gen_wyckoff_rule
    for name, fn in (("radii", gen_radii.generate), ("tables", gen_tables.generate), ("centring", gen_centring.generate),
                     ("wyckoff_rule", gen_wyckoff_rule.generate)):
        try:
            fn()
        except Exception as e:  # noqa
            errs[name] = repr(e)
            print("translator %s failed: %r" % (name, e))
    return errs


if __name__ == "__main__":
    generate_all()
