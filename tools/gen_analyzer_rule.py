"""Translator: cache discipline of matid.symmetry.symmetryanalyzer.SymmetryAnalyzer (AST) -> lean/MatidGen/AnalyzerRule.lean

 * cachedFields   : every attribute `self.X` that any method other than __init__/reset/set_system assigns
                    (these are the memoised results of the getters)
 * resetFields    : the attributes `reset()` sets to None
 * systemFields   : the attributes set_system assigns itself (recomputed on every set_system)
 * resetFirst     : set_system's first statement is an unconditional `self.reset()` (no path reaches the rest of the
                    body, or returns, without the caches being cleared)
 * initSetsSystem : __init__ ends by calling self.set_system(system)
 * readsGuarded   : every assignment to a cached field inside a getter happens under `if self.X is None:` or stores a value
                    computed in the same call (we only record the list; the freshness theorem needs cached ⊆ reset ∪ system)"""
import ast
import os

REPO = os.environ.get("VERIF_REPO", "/repo")
VERIF = os.path.dirname(os.path.dirname(os.path.abspath(__file__)))


class TranslationError(Exception):
    pass


def _self_targets(node):
    """names X of `self.X` assigned anywhere below node"""
    res = []

    def tgt(t):
        if isinstance(t, ast.Attribute) and isinstance(t.value, ast.Name) and t.value.id == "self":
            res.append(t.attr)
        elif isinstance(t, (ast.Tuple, ast.List)):
            for e in t.elts:
                tgt(e)
        elif isinstance(t, ast.Starred):
            tgt(t.value)
    for n in ast.walk(node):
        if isinstance(n, ast.Assign):
            for t in n.targets:
                tgt(t)
        elif isinstance(n, (ast.AugAssign, ast.AnnAssign)):
            tgt(n.target)
        elif isinstance(n, ast.NamedExpr):
            tgt(n.target)
        elif isinstance(n, ast.Call) and isinstance(n.func, ast.Name) and n.func.id == "setattr" and n.args \
                and isinstance(n.args[0], ast.Name) and n.args[0].id == "self":
            if len(n.args) > 1 and isinstance(n.args[1], ast.Constant):
                res.append(str(n.args[1].value))
            else:
                raise TranslationError("setattr(self, <dynamic>) cannot be translated")
        elif isinstance(n, ast.Attribute) and isinstance(n.value, ast.Name) and n.value.id == "self" and n.attr == "__dict__" \
                and isinstance(getattr(n, "ctx", None), ast.Store):
            raise TranslationError("assignment to self.__dict__")
    return res


def translate():
    path = os.path.join(REPO, "matid", "symmetry", "symmetryanalyzer.py")
    tree = ast.parse(open(path).read())
    cls = [n for n in tree.body if isinstance(n, ast.ClassDef) and n.name == "SymmetryAnalyzer"]
    if not cls:
        raise TranslationError("class SymmetryAnalyzer not found")
    cls = cls[0]
    fns = {n.name: n for n in cls.body if isinstance(n, ast.FunctionDef)}
    for need in ("__init__", "reset", "set_system"):
        if need not in fns:
            raise TranslationError(need + " not found")
    # class-level or module-level caches (functools caches, class attributes used as caches) are not modelled
    for n in ast.walk(cls):
        if isinstance(n, ast.FunctionDef):
            for d in n.decorator_list:
                s = ast.unparse(d)
                if "cache" in s or "lru" in s:
                    raise TranslationError("memoising decorator %s on %s" % (s, n.name))
    cached = []
    for name, fn in fns.items():
        if name in ("__init__", "reset", "set_system"):
            continue
        for x in _self_targets(fn):
            if x not in cached:
                cached.append(x)
    reset = []
    for st in fns["reset"].body:
        if isinstance(st, ast.Expr) and isinstance(st.value, ast.Constant):
            continue
        if isinstance(st, ast.Assign) and isinstance(st.value, ast.Constant) and st.value.value is None:
            for x in _self_targets(st):
                reset.append(x)
        else:
            raise TranslationError("reset() contains a statement other than `self.X = None`: " + ast.unparse(st)[:80])
    body = [st for st in fns["set_system"].body if not (isinstance(st, ast.Expr) and isinstance(st.value, ast.Constant))]
    reset_first = bool(body) and isinstance(body[0], ast.Expr) and ast.unparse(body[0]).replace(" ", "") == "self.reset()"
    system_fields = []
    for x in _self_targets(fns["set_system"]):
        if x not in system_fields:
            system_fields.append(x)
    init_body = fns["__init__"].body
    init_sets = bool(init_body) and ast.unparse(init_body[-1]).replace(" ", "") == "self.set_system(system)"
    init_fields = []
    for x in _self_targets(fns["__init__"]):
        if x not in init_fields:
            init_fields.append(x)
    # which memoised attributes each public getter can touch: own assignments + those of the self-methods it calls (closure)
    calls = {}
    for name, fn in fns.items():
        cs = set()
        for n in ast.walk(fn):
            if isinstance(n, ast.Call) and isinstance(n.func, ast.Attribute) and isinstance(n.func.value, ast.Name) \
                    and n.func.value.id == "self" and n.func.attr in fns:
                cs.add(n.func.attr)
        calls[name] = cs
    own = {name: set(_self_targets(fn)) for name, fn in fns.items()}

    def closure(name):
        seen, todo, acc = set(), [name], set()
        while todo:
            m = todo.pop()
            if m in seen or m in ("reset", "set_system", "__init__"):
                continue
            seen.add(m)
            acc |= own[m]
            todo.extend(calls[m])
        return sorted(acc)
    getters = {name: closure(name) for name in sorted(fns) if name.startswith("get_")}
    return {"getters": getters, "cached": sorted(cached), "reset": sorted(set(reset)), "system": sorted(system_fields), "init": sorted(init_fields),
            "reset_first": reset_first, "init_sets": init_sets}


def generate(out=None):
    out = out or os.path.join(VERIF, "lean", "MatidGen", "AnalyzerRule.lean")
    r = translate()
    q = lambda l: "[" + ", ".join('"%s"' % x for x in l) + "]"
    text = "\n".join(["-- GENERATED by tools/gen_analyzer_rule.py from matid/symmetry/symmetryanalyzer.py (class SymmetryAnalyzer); do not edit",
                      "namespace MatidGen.AnalyzerRule",
                      "/-- attributes assigned by methods other than __init__/reset/set_system (memoised results) -/",
                      "def cachedFields : List String := " + q(r["cached"]),
                      "/-- attributes reset() sets to None -/",
                      "def resetFields : List String := " + q(r["reset"]),
                      "/-- attributes set_system assigns itself -/",
                      "def systemFields : List String := " + q(r["system"]),
                      "/-- attributes assigned in __init__ -/",
                      "def initFields : List String := " + q(r["init"]),
                      "/-- set_system starts with an unconditional self.reset() -/",
                      "def resetFirst : Bool := " + ("true" if r["reset_first"] else "false"),
                      "/-- __init__ ends with self.set_system(system) -/",
                      "def initSetsSystem : Bool := " + ("true" if r["init_sets"] else "false"),
                      "/-- public getters and the memoised attributes they (transitively) assign -/",
                      "def getterFields : List (String × List String) := [" + ", ".join('("%s", %s)' % (g, q(fs)) for g, fs in r["getters"].items()) + "]",
                      "end MatidGen.AnalyzerRule", ""])
    old = open(out).read() if os.path.exists(out) else None
    if old != text:
        open(out, "w").write(text)
    return r


if __name__ == "__main__":
    print(generate())
