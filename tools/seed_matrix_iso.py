#!/usr/bin/env python3
"""Run every seeded change under /verif/seeded against the quick check of its property WITHOUT touching /repo or /verif:
each worker owns a scratch copy of /verif (with its Lean build) and a scratch git worktree of /repo's HEAD; the patch is applied
there and the check is run with VERIF_REPO pointing at it.  Results go to seeded/<id>/meta.json and seeded/MATRIX.md.
usage: seed_matrix_iso.py [label] [--workers N] [--tier quick] [ids…]"""
import json, os, re, shutil, subprocess, sys, time
from concurrent.futures import ThreadPoolExecutor

V = os.path.dirname(os.path.dirname(os.path.abspath(__file__)))
ROOT = os.environ.get("VM_ROOT", "/tmp/vm")
args = sys.argv[1:]
workers, tier = 4, "quick"
if "--workers" in args:
    i = args.index("--workers"); workers = int(args[i + 1]); del args[i:i + 2]
if "--tier" in args:
    i = args.index("--tier"); tier = args[i + 1]; del args[i:i + 2]
label = args[0] if args else "final"
only = set(args[1:])


def sh(cmd, **kw):
    return subprocess.run(cmd, shell=True, capture_output=True, text=True, **kw)


def setup(w):
    d = os.path.join(ROOT, "w%d" % w)
    if os.path.isdir(os.path.join(d, "repo")):
        sh("git -C /repo worktree remove --force %s/repo" % d)
    shutil.rmtree(d, ignore_errors=True)
    os.makedirs(d)
    r = sh("rsync -a --exclude .git --exclude replays /verif/ %s/verif/ && git -C /repo worktree add --detach %s/repo HEAD" % (d, d))
    if r.returncode != 0:
        raise RuntimeError(r.stderr)
    return d


def teardown(w):
    d = os.path.join(ROOT, "w%d" % w)
    sh("git -C /repo worktree remove --force %s/repo" % d)
    shutil.rmtree(d, ignore_errors=True)


def run_seed(d, sid):
    sd = os.path.join(V, "seeded", sid)
    meta = json.load(open(os.path.join(sd, "meta.json")))
    prop = meta["property"]
    repo, verif = os.path.join(d, "repo"), os.path.join(d, "verif")
    t = time.time()
    r = sh("git -C %s apply %s" % (repo, os.path.join(sd, "patch.diff")))
    if r.returncode != 0:
        return sid, prop, -1, "patch does not apply: " + r.stderr[:200], 0, meta
    env = dict(os.environ, VERIF_REPO=repo)
    try:
        r = subprocess.run(["./check", prop, "--tier", tier], cwd=verif, env=env, capture_output=True, text=True, timeout=7200)
        out, rc = r.stdout + r.stderr, r.returncode
    except subprocess.TimeoutExpired:
        out, rc = "timeout", 2
    finally:
        sh("git -C %s checkout -- ." % repo)
        subprocess.run(["/venv/bin/python", "-W", "ignore", "tools/gen_all.py"], cwd=verif, env=env, capture_output=True)
    vio = [l for l in out.split("\n") if l.startswith("VIOLATION")]
    open(os.path.join(ROOT, "log_%s.txt" % sid), "w").write(out)
    return sid, prop, rc, (vio[0] if vio else ""), round(time.time() - t, 1), meta


def worker(w, sids):
    d = setup(w)
    res = []
    try:
        for sid in sids:
            x = run_seed(d, sid)
            print(x[0], "exit=%d" % x[2], x[3][:110], x[4], flush=True)
            res.append(x)
    finally:
        teardown(w)
    return res


def main():
    sids = [s for s in sorted(os.listdir(os.path.join(V, "seeded")))
            if os.path.isfile(os.path.join(V, "seeded", s, "patch.diff")) and (not only or s in only)]
    os.makedirs(ROOT, exist_ok=True)
    # longest first would need timings; round-robin is good enough
    parts = [sids[i::workers] for i in range(workers)]
    with ThreadPoolExecutor(workers) as ex:
        results = [x for part in ex.map(lambda a: worker(*a), enumerate(parts)) for x in part]
    rows = []
    for sid, prop, rc, line, wall, meta in sorted(results):
        nfi = "no-failing-input-found" in line
        outcome = "MISSED" if rc == 0 else ("detected, failing input found" if rc == 1 and not nfi else
                                            "detected (broken proof/correspondence), no failing input found" if rc == 1 else "infrastructure failure: " + line)
        entry = {"when": label, "cmd": "tools/seed_matrix_iso.py: patch applied to a scratch worktree of /repo HEAD, VERIF_REPO=<worktree> ./check %s --tier %s in a scratch copy of /verif" % (prop, tier),
                 "exit": rc, "outcome": outcome, "wall_s": wall}
        meta.setdefault("check_runs", [])
        meta["check_runs"] = [e for e in meta["check_runs"] if e.get("when") != label] + [entry]
        json.dump(meta, open(os.path.join(V, "seeded", sid, "meta.json"), "w"), indent=1)
        rows.append((sid, prop, outcome, meta["summary"]))
    if not only:
        with open(os.path.join(V, "seeded", "MATRIX.md"), "w") as f:
            f.write("# Seeded changes vs the quick check of their property (%s run, tools/seed_matrix_iso.py)\n\n| id | property | outcome | change |\n|---|---|---|---|\n" % label)
            for sid, prop, outcome, summ in rows:
                f.write("| %s | %s | %s | %s |\n" % (sid, prop, outcome, summ.replace("|", "/")))
    print("missed:", [r[0] for r in rows if r[2] == "MISSED"], "infra:", [r[0] for r in rows if r[2].startswith("infra")])


if __name__ == "__main__":
    main()
