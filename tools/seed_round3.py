#!/usr/bin/env python3
"""Rounds 3+: confirm the candidates under $SEED_SRC/<ID>/mK (default /tmp/seedout3; SEED_TAG names the round, default r3) (tools/seed_confirm.sh, scratch worktree), save the confirmed ones
as /verif/seeded/<ID>-r3mK (patch.diff, demo.py, notes.md, meta.json) and add them to tools/seed_catalog.json.
usage: seed_round3.py [IDs…]   (then: tools/seed_matrix_iso.py <label> <new ids>)"""
import json, os, re, shutil, subprocess, sys
from concurrent.futures import ThreadPoolExecutor

V = os.path.dirname(os.path.dirname(os.path.abspath(__file__)))
SRC = os.environ.get("SEED_SRC", "/tmp/seedout3")
TAG = os.environ.get("SEED_TAG", "r3")
ids = sys.argv[1:] or sorted(d for d in os.listdir(SRC) if re.fullmatch(r"C\d\d", d))
cat_p = os.path.join(V, "tools", "seed_catalog.json")
cat = json.load(open(cat_p))


def first(lines, pat):
    for l in lines:
        if re.search(pat, l, re.I):
            return re.sub(r"[*`#]", "", l).strip()[:400]
    return ""


def confirm(job):
    pid, mk = job
    d = os.path.join(SRC, pid, mk)
    r = subprocess.run([os.path.join(V, "tools", "seed_confirm.sh"), d], capture_output=True, text=True)
    out = " ".join(r.stdout.strip().split("\n")[-2:])
    return pid, mk, out


jobs = [(pid, mk) for pid in ids for mk in ("m1", "m2") if os.path.isfile(os.path.join(SRC, pid, mk, "patch.diff"))
        and ("%s-%s%s" % (pid, TAG, mk)) not in cat]
new = []
with ThreadPoolExecutor(4) as ex:
    for pid, mk, out in ex.map(confirm, jobs):
        print(pid, mk, out, flush=True)
        if not out.endswith("CONFIRMED") or out.endswith("NOT-CONFIRMED"):
            continue
        sid = "%s-%s%s" % (pid, TAG, mk)
        d = os.path.join(SRC, pid, mk)
        notes = open(os.path.join(d, "notes.md")).read().split("\n") if os.path.exists(os.path.join(d, "notes.md")) else []
        title = re.sub(r"^[#\s]*", "", next((l for l in notes if l.strip()), sid)).strip()
        title = re.sub(r"^(%s\s*/\s*%s|%s|%s)\s*[—:-]*\s*" % (pid, mk, mk, pid), "", title, flags=re.I)[:300]
        needs = first(notes, r"need|trigger|manifest") or "see notes.md"
        cat[sid] = {"property": pid, "src": d, "summary": title, "needs": needs}
        dst = os.path.join(V, "seeded", sid)
        os.makedirs(dst, exist_ok=True)
        for f in ("patch.diff", "demo.py", "notes.md"):
            if os.path.exists(os.path.join(d, f)):
                shutil.copy(os.path.join(d, f), os.path.join(dst, f))
        meta = {"id": sid, "property": pid, "summary": title, "needs_to_manifest": needs,
                "touches_cpp": "+++ b/matid/ext/" in open(os.path.join(dst, "patch.diff")).read(),
                "confirmed_by": "tools/seed_confirm.sh in a scratch worktree of /repo HEAD: demo passes on the reference tree, patch applies, "
                                "pinned suite (110 tests) passes with the patch, demo fails with the patch",
                "confirmation": out, "check_runs": []}
        json.dump(meta, open(os.path.join(dst, "meta.json"), "w"), indent=1)
        new.append(sid)
json.dump(cat, open(cat_p, "w"), indent=1)
print("NEW", " ".join(new))
