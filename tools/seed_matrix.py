#!/usr/bin/env python3
"""Run every seeded change under /verif/seeded against the quick check of its property (apply to /repo, run, undo) and record the
outcome in seeded/<id>/meta.json and seeded/MATRIX.md.  /repo must be clean.  usage: seed_matrix.py [label] [ids…]"""
import json, os, re, subprocess, sys, time
V = os.path.dirname(os.path.dirname(os.path.abspath(__file__)))
label = sys.argv[1] if len(sys.argv) > 1 else "final"
only = set(sys.argv[2:])
rows = []
for sid in sorted(os.listdir(os.path.join(V, "seeded"))):
    d = os.path.join(V, "seeded", sid)
    if not os.path.isfile(os.path.join(d, "patch.diff")) or (only and sid not in only):
        continue
    meta = json.load(open(os.path.join(d, "meta.json")))
    prop = meta["property"]
    t = time.time()
    r = subprocess.run([os.path.join(V, "tools", "seed_run.sh"), os.path.join(d, "patch.diff"), prop], capture_output=True, text=True)
    line = (r.stdout.strip().split("\n") or [""])[-1]
    m = re.search(r"exit=(\d+)", line)
    rc = int(m.group(1)) if m else -1
    nfi = "no-failing-input-found" in line
    outcome = "MISSED" if rc == 0 else ("detected, failing input found" if rc == 1 and not nfi else "detected (broken proof/correspondence), no failing input found" if rc == 1 else "infrastructure failure")
    entry = {"when": label, "cmd": "tools/seed_run.sh seeded/%s/patch.diff %s" % (sid, prop), "exit": rc, "outcome": outcome, "wall_s": round(time.time() - t, 1)}
    meta.setdefault("check_runs", [])
    meta["check_runs"] = [e for e in meta["check_runs"] if e.get("when") != label] + [entry]
    json.dump(meta, open(os.path.join(d, "meta.json"), "w"), indent=1)
    rows.append((sid, prop, outcome, meta["summary"], entry["wall_s"]))
    print(sid, outcome, entry["wall_s"], flush=True)
with open(os.path.join(V, "seeded", "MATRIX.md"), "w") as f:
    f.write("# Seeded changes vs the quick check of their property (%s run)\n\n| id | property | outcome | change |\n|---|---|---|---|\n" % label)
    for sid, prop, outcome, summ, w in rows:
        f.write("| %s | %s | %s | %s |\n" % (sid, prop, outcome, summ.replace("|", "/")))
