"""Writes /verif/MANIFEST.json from the table below (one entry per claimed property)."""
import json, os
VERIF = os.path.dirname(os.path.dirname(os.path.abspath(__file__)))
STD_NOTE = "Trusted: Lean 4.33 kernel; axioms propext/Classical.choice/Quot.sound at most (audited by #print axioms on every run; no sorry/native_decide); "
CHECKS = {
 "C05": ("proof", "Lean 4: every transformation the ranking can select (identity or tabulated normalizer of any of the 230 groups) is proved to preserve all interatomic distances for every metric tensor of the crystal system, to map the space group onto itself and to be proper whenever the group is chiral (every_normalizer_is_admissible, from the kernel-checked tables); the selected index is always a candidate; wrapping moves atoms by lattice vectors (within the 1e-5 snap). Correspondence drives _find_wyckoff_ground_state directly; end-to-end crystals with an independent spglib run and a table-free handedness signature; directed search for selectable bad table entries.",
         STD_NOTE + "tools/gen_tables.py; contract S1 on spglib's standardisation is monitored, not proved; float rounding in the 4x4 application.",
         "Lean 4 proof (table theorems + isometry algebra) + correspondence", "DESIGN.md §6 C05"),
 "C06": ("proof", "Lean 4: the ranking loop is proved equal to a plain fold (early exit irrelevant), total (never empty, survivors have equal dictionaries: MatIDError unreachable), invariant under atom reordering, a function of the SET of candidate dictionaries (chosen_dictionary_setwise) and therefore invariant under relabelling by any tabulated normalizer for all 230 groups (select_normalizer_invariant, using the kernel-checked fact that the tabulated letter permutations form groups); the id string depends only on the multiset of set strings. Correspondence on the real ranking and id string; end-to-end pairs of descriptions incl. origin shifts.",
         STD_NOTE + "tools/gen_tables.py; contract S5 on spglib (equivalent descriptions standardise to normalizer-related structures) is sampled on pairs; completeness of the normalizer table is not provable without an independent reference; sha512 treated as a function.",
         "Lean 4 proof (invariance of the ranking) + correspondence", "DESIGN.md §6 C06"),
 "C07": ("proof", "Lean 4: the set assembly (np.unique + append loop) is proved to partition the atoms with one label per set, homogeneous under contract S2; orbit_transport: a normalizer maps G-invariant position sets onto G-invariant sets, and letters follow the tabulated permutation (from C14's kernel-checked tables: every tabulated position is one orbit). Correspondence on _get_wyckoff_sets; end-to-end: sets vs orbits under the operations an independent spglib run finds for the returned structure, letters vs spglib's assignment.",
         STD_NOTE + "tools/gen_tables.py; contract S2 on spglib's orbits/letters is monitored end to end, not proved.",
         "Lean 4 proof (partition + orbit transport) + correspondence", "DESIGN.md §6 C07"),
 "C08": ("proof", "Lean 4 model over Q of the parameter loop of _get_wyckoff_sets (reading rule and first tolerance translated from the AST): params_sound for every table/atoms/cell/tolerance (accepted parameters reproduce an atom and every e_k(W)+t_c is matched), repSolvable_all by kernel evaluation over all 1 731 positions with the rule the source uses now, wrap range, flag_iff. Correspondence: synthetic complete/displaced/incomplete orbits through the real _get_wyckoff_sets; end-to-end table-built crystals.",
         STD_NOTE + "translators gen_tables/gen_wyckoff_rule; completeness for exact orbits is covered by repSolvable_all + act_add_int + the correspondence on complete orbits, not by one end-to-end theorem; float evaluation away from tolerance boundaries.",
         "Lean 4 proof (model soundness + kernel-checked table predicate) + correspondence", "DESIGN.md §6 C08"),
 "C09": ("proof", "Lean 4: the covering-graph theorem (for a connected voltage graph over a finite abelian group A — any number of atoms and bonds — the derived graph has |A|/|H| components, H = closed-walk voltages; orbit-stabiliser on components) and its corollary for A = (Z/2)^k: N_2x = 2^(k-r), so D = k - log2 N_2x = r is the GF(2)-rank of the cycle offsets and lies in 0..k; log2 exact on the reachable values; the entry wrap puts atoms inside the cell (precondition of C10). Code-faithful executable model (1x/2x minimum-image tables, components) tied by correspondence; independent oracle (union-find over images with offsets, integer rank of the cycle lattice) and metamorphic presentations on the real code.",
         STD_NOTE + "Mathlib; model Dim.lean + gen_dim_rule.py; DBSCAN contract D1; the identification of the model's component count with the cardinality of the quotient in the covering theorem, and rank_F2 = rank_Z (required by the property for the explored family; counted when it fails), are not proved.",
         "Lean 4 proof (covering theorem via orbit-stabiliser) + correspondence + independent oracle", "DESIGN.md §6 C09"),
 "C10": ("proof", "Lean 4 model over Q of extend_system / CellList / get_displacement_tensor. Proved for ALL inputs: ceil(ext/h) from squares is the least n with n^2 >= ext^2/h^2; no image within the extension of a point of the cell needs more copies than are taken (extend_complete_axis: Cauchy-Schwarz with the reciprocal vector); the 27-bin search returns exactly the stored points within the cutoff (query_exact); every finite entry is a genuine image with exact displacement/distance and is the minimum over all images seen (pairEntry_sound / _is_min / _none_iff). Correspondence against the C++ rebuilt from /repo on dyadic inputs + brute-force lattice-sum oracle.",
         STD_NOTE + "hand-written model tied by differential testing; floating-point rounding inside ceil, sqrt and bin indices is outside the model (inputs are dyadic so that distance comparisons are exact).",
         "Lean 4 proof over an exact-arithmetic model + correspondence with the rebuilt C++", "DESIGN.md §6 C10"),
 "C12": ("proof", "Lean 4: the five centring matrices are translated from the AST of _get_primitive_system and proved (decide +kernel over all 230 groups) to be bases of Z^3 + the group's centring translations with determinant 1/m (primitivity, volume ratio for every cell by volume_ratio); np.unique first-index selection modelled and the (letter, element) count ratio proved for all lists by induction. Correspondence drives _get_primitive_system with synthetic systems; end-to-end crystals of every centring type with an independent spglib run on the primitive system.",
         STD_NOTE + "tools/gen_centring.py, tools/gen_tables.py; hypotheses S2/S3 about spglib's mappings (each primitive label exactly m times, equal label => equal class) are monitored end to end, not proved.",
         "Lean 4 proof (kernel-checked centring lattices + list induction) + correspondence", "DESIGN.md §6 C12"),
 "C14": ("proof", "All three tables are machine-translated into Lean on every run together with spglib's Hall database; each of the 1 731 Wyckoff positions and 879 normalizers is one kernel-evaluated theorem (decide +kernel) and soundness lemmas lift the Boolean checks to statements over all parameter values in Q^3 and all metric tensors of the lattice system. Monitors: labels of one crystal per group and spglib's letters for table-built probe crystals on the real code.",
         STD_NOTE + "tools/gen_tables.py as a copier (round-trip checked by DumpTables.lean), its certificates are untrusted; spglib's Hall database is the reference the property names; spec definitions in MatidModel/Table.lean.",
         "Lean 4 proof over translated tables (decide +kernel + soundness lemmas)", "DESIGN.md §6 C14"),
 "C15": ("proof", "Lean 4: the scan model isChiral on integer matrices, det multiplicativity and basis invariance (any invertible integer basis change, hence any rational one), and by kernel evaluation over the translated reference operations: no improper operation exactly for the 65 Sohncke types. Correspondence: synthetic spglib datasets for all 530 Hall numbers x random unimodular bases, the operations the code actually scans are recorded and fed to the model; end-to-end crystals with supercell/shear/rotation/permutation presentations.",
         STD_NOTE + "reference operations from spglib's Hall database; which operations the code scans is observed (np.linalg.det recorder), not proved; spglib's detection of the group is monitored end to end.",
         "Lean 4 proof + recorded-scan correspondence", "DESIGN.md §6 C15"),
 "C16": ("proof", "Lean 4 (same model as C10): the extended system lists exactly the images with |n_k| <= copies_k, each once, originals first, no offset on non-periodic axes (extended_entries / extended_contains_all / multipliers_once_originals_first), which by copies_suffice are all images within the extension of any point of the cell; query_exact: a query returns precisely the stored images with d^2 <= cutoff^2 with exact displacement; match_spec: vacancy iff nothing within tolerance, otherwise a nearest image. Correspondence on extend/query/match (degenerate cells for extend) + brute-force image enumeration.",
         STD_NOTE + "hand-written model tied by differential testing; float rounding in ceil/sqrt/bin index not modelled.",
         "Lean 4 proof over an exact-arithmetic model + correspondence with the rebuilt C++", "DESIGN.md §6 C16"),
 "C19": ("proof", "Lean 4 theorems over the preset definitions translated from get_radii's AST and ASE's tables (decide +kernel over Z=1..103 plus general lemmas for all tables); exhaustive correspondence model vs real function; consumer equality sampled.",
         STD_NOTE + "tools/gen_radii.py, IEEE comparison model R.ne/R.eq; consumer structure (callers use only get_radii's result) is sampled, not proved.",
         "Lean 4 proof over AST-translated model + exhaustive correspondence", "DESIGN.md §6 C19"),
 "C20": ("proof", "Lean 4 over Q (Cramer): to_scaled/to_cartesian are mutual inverses for every non-singular cell; wrapping changes periodic components by integers into [0,1); get_minimized_cell for every axis and scale: identical mutual displacements, only the chosen row changes and stays parallel, other fractional coordinates unchanged, atoms inside [0,1] and centred when padded, length^2 = s^2|c|^2; swap_basis; complete_cell orthogonality; periodic centre of mass through the circular sum (Mathlib complex exponential): rigid translation rotates the sum by 2 pi t, integer shifts leave every term unchanged; inertia tensor about the centre is translation invariant. Correspondence on dyadic inputs for scaled/cartesian/mincell/inertia; every clause also evaluated numerically.",
         STD_NOTE + "Mathlib; model Frame.lean; LAPACK solve/eigh and arctan2 are contracts (checked numerically at 1e-8); sqrt in the inflated case is a parameter s of the theorems.",
         "Lean 4 proof over an exact-arithmetic model + correspondence", "DESIGN.md §6 C20"),
}
NOT_BUILT = "check not built yet (work in progress, see DESIGN.md §11)"


def main():
    checks = []
    for pid in sorted(CHECKS):
        cat, text, note, tech, ref = CHECKS[pid]
        checks.append({"property_id": pid, "quick_cmd": "./check %s --tier quick" % pid, "thorough_cmd": "./check %s --tier thorough" % pid,
                       "evidence_file": "/verif/evidence/%s.json" % pid, "replay_cmd_template": "./check %s --replay {path}" % pid, "engine": "lean4",
                       "level_claimed": {"category": cat, "text": text, "design_ref": ref}, "level_note": note, "technique": tech})
    allp = ["C%02d" % i for i in range(1, 21)]
    m = {"version": 1, "setup_cmd": "cd /verif && ./setup.sh",
         "hooks": {"guard": "MATID_VERIF", "enable": "no source hooks are needed: the checks import /repo's working tree, rebuild matid/ext through /verif/shim and monkeypatch seams from outside",
                   "baseline_off_cmd": "cd /repo && /venv/bin/python -m pytest -ra -q -p no:cacheprovider --timeout=900 --continue-on-collection-errors", "source_commits": [], "add_only": True},
         "engines": [{"name": "lean4", "path": "/verif/lean", "serves_properties": sorted(CHECKS),
                      "kind_free_text": "Lean 4.33 project (model, generated tables, proofs, property theorems) + python correspondence harness (/verif/harness) + translators (/verif/tools)"}],
         "checks": checks,
         "notes": "Properties not yet claimed are listed under not_applicable with reason 'check not built yet'; the list shrinks as checks land.",
         "not_applicable": [{"property_id": p, "reason": NOT_BUILT} for p in allp if p not in CHECKS]}
    json.dump(m, open(os.path.join(VERIF, "MANIFEST.json"), "w"), indent=1)


if __name__ == "__main__":
    main()
