#!/bin/bash
# usage: seed_run.sh <patch.diff> <ID> [<ID> ...]   — apply a seeded change to /repo, run the quick checks, undo it straight afterwards.
# Prints one line per check: <ID> exit=<rc> <VIOLATION line if any>.  /repo must be clean before and is clean after.
set -u
P=$(readlink -f "$1"); shift
cd /verif
if [ -n "$(git -C /repo status --porcelain)" ]; then echo "/repo not clean"; exit 2; fi
git -C /repo apply "$P" || exit 2
trap 'git -C /repo checkout -- . ; /venv/bin/python -W ignore /verif/tools/gen_all.py > /dev/null' EXIT
for id in "$@"; do
  out=$(./check $id --tier ${TIER:-quick} 2>&1); rc=$?
  echo "$id exit=$rc $(echo "$out" | grep -m1 '^VIOLATION')"
  echo "$out" > /tmp/seedrun_$id.log
done
