#!/bin/bash
# usage: seed_confirm.sh <dir with patch.diff demo.py> [cpp]
# Confirms a seeded change in a fresh scratch worktree of /repo (outside /repo and /verif):
#   (a) demo passes on the reference tree, (b) patch applies, (c) pinned suite passes with the patch, (d) demo fails with it.
# If the patch touches matid/ext/*.cpp the C++ is rebuilt through the ctypes shim (VERIF_EXTTOOL, default /tmp/exttool).
set -u
D=$(readlink -f "$1"); WT=$(mktemp -d /tmp/seedwt.XXXXXX); rmdir $WT
TOOL=${VERIF_EXTTOOL:-/tmp/exttool}; [ -f $TOOL/extshim.py ] || "$(dirname "$0")/mk_exttool.sh" $TOOL >/dev/null
git -C /repo worktree add -q --detach $WT HEAD || exit 2
cp /repo/matid/ext.cpython-312-x86_64-linux-gnu.so $WT/matid/ 2>/dev/null
cleanup(){ git -C /repo worktree remove --force $WT; }
trap cleanup EXIT
CPP=0; grep -q '^+++ b/matid/ext/' $D/patch.diff && CPP=1
export MATID_WT=$WT
run_demo(){ (cd $WT && PYTHONPATH=$TOOL:$WT timeout 600 /venv/bin/python -W ignore $D/demo.py > $D/$1.out 2>&1; echo $?); }
a=$(run_demo demo_ref)
git -C $WT apply $D/patch.diff; b=$?
if [ $CPP = 1 ]; then
  (cd $WT && PYTHONPATH=$TOOL:$WT timeout 1800 /venv/bin/python -m pytest -p conftest_plugin -q -p no:cacheprovider --timeout=900 > $D/suite.out 2>&1); c=$?
else
  (cd $WT && PYTHONPATH=$WT timeout 1800 /venv/bin/python -m pytest -q -p no:cacheprovider --timeout=900 > $D/suite.out 2>&1); c=$?
fi
d=$(run_demo demo_mut)
echo "demo_ref_exit=$a patch_apply=$b suite_exit=$c ($(tail -1 $D/suite.out)) demo_mut_exit=$d cpp=$CPP"
[ "$a" = 0 ] && [ $b = 0 ] && [ $c = 0 ] && [ "$d" != 0 ] && echo CONFIRMED || echo NOT-CONFIRMED
