"""Translator: structural facts of the region tracking of PeriodicFinder (AST of matid/core/periodicfinder.py)
 -> lean/MatidGen/RegionRule.lean

 * the search directions multipliers_3d / multipliers_2d: the module-level statements that define them are extracted from the AST and
   evaluated (they only use numpy and itertools);
 * the early-return tests on searched_cell_indices / used_points and that the tested value is recorded otherwise;
 * the guards `seed_index is not None` and `if match:` (kind of test: identity with None, or truth value);
 * `index_cell_map[match] = target_cell` in the else-branch of `if match in index_cell_map`;
 * the filter of already searched target cells; the used_indices test on matched seeds."""
import ast
import os

REPO = os.environ.get("VERIF_REPO", "/repo")
VERIF = os.path.dirname(os.path.dirname(os.path.abspath(__file__)))


class TranslationError(Exception):
    pass


def _src(n):
    return ast.unparse(n).replace(" ", "").replace("\n", ";")


def _guard_kind(test, name):
    """True: `<name> is not None`; False: truth value of <name>; None: something else"""
    if isinstance(test, ast.Compare) and len(test.ops) == 1 and isinstance(test.ops[0], ast.IsNot) and isinstance(test.left, ast.Name) \
            and test.left.id == name and isinstance(test.comparators[0], ast.Constant) and test.comparators[0].value is None:
        return True
    if isinstance(test, ast.Name) and test.id == name:
        return False
    return None


def translate():
    text = open(os.path.join(REPO, "matid", "core", "periodicfinder.py")).read()
    tree = ast.parse(text)
    # --- multipliers: evaluate the module-level statements that mention them
    stmts = [n for n in tree.body if isinstance(n, (ast.Assign, ast.AugAssign)) and "multipliers_" in ast.unparse(n)]
    if not stmts:
        raise TranslationError("module-level multipliers not found")
    import itertools
    import numpy as np
    ns = {"np": np, "itertools": itertools}
    try:
        exec(compile(ast.Module(body=stmts, type_ignores=[]), "<multipliers>", "exec"), ns)
        m3 = [tuple(int(x) for x in row) for row in ns["multipliers_3d"]]
        m2 = [tuple(int(x) for x in row) for row in ns["multipliers_2d"]]
    except Exception as e:  # noqa
        raise TranslationError("cannot evaluate the multipliers: %r" % (e,))
    if any(len(r) != 3 for r in m3 + m2):
        raise TranslationError("multipliers are not rows of three integers")
    cls = [n for n in tree.body if isinstance(n, ast.ClassDef) and n.name == "PeriodicFinder"]
    if not cls:
        raise TranslationError("class PeriodicFinder not found")
    fns = {n.name: n for n in cls[0].body if isinstance(n, ast.FunctionDef)}
    for need in ("_find_periodic_region", "_find_region_rec", "_find_new_seeds_and_cell", "_get_multipliers"):
        if need not in fns:
            raise TranslationError(need + " not found")
    gm = _src(fns["_get_multipliers"])
    if not ("ifn_periodic_dim==3:;multipliers=multipliers_3d" in gm and "ifn_periodic_dim==2:;multipliers=multipliers_2d" in gm):
        raise TranslationError("_get_multipliers has an unknown shape")
    rec, new = fns["_find_region_rec"], fns["_find_new_seeds_and_cell"]
    # --- early return on searched cells: first statement (after the docstring) of _find_region_rec
    body = [s for s in rec.body if not (isinstance(s, ast.Expr) and isinstance(getattr(s, "value", None), ast.Constant))]
    first = _src(body[0]) if body else ""
    checks_searched = first.startswith("iftuple(cell_index)insearched_cell_indices:;return;else:;searched_cell_indices.add(tuple(cell_index))")
    # --- early return on used points
    checks_used_points = False
    for s in new.body:
        if isinstance(s, ast.If) and _src(s.test) == "seed_indexinused_points":
            ok_ret = len(s.body) == 1 and isinstance(s.body[0], ast.Return)
            ok_add = any(_src(x) == "used_points.add(seed_index)" for x in s.orelse)
            checks_used_points = ok_ret and ok_add
    # --- guards
    seed_guard = None
    disp_guard = None
    icm_set = False
    skips_used = False
    for n in ast.walk(new):
        if isinstance(n, ast.If):
            k = _guard_kind(n.test, "seed_index")
            if k is not None and any("get_matches_simple" in _src(x) for x in n.body):
                seed_guard = k
            k = _guard_kind(n.test, "match")
            if k is not None and any(_src(x).startswith("i_basis-=") for x in n.body):
                disp_guard = k
            if _src(n.test) == "matchinindex_cell_map":
                icm_set = any(_src(x) == "index_cell_map[match]=target_cell" for x in n.orelse) and \
                    any(_src(x) == "target_cell=cell_index+multiplier" for x in n.orelse) and \
                    any(_src(x) == "target_cell=index_cell_map[match]" for x in n.body)
            if _src(n.test) == "matchinused_indices":
                skips_used = any(_src(x) == "add=False" for x in n.body)
    if seed_guard is None:
        raise TranslationError("guard of the seed extension not recognised")
    if disp_guard is None:
        raise TranslationError("guard of the displacement correction not recognised")
    s_new = _src(new)
    skips_used = skips_used and "ifadd:;new_seed_indices.append(match);new_seed_pos.append(i_seed_pos);new_cell_indices.append(test_cell_index);ifmatchisnotNone:;used_indices.add(match)" in s_new
    filters = "iftuple(cell_ind)insearched_cell_indices:;continue;valid_multipliers.append(i_cell_ind)" in s_new and \
        "multipliers=multipliers[valid_multipliers];dislocations=dislocations[valid_multipliers];test_cell_indices=test_cell_indices[valid_multipliers]" in s_new
    return {"mult3": m3, "mult2": m2, "checksSearched": checks_searched, "checksUsedPoints": checks_used_points, "seedGuardNotNone": seed_guard,
            "dispGuardNotNone": disp_guard, "icmSetWhenAbsent": icm_set, "filtersSearched": filters, "skipsUsedSeeds": skips_used}


def _b(x):
    return "true" if x else "false"


def generate(out=None):
    out = out or os.path.join(VERIF, "lean", "MatidGen", "RegionRule.lean")
    r = translate()
    ci = lambda rows: "[" + ", ".join("(%d, %d, %d)" % t for t in rows) + "]"
    text = "\n".join(["-- GENERATED by tools/gen_region_rule.py from matid/core/periodicfinder.py (region tracking); do not edit",
                      "import MatidModel.Region",
                      "namespace MatidGen.RegionRule",
                      "def rule : Matid.Region.Rule :=",
                      "  { mult3 := %s," % ci(r["mult3"]),
                      "    mult2 := %s," % ci(r["mult2"]),
                      "    checksSearched := %s, checksUsedPoints := %s, seedGuardNotNone := %s, dispGuardNotNone := %s," % (
                          _b(r["checksSearched"]), _b(r["checksUsedPoints"]), _b(r["seedGuardNotNone"]), _b(r["dispGuardNotNone"])),
                      "    icmSetWhenAbsent := %s, filtersSearched := %s, skipsUsedSeeds := %s }" % (
                          _b(r["icmSetWhenAbsent"]), _b(r["filtersSearched"]), _b(r["skipsUsedSeeds"])),
                      "end MatidGen.RegionRule", ""])
    old = open(out).read() if os.path.exists(out) else None
    if old != text:
        open(out, "w").write(text)
    return r


if __name__ == "__main__":
    print(generate())
