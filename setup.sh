#!/bin/bash
# Build everything the checks need from files on disk only (offline):
#  - the C++ geometry kernel of /repo through the pybind11 stand-in (ctypes library)
#  - the generated Lean sources (translators) and the whole Lean project + driver
set -e
cd "$(dirname "$0")"
mkdir -p build evidence replays
/venv/bin/python -W ignore harness/setup_all.py
