// Minimal stand-in for <pybind11/numpy.h>, sufficient to compile
// matid/ext/geometry.cpp and matid/ext/celllist.cpp UNCHANGED into a plain
// shared library (the sandbox has no pybind11 headers).  Only the members the
// two translation units use are provided: array_t<T>, unchecked<N>(),
// mutable_unchecked<N>(), shape(i), size().
#ifndef VERIF_PYBIND11_NUMPY_SHIM_H
#define VERIF_PYBIND11_NUMPY_SHIM_H
#include <memory>
#include <vector>
#include <initializer_list>
#include <unordered_map>
#include <tuple>
#include <algorithm>
#include <cmath>
#include <cstddef>
#include <stdexcept>
namespace pybind11 {
typedef long ssize_t;
template <typename T, int N> struct uref {
    T* p; ssize_t s[3];
    uref(T* p_, const std::vector<ssize_t>& shp) : p(p_) { s[0]=s[1]=s[2]=1; for (int i=0;i<N && i<(int)shp.size();++i) s[i]=shp[i]; }
    T& operator()(ssize_t i) const { return p[i]; }
    T& operator()(ssize_t i, ssize_t j) const { return p[i*s[1]+j]; }
    T& operator()(ssize_t i, ssize_t j, ssize_t k) const { return p[(i*s[1]+j)*s[2]+k]; }
    ssize_t shape(int i) const { return s[i]; }
};
template <typename T> class array_t {
  public:
    std::shared_ptr<T> buf; std::vector<ssize_t> shp; T* ext;
    array_t() : ext(nullptr) {}
    template <typename I> array_t(std::initializer_list<I> s) : ext(nullptr) {
        ssize_t n = 1; for (auto x : s) { shp.push_back((ssize_t)x); n *= (ssize_t)x; }
        buf = std::shared_ptr<T>(new T[n > 0 ? n : 1], std::default_delete<T[]>());
    }
    // view on caller-owned memory (used by the C wrapper only)
    array_t(T* data, std::vector<ssize_t> s) : shp(s), ext(data) {}
    T* data() const { return ext ? ext : buf.get(); }
    template <int N> uref<T, N> unchecked() const { return uref<T, N>(data(), shp); }
    template <int N> uref<T, N> mutable_unchecked() { return uref<T, N>(data(), shp); }
    ssize_t shape(int i) const { return shp[i]; }
    ssize_t size() const { ssize_t n = 1; for (auto x : shp) n *= x; return n; }
};
}
#endif
