// C ABI around the unchanged matid/ext sources (compiled from /repo's working tree).
#include "geometry.h"
#include "celllist.h"
#include <cstring>
namespace py = pybind11;
using namespace std;
typedef py::ssize_t ss;
extern "C" {
struct ExtH { ExtendedSystem s; };
// returns NULL and sets *err=1 on invalid_argument
void* vx_extend(double* pos, int* num, int n, double* cell, bool* pbc, double cutoff, int* err) {
    *err = 0;
    try {
        py::array_t<double> p(pos, {n, 3}); py::array_t<int> z(num, {n});
        py::array_t<double> c(cell, {3, 3}); py::array_t<bool> b(pbc, {3});
        ExtH* h = new ExtH{extend_system(p, z, c, b, cutoff)};
        return h;
    } catch (const invalid_argument&) { *err = 1; return nullptr; }
      catch (...) { *err = 2; return nullptr; }
}
int vx_ext_n(void* h) { return (int)((ExtH*)h)->s.indices.size(); }
void vx_ext_get(void* h, double* pos, int* num, int* idx, double* fac) {
    ExtendedSystem& s = ((ExtH*)h)->s; ss n = s.indices.size();
    memcpy(pos, s.positions.data(), sizeof(double)*3*n);
    memcpy(num, s.atomic_numbers.data(), sizeof(int)*n);
    memcpy(idx, s.indices.data(), sizeof(int)*n);
    memcpy(fac, s.factors.data(), sizeof(double)*3*n);
}
void vx_ext_free(void* h) { delete (ExtH*)h; }

void* vx_celllist(double* pos, int n, double* cell, bool* pbc, double extension, double cutoff, int* err) {
    *err = 0;
    try {
        py::array_t<double> p(pos, {n, 3});
        py::array_t<double> c(cell, {3, 3}); py::array_t<bool> b(pbc, {3});
        return new CellList(get_cell_list(p, c, b, extension, cutoff));
    } catch (const invalid_argument&) { *err = 1; return nullptr; }
      catch (...) { *err = 2; return nullptr; }
}
void* vx_celllist_raw(double* pos, int* idx, double* fac, int n, double cutoff, int* err) {
    *err = 0;
    try {
        py::array_t<double> p(pos, {n, 3}); py::array_t<int> i(idx, {n}); py::array_t<double> f(fac, {n, 3});
        return new CellList(p, i, f, cutoff);
    } catch (const invalid_argument&) { *err = 1; return nullptr; }
      catch (...) { *err = 2; return nullptr; }
}
void vx_celllist_free(void* h) { delete (CellList*)h; }
void* vx_query(void* h, double x, double y, double z) {
    return new CellListResult(((CellList*)h)->get_neighbours_for_position(x, y, z));
}
void* vx_query_index(void* h, int i) {
    return new CellListResult(((CellList*)h)->get_neighbours_for_index(i));
}
int vx_res_n(void* r) { return (int)((CellListResult*)r)->indices.size(); }
void vx_res_get(void* r, int* idx, int* idx_orig, double* dist, double* dist2, double* disp, double* fac) {
    CellListResult& s = *(CellListResult*)r; size_t n = s.indices.size();
    for (size_t i = 0; i < n; ++i) {
        idx[i] = s.indices[i]; idx_orig[i] = s.indices_original[i];
        dist[i] = s.distances[i]; dist2[i] = s.distances_squared[i];
        for (int k = 0; k < 3; ++k) { disp[3*i+k] = s.displacements[i][k]; fac[3*i+k] = s.factors[i][k]; }
    }
}
void vx_res_free(void* r) { delete (CellListResult*)r; }
int vx_disp(double* disp, double* dist, double* fac, double* pos, int n, double* cell, bool* pbc,
            double cutoff, bool rf, bool rd) {
    try {
        py::array_t<double> D(disp, {n, n, 3}); py::array_t<double> M(dist, {n, n}); py::array_t<double> F(fac, {n, n, 3});
        py::array_t<double> p(pos, {n, 3}); py::array_t<double> c(cell, {3, 3}); py::array_t<bool> b(pbc, {3});
        get_displacement_tensor(D, M, F, p, c, b, cutoff, rf, rd);
        return 0;
    } catch (const invalid_argument&) { return 1; }
      catch (...) { return 2; }
}
}
