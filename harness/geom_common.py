"""Generators, formatting and brute-force oracles for the geometry-kernel properties (C09, C10, C16, C20).

All inputs live on dyadic grids (multiples of 1/64 with < 2^12 steps), so that every double is an exact rational
for the Lean model and sums/products/squared distances are exact in binary64: comparisons such as d² ≤ cutoff²
are the same decision on both sides."""
import itertools
from fractions import Fraction

import numpy as np

G = 64.0


def fs(x):
    f = Fraction(float(x))
    return "%d/%d" % (f.numerator, f.denominator) if f.denominator != 1 else str(f.numerator)


def fmt_vecs(a):
    return ",".join(fs(v) for v in np.asarray(a, dtype=float).flatten()) or "-"


def fmt_pbc(p):
    return "".join("1" if b else "0" for b in p)


def dy(x):
    return np.round(np.asarray(x, dtype=float) * G) / G


def rand_unimodular(rng, k=3, maxent=2):
    M = np.eye(3, dtype=int)
    for _ in range(k):
        i, j = rng.choice(3, 2, replace=False)
        E = np.eye(3, dtype=int)
        E[i, j] = int(rng.integers(-maxent, maxent + 1))
        M = E @ M
    return M


def rand_cell(rng, kind=None):
    """returns (cell, kind); all entries dyadic"""
    kinds = ["orthogonal", "triclinic", "sheared", "needle", "plate", "rotated", "leaning"]
    kind = kind or kinds[int(rng.integers(0, len(kinds)))]
    L = rng.uniform(1.0, 6.0, 3)
    if kind == "orthogonal":
        cell = np.diag(L)
    elif kind == "triclinic":
        cell = np.diag(L) + rng.uniform(-0.4, 0.4, (3, 3)) * L.min()
    elif kind == "sheared":
        cell = rand_unimodular(rng) @ (np.diag(L) + rng.uniform(-0.2, 0.2, (3, 3)))
    elif kind == "needle":
        cell = np.diag([rng.uniform(0.6, 1.2), rng.uniform(0.6, 1.2), rng.uniform(6, 12)]) + rng.uniform(-0.1, 0.1, (3, 3))
        cell = cell[rng.permutation(3)]
    elif kind == "plate":
        cell = np.diag([rng.uniform(5, 10), rng.uniform(5, 10), rng.uniform(0.6, 1.2)]) + rng.uniform(-0.1, 0.1, (3, 3))
        cell = cell[rng.permutation(3)]
    elif kind == "leaning":
        # a short vector p and a long vector that leans along it (k·p + something perpendicular): with p periodic and the long
        # vector not, atoms of the cell are many periods of p apart
        p_ = np.zeros(3)
        p_[0] = rng.uniform(1.0, 3.0)
        k = rng.integers(2, 9)
        long_ = k * p_ + np.array([0.0, rng.uniform(3.0, 8.0), 0.0])
        third = np.array([rng.uniform(-1, 1), rng.uniform(-1, 1), rng.uniform(2.0, 6.0)])
        cell = np.array([p_, long_, third])[rng.permutation(3)]
    else:
        q = rng.normal(size=4)
        q /= np.linalg.norm(q)
        a, b, c, d = q
        R = np.array([[a * a + b * b - c * c - d * d, 2 * (b * c - a * d), 2 * (b * d + a * c)],
                      [2 * (b * c + a * d), a * a - b * b + c * c - d * d, 2 * (c * d - a * b)],
                      [2 * (b * d - a * c), 2 * (c * d + a * b), a * a - b * b - c * c + d * d]])
        cell = (np.diag(L) + rng.uniform(-0.3, 0.3, (3, 3))) @ R.T
    cell = dy(cell)
    if abs(np.linalg.det(cell)) < 0.05:
        return rand_cell(rng, "orthogonal")
    return cell, kind


def rand_positions_inside(rng, cell, n):
    """positions whose fractional coordinates are in [0,1): built from dyadic fractions of a dyadic cell (exact)"""
    f = rng.integers(0, 32, (n, 3)) / 32.0
    return f @ cell, f


def heights(cell):
    """perpendicular heights of a non-singular cell"""
    vol = abs(np.linalg.det(cell))
    return np.array([vol / np.linalg.norm(np.cross(cell[(i + 1) % 3], cell[(i + 2) % 3])) for i in range(3)])


def image_range(cell, pbc, reach):
    """integer ranges that certainly contain every lattice vector n·cell (n = 0 on non-periodic axes) with
    |n·cell + d| ≤ reach for |d| ≤ cell diagonal"""
    h = heights(cell)
    diag = np.abs(cell).sum()
    K = [int(np.ceil((reach + diag) / h[i])) + 1 if pbc[i] else 0 for i in range(3)]
    return [range(-k, k + 1) for k in K]


def brute_images(cell, pbc, reach):
    rs = image_range(cell, pbc, reach)
    ns = np.array(list(itertools.product(*rs)), dtype=float)
    return ns, ns @ cell


def true_mic2(pos, cell, pbc, reach):
    """matrix of squared minimum-image distances by brute force (exact for dyadic inputs) and one minimising factor set"""
    ns, shifts = brute_images(cell, pbc, reach)
    n = len(pos)
    d2 = np.zeros((n, n))
    for i in range(n):
        for j in range(n):
            v = pos[i] - pos[j] - shifts          # r_i - (r_j + n·cell)
            d2[i, j] = (v * v).sum(axis=1).min()
    return d2


def images_within(cell, pbc, d, R):
    """all integer vectors n (zero on non-periodic axes) with |d - n·cell| <= R, via a Minkowski-reduced basis
    (the enumeration box of the reduced basis is small even for strongly sheared cells).  Returns (ns, d - n·cell)."""
    from ase.geometry.minkowski_reduction import minkowski_reduce
    cell = np.asarray(cell, dtype=float)
    pbc = [bool(b) for b in pbc]
    if not any(pbc):
        v = np.asarray(d, dtype=float)[None, :]
        return (np.zeros((1, 3), dtype=int), v) if (v * v).sum() <= R * R + 1e-12 else (np.zeros((0, 3), dtype=int), np.zeros((0, 3)))
    full = cell.copy()
    # complete zero rows so that the cell is invertible (they are never used: multiplier 0)
    if abs(np.linalg.det(full)) < 1e-12:
        from ase.geometry.cell import complete_cell
        full = complete_cell(full)
    rcell, op = minkowski_reduce(full, pbc)
    inv = np.linalg.inv(rcell)
    f = np.asarray(d, dtype=float) @ inv
    vol = abs(np.linalg.det(rcell))
    h = np.array([vol / np.linalg.norm(np.cross(rcell[(i + 1) % 3], rcell[(i + 2) % 3])) for i in range(3)])
    rng = []
    for i in range(3):
        if pbc[i]:
            rng.append(range(int(np.floor(f[i] - R / h[i])) - 1, int(np.ceil(f[i] + R / h[i])) + 2))
        else:
            rng.append(range(0, 1))
    ms = np.array(list(itertools.product(*rng)), dtype=float)
    ns = np.rint(ms @ op).astype(int)
    vec = np.asarray(d, dtype=float) - ns @ cell
    keep = (vec * vec).sum(axis=1) <= R * R + 1e-12
    return ns[keep], vec[keep]
