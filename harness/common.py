"""Shared plumbing of the checks: Lean build / audit, driver, evidence, replays, known findings."""
import hashlib
import json
import os
import re
import subprocess
import sys
import time

VERIF = os.path.dirname(os.path.dirname(os.path.abspath(__file__)))
REPO = os.environ.get("VERIF_REPO", "/repo")
LEAN = os.path.join(VERIF, "lean")
ALLOWED_AXIOMS = {"propext", "Classical.choice", "Quot.sound"}
FORBIDDEN = re.compile(r"\b(sorry|admit|native_decide|bv_decide|implemented_by|unsafe |maxHeartbeats 0)\b|^axiom ", re.M)

sys.path.insert(0, os.path.join(VERIF, "harness"))
sys.path.insert(0, os.path.join(VERIF, "tools"))
sys.path.insert(0, VERIF)


def sh(cmd, cwd=None, timeout=None, env=None, input=None):
    e = dict(os.environ)
    if env:
        e.update(env)
    r = subprocess.run(cmd, cwd=cwd, capture_output=True, text=True, timeout=timeout, env=e, input=input)
    return r.returncode, r.stdout + r.stderr


class Finding:
    def __init__(self, key, what, replay, found_input):
        self.key = key            # stable identifier used by known_findings.json
        self.what = what
        self.replay = replay      # dict written to the replay file
        self.found_input = found_input


class Ctx:
    def __init__(self, prop, tier, seed):
        self.prop = prop
        self.tier = tier
        self.seed = seed
        self.t0 = time.time()
        self.findings = []
        self.notes = []
        self.coverage = {}
        self.assumptions = []
        self.obligations = []     # (name, ok)
        self.samples = []
        self.evaluations = 0
        self.nontrivial_keys = set()
        self.dist = {}

    # ---- bookkeeping -------------------------------------------------
    def thorough(self):
        return self.tier == "thorough"

    def n(self, quick, thorough):
        return thorough if self.tier == "thorough" else quick

    def count(self, key, k=1):
        self.dist[key] = self.dist.get(key, 0) + k

    def case(self, canonical, nontrivial=True, sample=None):
        """register one explored case; `canonical` is hashed for distinctness"""
        self.evaluations += 1
        if nontrivial:
            self.nontrivial_keys.add(hashlib.sha1(repr(canonical).encode()).hexdigest()[:16])
        if sample is not None and len(self.samples) < 6:
            self.samples.append(sample)

    def note(self, s):
        self.notes.append(s)
        print("note:", s, flush=True)

    def finding(self, key, what, replay, found_input=True):
        self.findings.append(Finding(key, what, replay, found_input))

    def unknown_findings(self):
        """findings that are not listed in known_findings.json (a listed finding must not hide a broken proof or correspondence)"""
        known = {(k["property"], k["key"]) for k in known_findings().get("known", [])}
        return [f for f in self.findings if (self.prop, f.key) not in known]

    def elapsed(self):
        return time.time() - self.t0


# ---- Lean ----------------------------------------------------------------

def lake_build(targets, timeout=3600):
    """returns (ok, log).  Targets are module or library names."""
    rc, out = sh(["lake", "build"] + list(targets), cwd=LEAN, timeout=timeout, env={"LEAN_NUM_THREADS": str(os.cpu_count() or 4)})
    return rc == 0, out


def failing_theorems(log):
    """Map `error: File.lean:LINE:COL` lines of a lake log to the enclosing declaration names."""
    res = []
    for m in re.finditer(r"error: (?:\./)?([\w/\.]+\.lean):(\d+):(\d+): (.*)", log):
        path, line, msg = m.group(1), int(m.group(2)), m.group(4)
        name = None
        full = os.path.join(LEAN, path)
        if os.path.exists(full):
            src = open(full).read().split("\n")
            for i in range(min(line, len(src)) - 1, -1, -1):
                mm = re.match(r"\s*(?:private |protected )?(?:theorem|lemma|def|example|instance|abbrev)\s+([\w\.']+)?", src[i])
                if mm:
                    name = mm.group(1) or "example@%d" % (i + 1)
                    break
        res.append({"file": path, "line": line, "decl": name, "message": msg[:300]})
    return res


def audit_axioms(imports, theorems, timeout=1800):
    """#print axioms for every theorem; returns dict name -> list of axioms (or None if unknown/missing)."""
    src = "\n".join("import " + i for i in imports) + "\n" + "\n".join("#print axioms " + t for t in theorems) + "\n"
    work = os.path.join(VERIF, "build")
    os.makedirs(work, exist_ok=True)
    path = os.path.join(work, "audit_%d.lean" % os.getpid())
    with open(path, "w") as f:
        f.write(src)
    try:
        rc, out = sh(["lake", "env", "lean", path], cwd=LEAN, timeout=timeout)
    finally:
        try:
            os.remove(path)
        except OSError:
            pass
    res = {t: None for t in theorems}
    for m in re.finditer(r"'([^']+)' depends on axioms: \[([^\]]*)\]", out):
        res[m.group(1)] = [a.strip() for a in m.group(2).replace("\n", " ").split(",") if a.strip()]
    for m in re.finditer(r"'([^']+)' does not depend on any axioms", out):
        res[m.group(1)] = []
    return res, out


def grep_forbidden(rel_files):
    """scan Lean sources for sorry/admit/axiom/native_decide… outside comments"""
    hits = []
    for rel in rel_files:
        p = os.path.join(LEAN, rel)
        if not os.path.exists(p):
            continue
        txt = open(p).read()
        txt = re.sub(r"/-.*?-/", lambda m: "\n" * m.group(0).count("\n"), txt, flags=re.S)
        txt = re.sub(r"--[^\n]*", "", txt)
        for m in FORBIDDEN.finditer(txt):
            hits.append("%s:%d:%s" % (rel, txt.count("\n", 0, m.start()) + 1, m.group(0).strip()))
    return hits


def lean_files(subdirs=("MatidModel", "MatidProofs", "MatidProps")):
    res = []
    for d in subdirs:
        for root, _, files in os.walk(os.path.join(LEAN, d)):
            for f in files:
                if f.endswith(".lean"):
                    res.append(os.path.relpath(os.path.join(root, f), LEAN))
    return sorted(res)


def prove(ctx, module, theorems, extra_imports=(), gen_targets=()):
    """Build `module`, audit the axioms of `theorems` (fully qualified).  Registers obligations.
    Returns (ok, info) where info names what broke."""
    info = {"module": module}
    t = time.time()
    ok, log = lake_build(list(gen_targets) + [module])
    info["build_s"] = round(time.time() - t, 1)
    if not ok:
        info["failing"] = failing_theorems(log)
        info["log_tail"] = log[-3000:]
        for th in theorems:
            ctx.obligations.append((th, False))
        return False, info
    hits = grep_forbidden(lean_files())
    if hits:
        info["forbidden"] = hits
        for th in theorems:
            ctx.obligations.append((th, False))
        return False, info
    ax, out = audit_axioms([module] + list(extra_imports), theorems)
    bad = {}
    for th in theorems:
        a = ax.get(th)
        good = a is not None and set(a) <= ALLOWED_AXIOMS
        ctx.obligations.append((th, good))
        if not good:
            bad[th] = a
    info["axioms"] = sorted({x for a in ax.values() if a for x in a})
    if bad:
        info["bad_axioms"] = bad
        info["audit_out"] = out[-2000:]
        return False, info
    if ctx.thorough():
        # independent re-check of the compiled module (and everything it imports from this project) by the toolchain's leanchecker
        try:
            rc, lout = sh(["lake", "env", "leanchecker", module] + list(extra_imports), cwd=LEAN, timeout=3600)
        except Exception as e:  # noqa
            rc, lout = 1, repr(e)
        info["leanchecker_rc"] = rc
        ctx.coverage.setdefault("leanchecker", {})[module] = "ok" if rc == 0 else "FAILED"
        if rc != 0:
            info["leanchecker_out"] = lout[-2000:]
            return False, info
    return True, info


_driver_built = False


def driver(lines, timeout=3600):
    """Run the Lean model driver on the given op lines; returns list of output lines."""
    global _driver_built
    exe = os.path.join(LEAN, ".lake", "build", "bin", "driver")
    if not _driver_built:
        ok, log = lake_build(["driver"])
        if not ok:
            raise DriverError("driver build failed:\n" + log[-3000:])
        _driver_built = True
    data = "\n".join(lines) + "\n"
    r = subprocess.run([exe], input=data, capture_output=True, text=True, timeout=timeout)
    if r.returncode != 0:
        raise DriverError("driver exited %d: %s" % (r.returncode, r.stderr[-2000:]))
    out = r.stdout.split("\n")
    if out and out[-1] == "":
        out.pop()
    if len(out) != len(lines):
        raise DriverError("driver produced %d lines for %d ops" % (len(out), len(lines)))
    return out


def sample_seed(ctx):
    """seed of the end-to-end sampling of the four sampled properties (C02, C03, C04, C18): fixed, so that the registered commands
    explore exactly the sample that was validated on the unchanged tree; VERIF_EXPLORE=1 lets VERIF_SEED drive it (exploration)"""
    return ctx.seed if os.environ.get("VERIF_EXPLORE") else 0


class DriverError(Exception):
    pass


# ---- known findings / replay / evidence -----------------------------------

def known_findings():
    p = os.path.join(VERIF, "known_findings.json")
    if not os.path.exists(p):
        return {"known": [], "fixed": []}
    return json.load(open(p))


def write_replay(prop, obj):
    d = os.path.join(VERIF, "replays")
    os.makedirs(d, exist_ok=True)
    blob = json.dumps(obj, sort_keys=True, default=str)
    name = "%s-%s.json" % (prop, hashlib.sha1(blob.encode()).hexdigest()[:10])
    path = os.path.join(d, name)
    with open(path, "w") as f:
        json.dump(obj, f, indent=1, sort_keys=True, default=str)
    return path


def finish(ctx, level, technique_note, trusted_base, checker_cmd, explanation=None, exhaustive=False):
    """Write evidence, print VIOLATION / KNOWN-FINDING lines, return exit code."""
    kf = known_findings()
    known = {(k["property"], k["key"]): k for k in kf.get("known", [])}
    violations = 0
    lines = []
    seen = set()
    for f in ctx.findings:
        if (ctx.prop, f.key) in seen:
            continue
        seen.add((ctx.prop, f.key))
        if (ctx.prop, f.key) in known:
            lines.append("KNOWN-FINDING: property=%s %s" % (ctx.prop, known[(ctx.prop, f.key)]["what"]))
            continue
        violations += 1
        rp = dict(f.replay)
        rp.update({"property": ctx.prop, "key": f.key, "what": f.what, "seed": ctx.seed, "tier": ctx.tier,
                   "failing_input_found": f.found_input})
        path = write_replay(ctx.prop, rp)
        lines.append("VIOLATION property=%s replay=%s%s" % (ctx.prop, path, "" if f.found_input else " no-failing-input-found"))
    obligations = len(ctx.obligations)
    discharged = sum(1 for _, ok in ctx.obligations if ok)
    cov = {
        "obligations": obligations,
        "discharged": discharged,
        "checker_cmd": checker_cmd,
        "trusted_base": trusted_base,
        "evaluations": ctx.evaluations,
        "distinct_nontrivial": len(ctx.nontrivial_keys),
        "rule": technique_note,
        "samples": ctx.samples[:6] if ctx.samples else [{"obligation": n} for n, _ in ctx.obligations[:3]],
        "exhaustive": bool(exhaustive),
        "input_distribution": ctx.dist,
        "theorems": [n for n, _ in ctx.obligations][:400],
        "undischarged": [n for n, ok in ctx.obligations if not ok][:100],
        "notes": ctx.notes[:50],
    }
    if explanation:
        cov["explanation"] = explanation
    cov.update(ctx.coverage)
    ev = {
        "property_id": ctx.prop,
        "tier": ctx.tier,
        "seed": ctx.seed,
        "level": level,
        "coverage": cov,
        "assumptions": ctx.assumptions,
        "wall_s": round(ctx.elapsed(), 2),
        "violations": violations,
    }
    os.makedirs(os.path.join(VERIF, "evidence"), exist_ok=True)
    with open(os.path.join(VERIF, "evidence", ctx.prop + ".json"), "w") as f:
        json.dump(ev, f, indent=1, default=str)
    for l in lines:
        print(l, flush=True)
    print("%s tier=%s seed=%d obligations=%d/%d evaluations=%d distinct=%d wall=%.1fs violations=%d" % (
        ctx.prop, ctx.tier, ctx.seed, discharged, obligations, ctx.evaluations, len(ctx.nontrivial_keys), ctx.elapsed(), violations), flush=True)
    return 1 if violations else 0


def regen(ctx, needed=()):
    """run all translators against /repo's current tree (hash-cached); returns the failures among `needed`"""
    import gen_all
    errs = gen_all.generate_all()
    if errs:
        ctx.coverage["translator_errors"] = errs
    return {k: v for k, v in errs.items() if not needed or k in needed}


def install_matid():
    """import matid from /repo's working tree with the C++ rebuilt through the shim"""
    import extshim
    extshim.install()
    import matid  # noqa
    global TABLES_AT_IMPORT
    if TABLES_AT_IMPORT is None:
        TABLES_AT_IMPORT = tables_digest()
    return matid


TABLES_AT_IMPORT = None
_TABLE_NAMES = ("SPACE_GROUP_INFO", "WYCKOFF_SETS", "CHIRALITY_PRESERVING_EUCLIDEAN_NORMALIZERS", "IMPROPER_RIGID_TRANSFORMATIONS", "PROPER_RIGID_TRANSFORMATIONS")


def _canon(o):
    """order-preserving canonical text of a nested table (dict insertion order matters for the normalizer lists)"""
    import numpy as np
    if isinstance(o, dict):
        return "{" + ",".join("%s:%s" % (_canon(k), _canon(v)) for k, v in o.items()) + "}"
    if isinstance(o, (list, tuple)):
        return "[" + ",".join(_canon(v) for v in o) + "]"
    if isinstance(o, np.ndarray):
        return "a" + repr(o.tolist())
    return repr(o)


def tables_digest():
    """per built-in table and per space group: a digest of the in-memory content (the tables must not be changed by using the library)"""
    import matid.data.symmetry_data as D
    out = {}
    for name in _TABLE_NAMES:
        t = getattr(D, name, None)
        if isinstance(t, dict):
            out[name] = {k: hashlib.sha1(_canon(v).encode()).hexdigest() for k, v in t.items()}
        elif t is not None:
            out[name] = {"*": hashlib.sha1(_canon(t).encode()).hexdigest()}
    return out


def tables_modified():
    """[(table, key)] whose in-memory content differs from what it was when matid was imported"""
    now = tables_digest()
    out = []
    for name, d in (TABLES_AT_IMPORT or {}).items():
        for k in set(d) | set(now.get(name, {})):
            if d.get(k) != now.get(name, {}).get(k):
                out.append((name, k))
    return sorted(out, key=repr)
