"""Shared correspondences and end-to-end oracles of the symmetry properties C05, C06, C07."""
import json
from collections import Counter
from fractions import Fraction

import numpy as np

import common
from common import driver


def fs(x):
    f = Fraction(x)
    return "%d/%d" % (f.numerator, f.denominator)


def norm_tables():
    import matid.symmetry.symmetryanalyzer as M     # the very objects the code uses
    return M.CHIRALITY_PRESERVING_EUCLIDEAN_NORMALIZERS


def perm_str(perm):
    return ",".join("%d:%d" % (ord(a), ord(b)) for a, b in perm.items())


def rational_crystal(n, occupancy, rng):
    """standard-setting crystal with exact rational fractional coordinates.
    occupancy: list of (letter, Z); returns (Atoms, fractions per atom, letters per atom)"""
    import crystals
    from ase import Atoms
    from ase.geometry.cell import cellpar_to_cell
    from affine import from_expression_numeric, Aff, snap24
    W = crystals.wyckoff_tables()[n]
    cents = [Aff.translation([snap24(v) for v in t]) for t in np.asarray(W["translations"]).reshape(-1, 3)]
    T = [Aff.translation((0, 0, 0))] + cents
    fr, nums, letters = [], [], []
    for k, (letter, z) in enumerate(occupancy):
        d = W[letter]
        ex = [from_expression_numeric(M, C) for M, C in zip(d["matrices"], d["constants"])]
        w = tuple(Fraction(int(rng.integers(3, 125)), 128) + Fraction(i + 1 + 3 * k, 997) for i in range(3))
        for t in T:
            for e in ex:
                p = e.addT(t).act(w)
                fr.append(tuple(x - (x.numerator // x.denominator) for x in p))
                nums.append(z)
                letters.append(letter)
    natoms = len(fr)
    cell = np.array(cellpar_to_cell(crystals.cellpar_for_group(n, rng, scale=max(1.0, (natoms * 14.0 / 200.0) ** (1 / 3.0)))))
    fpos = np.array([[float(x) for x in p] for p in fr])
    atoms = Atoms(numbers=nums, scaled_positions=fpos, cell=cell, pbc=True)
    return atoms, fr, letters


def random_occupancy(n, rng, max_atoms=64):
    import crystals
    W = crystals.wyckoff_tables()[n]
    letters = [l for l in W if l != "translations"]
    nt = len(np.asarray(W["translations"]).reshape(-1, 3)) + 1
    k = int(rng.integers(1, 5))
    occ, tot = [], 0
    species = list(rng.choice([6, 8, 14, 26, 29], int(rng.integers(1, 4)), replace=False))
    for _ in range(k):
        l = letters[int(rng.integers(0, len(letters)))]
        m = len(W[l]["expressions"]) * nt
        # a position without free parameters can be occupied only once
        if not W[l]["variables"] and any(o[0] == l for o in occ):
            continue
        if tot + m > max_atoms and occ:
            continue
        occ.append((l, int(species[int(rng.integers(0, len(species)))])))
        tot += m
    return occ


# ------------------------------------------------------------------ correspondence: ranking + application

def corr_select(ctx, n_cases, with_pairs=True):
    """_find_wyckoff_ground_state driven directly (no spglib) vs Select.selectRep / applyNorm"""
    from matid.symmetry.symmetryanalyzer import SymmetryAnalyzer
    from matid.utils.exceptions import MatIDError
    from affine import from_4x4
    N = norm_tables()
    rng = np.random.default_rng(ctx.seed + 56)
    groups_with = [n for n in range(1, 231) if N.get(n)]
    lines, cases = [], []
    for k in range(n_cases):
        n = int(groups_with[int(rng.integers(0, len(groups_with)))]) if k % 7 else int(rng.integers(1, 231))
        occ = random_occupancy(n, rng)
        if not occ:
            continue
        atoms, fr, letters = rational_crystal(n, occ, rng)
        perm_idx = rng.permutation(len(atoms))
        atoms = atoms[perm_idx]
        fr = [fr[i] for i in perm_idx]
        letters = [letters[i] for i in perm_idx]
        entries = N.get(n, [])
        lines.append("select %s %s %s" % (";".join(perm_str(e["permutations"]) for e in entries) or "-",
                                          ",".join(str(ord(c)) for c in letters), ",".join(str(int(z)) for z in atoms.get_atomic_numbers())))
        cases.append((n, atoms, fr, letters, entries))
        ctx.count("select_norms_%s" % ("0" if not entries else "1-3" if len(entries) <= 3 else ">3"))
    out = driver(lines)
    mism = _run_select_cases(ctx, cases, lines, out)
    if with_pairs:
        mism += corr_select_directed(ctx)
    return mism


def _entry_is_mixed(e):
    """a normalizer with a non-trivial linear part AND a non-zero translation (where R(x + t) and R x + t differ)"""
    T = np.array(e["transformation"], dtype=float)
    return not np.allclose(T[:3, :3], np.eye(3)) and not np.allclose(T[:3, 3] % 1, 0)


def corr_select_directed(ctx, attempts=None):
    """directed part: for every tabulated normalizer with a linear part and a translation, an occupation for which the MODEL
    selects exactly that entry is searched (driver only), and the real selection + application is run on it"""
    N = norm_tables()
    attempts = attempts or ctx.n(120, 500)
    rng = np.random.default_rng(ctx.seed + 5656)
    lines, cases = [], []
    for n in range(1, 231):
        entries = N.get(n, [])
        if not any(_entry_is_mixed(e) for e in entries):
            continue
        for _ in range(attempts):
            occ = random_occupancy(n, rng)
            if not occ:
                continue
            atoms, fr, letters = rational_crystal(n, occ, rng)
            lines.append("select %s %s %s" % (";".join(perm_str(e["permutations"]) for e in entries) or "-",
                                              ",".join(str(ord(c)) for c in letters), ",".join(str(int(z)) for z in atoms.get_atomic_numbers())))
            cases.append((n, atoms, fr, letters, entries))
    if not lines:
        return []
    out = driver(lines)
    seen, pick = set(), []
    for k, ((n, atoms, fr, letters, entries), o) in enumerate(zip(cases, out)):
        if not o.startswith("ok "):
            continue
        idx = int(o.split(" ")[1])
        if idx == 0 or (n, idx) in seen or not _entry_is_mixed(entries[idx - 1]):
            continue
        seen.add((n, idx))
        pick.append(k)
    total = sum(1 for n in range(1, 231) for e in N.get(n, []) if _entry_is_mixed(e))
    ctx.coverage["mixed_normalizers_selected_by_a_directed_case"] = "%d of %d" % (len(seen), total)
    return _run_select_cases(ctx, [cases[k] for k in pick], [lines[k] for k in pick], [out[k] for k in pick])


def _run_select_cases(ctx, cases, lines, out):
    from matid.symmetry.symmetryanalyzer import SymmetryAnalyzer
    from matid.utils.exceptions import MatIDError
    from affine import from_4x4
    mism = []
    second = []
    for (n, atoms, fr, letters, entries), o, line in zip(cases, out, lines):
        sa = SymmetryAnalyzer(atoms, symmetry_tol=1e-3)
        try:
            new_sys, new_letters = sa._find_wyckoff_ground_state(n, np.array(letters), atoms)
            bt = sa._best_transform
            # (the representation built for the identity does not carry the "identity" flag, so the code applies
            #  the 4x4 identity matrix instead of returning early; the outcome is the same)
            hit = [i for i, e in enumerate(entries) if e["transformation"] is bt["transformation"]]
            idx = 1 + hit[0] if hit else 0
            real = "ok %d" % idx
        except MatIDError:
            real, idx = "MatIDError", None
        except KeyError:
            real, idx = "KeyError", None
        except Exception as e:  # noqa
            real, idx = "exception %r" % e, None
        ctx.case(("select", line), nontrivial=bool(entries), sample={"op": line[:160], "model": o, "real": real} if len(ctx.samples) < 2 else None)
        if real != o:
            mism.append({"what": "chosen representation", "group": n, "op": line, "model": o, "real": real})
            continue
        if idx is not None:
            ctx.count("select_chosen_%s" % ("identity" if idx == 0 else "table"))
        if idx:
            e = entries[idx - 1]
            exp_letters = [e["permutations"].get(c) for c in letters]
            if list(new_letters) != exp_letters:
                mism.append({"what": "new letters", "group": n, "op": line})
            second.append((n, "applynorm %d %s" % (from_4x4(e["transformation"]).pack(), ",".join(fs(x) for p in fr for x in p)), new_sys))
    if second:
        out2 = driver([s[1] for s in second])
        for (n, line, new_sys), o in zip(second, out2):
            model = np.array([float(Fraction(v)) for v in o.split(",")]).reshape(-1, 3)
            real = new_sys.get_scaled_positions(wrap=False)
            d = real - model
            ctx.case(("applynorm", line[:200]), nontrivial=True)
            if np.abs(d).max() > 2e-8:   # table translations are stored with 8 decimals (1/3 -> 0.33333333)
                mism.append({"what": "transformed positions", "group": n, "op": line[:300], "maxdiff": float(np.abs(d).max())})
    return mism


def corr_sets(ctx, n_cases):
    """_get_wyckoff_sets(return_parameters=False) with synthetic label arrays vs Select.wyckoffSets/sortSets"""
    from ase import Atoms
    from matid.symmetry.symmetryanalyzer import SymmetryAnalyzer
    rng = np.random.default_rng(ctx.seed + 7)
    lines, cases = [], []
    for k in range(n_cases):
        nsets = int(rng.integers(1, 7))
        labels = rng.choice(np.arange(0, 40), nsets, replace=False)
        cls = [(str(rng.choice(list("abcdefA"))), int(rng.choice([6, 8, 14, 26]))) for _ in range(nsets)]
        sizes = rng.integers(1, 5, nsets)
        eq, letters, nums = [], [], []
        for lab, (l, z), s in zip(labels, cls, sizes):
            eq += [int(lab)] * s
            letters += [l] * s
            nums += [z] * s
        if k % 9 == 0 and len(eq) > 1:   # violate S2 on purpose: the model still follows the code (first atom's class)
            nums[-1] = 3
        p = rng.permutation(len(eq))
        eq, letters, nums = [eq[i] for i in p], [letters[i] for i in p], [nums[i] for i in p]
        n = 47   # a group whose table has all of a..z and A
        atoms = Atoms(numbers=nums, scaled_positions=rng.random((len(eq), 3)), cell=np.eye(3) * 9, pbc=True)
        lines.append("sets %s %s %s" % (",".join(str(ord(c)) for c in letters), ",".join(map(str, nums)), ",".join(map(str, eq))))
        cases.append((n, atoms, letters, eq))
    out = driver(lines)
    mism = []
    for (n, atoms, letters, eq), o, line in zip(cases, out, lines):
        sa = SymmetryAnalyzer(atoms, symmetry_tol=1e-3)
        sets = sa._get_wyckoff_sets(atoms, n, np.array(letters), np.array(eq), 1e-3, False)
        real = "|".join("%d:%d:%s" % (ord(s.wyckoff_letter), s.atomic_number, ".".join(map(str, s.indices))) for s in sets)
        ok = all(s.multiplicity == len(s.indices) for s in sets)
        ctx.case(("sets", line), nontrivial=True, sample={"op": line, "model": o} if len(ctx.samples) < 3 else None)
        # sets with equal (letter, Z) may come in either order ("still randomly sorted" says the code: it is stable): compare exactly
        if real != o or not ok:
            mism.append({"what": "wyckoff sets", "op": line, "model": o, "real": real})
    return mism


# ------------------------------------------------------------------ end-to-end oracles

def observables(atoms, tol=1e-3):
    from matid.symmetry.symmetryanalyzer import SymmetryAnalyzer
    sa = SymmetryAnalyzer(atoms, symmetry_tol=tol)
    sets = sa.get_wyckoff_sets_conventional(return_parameters=False)
    ms = sorted((s.wyckoff_letter, s.element, len(s.indices)) for s in sets)
    obs = {"id": sa.get_material_id(), "number": sa.get_space_group_number(), "hall_symbol_of_type": None,
           "pointgroup": sa.get_point_group(), "bravais": sa.get_bravais_lattice(), "crystal_system": sa.get_crystal_system(),
           "multiset": ms, "has_free": bool(sa.get_has_free_wyckoff_parameters())}
    return sa, obs


def signed_volume_signature(atoms, cutoff=6.0):
    """chirality-sensitive invariant: per atom the signed volume spanned by its three nearest, non-degenerate
    neighbour vectors (rounded); returns Counter normalised per atom, or None when too degenerate"""
    from ase.neighborlist import neighbor_list
    i, j, D, d = neighbor_list("ijDd", atoms, cutoff)
    sig = Counter()
    used = 0
    nums = atoms.get_atomic_numbers()
    for a in range(len(atoms)):
        m = i == a
        dd, DD, zz = d[m], D[m], nums[j[m]]
        order = np.argsort(dd)
        dd, DD, zz = dd[order], DD[order], zz[order]
        pick = []
        k = 0
        while k < len(dd) and len(pick) < 3:
            # a neighbour is usable only if its distance is isolated from the next/previous ones
            lo = dd[k] - dd[k - 1] if k > 0 else 1
            hi = dd[k + 1] - dd[k] if k + 1 < len(dd) else 1
            if lo > 2e-2 and hi > 2e-2:
                pick.append(k)
            k += 1
        if len(pick) < 3:
            continue
        v = np.linalg.det(np.array([DD[p] for p in pick]))
        if abs(v) < 0.05:
            continue
        used += 1
        sig[(int(nums[a]), round(float(v), 1))] += 1
    if used < max(1, len(atoms) // 3):
        return None
    tot = sum(sig.values())
    return {k: v / tot for k, v in sig.items()}


def same_signature(s1, s2, tol=0.02):
    keys = set(s1) | set(s2)
    return all(abs(s1.get(k, 0) - s2.get(k, 0)) < tol for k in keys)


def mirrored(s):
    return {(z, -v): c for (z, v), c in s.items()}


def check_conventional(atoms, n, tol=1e-3):
    """C05 oracle on one crystal known to have space group n; returns (complaints, info) or (None, why) when not judged"""
    import spglib
    sa, obs = observables(atoms, tol)
    if obs["number"] != n:
        return None, "group changed"
    conv = sa.get_conventional_system()
    out = []
    ds = spglib.get_symmetry_dataset((np.array(conv.get_cell()), conv.get_scaled_positions(), conv.get_atomic_numbers()), symprec=tol)
    if ds is None or ds.number != n:
        out.append("independent symmetry search on the conventional system gives space group %s" % (None if ds is None else ds.number))
    din = spglib.get_symmetry_dataset((np.array(atoms.get_cell()), atoms.get_scaled_positions(), atoms.get_atomic_numbers()), symprec=tol)
    std_lat = np.array(din.std_lattice)
    if not np.allclose(np.array(conv.get_cell()), std_lat, atol=1e-6):
        out.append("cell is not the standardized lattice")
    ci, cc = Counter(atoms.get_atomic_numbers().tolist()), Counter(conv.get_atomic_numbers().tolist())
    if any(ci[z] * len(conv) != cc[z] * len(atoms) for z in set(ci) | set(cc)):
        out.append("composition differs")
    if abs(len(conv) / conv.get_volume() - len(atoms) / atoms.get_volume()) > 1e-3 * len(atoms) / atoms.get_volume():
        out.append("atoms per volume differ")
    # up to a proper motion and lattice translations = one of the symmetry-preserving re-settings of the idealised std atoms:
    # handedness through a signed-volume signature that does not use MatID's tables
    s_in = signed_volume_signature(atoms)
    s_out = signed_volume_signature(conv)
    info = {"handedness_judged": False}
    if s_in is not None and s_out is not None:
        if not same_signature(s_in, mirrored(s_in)):       # the structure is distinguishable from its mirror image
            info["handedness_judged"] = True
            if not same_signature(s_in, s_out):
                if same_signature(mirrored(s_in), s_out):
                    out.append("the conventional system is the MIRROR IMAGE of the input")
                else:
                    out.append("local geometry of the conventional system differs from the input (signed-volume signature)")
        elif not same_signature(s_in, s_out):
            out.append("local geometry of the conventional system differs from the input (signed-volume signature)")
    return out, info


def check_orbits(atoms, n, tol=1e-3):
    """C07 oracle: sets partition the atoms, share element/letter, multiplicity, and are exactly the orbits under the
    operations an independent spglib run finds for the returned structure"""
    import spglib
    sa, obs = observables(atoms, tol)
    if obs["number"] != n:
        return None, "group changed"
    conv = sa.get_conventional_system()
    sets = sa.get_wyckoff_sets_conventional(return_parameters=False)
    letters = sa.get_wyckoff_letters_conventional()
    equiv = sa.get_equivalent_atoms_conventional()
    out = []
    N = len(conv)
    allidx = sorted(i for s in sets for i in s.indices)
    if allidx != list(range(N)):
        out.append("sets do not partition the atoms")
    nums = conv.get_atomic_numbers()
    for s in sets:
        if s.multiplicity != len(s.indices):
            out.append("multiplicity %s != size %d" % (s.multiplicity, len(s.indices)))
        if any(nums[i] != s.atomic_number or str(letters[i]) != s.wyckoff_letter for i in s.indices):
            out.append("atoms of set %s %s do not share element and letter" % (s.element, s.wyckoff_letter))
        if len(set(int(equiv[i]) for i in s.indices)) != 1:
            out.append("atoms of a set carry different equivalence labels")
    ds = spglib.get_symmetry_dataset((np.array(conv.get_cell()), conv.get_scaled_positions(), nums), symprec=tol)
    if ds is None or ds.number != n:
        return out + ["independent run on the conventional system gives group %s" % (None if ds is None else ds.number)], {}
    pos = conv.get_scaled_positions()
    cell = np.array(conv.get_cell())

    def find(p):
        d = pos - p
        d -= np.rint(d)
        dist = np.linalg.norm(d @ cell, axis=1)
        k = int(np.argmin(dist))
        return k if dist[k] < 5 * tol + 1e-4 else None
    for s in sets:
        i0 = s.indices[0]
        image = set()
        for R, t in zip(ds.rotations, ds.translations):
            k = find(R @ pos[i0] + t)
            if k is None:
                out.append("an operation maps an atom of set %s %s onto no atom" % (s.element, s.wyckoff_letter))
                break
            image.add(k)
        else:
            if image != set(s.indices):
                out.append("orbit of an atom of set %s %s has %d atoms, the set has %d" % (s.element, s.wyckoff_letter, len(image), len(s.indices)))
    info = {"letters_judged": False}
    if np.allclose(ds.transformation_matrix, np.eye(3), atol=1e-6) and np.allclose(np.array(ds.origin_shift) % 1.0 % 1.0, 0, atol=1e-6):
        info["letters_judged"] = True
        if list(ds.wyckoffs) != [str(c) for c in letters]:
            out.append("letters differ from spglib's assignment for the returned structure: %s vs %s" % ("".join(map(str, letters))[:40], "".join(ds.wyckoffs)[:40]))
    return out, info


def check_pair(a1, a2, n, tol=1e-3):
    """C06 oracle on two descriptions of one crystal"""
    sa1, o1 = observables(a1, tol)
    sa2, o2 = observables(a2, tol)
    if o1["number"] != n or o2["number"] != n:
        return None, "group changed"
    out = []
    for k in o1:
        if o1[k] != o2[k]:
            out.append("%s differs: %s vs %s" % (k, str(o1[k])[:80], str(o2[k])[:80]))
    info = {"cell_judged": False}
    if not o1["has_free"] and n >= 195 and not out:
        # no free Wyckoff parameters and a metrically fixed (cubic) lattice: the conventional cell itself is unique
        c1, c2 = sa1.get_conventional_system(), sa2.get_conventional_system()
        info["cell_judged"] = True
        if not np.allclose(c1.cell.cellpar(), c2.cell.cellpar(), atol=1e-5):
            out.append("lattice parameters of the conventional cells differ")
        else:
            def key(c):
                p = c.get_scaled_positions() % 1.0
                p[np.abs(p - 1) < 1e-4] = 0
                return sorted((int(z), round(float(x), 4), round(float(y), 4), round(float(w), 4)) for z, (x, y, w) in zip(c.get_atomic_numbers(), p))
            if key(c1) != key(c2):
                out.append("sets of atomic positions of the conventional cells differ")
    return out, info


def capture_id_string(atoms, tol=1e-3):
    """the pre-hash string of get_material_id (captured at hashlib) and the id"""
    import matid.symmetry.symmetryanalyzer as M
    from matid.symmetry.symmetryanalyzer import SymmetryAnalyzer
    seen = []
    orig = M.hashlib.sha512

    class Rec:
        def __init__(self):
            self.h = orig()

        def update(self, b):
            seen.append(b)
            self.h.update(b)

        def digest(self):
            return self.h.digest()
    M.hashlib.sha512 = Rec
    try:
        sa = SymmetryAnalyzer(atoms, symmetry_tol=tol)
        mid = sa.get_material_id()
        sets = sa.get_wyckoff_sets_conventional(False)
        num = sa.get_space_group_number()
    finally:
        M.hashlib.sha512 = orig
    return mid, b"".join(seen).decode(), num, sets


def sample_crystals(ctx, groups, rng, max_atoms=100):
    import crystals
    for n in groups:
        made = None
        for _ in range(10):
            made = crystals.ase_crystal(int(n), rng, max_atoms=max_atoms)
            if made:
                break
        if not made:
            ctx.count("e2e_no_crystal")
            continue
        yield int(n), made[0], made[1]


def broken_groups(broken):
    """space-group numbers named by a failing table theorem / correspondence mismatch (MatidGen/SG/Gnnn.lean, 'group': n)"""
    import re
    blob = json.dumps(broken, default=str)
    gs = {int(m) for m in re.findall(r"SG[/.]G(\d{3})", blob)}
    gs |= {int(m) for m in re.findall(r'"group": (\d+)', blob)}
    gs |= {int(m) for m in re.findall(r"sg(\d{3})_", blob)}
    return sorted(g for g in gs if 1 <= g <= 230)


def directed_crystals(ctx, groups, rng, per_letter=2):
    """for every broken group: crystals from MatID's tables in the standard setting with EACH letter occupied in turn (plus a
    general-position orbit of another species and, half of the time, a second special letter), presented as built, with the
    origin moved by each tabulated normalizer translation, and in a random equivalent description"""
    import crystals
    N = norm_tables()
    W = crystals.wyckoff_tables()
    for n in groups:
        letters = [l for l in W[n] if l != "translations"]
        gen = crystals.general_letter(n)
        for l in letters:
            for rep in range(per_letter):
                occ = [(l, 14, None)]
                if l != gen:
                    occ.append((gen, 8, None))
                if rep % 2 and len(letters) > 2:
                    l2 = letters[int(rng.integers(0, len(letters)))]
                    if l2 not in (l, gen):
                        occ.append((l2, 29, None))
                made = None
                for _ in range(5):
                    made = crystals.table_crystal(n, occ, rng)
                    if made:
                        break
                if not made or len(made[0]) > 200:
                    ctx.count("directed_no_crystal")
                    continue
                atoms = made[0]
                yield n, atoms, atoms.copy(), {"letter": l, "presentation": "as built"}
                cell = np.array(atoms.get_cell())
                for q in N.get(n, []):
                    t = np.array(q["transformation"], dtype=float)[:3, 3]
                    if np.allclose(t % 1.0, 0):
                        continue
                    a2 = atoms.copy()
                    a2.translate(-(t @ cell))
                    a2.wrap()
                    yield n, atoms, a2, {"letter": l, "presentation": "origin moved by a tabulated normalizer translation %s" % np.round(t, 4).tolist()}
                a3, desc = crystals.present(atoms, rng)
                if len(a3) <= 300:
                    yield n, atoms, a3, {"letter": l, "presentation": desc}


def probe_letters(ctx, positions, rng):
    """the tabulated orbit of letter L of group n, decorated with a general-position orbit of a second species, must be labelled L by an
    independent assignment (spglib on the crystal as built, judged only when spglib works in the tabulated origin: identity transformation,
    zero origin shift, same group).  positions: [(n, letter)].  Returns the positions whose label differs."""
    import spglib
    import crystals
    out = []
    for n, letter in positions:
        W = crystals.wyckoff_tables()[n]
        general = [l for l in W if l != "translations"][-1] if True else None
        general = max((l for l in W if l != "translations"), key=lambda l: len(W[l]["expressions"]))
        occ = [(letter, 29)] + ([(general, 8)] if general != letter else [])
        try:
            atoms, fr, letters = rational_crystal(n, occ, rng)
            ds = spglib.get_symmetry_dataset((np.array(atoms.get_cell()), atoms.get_scaled_positions(), atoms.get_atomic_numbers()), symprec=1e-4)
        except Exception:  # noqa
            ctx.count("letter_probe_failed")
            continue
        if ds is None or ds.number != n or np.abs(np.array(ds.origin_shift) - np.rint(ds.origin_shift)).max() > 1e-6 or \
                not np.allclose(ds.transformation_matrix, np.eye(3), atol=1e-6):
            ctx.count("letter_probe_not_comparable")
            continue
        ctx.count("letter_probe_compared")
        ctx.case(("letter-probe", n, letter), nontrivial=True)
        got = sorted({w for w, l in zip(ds.wyckoffs, letters) if l == letter})
        if got != [letter]:
            out.append({"group": n, "letter": letter, "independent_assignment": got})
    return out
