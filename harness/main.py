"""Front end: ./check <ID> [--tier quick|thorough] [--replay path]
exit 0: held on everything explored; exit 1: VIOLATION line printed; exit 2: infrastructure failure."""
import argparse
import importlib
import os
import sys
import traceback

sys.path.insert(0, os.path.dirname(os.path.abspath(__file__)))
import common  # noqa: E402


def main():
    ap = argparse.ArgumentParser()
    ap.add_argument("prop")
    ap.add_argument("--tier", default=os.environ.get("VERIF_TIER", "quick"), choices=["quick", "thorough"])
    ap.add_argument("--replay", default=None)
    a = ap.parse_args()
    seed = int(os.environ.get("VERIF_SEED", "0") or 0)
    prop = a.prop.upper()
    try:
        mod = importlib.import_module("props." + prop.lower())
    except ImportError:
        traceback.print_exc()
        print("no check for", prop)
        return 2
    if a.replay:
        import json
        try:
            rj = json.load(open(a.replay))
        except Exception:
            rj = {}
        if isinstance(rj.get("case"), dict) and "history" in rj["case"] and "structures" in rj["case"]:
            common.install_matid()
            import analyzer_hist
            return analyzer_hist.replay(a.replay)
        return mod.replay(a.replay)
    ctx = common.Ctx(prop, a.tier, seed)
    try:
        return mod.run(ctx)
    except Exception as e:
        traceback.print_exc()
        # an exception raised INSIDE the library by a call the check makes on every run (the unchanged tree does not raise there) is a
        # broken correspondence, not an infrastructure failure: report it, with the traceback as the replay
        tb = traceback.extract_tb(e.__traceback__)
        inner = os.path.abspath(tb[-1].filename) if tb else ""
        if inner.startswith(os.path.join(os.path.abspath(common.REPO), "matid") + os.sep):
            site = next((f for f in reversed(tb) if os.path.abspath(f.filename).startswith(common.VERIF)), None)
            ctx.finding("library-exception", "the library raised %s: %s (in %s:%d, reached from %s) in a call that does not raise on the unchanged tree" % (
                type(e).__name__, str(e)[:160], os.path.relpath(inner, common.REPO), tb[-1].lineno, "%s:%d" % (os.path.basename(site.filename), site.lineno) if site else "?"),
                {"kind": "library-exception", "traceback": traceback.format_exc()[-4000:]}, found_input=False)
            ctx.coverage["broken"] = [{"what": "correspondence", "info": {"exception": repr(e)[:300]}}]
            return common.finish(ctx, "other", "the check was cut short by an exception raised inside the library", ["see DESIGN.md"], "-")
        print("INFRASTRUCTURE-FAILURE property=%s" % prop)
        return 2


if __name__ == "__main__":
    sys.exit(main())
