import os, sys, time
sys.path.insert(0, os.path.dirname(os.path.abspath(__file__)))
import common
t = time.time()
import extshim
print("shim:", extshim.build())
import gen_all
gen_all.generate_all()
ok, log = common.lake_build(["MatidModel", "MatidGen", "MatidProofs", "MatidProps", "driver"], timeout=7200)
print(log[-3000:])
print("lake build ok=%s  %.0fs" % (ok, time.time() - t))
# a failing proof is reported by the checks (with a failing-input search), not by setup
sys.exit(0)
