"""Drop-in replacement for the compiled ``matid.ext`` module.

The sandbox has no pybind11 headers, so the shipped extension cannot be rebuilt
from /repo's C++ sources.  This module compiles ``matid/ext/geometry.cpp`` and
``matid/ext/celllist.cpp`` *unchanged* from the current working tree against the
stand-in header in /verif/shim and exposes the same Python API through ctypes:
``extend_system``, ``get_cell_list``, ``get_displacement_tensor``, ``CellList``,
``CellListResult``, ``ExtendedSystem``.

``install()`` puts it in place of ``matid.ext`` so every check sees C++ edits.
"""
import ctypes
import hashlib
import os
import subprocess
import sys

import numpy as np

VERIF = os.path.dirname(os.path.dirname(os.path.abspath(__file__)))
REPO = os.environ.get("VERIF_REPO", "/repo")
BUILD = os.path.join(VERIF, "build")
_lib = None


def _sources():
    ext = os.path.join(REPO, "matid", "ext")
    return [os.path.join(ext, f) for f in ("geometry.cpp", "celllist.cpp", "geometry.h", "celllist.h")]


def build(force=False):
    """Compile the shim library from /repo's current sources (content-hashed)."""
    os.makedirs(BUILD, exist_ok=True)
    h = hashlib.sha256()
    for f in _sources() + [os.path.join(VERIF, "shim", "wrapper.cpp"), os.path.join(VERIF, "shim", "pybind11", "numpy.h")]:
        with open(f, "rb") as fh:
            h.update(fh.read())
    digest = h.hexdigest()[:16]
    so = os.path.join(BUILD, "libmatidext-%s.so" % digest)
    if force or not os.path.exists(so):
        ext = os.path.join(REPO, "matid", "ext")
        tmp = so + ".tmp%d" % os.getpid()
        cmd = ["g++", "-std=c++11", "-O2", "-fPIC", "-shared", "-w", "-I" + os.path.join(VERIF, "shim"), "-I" + ext,
               os.path.join(ext, "geometry.cpp"), os.path.join(ext, "celllist.cpp"),
               os.path.join(VERIF, "shim", "wrapper.cpp"), "-o", tmp]
        r = subprocess.run(cmd, capture_output=True, text=True)
        if r.returncode != 0:
            raise RuntimeError("shim build failed:\n" + r.stderr[-4000:])
        os.replace(tmp, so)
    return so


def _load():
    global _lib
    if _lib is None:
        so = build()
        L = ctypes.CDLL(so)
        vp, ip, dp, bp = ctypes.c_void_p, ctypes.POINTER(ctypes.c_int), ctypes.POINTER(ctypes.c_double), ctypes.POINTER(ctypes.c_bool)
        L.vx_extend.restype = vp
        L.vx_extend.argtypes = [dp, ip, ctypes.c_int, dp, bp, ctypes.c_double, ip]
        L.vx_ext_n.restype = ctypes.c_int
        L.vx_ext_n.argtypes = [vp]
        L.vx_ext_get.argtypes = [vp, dp, ip, ip, dp]
        L.vx_ext_free.argtypes = [vp]
        L.vx_celllist.restype = vp
        L.vx_celllist.argtypes = [dp, ctypes.c_int, dp, bp, ctypes.c_double, ctypes.c_double, ip]
        L.vx_celllist_raw.restype = vp
        L.vx_celllist_raw.argtypes = [dp, ip, dp, ctypes.c_int, ctypes.c_double, ip]
        L.vx_celllist_free.argtypes = [vp]
        L.vx_query.restype = vp
        L.vx_query.argtypes = [vp, ctypes.c_double, ctypes.c_double, ctypes.c_double]
        L.vx_query_index.restype = vp
        L.vx_query_index.argtypes = [vp, ctypes.c_int]
        L.vx_res_n.restype = ctypes.c_int
        L.vx_res_n.argtypes = [vp]
        L.vx_res_get.argtypes = [vp, ip, ip, dp, dp, dp, dp]
        L.vx_res_free.argtypes = [vp]
        L.vx_disp.restype = ctypes.c_int
        L.vx_disp.argtypes = [dp, dp, dp, dp, ctypes.c_int, dp, bp, ctypes.c_double, ctypes.c_bool, ctypes.c_bool]
        _lib = L
    return _lib


def _d(a):
    return np.ascontiguousarray(np.asarray(a, dtype=np.float64))


def _p(a, t):
    return a.ctypes.data_as(ctypes.POINTER(t))


class ExtendedSystem:
    def __init__(self, positions=None, atomic_numbers=None, indices=None, factors=None):
        self.positions = positions
        self.atomic_numbers = atomic_numbers
        self.indices = indices
        self.factors = factors


class CellListResult:
    def __init__(self):
        self.indices = []
        self.indices_original = []
        self.distances = []
        self.distances_squared = []
        self.displacements = []
        self.factors = []


def extend_system(positions, atomic_numbers, cell, pbc, cutoff):
    L = _load()
    pos = _d(positions).reshape(-1, 3)
    num = np.ascontiguousarray(np.asarray(atomic_numbers, dtype=np.int32))
    c = _d(np.asarray(cell)).reshape(3, 3)
    b = np.ascontiguousarray(np.asarray(pbc, dtype=np.bool_))
    err = ctypes.c_int(0)
    h = L.vx_extend(_p(pos, ctypes.c_double), _p(num, ctypes.c_int), len(num), _p(c, ctypes.c_double), _p(b, ctypes.c_bool),
                    float(cutoff), ctypes.byref(err))
    if err.value == 1:
        raise ValueError("Cutoff must be positive.")
    if err.value:
        raise RuntimeError("extend_system failed")
    n = L.vx_ext_n(h)
    epos = np.empty((n, 3)); enum = np.empty(n, dtype=np.int32); eidx = np.empty(n, dtype=np.int32); efac = np.empty((n, 3))
    L.vx_ext_get(h, _p(epos, ctypes.c_double), _p(enum, ctypes.c_int), _p(eidx, ctypes.c_int), _p(efac, ctypes.c_double))
    L.vx_ext_free(h)
    return ExtendedSystem(epos, enum, eidx, efac)


class CellList:
    def __init__(self, positions=None, indices=None, factors=None, cutoff=None, _handle=None):
        L = _load()
        self._L = L
        if _handle is not None:
            self._h = _handle
            return
        pos = _d(positions).reshape(-1, 3)
        idx = np.ascontiguousarray(np.asarray(indices, dtype=np.int32))
        fac = _d(factors).reshape(-1, 3)
        self._keep = (pos, idx, fac)
        err = ctypes.c_int(0)
        self._h = L.vx_celllist_raw(_p(pos, ctypes.c_double), _p(idx, ctypes.c_int), _p(fac, ctypes.c_double), len(idx), float(cutoff), ctypes.byref(err))
        if err.value == 1:
            raise ValueError("Cell list cutoff must be positive.")
        if err.value:
            raise RuntimeError("CellList failed")

    def __del__(self):
        try:
            if self._h:
                self._L.vx_celllist_free(self._h)
                self._h = None
        except Exception:
            pass

    def _result(self, r):
        L = self._L
        n = L.vx_res_n(r)
        idx = np.empty(n, dtype=np.int32); io = np.empty(n, dtype=np.int32)
        dist = np.empty(n); d2 = np.empty(n); disp = np.empty((n, 3)); fac = np.empty((n, 3))
        L.vx_res_get(r, _p(idx, ctypes.c_int), _p(io, ctypes.c_int), _p(dist, ctypes.c_double), _p(d2, ctypes.c_double), _p(disp, ctypes.c_double), _p(fac, ctypes.c_double))
        L.vx_res_free(r)
        res = CellListResult()
        # pybind11/stl.h converts std::vector to python lists
        res.indices = idx.tolist()
        res.indices_original = io.tolist()
        res.distances = dist.tolist()
        res.distances_squared = d2.tolist()
        res.displacements = disp.tolist()
        res.factors = fac.tolist()
        return res

    def get_neighbours_for_position(self, x, y, z):
        return self._result(self._L.vx_query(self._h, float(x), float(y), float(z)))

    def get_neighbours_for_index(self, i):
        return self._result(self._L.vx_query_index(self._h, int(i)))


def get_cell_list(positions, cell, pbc, extension, cutoff):
    L = _load()
    pos = _d(positions).reshape(-1, 3)
    c = _d(np.asarray(cell)).reshape(3, 3)
    b = np.ascontiguousarray(np.asarray(pbc, dtype=np.bool_))
    err = ctypes.c_int(0)
    h = L.vx_celllist(_p(pos, ctypes.c_double), len(pos), _p(c, ctypes.c_double), _p(b, ctypes.c_bool), float(extension), float(cutoff), ctypes.byref(err))
    if err.value == 1:
        raise ValueError("invalid argument (cutoff/extension)")
    if err.value:
        raise RuntimeError("get_cell_list failed")
    return CellList(_handle=h)


def get_displacement_tensor(displacements, distances, factors, positions, cell, pbc, cutoff, return_factors, return_distances):
    L = _load()
    pos = _d(positions).reshape(-1, 3)
    n = len(pos)
    c = _d(np.asarray(cell)).reshape(3, 3)
    b = np.ascontiguousarray(np.asarray(pbc, dtype=np.bool_))
    for a in (displacements, distances, factors):
        if not (isinstance(a, np.ndarray) and a.dtype == np.float64 and a.flags["C_CONTIGUOUS"]):
            raise TypeError("output arrays must be C-contiguous float64")
    rc = L.vx_disp(_p(displacements, ctypes.c_double), _p(distances, ctypes.c_double), _p(factors, ctypes.c_double),
                   _p(pos, ctypes.c_double), n, _p(c, ctypes.c_double), _p(b, ctypes.c_bool), float(cutoff), bool(return_factors), bool(return_distances))
    if rc == 1:
        raise ValueError("Cell list cutoff must be positive.")
    if rc:
        raise RuntimeError("get_displacement_tensor failed")


def install():
    """Replace matid.ext by this module (call before or after importing matid)."""
    if REPO not in sys.path:
        sys.path.insert(0, REPO)
    _load()
    me = sys.modules[__name__]
    sys.modules["matid.ext"] = me
    import matid
    matid.ext = me
    return me


def shipped_vs_shim_report(n_cases=30, seed=0):
    """Compare the shipped .so (possibly stale) with the shim build; informational."""
    import importlib.util, glob
    cands = glob.glob(os.path.join(REPO, "matid", "ext.*.so"))
    if not cands:
        return {"shipped": None}
    spec = importlib.util.spec_from_file_location("ext", cands[0])
    try:
        shipped = importlib.util.module_from_spec(spec)
        spec.loader.exec_module(shipped)
    except Exception as e:  # module name mismatch etc.
        return {"shipped": cands[0], "loadable": False, "error": str(e)[:200]}
    rng = np.random.default_rng(seed)
    diff = 0
    for _ in range(n_cases):
        n = int(rng.integers(1, 8))
        pos = rng.random((n, 3)) * 4
        cell = rng.random((3, 3)) * 2 + np.eye(3) * 3
        pbc = rng.random(3) < 0.6
        cutoff = float(rng.random() * 4 + 0.3)
        outs = []
        for mod in (shipped, sys.modules[__name__]):
            D = np.full((n, n, 3), np.inf); M = np.full((n, n), np.inf); F = np.full((n, n, 3), np.inf)
            mod.get_displacement_tensor(D, M, F, pos, cell, pbc, cutoff, True, True)
            outs.append((D, M, F))
        if not all(np.array_equal(a, b) for a, b in zip(*outs)):
            diff += 1
    return {"shipped": cands[0], "loadable": True, "cases": n_cases, "differences": diff}
