"""Crystal generators shared by the symmetry checks (C05-C08, C11, C12, C14, C15).

Two independent sources:
  * `table_crystal`  — positions from MatID's own WYCKOFF_SETS in the standard setting (needed when a
    specific (group, letter) must be occupied: C08, C14);
  * `ase_crystal`    — ase.spacegroup.crystal (ASE's space-group tables, independent of MatID's).
Plus `present` : an equivalent description (supercell, unimodular shear, rotation, translation, permutation).
"""
import numpy as np
from ase import Atoms
from ase.geometry.cell import cellpar_to_cell

ELEMENTS = [14, 32, 6, 8, 13, 29, 47, 79, 26, 12, 20, 38, 56, 11, 19, 9, 17, 35, 16, 7, 15, 30, 48, 22, 40]


def system_of(n):
    return 0 if n <= 2 else 1 if n <= 15 else 2 if n <= 74 else 3 if n <= 142 else 4 if n <= 194 else 5


def cellpar_for_group(n, rng, scale=1.0):
    """lattice parameters respecting the crystal system of the standard setting (hexagonal axes for trigonal)"""
    a, b, c = (rng.uniform(4.0, 7.5, 3) * scale)
    # keep lengths clearly different so that no accidental metric symmetry appears
    b = a * rng.uniform(1.12, 1.3)
    c = a * rng.uniform(1.4, 1.7)
    s = system_of(n)
    if s == 0:
        return [a, b, c, rng.uniform(70, 85), rng.uniform(95, 110), rng.uniform(62, 80)]
    if s == 1:
        return [a, b, c, 90, rng.uniform(98, 118), 90]
    if s == 2:
        return [a, b, c, 90, 90, 90]
    if s == 3:
        return [a, a, c, 90, 90, 90]
    if s == 4:
        return [a, a, c, 90, 90, 120]
    return [a, a, a, 90, 90, 90]


def wyckoff_tables():
    from matid.data.symmetry_data import WYCKOFF_SETS
    return WYCKOFF_SETS


def general_letter(n):
    W = wyckoff_tables()[n]
    letters = [k for k in W if k != "translations"]
    return max(letters, key=lambda l: (len(W[l]["expressions"]), l))


def orbit_positions(n, letter, w):
    """all positions of Wyckoff position `letter` of group n for parameters w (fractional, standard setting)"""
    W = wyckoff_tables()[n]
    d = W[letter]
    first = np.dot(np.asarray(w, dtype=float), d["matrices"]) + d["constants"]   # (n_expr, 3)
    pos = [first]
    for t in np.asarray(W["translations"]).reshape(-1, 3):
        pos.append(first + t)
    return np.concatenate(pos) % 1.0


def _near_special(v, tol=0.002):
    v = (v * 24) % 1.0
    return min(v, 1 - v) < tol * 24


def generic_params(rng):
    """parameter triple with no accidental relation (x = y, x - z = 1/2, 2x = y, x = 1/4 …)"""
    while True:
        w = rng.uniform(0.02, 0.98, 3)
        combos = [w[0], w[1], w[2], w[0] - w[1], w[0] - w[2], w[1] - w[2], w[0] + w[1], w[0] + w[2], w[1] + w[2],
                  2 * w[0] - w[1], 2 * w[1] - w[0], 2 * w[0] - w[2], 2 * w[2] - w[0], 2 * w[1] - w[2], 2 * w[2] - w[1],
                  w[0] + w[1] + w[2], w[0] + w[1] - w[2], w[0] - w[1] + w[2], -w[0] + w[1] + w[2], 3 * w[0], 3 * w[1], 3 * w[2]]
        if not any(_near_special(c) for c in combos):
            return w


def table_crystal(n, occupancy, rng, cellpar=None):
    """occupancy: list of (letter, Z, w or None).  Returns (Atoms, info) or None if two atoms collide."""
    if cellpar is None:
        W = wyckoff_tables()[n]
        nt = len(np.asarray(W["translations"]).reshape(-1, 3)) + 1
        natoms = sum(len(W[l]["expressions"]) * nt for l, _, _ in occupancy)
        cellpar = cellpar_for_group(n, rng, scale=max(1.0, (natoms * 14.0 / 200.0) ** (1 / 3.0)))
    cell = cellpar_to_cell(cellpar)
    pos, nums, tags, params = [], [], [], []
    for k, (letter, z, w) in enumerate(occupancy):
        if w is None:
            w = generic_params(rng)
        p = orbit_positions(n, letter, w)
        pos.append(p)
        nums += [z] * len(p)
        tags += [k] * len(p)
        params.append(np.asarray(w, dtype=float))
    pos = np.concatenate(pos)
    atoms = Atoms(numbers=nums, scaled_positions=pos, cell=cell, pbc=True)
    # reject collisions (a special value of the parameters)
    from matid.geometry import get_displacement_tensor  # noqa
    d = atoms.get_all_distances(mic=True)
    np.fill_diagonal(d, 10)
    if d.min() < 0.45:
        return None
    return atoms, {"group": n, "cellpar": [float(x) for x in cellpar], "occupancy": [(l, int(z), [float(v) for v in w]) for (l, z, _), w in zip(occupancy, params)], "tags": tags}


def spg_dataset(atoms, symprec=1e-4):
    import spglib
    return spglib.get_symmetry_dataset((np.array(atoms.get_cell()), atoms.get_scaled_positions(), atoms.get_atomic_numbers()), symprec=symprec)


SPECIAL = [(0, 0, 0), (0.5, 0, 0), (0, 0.5, 0), (0, 0, 0.5), (0.5, 0.5, 0), (0.5, 0.5, 0.5), (0.25, 0.25, 0.25), (0, 0.5, 0.25),
           (1 / 3, 2 / 3, 0), (1 / 3, 2 / 3, 0.25)]


def ase_crystal(n, rng, n_orbits=None, max_atoms=120):
    """random crystal of space group n from ASE's tables; returns (Atoms, info) or None.
    The result is verified (independent spglib call at tight and loose tolerance) to have exactly group n."""
    from ase.spacegroup import crystal
    n_orbits = n_orbits or int(rng.integers(1, 4))
    W = wyckoff_tables()[n]
    mult = len(W[general_letter(n)]["expressions"]) * (len(np.asarray(W["translations"]).reshape(-1, 3)) + 1)
    cellpar = cellpar_for_group(n, rng, scale=max(1.0, (mult * n_orbits * 14.0 / 200.0) ** (1 / 3.0)))
    basis, syms = [], []
    els = list(rng.choice(ELEMENTS, n_orbits, replace=False))
    for k in range(n_orbits):
        kind = rng.integers(0, 4)
        if k == n_orbits - 1 or kind == 0:
            p = rng.uniform(0.04, 0.46, 3) + 1 / 331.0 * (k + 1)          # general
        elif kind == 1:
            p = np.array(SPECIAL[int(rng.integers(0, len(SPECIAL)))], dtype=float)
        elif kind == 2:
            x = rng.uniform(0.05, 0.45)
            p = np.array([(x, 0, 0), (x, x, x), (x, x, 0), (0, 0, x), (x, 2 * x, 0.25), (x, 0, 0.5)][int(rng.integers(0, 6))], dtype=float)
        else:
            x, y = rng.uniform(0.05, 0.45, 2)
            p = np.array([(x, y, 0), (x, 0, y), (0, x, y), (x, y, 0.5), (x, x, y)][int(rng.integers(0, 5))], dtype=float)
        basis.append(p)
        syms.append(int(els[k]))
    try:
        atoms = crystal(syms, basis=basis, spacegroup=n, cellpar=cellpar, symprec=1e-4, onduplicates="replace")
    except Exception:
        return None
    if len(atoms) > max_atoms or len(atoms) == 0:
        return None
    d = atoms.get_all_distances(mic=True)
    np.fill_diagonal(d, 10)
    if d.min() < 0.6:
        return None
    # well-conditioned: same group across a 100x tolerance window
    try:
        d1 = spg_dataset(atoms, 1e-4)
        d2 = spg_dataset(atoms, 1e-2)
    except Exception:
        return None
    if d1 is None or d2 is None or d1.number != n or d2.number != n:
        return None
    return atoms, {"group": n, "cellpar": [float(x) for x in cellpar], "symbols": syms, "basis": [[float(v) for v in p] for p in basis]}


UNIMODULAR = None


def random_unimodular(rng, maxent=2):
    """product of a few elementary shears / swaps / sign flips, det = +1"""
    M = np.eye(3, dtype=int)
    for _ in range(int(rng.integers(1, 5))):
        i, j = rng.choice(3, 2, replace=False)
        E = np.eye(3, dtype=int)
        E[i, j] = int(rng.integers(-maxent, maxent + 1))
        M = E @ M
    if rng.random() < 0.3:   # cyclic permutation keeps det +1
        M = M[[1, 2, 0]]
    assert round(np.linalg.det(M)) == 1
    return M


def random_supercell(rng, maxdet=4):
    while True:
        d = [int(rng.integers(1, 4)) for _ in range(3)]
        if np.prod(d) <= maxdet:
            break
    P = np.diag(d)
    # upper triangular HNF-like offsets
    for i in range(3):
        for j in range(i + 1, 3):
            if rng.random() < 0.3:
                P[i, j] = int(rng.integers(0, d[j]))
    return P


def random_rotation(rng):
    q = rng.normal(size=4)
    q /= np.linalg.norm(q)
    a, b, c, d = q
    return np.array([[a * a + b * b - c * c - d * d, 2 * (b * c - a * d), 2 * (b * d + a * c)],
                     [2 * (b * c + a * d), a * a - b * b + c * c - d * d, 2 * (c * d - a * b)],
                     [2 * (b * d - a * c), 2 * (c * d + a * b), a * a - b * b - c * c + d * d]])


def present(atoms, rng, supercell=True, shear=True, rotate=True, translate=True, permute=True, wrap=None):
    """an equivalent description of the same crystal; returns (Atoms, description dict)"""
    from ase.build import make_supercell
    desc = {}
    a = atoms.copy()
    if supercell and rng.random() < 0.5:
        P = random_supercell(rng)
        a = make_supercell(a, P)
        desc["supercell"] = P.tolist()
    if shear and rng.random() < 0.6:
        U = random_unimodular(rng)
        cell = np.array(a.get_cell())
        pos = a.get_positions()
        a = Atoms(numbers=a.get_atomic_numbers(), positions=pos, cell=U @ cell, pbc=True)
        desc["unimodular"] = U.tolist()
    if shear and rng.random() < 0.3:
        # a left-handed description of the same crystal: two cell vectors exchanged (or one reversed), atoms untouched
        cell = np.array(a.get_cell())
        if rng.random() < 0.5:
            i, j = rng.choice(3, 2, replace=False)
            cell[[i, j]] = cell[[j, i]]
            desc["basis_vectors_exchanged"] = [int(i), int(j)]
        else:
            i = int(rng.integers(0, 3))
            cell[i] = -cell[i]
            desc["basis_vector_reversed"] = i
        a = Atoms(numbers=a.get_atomic_numbers(), positions=a.get_positions(), cell=cell, pbc=True)
    if rotate:
        R = random_rotation(rng)
        cell = np.array(a.get_cell()) @ R.T
        pos = a.get_positions() @ R.T
        a = Atoms(numbers=a.get_atomic_numbers(), positions=pos, cell=cell, pbc=True)
        desc["rotation"] = R.tolist()
    if translate:
        t = rng.uniform(-5, 5, 3)
        a.set_positions(a.get_positions() + t)
        desc["translation"] = t.tolist()
    if permute:
        perm = rng.permutation(len(a))
        a = a[perm]
        desc["permutation"] = perm.tolist()
    if wrap is None:
        wrap = rng.random() < 0.5
    if wrap:
        a.wrap()
    desc["wrapped"] = bool(wrap)
    return a, desc


def atoms_to_json(a):
    return {"numbers": [int(z) for z in a.get_atomic_numbers()], "positions": np.asarray(a.get_positions()).tolist(),
            "cell": np.asarray(a.get_cell()).tolist(), "pbc": [bool(x) for x in a.get_pbc()]}


def atoms_from_json(d):
    return Atoms(numbers=d["numbers"], positions=d["positions"], cell=d["cell"], pbc=d["pbc"])
