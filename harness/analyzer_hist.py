"""Operation histories on ONE SymmetryAnalyzer object (shared by C05, C06, C07, C08, C12, C14, C15).

Model: lean/MatidModel/AnalyzerCache.lean with the rule translated from the class on every run (tools/gen_analyzer_rule.py);
theorem Matid.Props.Analyzer.getters_fresh: for every history of set_system / getter calls, what a getter returns belongs to
the structure set by the latest set_system.  Here the same histories are run (a) through the Lean driver (`ahist`), which
says for every getter call which structure version its memoised ingredients belong to, and (b) on the real class; the value
the real getter returns is compared with the value a FRESH analyzer returns for the structure version the model names.
A getter whose answer differs from a fresh analyzer on the current structure is a failing input of the property itself
(replay = the history)."""
import json

import numpy as np

import common
import crystals

PROOF_THEOREMS = ["Matid.Props.Analyzer.rule_ok", "Matid.Props.Analyzer.init_sets_system",
                  "Matid.Props.Analyzer.getters_touch_cached_only", "Matid.Props.Analyzer.getters_fresh"]

GETTERS = {
    "C05": ["get_conventional_system", "get_space_group_number"],
    "C06": ["get_material_id", "get_space_group_number", "get_hall_number", "get_point_group", "get_bravais_lattice",
            "get_crystal_system", "get_has_free_wyckoff_parameters", "get_wyckoff_sets_conventional"],
    "C07": ["get_wyckoff_sets_conventional", "get_wyckoff_letters_conventional", "get_equivalent_atoms_conventional"],
    "C08": ["get_wyckoff_sets_conventional", "get_has_free_wyckoff_parameters"],
    "C12": ["get_primitive_system", "get_wyckoff_letters_original", "get_wyckoff_letters_primitive", "get_wyckoff_letters_conventional",
            "get_equivalent_atoms_original", "get_equivalent_atoms_primitive", "get_equivalent_atoms_conventional"],
    "C14": ["get_crystal_system", "get_bravais_lattice", "get_point_group", "get_space_group_number"],
    "C15": ["get_is_chiral", "get_space_group_number"],
}
# groups for the pool: chiral and achiral, all crystal systems and centrings, so that consecutive structures differ in every observable
POOL_GROUPS = [2, 4, 5, 14, 19, 33, 62, 63, 70, 76, 82, 88, 92, 139, 141, 146, 152, 160, 166, 173, 186, 194, 198, 212, 216, 221, 225, 227, 229, 230]


def canon(v):
    """comparable representation of a getter result"""
    from ase import Atoms
    if isinstance(v, Atoms):
        return ("atoms", v.get_atomic_numbers().tolist(), np.round(np.array(v.get_cell()), 6).tolist(),
                np.round(v.get_positions(), 6).tolist(), [bool(x) for x in v.get_pbc()])
    if isinstance(v, np.ndarray):
        return ("array", np.round(v.astype(float), 6).tolist() if v.dtype.kind in "fiub" else [str(x) for x in v.tolist()])
    if isinstance(v, (list, tuple)):
        return ("list", [canon(x) for x in v])
    if isinstance(v, dict):
        return ("dict", sorted((str(k), canon(x)) for k, x in v.items()))
    if isinstance(v, (str, int, bool, type(None))):
        return v
    if isinstance(v, (float, np.floating)):
        return round(float(v), 6)
    if isinstance(v, np.generic):
        return v.item()
    if hasattr(v, "wyckoff_letter"):
        return ("wset", v.wyckoff_letter, v.element, [int(i) for i in v.indices], None if v.x is None else round(float(v.x), 5),
                None if v.y is None else round(float(v.y), 5), None if v.z is None else round(float(v.z), 5), v.multiplicity)
    return ("repr", repr(v)[:200])


def close(a, b):
    if isinstance(a, (list, tuple)) and isinstance(b, (list, tuple)):
        return len(a) == len(b) and all(close(x, y) for x, y in zip(a, b))
    if isinstance(a, float) or isinstance(b, float):
        try:
            return abs(float(a) - float(b)) <= 2e-5
        except Exception:
            return False
    return a == b


def call(sa, g):
    try:
        if g == "get_wyckoff_sets_conventional":
            return canon(sa.get_wyckoff_sets_conventional())
        return canon(getattr(sa, g)())
    except Exception as e:  # noqa
        return ("exception", type(e).__name__)


def make_pool(rng, k):
    pool = []
    groups = list(rng.permutation(POOL_GROUPS))
    for n in groups:
        if len(pool) >= k:
            break
        for _ in range(6):
            made = crystals.ase_crystal(int(n), rng, max_atoms=40)
            if made:
                pool.append((int(n), made[0]))
                break
    return pool


def overwrite_in_place(obj, other):
    """turn the caller's Atoms object into `other` without creating a new object (strain/relaxation-scan style reuse)"""
    del obj[:]
    obj.set_cell(other.get_cell())
    obj.set_pbc(other.get_pbc())
    obj.extend(other)


def run(ctx, prop, n_hist, tol=1e-3):
    """returns (broken, n_findings) — broken: list of (kind, info) about the proof/correspondence"""
    from matid.symmetry.symmetryanalyzer import SymmetryAnalyzer
    broken = []
    rng = np.random.default_rng(ctx.seed + 7100 + int(prop[1:]))
    getters = GETTERS[prop]
    others = sorted({g for gs in GETTERS.values() for g in gs} - set(getters))
    pool = make_pool(rng, ctx.n(8, 20))
    if len(pool) < 3:
        ctx.note("analyzer histories: pool too small")
        return broken, 0
    fresh_cache = {}

    def fresh(pool_index, atoms, g):
        key = (pool_index, g)
        if key not in fresh_cache:
            fresh_cache[key] = call(SymmetryAnalyzer(atoms.copy(), symmetry_tol=tol), g)
        return fresh_cache[key]

    lines, hist_records = [], []
    n_find = 0
    # directed histories when the extracted rule does not satisfy Rule.ok: getters that touch an attribute reset() does not
    # clear (or all getters, when set_system does not start with reset()) are called before and after a change of structure
    directed = []
    try:
        import gen_analyzer_rule
        rule = gen_analyzer_rule.translate()
        leaky = [f for f in rule["cached"] if f not in rule["reset"] and f not in rule["system"]]
        if leaky or not rule["reset_first"]:
            gl = [g for g, fs in rule["getters"].items() if (not rule["reset_first"]) or any(f in leaky for f in fs)]
            gl = [g for g in gl if g in getters] + [g for g in gl if g not in getters]
            for g in gl[:4]:
                for i in range(len(pool)):
                    for j in range(len(pool)):
                        if i != j and len(directed) < ctx.n(260, 2000):
                            directed.append((i, j, g, "inplace" if (i + j) % 2 else "new"))
            ctx.coverage["analyzer_rule_leaks"] = {"not_reset": leaky, "reset_first": rule["reset_first"], "directed_histories": len(directed)}
    except Exception as e:  # noqa
        ctx.note("analyzer rule unavailable for the directed search: %r" % (e,))
    for (i, j, g, how) in directed:
        cur = pool[i][1].copy()
        versions = {1: (pool[i][0], cur.copy(), i)}
        sa = SymmetryAnalyzer(cur, symmetry_tol=tol)
        real = [call(sa, g)]
        if how == "inplace":
            overwrite_in_place(cur, pool[j][1])
        else:
            cur = pool[j][1].copy()
        versions[2] = (pool[j][0], cur.copy(), j)
        try:
            sa.set_system(cur)
        except Exception:  # noqa
            ctx.count("ahist_set_system_exception")
        real += [None, call(sa, g)]
        ops = ["G:" + g, "S:2", "G:" + g]
        desc = [{"op": g}, {"op": "set_system", "how": how, "group": pool[j][0], "version": 2}, {"op": g}]
        lines.append("ahist 1 " + ";".join(ops))
        hist_records.append((1, ops, desc, real, versions))
        ctx.count("ahist_directed")
    for h in range(n_hist):
        version = 0
        versions = {}
        i0 = int(rng.integers(0, len(pool)))
        cur = pool[i0][1].copy()
        version += 1
        versions[version] = (pool[i0][0], cur.copy(), i0)
        sa = SymmetryAnalyzer(cur, symmetry_tol=tol)
        v0 = version
        ops, desc, real = [], [], []
        for _ in range(int(rng.integers(6, 15))):
            r = rng.random()
            if r < 0.3:
                j = int(rng.integers(0, len(pool)))
                version += 1
                if rng.random() < 0.4:
                    overwrite_in_place(cur, pool[j][1])        # same object, modified in place, passed again
                    how = "inplace"
                else:
                    cur = pool[j][1].copy()
                    how = "new"
                versions[version] = (pool[j][0], cur.copy(), j)
                try:
                    sa.set_system(cur)
                except Exception:  # noqa
                    ctx.count("ahist_set_system_exception")
                ops.append("S:%d" % version)
                desc.append({"op": "set_system", "how": how, "group": pool[j][0], "version": version})
                real.append(None)
            else:
                g = getters[int(rng.integers(0, len(getters)))] if rng.random() < 0.75 or not others else others[int(rng.integers(0, len(others)))]
                ops.append("G:" + g)
                desc.append({"op": g})
                real.append(call(sa, g))
            ctx.count("ahist_ops")
        lines.append("ahist %d %s" % (v0, ";".join(ops)))
        hist_records.append((v0, ops, desc, real, versions))
    try:
        outs = common.driver(lines)
    except common.DriverError as e:
        broken.append(("driver", {"error": str(e)[-800:]}))
        outs = [None] * len(lines)
    mism = []
    for (v0, ops, desc, real, versions), out in zip(hist_records, outs):
        tags = out.split("|") if out and out != "bad-op" else [None] * len(ops)
        if out == "bad-op":
            broken.append(("driver", {"error": "bad-op", "ops": ops[:6]}))
        cur_v = v0
        ctx.case(("ahist", prop, tuple(ops), tuple(d.get("group", 0) for d in desc)), sample={"history": ops} if len(ctx.samples) < 2 else None)
        for k, (o, d, rv) in enumerate(zip(ops, desc, real)):
            if o.startswith("S:"):
                cur_v = int(o[2:])
                continue
            g = o[2:]
            want = fresh(versions[cur_v][2], versions[cur_v][1], g)
            model_tags = [int(t) for t in tags[k].split(",")] if tags[k] not in (None, "-", "") else [cur_v]
            rec = {"history": desc[:k + 1], "v0_group": versions[v0][0], "getter": g, "returned": str(rv)[:300], "fresh_analyzer_returns": str(want)[:300],
                   "model_says_versions": model_tags, "current_version": cur_v,
                   "structures": {str(v): crystals.atoms_to_json(a) for v, (n, a, _) in versions.items() if v <= cur_v}}
            if not close(rv, want):
                # the property itself fails on this history (re-used analyzer ≠ fresh analyzer on the structure that was set)
                if n_find < 3:
                    ctx.finding("ahist:%s:%s" % (prop, g), "%s on a re-used analyzer differs from a fresh analyzer after %s" % (
                        g, " / ".join(x["op"] + (":" + x.get("how", "") if "how" in x else "") for x in desc[:k + 1])[:160]),
                        {"kind": "failing-input", "how": "SymmetryAnalyzer history: apply the ops in order to one analyzer object", "case": rec})
                n_find += 1
                ctx.count("ahist_stale_answers")
                if model_tags == [cur_v]:
                    mism.append({"what": "model says fresh, code stale", "getter": g})
            elif model_tags != [cur_v]:
                # model (translated from the code) predicts a stale ingredient but the answer agrees with a fresh analyzer
                stale_want = [fresh(versions[t][2], versions[t][1], g) for t in model_tags if t in versions]
                if not all(close(w, want) for w in stale_want):
                    mism.append({"what": "model says stale, code fresh", "getter": g, "tags": model_tags})
    if mism:
        broken.append(("analyzer-correspondence", {"count": len(mism), "first": mism[:4]}))
    ctx.coverage["analyzer_histories"] = {"histories": n_hist, "pool_groups": [n for n, _ in pool], "stale_answers": n_find}
    return broken, n_find


def check(ctx, prop, broken):
    """translator + proof + histories for `prop`; appends to `broken`; findings are registered on ctx"""
    terr = common.regen(ctx, ("analyzer_rule",))
    if terr:
        for t in PROOF_THEOREMS:
            ctx.obligations.append((t, False))
        broken.append(("analyzer-translator", terr))
    else:
        ok, info = common.prove(ctx, "MatidProps.Analyzer", PROOF_THEOREMS)
        if not ok:
            broken.append(("analyzer-proof", info))
    b, n = run(ctx, prop, ctx.n(12, 300))
    broken.extend(b)
    # the built-in tables after everything this check did with the library (analyses of many crystals, histories on one object)
    mod = common.tables_modified()
    ctx.coverage["built_in_tables_unchanged_by_use"] = not mod
    if mod:
        ctx.finding("tables-modified:%s:%s" % (mod[0][0], mod[0][1]), "the built-in table %s (entry %s%s) is no longer what it was when the library was imported: "
                    "using the analyzer changed it" % (mod[0][0], mod[0][1], " and %d more" % (len(mod) - 1) if len(mod) > 1 else ""),
                    {"kind": "failing-history", "history": "import matid; run the analyses of this check (any crystal of the named space group through get_conventional_system / "
                     "get_wyckoff_sets_conventional); compare matid.data.symmetry_data.%s[%r] with a fresh import" % (mod[0][0], mod[0][1]), "modified": [list(m) for m in mod[:20]]})
    ctx.assumptions.append("analyzer caches: module-level / class-level state and caches inside spglib are not modelled; "
                           "only attributes assigned through `self.` in class SymmetryAnalyzer (translated from the AST on every run)")
    return n


def replay(path):
    """re-run a recorded analyzer history on the real class and print returned vs fresh values"""
    from matid.symmetry.symmetryanalyzer import SymmetryAnalyzer
    r = json.load(open(path))
    c = r["case"]
    structs = {int(k): crystals.atoms_from_json(v) for k, v in c["structures"].items()}
    v = min(structs)
    cur = structs[v].copy()
    sa = SymmetryAnalyzer(cur, symmetry_tol=1e-3)
    bad = 0
    for d in c["history"]:
        if d["op"] == "set_system":
            v = d["version"]
            if d.get("how") == "inplace":
                overwrite_in_place(cur, structs[v])
            else:
                cur = structs[v].copy()
            sa.set_system(cur)
            print("set_system(version %d, group %s, %s)" % (v, d.get("group"), d.get("how")))
        else:
            got = call(sa, d["op"])
            want = call(SymmetryAnalyzer(structs[v].copy(), symmetry_tol=1e-3), d["op"])
            ok = close(got, want)
            bad += not ok
            print("%s -> %s | fresh analyzer: %s | %s" % (d["op"], str(got)[:80], str(want)[:80], "ok" if ok else "DIFFERS"))
    print("property %s on this history" % ("VIOLATED" if bad else "holds"))
    return 1 if bad else 0
