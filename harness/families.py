"""Crystal families of C02, C03, C04, C18 with the independent bonding / overlap precondition.

Reading of the families (fixed in DESIGN.md §6 so that the generator is not tuned to the outcome):
 * "n layers" of a slab = ase.build.surface(conventional_cell, (h,k,l), layers=n);
 * lateral / periodic extents are perpendicular cell heights, required > 2*max_cell_size + 0.5 A (C02/C03), >= 10 A (C18);
 * every atom's nearest-neighbour gap d - r_i - r_j must lie in [overlap_threshold + 0.1, bond_threshold - 0.1];
 * the bonded network must have the expected dimensionality already at bond_threshold - 0.1.
Samples failing a margin are skipped and counted."""
import numpy as np
from ase import Atoms
from ase.build import bulk, surface

MAX_CELL = 6.0
BOND = 0.65
OVERLAP = -0.6


def reference_elements():
    """elemental fcc / bcc / hcp / diamond / sc crystals of ASE's reference table"""
    from ase.data import reference_states, chemical_symbols
    out = []
    for z, ref in enumerate(reference_states):
        if ref is None or z > 83:
            continue
        st = ref.get("symmetry")
        if st in ("fcc", "bcc", "diamond", "sc") and "a" in ref:
            out.append((chemical_symbols[z], st, {"a": ref["a"]}))
        elif st == "hcp" and "a" in ref and "c/a" in ref:
            out.append((chemical_symbols[z], st, {"a": ref["a"], "c": ref["a"] * ref["c/a"]}))
    return out


def compounds():
    from ase.spacegroup import crystal
    return [
        ("NaCl", lambda: bulk("NaCl", "rocksalt", a=5.64, cubic=True), 2),
        ("MgO", lambda: bulk("MgO", "rocksalt", a=4.21, cubic=True), 2),
        ("ZnS", lambda: bulk("ZnS", "zincblende", a=5.41, cubic=True), 2),
        ("GaAs", lambda: bulk("GaAs", "zincblende", a=5.65, cubic=True), 2),
        ("CsCl", lambda: bulk("CsCl", "cesiumchloride", a=4.12, cubic=True), 2),
        ("CaF2", lambda: crystal(["Ca", "F"], [(0, 0, 0), (.25, .25, .25)], spacegroup=225, cellpar=[5.46] * 3 + [90] * 3), 3),
        ("Li2O", lambda: crystal(["O", "Li"], [(0, 0, 0), (.25, .25, .25)], spacegroup=225, cellpar=[4.62] * 3 + [90] * 3), 3),
        ("ZnO", lambda: bulk("ZnO", "wurtzite", a=3.25, c=5.2), 4),
        ("SrTiO3", lambda: crystal(["Sr", "Ti", "O"], [(0, 0, 0), (.5, .5, .5), (.5, .5, 0)], spacegroup=221, cellpar=[3.905] * 3 + [90] * 3), 5),
        ("TiO2", lambda: crystal(["Ti", "O"], [(0, 0, 0), (0.305, 0.305, 0)], spacegroup=136, cellpar=[4.59, 4.59, 2.96, 90, 90, 90]), 6),
    ]


def conventional(name, st, par):
    if st == "hcp":
        return bulk(name, "hcp", a=par["a"], c=par["c"], orthorhombic=False)
    if st == "sc":
        return bulk(name, "sc", a=par["a"])
    return bulk(name, st, a=par["a"], cubic=True)


def heights(cell):
    cell = np.array(cell)
    vol = abs(np.linalg.det(cell))
    return np.array([vol / np.linalg.norm(np.cross(cell[(i + 1) % 3], cell[(i + 2) % 3])) for i in range(3)])


def nn_gaps(atoms, radii="covalent"):
    """per atom: nearest-neighbour distance minus the two radii"""
    import matid.geometry as G
    r = G.get_radii(radii, atoms.get_atomic_numbers())
    a = atoms.copy()
    a.wrap()
    reps = [2 if a.get_pbc()[i] and heights(a.get_cell())[i] < 8 else 1 for i in range(3)]
    big = a.repeat(reps)
    rr = np.tile(r, int(np.prod(reps)))
    _, d = G.get_displacement_tensor(big.get_positions(), big.get_cell(), big.get_pbc(), cutoff=8.0, return_distances=True)
    d = d - rr[:, None] - rr[None, :]
    np.fill_diagonal(d, np.inf)
    return d.min(axis=1)[: len(a)]


def precondition(conv, expected_dim, radii="covalent", structure=None):
    """returns None when the sample is inside the family, otherwise the reason it is skipped"""
    import matid.geometry as G
    import spglib
    if np.isnan(G.get_radii(radii, conv.get_atomic_numbers())).any():
        return "no radius"
    prim = spglib.find_primitive((np.array(conv.get_cell()), conv.get_scaled_positions(), conv.get_atomic_numbers()), symprec=1e-3)
    if prim is None:
        return "no primitive cell"
    if len(prim[2]) > 6:
        return "more than six atoms in the primitive cell"
    if np.linalg.norm(prim[0], axis=1).max() > MAX_CELL - 0.3:
        return "primitive vector too long"
    s = structure if structure is not None else conv
    gaps = nn_gaps(s, radii)
    if gaps.max() > BOND - 0.1:
        return "nearest neighbours not bonded with margin"
    if gaps.min() < OVERLAP + 0.1:
        return "overlapping atoms"
    if G.get_dimensionality(s, BOND - 0.1, radii=radii) != expected_dim:
        return "bonded network has not dimensionality %d with margin" % expected_dim
    return None


def repeat_to(atoms, target, axes):
    h = heights(atoms.get_cell())
    rep = [1, 1, 1]
    for i in axes:
        rep[i] = max(1, int(np.ceil((target + 1e-9) / h[i])))
    return atoms.repeat(rep)


def bulk_supercell(conv, target=2 * MAX_CELL + 0.5):
    return repeat_to(conv, target, (0, 1, 2))


def slab(conv, hkl, layers, vacuum=8.0, target=2 * MAX_CELL + 0.5, pbc_z=True):
    s = surface(conv, hkl, layers, vacuum=vacuum)
    s = repeat_to(s, target, (0, 1))
    s.set_pbc([True, True, bool(pbc_z)])
    return s


def present(atoms, rng, noise=0.0, rotate=True):
    """rigid rotation (cell and atoms), translation, permutation, rattling"""
    import crystals
    a = atoms.copy()
    if noise:
        d = rng.normal(size=(len(a), 3))
        d = d / np.linalg.norm(d, axis=1)[:, None] * rng.uniform(0, noise, len(a))[:, None]
        a.set_positions(a.get_positions() + d)
    if rotate:
        R = crystals.random_rotation(rng)
        a = Atoms(numbers=a.get_atomic_numbers(), positions=a.get_positions() @ R.T, cell=np.array(a.get_cell()) @ R.T, pbc=a.get_pbc())
    # rigid translation: small, or far outside the box (a slab shifted by more than its vacuum; unwrapped coordinates)
    if rng.random() < 0.5:
        a.set_positions(a.get_positions() + rng.uniform(-3, 3, 3))
    else:
        v = rng.normal(size=3)
        a.set_positions(a.get_positions() + v / np.linalg.norm(v) * rng.uniform(5, 40))
    a = a[rng.permutation(len(a))]
    return a


def monolayers():
    from ase.build import graphene, mx2
    out = [("graphene", lambda: graphene(a=2.46, vacuum=8.0), 2), ("h-BN", lambda: graphene("BN", a=2.50, vacuum=8.0), 2)]
    for f, kind, a0, t in (("MoS2", "2H", 3.18, 3.19), ("WS2", "2H", 3.18, 3.19), ("MoSe2", "2H", 3.32, 3.34), ("TiS2", "1T", 3.41, 2.85), ("SnS2", "1T", 3.65, 2.96), ("MoS2", "1T", 3.18, 3.19)):
        out.append((f + "-" + kind, (lambda f=f, kind=kind, a0=a0, t=t: mx2(f, kind=kind, a=a0, thickness=t, vacuum=8.0)), 3))
    return out
