"""Shared pieces of the SBC / classifier checks (C01, C02, C03, C04, C17, C18): input families, recording of the
periodic finder, invariant oracle."""
import numpy as np


class FakeRegion:
    """stand-in for a LinkedUnitCollection in the direct drive of the pipeline"""

    def __init__(self, basis, rid):
        self._basis = set(int(i) for i in basis)
        self.rid = rid
        self.cell = None
        self.is_2d = False

    def get_basis_indices(self):
        return self._basis


def dots(l):
    l = sorted(int(i) for i in l)
    return ".".join(map(str, l)) if l else "-"


def matrix_str(M):
    return ",".join("".join("1" if v else "0" for v in row) for row in M) if len(M) else "-"


class FinderRecorder:
    """wraps PeriodicFinder.get_region and records (seed, basis indices or None, mask) of every call"""

    def __enter__(self):
        from matid.core.periodicfinder import PeriodicFinder
        self.cls = PeriodicFinder
        self.orig = PeriodicFinder.get_region
        self.calls = []
        self.system = None
        rec = self

        def wrapped(finder, system, seed_index, *a, **kw):
            if rec.system is None:
                rec.system = system.copy()          # the structure as the entry of get_clusters prepared it
            out = rec.orig(finder, system, seed_index, *a, **kw)
            region, mask = out if kw.get("return_mask") else (out, None)
            rec.calls.append({"seed": int(seed_index), "basis": None if region is None else sorted(int(i) for i in region.get_basis_indices()),
                              "rid": id(region) if region is not None else 0, "mask": None if mask is None else np.flatnonzero(mask).tolist(),
                              "region": region})
            return out
        PeriodicFinder.get_region = wrapped
        return self

    def __exit__(self, *a):
        self.cls.get_region = self.orig


def c01_family(rng, k, max_atoms=120):
    """the input family of C01: gases, rattled / defective / substituted crystals, two crystals in one cell, molecules in a
    box; every pbc combination; orthogonal / skewed / degenerate cells; wrapped or unwrapped positions"""
    from ase import Atoms
    from ase.build import bulk, fcc111, molecule
    kind = ("gas", "rattled", "defective", "substituted", "two-crystals", "molecules", "degenerate", "skewed",
            "degenerate-oblique", "substituted-heavy")[k % 10]
    if kind == "gas":
        n = int(rng.integers(1, 60))
        cell = np.diag(rng.uniform(4, 12, 3))
        a = Atoms(numbers=rng.choice([1, 6, 8, 14, 29], n), positions=rng.random((n, 3)) @ cell, cell=cell)
    elif kind == "degenerate-oblique":
        # zero cell vector(s) along non-periodic directions while the remaining vectors are NOT axis aligned:
        # a tilted / rotated sheet or slab with c = 0, an oblique finite cluster with two zero vectors, permuted axes
        import crystals
        base = [("Cu", "fcc", 3.6), ("Fe", "bcc", 2.87), ("Si", "diamond", 5.43)][int(rng.integers(0, 3))]
        a = bulk(base[0], base[1], a=base[2], cubic=True) * (2, 2, 1)
        nz = int(rng.integers(1, 3))
        order = [int(i) for i in rng.permutation(3)]
        cell = np.array(a.get_cell())[order][:, order]      # relabel the axes consistently (cell rows and Cartesian columns)
        a.set_cell(cell, scale_atoms=False)
        a.set_positions(a.get_positions()[:, order])
        R = crystals.random_rotation(rng)
        a.set_cell(np.array(a.get_cell()) @ R.T, scale_atoms=True)
        cell = np.array(a.get_cell())
        zero = [int(i) for i in rng.choice(3, nz, replace=False)]
        cell[zero] = 0
        a.set_cell(cell, scale_atoms=False)
        a.set_pbc([i not in zero and bool(rng.integers(0, 2)) for i in range(3)])
        return _finish(a, rng, kind, max_atoms, keep_pbc=True)
    elif kind == "substituted-heavy":
        # 10-25 % of the atoms replaced: overlapping regions that are not merged at high merge thresholds
        el, st, lat, sub = [("Si", "diamond", 5.43, 32), ("Cu", "fcc", 3.6, 47), ("NaCl", "rocksalt", 5.64, 19), ("Al", "fcc", 4.05, 31)][int(rng.integers(0, 4))]
        a = bulk(el, st, a=lat, cubic=True) * tuple(int(v) for v in rng.integers(2, 4, 3))
        z = a.get_atomic_numbers()
        z[rng.choice(len(a), max(2, int(len(a) * rng.uniform(0.1, 0.25))), replace=False)] = sub
        a.set_atomic_numbers(z)
    elif kind in ("rattled", "defective", "substituted", "skewed"):
        el, st, lat = [("Cu", "fcc", 3.6), ("Fe", "bcc", 2.87), ("Si", "diamond", 5.43), ("NaCl", "rocksalt", 5.64), ("Al", "fcc", 4.05)][int(rng.integers(0, 5))]
        a = bulk(el, st, a=lat, cubic=True) * tuple(int(v) for v in rng.integers(2, 4, 3))
        if kind == "rattled":
            a.rattle(float(rng.uniform(0.01, 0.15)), seed=int(rng.integers(0, 10 ** 6)))
        elif kind == "defective":
            del a[[int(i) for i in rng.choice(len(a), max(1, len(a) // 12), replace=False)]]
        elif kind == "substituted":
            z = a.get_atomic_numbers()
            z[rng.choice(len(a), max(1, len(a) // 10), replace=False)] = 79
            a.set_atomic_numbers(z)
        else:
            U = np.eye(3, dtype=int)
            U[0, 1] = int(rng.integers(-1, 2))
            U[2, 0] = int(rng.integers(-1, 2))
            a.set_cell(U @ np.array(a.get_cell()), scale_atoms=False)
    elif kind == "two-crystals":
        s1 = fcc111("Cu", (3, 3, 3), a=3.6, vacuum=0)
        s2 = fcc111("Ag", (3, 3, 3), a=3.6, vacuum=0)
        s2.translate([0, 0, s1.get_positions()[:, 2].max() + 2.3])
        a = s1 + s2
        c = np.array(a.get_cell())
        c[2, 2] = a.get_positions()[:, 2].max() + float(rng.uniform(2.0, 9.0))
        a.set_cell(c)
    elif kind == "molecules":
        a = Atoms(cell=np.diag(rng.uniform(8, 14, 3)))
        for _ in range(int(rng.integers(1, 5))):
            m = molecule(["H2O", "CO2", "CH4", "NH3"][int(rng.integers(0, 4))])
            m.rotate(float(rng.uniform(0, 360)), "z")
            m.translate(rng.random(3) @ np.array(a.get_cell()))
            a += m
    else:   # degenerate: zero cell vectors along non-periodic directions
        n = int(rng.integers(2, 30))
        a = Atoms(numbers=rng.choice([6, 8, 29], n), positions=rng.uniform(0, 6, (n, 3)))
        cell = np.diag(rng.uniform(5, 9, 3))
        zero = rng.choice(3, int(rng.integers(1, 4)), replace=False)
        cell[zero] = 0
        a.set_cell(cell)
        a.set_pbc([i not in zero and bool(rng.integers(0, 2)) for i in range(3)])
        return _finish(a, rng, kind, max_atoms, keep_pbc=True)
    a.set_pbc([True, True, True] if rng.random() < 0.3 else [bool(rng.integers(0, 2)) for _ in range(3)])
    return _finish(a, rng, kind, max_atoms)


def _finish(a, rng, kind, max_atoms, keep_pbc=False):
    if len(a) > max_atoms:
        a = a[[int(i) for i in sorted(rng.choice(len(a), max_atoms, replace=False))]]
    if rng.random() < 0.4 and np.array(a.get_pbc()).any() and abs(np.linalg.det(np.array(a.get_cell()))) > 1e-6:
        sh = rng.integers(-2, 3, (len(a), 3)) * np.array(a.get_pbc(), dtype=int)
        a.set_positions(a.get_positions() + sh @ np.array(a.get_cell()))      # unwrapped positions
    if rng.random() < 0.5:
        a = a[rng.permutation(len(a))]
    if rng.random() < 0.3:
        v = rng.normal(size=3)
        a.translate(v / np.linalg.norm(v) * rng.uniform(1.0, 15.0))      # rigid translation: atoms may leave the box entirely
    return a, kind


def sbc_params(rng, k, kind=None):
    if kind == "substituted-heavy":
        return {"merge_threshold": [0.8, 1.0, 0.5][k % 3], "pos_tol": [0.5, 0.3, 0.7][(k // 3) % 3]}
    if k % 3 == 0:
        return {}
    return {"bond_threshold": float(rng.uniform(0.4, 1.0)), "pos_tol": float(rng.uniform(0.3, 0.9)), "max_cell_size": float(rng.uniform(4, 8)),
            "merge_threshold": float(rng.uniform(0.2, 1.0)), "radii": ["covalent", "vdw", "vdw_covalent"][int(rng.integers(0, 3))]}


def snapshot(a):
    return (a.get_positions().copy(), np.array(a.get_cell()).copy(), a.get_pbc().copy(), a.get_atomic_numbers().copy())


def unchanged(a, snap):
    return (np.array_equal(a.get_positions(), snap[0]) and np.array_equal(np.array(a.get_cell()), snap[1])
            and np.array_equal(a.get_pbc(), snap[2]) and np.array_equal(a.get_atomic_numbers(), snap[3]))


def check_clusters(a, clusters, params):
    """the invariants of C01 on a returned cluster list"""
    import matid.geometry as G
    out = []
    n = len(a)
    seen = set()
    thr = params.get("bond_threshold", 0.65)
    radii = G.get_radii(params.get("radii", "covalent"), a.get_atomic_numbers())
    w = a.copy()
    zero = [not np.array(w.get_cell())[i].any() for i in range(3)]
    if any(zero):
        from ase.geometry import complete_cell
        w.set_cell(complete_cell(np.array(w.get_cell())))
    nums = a.get_atomic_numbers()
    for c in clusters:
        idx = [int(i) for i in c.indices]
        if not idx:
            out.append("empty cluster")
            continue
        if len(set(idx)) != len(idx):
            out.append("duplicate indices in a cluster")
        if min(idx) < 0 or max(idx) >= n:
            out.append("index out of range")
            continue
        if seen & set(idx):
            out.append("clusters share atoms %s" % sorted(seen & set(idx))[:5])
        seen |= set(idx)
        if any(int(nums[i]) not in c.species for i in idx):
            out.append("atom with a species not listed in the cluster's species")
        # one connected component under the bonding criterion
        if len(idx) > 1 and not np.isnan(radii[idx]).any():
            sub = w[idx]
            try:
                sub.wrap()
                _, dist = G.get_displacement_tensor(sub.get_positions(), sub.get_cell(), sub.get_pbc(), return_distances=True)
                adj = (dist - radii[idx][:, None] - radii[idx][None, :]) <= thr + 1e-9
                lab = list(range(len(idx)))
                changed = True
                while changed:
                    changed = False
                    for i in range(len(idx)):
                        m = min(lab[j] for j in range(len(idx)) if adj[i, j] or i == j)
                        if m < lab[i]:
                            lab[i] = m
                            changed = True
                if len(set(lab)) != 1:
                    out.append("cluster of %d atoms is not one bonded component (%d components)" % (len(idx), len(set(lab))))
            except Exception as e:  # noqa
                out.append("connectivity check failed: %r" % e)
        cell = c.get_cell()
        if cell is None:
            out.append("cluster exposes no prototype cell")
        else:
            npbc = int(np.sum(cell.get_pbc()))
            if npbc not in (2, 3):
                out.append("prototype cell periodic in %d directions" % npbc)
    return out


class ProtoRecorder:
    """records, for every call of PeriodicFinder._find_proto_cell, the outcomes of the sub-computations its acceptance tree looks
    at and what it returned (model: lean/MatidModel/ProtoDecision.lean, driver op `protodecide`)"""

    def __enter__(self):
        import matid.geometry as G
        from matid.core.periodicfinder import PeriodicFinder
        from matid.utils.exceptions import MatIDError
        self.G, self.PF = G, PeriodicFinder
        self.records = []
        self.adaptive = []
        self.max_adaptive = 400
        self.assemble = []
        self.assemble_errors = []
        self.span = []
        self.span_cur = None
        self.best = []
        self.max_best = 30
        self.max_span = 12
        self.max_span_size = 6000
        self.max_assemble = 40
        self.cur = None
        rec = self
        self.orig = {n: getattr(PeriodicFinder, n) for n in ("_find_proto_cell", "_find_best_basis", "_find_graphs", "_find_proto_cell_3d", "_find_proto_cell_2d")}
        self.orig_g = {n: getattr(G, n) for n in ("get_dimensionality", "get_thickness", "get_distances")}

        def best_basis(finder, valid_spans, valid_span_metrics):
            out = rec.orig["_find_best_basis"](finder, valid_spans, valid_span_metrics)
            if rec.cur is not None:
                rec.cur.update(totalValid=len(valid_spans), combo=[int(i) for i in out], spans=np.array(valid_spans, dtype=float))
            if rec.span_cur is not None:
                rec.span_cur.update(valid_metrics=[int(m) for m in valid_span_metrics], combo=[int(i) for i in out])
            if len(rec.best) < rec.max_best and len(valid_spans) <= 26:
                rec.best.append({"spans": np.array(valid_spans, dtype=float).copy(), "metrics": [int(m) for m in valid_span_metrics], "combo": [int(i) for i in out],
                                 "angle_tol": float(finder.angle_tol), "cell_size_tol": float(finder.cell_size_tol)})
            return out

        def graphs(finder, seed_index, numbers, best_adjacency_lists, neighbour_indices, neighbour_factors):
            try:
                out = rec.orig["_find_graphs"](finder, seed_index, numbers, best_adjacency_lists, neighbour_indices, neighbour_factors)
            except Exception as e:  # noqa
                if rec.span_cur is not None:
                    rec.span_cur["graphs_exception"] = repr(e)[:120]
                raise
            if rec.cur is not None:
                rec.cur["seedInGraph"] = out[1] is not None
            if rec.span_cur is not None:
                nd = lambda n: (int(n[0]), tuple(int(v) for v in n[1]))
                rec.span_cur["graph_in"] = [[(nd(k_), nd(v_)) for k_, vs in adj.items() for v_ in vs] for adj in best_adjacency_lists]
                rec.span_cur["graph_out"] = None if out[2] is None else {
                    "groups": [sorted(nd(n) for n in nodes) for nodes in out[2]["nodes"]], "nums": [int(z) for z in out[2]["num"]],
                    "seedGroup": None if out[1] is None else int(out[1])}
            return out

        def _span_adj(adjacency_add, adjacency_sub):
            if rec.span_cur is not None:
                nd = lambda n: (int(n[0]), tuple(int(v) for v in n[1]))
                rec.span_cur["adj_add"] = [[(nd(k_), nd(v_)) for k_, vs in adj.items() for v_ in vs] for adj in adjacency_add]
                rec.span_cur["adj_sub"] = [[(nd(k_), nd(v_)) for k_, vs in adj.items() for v_ in vs] for adj in adjacency_sub]

        def _assemble_record(two, seed_nodes, group_data_pbc, seed_group_index, results, out, best_spans):
            """inputs and outputs of the basis assembly (model: lean/MatidModel/ProtoAssemble.lean, driver op `assemble`)"""
            if len(rec.assemble) >= rec.max_assemble or out[0] is None:
                return
            cells, seen, k = [], {}, 0
            for node in seed_nodes:
                i_seed, i_fac = int(node[0]), tuple(int(v) for v in node[1])
                if i_seed not in seen:
                    if k >= len(results):
                        return
                    seen[i_seed] = results[k]
                    k += 1
                ind, pos, fac = seen[i_seed]
                cells.append(([(int(i), tuple(int(a_ + b_) for a_, b_ in zip(i_fac, f))) for i, f in zip(ind, fac)], np.array(pos, dtype=float).reshape(-1, 3)))
            groups = [[(int(n[0]), tuple(int(v) for v in n[1])) for n in nodes] for nodes in group_data_pbc["nodes"]]
            rec.assemble.append({"two": two, "cells": cells, "groups": groups, "nums": [int(z) for z in group_data_pbc["num"]], "seedGroup": int(seed_group_index),
                                 "out_numbers": [int(z) for z in out[0].get_atomic_numbers()], "out_positions": np.array(out[0].get_positions(), dtype=float),
                                 "out_cell": np.array(out[0].get_cell(), dtype=float), "out_seed": None if out[2] is None else int(out[2])})

        def cell3(finder, seed_nodes, best_spans, system, group_data_pbc, seed_group_index, adjacency_add, adjacency_sub, pos_tol):
            # capture the adaptive cells: they are the `basis` argument of get_positions_within_basis, called once per distinct seed atom
            captured, results = [], []
            orig_pwb = G.get_positions_within_basis

            def pwb(system_, basis, origin, tolerance, *a2, **k2):
                captured.append(np.array(basis, dtype=float).copy())
                r_ = orig_pwb(system_, basis, origin, tolerance, *a2, **k2)
                results.append((list(r_[0]), np.array(r_[1], dtype=float).copy(), [tuple(int(v) for v in f) for f in r_[2]]))
                return r_
            G.get_positions_within_basis = pwb
            try:
                out = rec.orig["_find_proto_cell_3d"](finder, seed_nodes, best_spans, system, group_data_pbc, seed_group_index, adjacency_add, adjacency_sub, pos_tol)
            finally:
                G.get_positions_within_basis = orig_pwb
            if rec.cur is not None:
                rec.cur["cellFound"] = out[0] is not None
            _span_adj(adjacency_add, adjacency_sub)
            try:
                _assemble_record(False, seed_nodes, group_data_pbc, seed_group_index, results, out, best_spans)
            except Exception as e:  # noqa
                rec.assemble_errors.append(repr(e))
            if len(rec.adaptive) < rec.max_adaptive:
                pos = system.get_positions()
                cell = np.array(system.get_cell())
                seen, k = set(), 0
                for node in seed_nodes:
                    if node[0] in seen:
                        continue
                    seen.add(node[0])
                    if k >= len(captured):
                        break
                    for ib in range(3):
                        add = adjacency_add[ib].get(node, []) if hasattr(adjacency_add[ib], "get") else []
                        sub = adjacency_sub[ib].get(node, []) if hasattr(adjacency_sub[ib], "get") else []
                        rec.adaptive.append({"cell": cell, "idx": int(node[0]), "pNode": pos[node[0]].copy(), "fNode": tuple(int(v) for v in node[1]),
                                             "add": None if not add else (int(add[0][0]), pos[add[0][0]].copy(), tuple(int(v) for v in add[0][1])),
                                             "sub": None if not sub else (int(sub[0][0]), pos[sub[0][0]].copy(), tuple(int(v) for v in sub[0][1])),
                                             "span": np.array(best_spans[ib], dtype=float), "real": captured[k][ib].copy()})
                    k += 1
            return out

        def cell2(finder, seed_nodes, best_spans, system, group_data_pbc, seed_group_index, adjacency_add, adjacency_sub, pos_tol):
            results = []
            orig_pwb = G.get_positions_within_basis

            def pwb(system_, basis, origin, tolerance, *a2, **k2):
                r_ = orig_pwb(system_, basis, origin, tolerance, *a2, **k2)
                results.append((list(r_[0]), np.array(r_[1], dtype=float).copy(), [tuple(int(v) for v in f) for f in r_[2]]))
                return r_
            G.get_positions_within_basis = pwb
            try:
                out = rec.orig["_find_proto_cell_2d"](finder, seed_nodes, best_spans, system, group_data_pbc, seed_group_index, adjacency_add, adjacency_sub, pos_tol)
            finally:
                G.get_positions_within_basis = orig_pwb
            if rec.cur is not None:
                rec.cur["cellFound"] = out[0] is not None
            _span_adj(adjacency_add, adjacency_sub)
            try:
                _assemble_record(True, seed_nodes, group_data_pbc, seed_group_index, results, out, best_spans)
            except Exception as e:  # noqa
                rec.assemble_errors.append(repr(e))
            return out

        def dimensionality(*a, **k):
            try:
                out = rec.orig_g["get_dimensionality"](*a, **k)
            except MatIDError:
                if rec.cur is not None:
                    rec.cur["dims"].append("error")
                raise
            if rec.cur is not None:
                d = out[0] if k.get("return_clusters") else out
                rec.cur["dims"].append("none" if d is None else int(d))
            return out

        def thickness(*a, **k):
            out = rec.orig_g["get_thickness"](*a, **k)
            if rec.cur is not None:
                rec.cur["thick"].append(float(out))
            return out

        def distances(system, *a, **k):
            out = rec.orig_g["get_distances"](system, *a, **k)
            if rec.cur is not None:
                d = np.array(out.dist_matrix_radii_mic, dtype=float)
                bases, pbc = np.array(system.get_cell()), system.get_pbc()
                lens = [np.linalg.norm(bases[i]) for i in range(3) if pbc[i]]
                if lens:
                    d[np.diag_indices_from(d)] += min(lens)
                    rec.cur["min_dist"] = float(d[np.triu_indices(d.shape[0])].min())
            return out

        def proto(finder, system, seed_index, possible_spans, neighbour_mask, neighbour_factors, bond_threshold, overlap_threshold, pos_tol):
            outer = rec.cur
            rec.cur = {"dims": [], "thick": [], "totalValid": 0, "combo": [], "seedInGraph": None, "cellFound": None, "min_dist": None}
            cur = rec.cur
            n_neigh = int(np.sum(neighbour_mask))
            take = len(rec.span) < rec.max_span and len(possible_spans) * max(n_neigh, 1) <= rec.max_span_size and rec.span_cur is None
            orig_gm = G.get_matches
            if take:
                rec.span_cur = {"seed": int(seed_index), "calls": [], "n_spans": int(len(possible_spans)),
                                "neigh": [(int(i), tuple(int(v) for v in f)) for i, f in zip(np.where(neighbour_mask)[0], neighbour_factors)]}
                sc = rec.span_cur

                def gm(system_, cell_list, positions, numbers, tolerance):
                    r_ = orig_gm(system_, cell_list, positions, numbers, tolerance)
                    sc["calls"].append(([None if m is None else int(m) for m in r_[0]], [tuple(int(v) if np.isfinite(v) else 0 for v in c) for c in r_[3]]))
                    return r_
                G.get_matches = gm
            try:
                out = rec.orig["_find_proto_cell"](finder, system, seed_index, possible_spans, neighbour_mask, neighbour_factors, bond_threshold, overlap_threshold, pos_tol)
            except Exception:
                rec.cur = outer
                if take:
                    rec.span_cur = None
                raise
            finally:
                G.get_matches = orig_gm
            rec.cur = outer
            if take:
                sc = rec.span_cur
                rec.span_cur = None
                cell_ = np.array(system.get_cell())
                pb_ = np.array(system.get_pbc(), dtype=bool)
                sc["periodic_short"] = [bool(np.linalg.norm(v) <= finder.max_cell_size) for v in cell_[pb_]]
                sc["accepted"] = out[0] is not None
                rec.span.append(sc)
            cell = np.array(system.get_cell())
            pb = np.array(system.get_pbc(), dtype=bool)
            n_per = int((np.linalg.norm(cell[pb], axis=1) <= finder.max_cell_size).sum()) if pb.any() else 0
            cur.update(nPerSpans=n_per, overlap_threshold=float(overlap_threshold), max_h=float(finder.max_2d_cell_height),
                       max_single=float(np.max(finder.max_2d_single_cell_size)),
                       accepted=None if out[0] is None else (int(out[2]), int(np.sum(out[0].get_pbc())), int(out[3])))
            rec.records.append(cur)
            return out

        PeriodicFinder._find_proto_cell = proto
        PeriodicFinder._find_best_basis = best_basis
        PeriodicFinder._find_graphs = graphs
        PeriodicFinder._find_proto_cell_3d = cell3
        PeriodicFinder._find_proto_cell_2d = cell2
        G.get_dimensionality = dimensionality
        G.get_thickness = thickness
        G.get_distances = distances
        return self

    def __exit__(self, *a):
        for n, f in self.orig.items():
            setattr(self.PF, n, f)
        for n, f in self.orig_g.items():
            setattr(self.G, n, f)


def proto_line(r):
    """driver line of one record, or None when the record cannot be expressed (the tree was left by an exception)"""
    dim = len(r["combo"])
    tot = r["totalValid"]
    n_per = r["nPerSpans"]
    n_sel = sum(1 for i in range(tot - n_per, tot) if i in r["combo"]) if tot else 0
    dims = list(r["dims"])
    thick = list(r["thick"])
    d3 = "error"
    if dim == 3 and dims:
        d3 = dims.pop(0)
    spans = r.get("spans")
    best = spans[r["combo"]] if spans is not None and len(r["combo"]) else np.zeros((0, 3))
    if dim == 3 and d3 == 2 and len(thick) >= 3:
        red = int(np.argmin(thick[:3]))
        thick = thick[3:]
        best = best[[i for i in range(3) if i != red]]
    too_long = bool(len(best) and (np.linalg.norm(best, axis=1) > r["max_single"]).any())
    d2 = dims[0] if dims else "error"
    d2r = dims[1] if len(dims) > 1 else "error"
    too_thick = bool(thick and thick[-1] > r["max_h"])
    overlap = bool(r["min_dist"] is not None and r["min_dist"] < r["overlap_threshold"])
    b = lambda v: "1" if v else "0"
    seed = r["seedInGraph"] if r["seedInGraph"] is not None else False
    found = r["cellFound"] if r["cellFound"] is not None else False
    return "protodecide %d %d %s %s %s %d %d %s %s %s %s %s" % (tot, dim, b(seed), b(found), d3, n_per, n_sel, b(too_long), d2, d2r, b(too_thick), b(overlap))


def adaptive_line(r):
    from geom_common import fmt_vecs
    def nb(t):
        return "-" if t is None else "%d:%s:%d,%d,%d" % (t[0], fmt_vecs(t[1]), t[2][0], t[2][1], t[2][2])
    return "adaptcell %s %d %s %d,%d,%d %s %s %s" % (fmt_vecs(r["cell"]), r["idx"], fmt_vecs(r["pNode"]), r["fNode"][0], r["fNode"][1], r["fNode"][2],
                                                      nb(r["add"]), nb(r["sub"]), fmt_vecs(r["span"]))


def sbcrun_line(a, clusters, rec, merge_threshold=0.5, thr=0.65):
    """driver line that replays the recorded finder history of one get_clusters run through the Lean pipeline (merge -> localize -> clean)"""
    from geom_common import fs
    if not clusters:
        return None
    dist = clusters[0]._distances.dist_matrix_radii_mic
    nums = a.get_atomic_numbers()
    hist = ";".join("%d/%s/%d/%s" % (c["seed"], "none" if c["basis"] is None else dots(c["basis"]), (i + 1) if c["basis"] is not None else 0, dots(c["mask"]))
                    for i, c in enumerate(rec.calls))
    return "sbcrun %s %s %s %s %s" % (",".join(map(str, nums)), fs(merge_threshold), matrix_str(dist < 1), matrix_str(np.clip(dist, 0, None) <= thr), hist or "-")


def sbcrun_agrees(o, clusters):
    head, body = o.split(" ", 1) if " " in o else (o, "-")
    model = [] if body == "-" else body.split(";")
    real = [dots(c.indices) for c in clusters]
    return head == "rem=-" and len(model) == len(real) and all(r in m.split(":")[0].split("|") for r, m in zip(real, model))
