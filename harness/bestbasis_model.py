"""PeriodicFinder._find_best_basis / _find_best_2d_basis against the Lean model (lean/MatidModel/BestBasis.lean, driver op `bestbasis`).
Records come from sbc_common.ProtoRecorder.best: the valid spans, their metrics, the finder's angle and cell-size tolerances and the
combination the real function returned.  The model is exact; where floating point breaks a tie differently (volumes / orthogonality
equal within 1e-9) the real choice is accepted when it passes every stage of the model's selection with that slack."""
from fractions import Fraction as Fr

import numpy as np

import common
from geom_common import fmt_vecs

THEOREMS = ["Matid.Props.BestBasis." + t for t in (
    "argminF_mem", "argminF_min", "choice3_spec", "choice2_spec", "basis_size", "basis_indices_in_range")]


def line(r):
    s = float(abs(np.sin(np.pi / 180 * r["angle_tol"])))
    sin2 = Fr(s) * Fr(s)
    return "bestbasis %s %s %s %s %s" % (sin2, Fr(r["cell_size_tol"]), ",".join(str(m) for m in r["metrics"]) or "-", fmt_vecs(r["spans"]),
                                          ",".join(str(c) for c in r["combo"]) or "-")


def check(ctx, broken, records):
    ok, info = common.prove(ctx, "MatidProps.BestBasisProps", THEOREMS)
    if not ok:
        broken.append(("best-basis-proof", info))
    if not records:
        return
    lines = [line(r) for r in records]
    try:
        outs = common.driver(lines)
    except common.DriverError as e:
        broken.append(("driver", {"error": str(e)[-800:]}))
        return
    mism = []
    for r, o, l in zip(records, outs, lines):
        ctx.case(("bestbasis", hash(l) & 0xffffffff), nontrivial=len(r["metrics"]) > 3)
        ctx.count("bestbasis_dim%d" % len(r["combo"]))
        ctx.count("bestbasis_spans", len(r["metrics"]))
        f = o.split(" ")
        if len(f) != 2:
            mism.append({"what": "model output " + o[:100], "op": l[:200]})
            continue
        choice = [] if f[0] == "-" else [int(v) for v in f[0].split(",")]
        if choice == r["combo"]:
            continue
        if len(choice) == len(r["combo"]) and f[1] == "1111":
            ctx.count("bestbasis_tie_broken_differently_in_floating_point")
            continue
        mism.append({"what": "chosen basis: model %s, code %s (stages passed by the code's choice: angles/metric/size/orthogonality = %s)" % (choice, r["combo"], f[1]),
                     "spans": len(r["metrics"]), "op": l[:300] + " …"})
    if mism:
        broken.append(("best-basis-correspondence", {"function": "PeriodicFinder._find_best_basis / _find_best_2d_basis", "count": len(mism), "of": len(lines), "mismatches": mism[:3]}))
