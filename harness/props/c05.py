"""C05 — the conventional cell is the same crystal as the input, chirality preserved."""
import json

import numpy as np

import common
import sym_common as S
from common import prove

P = "Matid.Props.C05."
THEOREMS = [P + t for t in ("isometry_of_preserves", "act_sub", "every_normalizer_is_admissible", "selected_index_in_range", "wrap_moves_by_lattice")] + \
    ["Matid.Props.C14.normalizers_ok", "Matid.Table.preserves_all_metrics"]
TRUSTED = ["Lean 4 kernel", "axioms: propext, Classical.choice, Quot.sound at most (audited per run)", "tools/gen_tables.py",
           "correspondence: _find_wyckoff_ground_state driven directly (no spglib) vs Select.selectRep/applyNorm",
           "contract S1 (spglib's std cell is the idealised input up to a proper motion) — monitored end to end, not proved"]


def directed_search(ctx, budget=150):
    """when a table theorem about normalizers breaks: for every normalizer the python twin flags, look for an occupancy
    for which the ranking selects it, and run the full end-to-end oracle on that crystal"""
    import crystals
    import gen_tables
    from matid.symmetry.symmetryanalyzer import SymmetryAnalyzer
    N = S.norm_tables()
    info, wy, norms = gen_tables.load_tables()
    ref = gen_tables.reference()
    problems = []
    for n in range(1, 231):
        if norms.get(n):
            gen_tables.build_group(n, info[n], wy[n], norms.get(n, []), ref[n], problems)
    targets = sorted({(p["group"], p["normalizer"]) for p in problems if "normalizer" in p})
    rng = np.random.default_rng(ctx.seed + 555)
    bad = []
    for n, ni in targets[:60]:
        hit = None
        for _ in range(budget):
            occ = S.random_occupancy(n, rng, max_atoms=64)
            if not occ:
                continue
            # a further general-position orbit keeps the symmetry from increasing
            occ = occ + [(crystals.general_letter(n), 9)]
            atoms, fr, letters = S.rational_crystal(n, occ, rng)
            sa = SymmetryAnalyzer(atoms, symmetry_tol=1e-3)
            try:
                sa._find_wyckoff_ground_state(n, np.array(letters), atoms)
            except Exception:
                continue
            if sa._best_transform["transformation"] is N[n][ni]["transformation"]:
                hit = atoms
                break
        ctx.count("directed_targets")
        if hit is None:
            ctx.count("directed_not_selectable")
            continue
        ctx.count("directed_selected")
        try:
            res, _ = S.check_conventional(hit, n)
        except Exception as e:  # noqa
            res = ["exception %r" % e]
        if res:
            bad.append({"group": n, "normalizer": ni, "complaints": res, "atoms": crystals.atoms_to_json(hit), "presentation": {}, "meta": {}})
    return bad


def run(ctx):
    common.install_matid()
    import crystals
    broken = []
    terr = common.regen(ctx, ("tables",))
    if terr:
        for t in THEOREMS:
            ctx.obligations.append((t, False))
        broken.append(("translator", terr))
    else:
        ok, info = prove(ctx, "MatidProps.C05", THEOREMS)
        if not ok:
            broken.append(("proof", info))
    mism = []
    try:
        mism = S.corr_select(ctx, ctx.n(600, 20000))
    except common.DriverError as e:
        broken.append(("driver", {"error": str(e)[-1000:]}))
    if mism:
        broken.append(("correspondence", {"count": len(mism), "mismatches": mism[:5]}))
    rng = np.random.default_rng(ctx.seed + 5)
    groups = list(range(1, 231)) * (3 if ctx.thorough() else 1)
    if not ctx.thorough():
        chiral = [n for n in range(1, 231) if n in __import__("props.c15", fromlist=["SOHNCKE"]).SOHNCKE]
        groups = sorted(set(rng.choice(np.arange(1, 231), 45, replace=False).tolist() + list(rng.choice(chiral, 25, replace=False)) + [214, 98, 93, 143, 195, 196, 208]))
    bad = []
    judged = 0
    for n, atoms, meta in S.sample_crystals(ctx, groups, rng, max_atoms=120):
        variants = [("as-built", atoms, {})]
        a2, desc = crystals.present(atoms, rng)
        if len(a2) <= 240:
            variants.append(("presented", a2, desc))
        for label, a, desc in variants:
            try:
                res, info = S.check_conventional(a, n)
            except Exception as e:  # noqa
                res, info = ["exception %s: %s" % (type(e).__name__, str(e)[:200])], {}
            if res is None:
                ctx.count("e2e_discarded_" + info.replace(" ", "_"))
                continue
            ctx.case(("e2e", n, label, len(a), json.dumps(desc, sort_keys=True)[:120]))
            ctx.count("e2e_" + label)
            if info.get("handedness_judged"):
                judged += 1
            if res:
                bad.append({"group": n, "complaints": res, "atoms": crystals.atoms_to_json(a), "presentation": desc, "meta": meta})
    ctx.coverage["handedness_judged_samples"] = judged
    if broken and not bad:
        try:
            bad += directed_search(ctx)
        except Exception as e:  # noqa
            ctx.note("directed search failed: %r" % e)
    for b in bad[:6]:
        ctx.finding("crystal:%d:%s" % (b["group"], b["complaints"][0][:50]), "group %d: %s" % (b["group"], b["complaints"][0]), {"kind": "failing-input", "case": b})
    import analyzer_hist
    analyzer_hist.check(ctx, "C05", broken)
    if broken and not ctx.unknown_findings():
        import crystals
        drng = np.random.default_rng(ctx.seed + 50505)
        nd = 0
        for n, a1, a2, meta in S.directed_crystals(ctx, S.broken_groups(broken)[:6], drng):
            try:
                res, _ = S.check_conventional(a2, n)
            except Exception as e:  # noqa
                res = ["exception %s: %s" % (type(e).__name__, str(e)[:200])]
            ctx.count("directed_conventional_checks")
            if res and nd < 3:
                nd += 1
                ctx.finding("conv:%d:%s" % (n, res[0][:40]), "group %d (directed, letter %s): %s" % (n, meta["letter"], res[0]),
                            {"kind": "failing-input", "case": {"group": n, "complaints": res, "atoms": crystals.atoms_to_json(a2), "presentation": meta}})
    if broken and not ctx.unknown_findings():
        ctx.finding("unproved", "proof/correspondence broken, no failing crystal found", {"kind": "broken-obligation", "broken": broken}, found_input=False)
    ctx.coverage["broken"] = [{"what": k, "info": i} for k, i in broken]
    ctx.coverage["correspondence_mismatches"] = len(mism)
    ctx.assumptions += ["S1 (spglib): std_lattice/std_positions/std_types are the idealised input in the first-Hall setting up to a proper motion",
                        "ill-conditioned samples (group not stable) are discarded and counted"]
    return common.finish(ctx, "proof", "rational standard-setting crystals with random letter/species occupancy through _find_wyckoff_ground_state vs the Lean ranking/application model; "
                         "end-to-end ASE crystals (all groups in the thorough tier) x supercell/shear/rotation/translation/permutation with an independent spglib run and a "
                         "table-free handedness signature", TRUSTED, "cd /verif/lean && lake build MatidProps.C05 (+ #print axioms)")


def replay(path):
    common.install_matid()
    import crystals
    r = json.load(open(path))
    c = r.get("case", {})
    if "atoms" in c:
        print("complaints now:", S.check_conventional(crystals.atoms_from_json(c["atoms"]), c["group"]))
    print(json.dumps({k: v for k, v in r.items() if k != "case"}, indent=1)[:1500])
    return 0
