"""C01 — SBC always returns a well-formed, disjoint, connected set of clusters."""
import json

import numpy as np

import common
import sbc_common as SC
from common import prove, driver

P = "Matid.Props.C01."
THEOREMS = [P + t for t in ("localize_disjoint", "localize_only_removes", "merge_species_invariant", "merge_terminates", "merge_keeps_atoms_in_range",
                            "clean_is_largest_component", "driver_terminates", "driver_indices_in_range", "pipeline_order_ok",
                            "entry_rules_ok", "sbc_keeps_no_state", "pipeline_wellformed")] + \
    ["Matid.Props.Proto.accepted_periodicity"] + ["Matid.Props.SbcEntry." + t for t in ("fixup_inside", "scale_ge_one", "displacement_scaled")] + \
    ["Matid.Props.Adaptive." + t for t in ("measured_plus", "measured_minus", "adaptive_close")]
TRUSTED = ["stage models of the finder (SbcEntry, SpanGraph, BestBasis, AdaptiveCell, WithinBasis, ProtoAssemble, ProtoDecision, Region) with their theorems as obligations; tied by recorded-call correspondence in THIS run: the answers of sub-functions modelled elsewhere (get_matches, get_matches_simple, get_positions_within_basis, _find_best_basis inside the span-graph replay) are recorded and handed to the model as oracle data (recorders in harness/sbc_common.py, harness/region_model.py)", "rule translators gen_sbc_rule / gen_proto_rule / gen_region_rule / gen_assemble_rule / gen_dim_rule (AST facts; a harmless refactoring can flip one)",
           "Lean 4 kernel", "axioms: propext, Classical.choice, Quot.sound at most (audited per run)",
           "hand-written model MatidModel/SBC.lean tied by (a) direct drive of _merge_clusters/_localize_clusters/_clean_clusters with synthetic clusters and (b) recorded finder histories of real get_clusters runs",
           "the periodic finder is a parameter of the model (its outputs are arbitrary data in the theorems); DBSCAN contract D1 for the components",
           "runtime clauses (returns normally, input untouched, determinism, only ValueError) are sampled, not proved"]


def fs(x):
    from fractions import Fraction
    f = Fraction(float(x))
    return "%d/%d" % (f.numerator, f.denominator)


def mk_cluster(idx, species, rsize, rid, merged, system, distances, thr):
    from matid.clustering.cluster import Cluster
    region = SC.FakeRegion(range(1000 * rid, 1000 * rid + rsize), rid) if rsize else None
    c = Cluster(list(idx), set(species), region, system=system, distances=distances, radii=None, bond_threshold=thr)
    c._merged = bool(merged)
    c._rid = rid
    return c


def enc(c):
    rid = c._region.rid if c._region is not None else 0
    rs = len(c._region.get_basis_indices()) if c._region is not None else 0
    return "%s:%s:%d:%d:%d" % (SC.dots(c.indices), SC.dots(c.species), rs, rid, 1 if c._merged else 0)


def direct_drive(ctx, ncase):
    """_merge_clusters / _localize_clusters / _clean_clusters on synthetic cluster lists vs the Lean model"""
    from ase import Atoms
    from matid.clustering import SBC
    from matid.core.distances import Distances
    rng = np.random.default_rng(ctx.seed + 1)
    lines, cases = [], []
    for k in range(ncase):
        op = ("merge", "localize", "clean")[k % 3]
        n = int(rng.integers(3, 16))
        nums = rng.choice([6, 8, 29], n)
        system = Atoms(numbers=nums, positions=rng.random((n, 3)) * 5, cell=np.eye(3) * 8, pbc=True)
        D = rng.integers(0, 64, (n, 3))
        M = rng.integers(-32, 128, (n, n)) / 64.0
        M = np.triu(M, 1)
        M = M + M.T
        np.fill_diagonal(M, 0.0)
        dist = Distances(None, None, None, M.copy())
        ncl = int(rng.integers(0, 5)) if k % 10 else 0
        # nested / chained-overlap / species-conflicting cluster families
        shape = ("random", "nested", "chain")[int(rng.integers(0, 3))]
        cl = []
        base = sorted(int(i) for i in rng.choice(n, int(rng.integers(1, n + 1)), replace=False))
        for j in range(ncl):
            if shape == "nested":
                idx = base[: max(1, len(base) - j)]
            elif shape == "chain":
                lo = (j * 2) % n
                idx = [(lo + t) % n for t in range(int(rng.integers(2, 6)))]
            else:
                idx = sorted(int(i) for i in rng.choice(n, int(rng.integers(1, n + 1)), replace=False))
            sp = set(int(nums[i]) for i in idx)
            if rng.random() < 0.3:
                sp = set(list(sp)[:1])          # species set smaller than the atoms' species (conflict at merge)
            rs = int(rng.integers(0, 7))
            cl.append((sorted(set(idx)), sorted(sp), rs, (j + 1) if rs else 0, 0))
        thr = float(rng.integers(1, 8)) / 8.0
        radius = float(rng.integers(8, 96)) / 64.0
        bthr = float(rng.integers(8, 64)) / 64.0
        ctx.count("direct_" + op + "_" + shape)
        if op == "merge":
            lines.append("sbcmerge %s %s %s" % (",".join(map(str, nums)), fs(thr), ";".join("%s:%s:%d:%d:%d" % (SC.dots(i), SC.dots(s), r, rid, m) for i, s, r, rid, m in cl) or "-"))
        elif op == "localize":
            lines.append("sbclocalize %d %s %s" % (n, SC.matrix_str(M < radius), ";".join(SC.dots(i) for i, *_ in cl) or "-"))
        else:
            if cl and rng.random() < 0.2:
                cl[0] = ([], cl[0][1], cl[0][2], cl[0][3], 0)       # emptied by localisation
            lines.append("sbcclean %s %s" % (SC.matrix_str(np.clip(M, 0, None) <= bthr), ";".join(SC.dots(i) for i, *_ in cl) or "-"))
        cases.append((op, system, dist, cl, thr, radius, bthr))
    out = driver(lines)
    mism = []
    for (op, system, dist, cl, thr, radius, bthr), o, line in zip(cases, out, lines):
        sbc = SBC()
        clusters = [mk_cluster(i, s, r, rid, m, system, dist, bthr) for i, s, r, rid, m in cl]
        ctx.case((op, line), nontrivial=len(cl) > 1, sample={"op": line[:200], "model": o[:120]} if len(ctx.samples) < 3 else None)
        try:
            if op == "merge":
                res = sbc._merge_clusters(system, list(clusters), thr, dist, bthr)
                real = ";".join(enc(c) for c in res)
                if real != o:
                    mism.append({"op": line, "model": o, "real": real})
            elif op == "localize":
                res = sbc._localize_clusters(system, clusters, radius, dist)
                real = ";".join(SC.dots(c.indices) for c in res)
                if real != o:
                    mism.append({"op": line, "model": o, "real": real})
            else:
                res = sbc._clean_clusters(clusters, bthr)
                model = [m for m in (o.split(";") if o else []) if m != "dropped"]
                if len(model) != len(res) or any(SC.dots(c.indices) not in m.split("|") for c, m in zip(res, model)):
                    mism.append({"op": line, "model": o, "real": ";".join(SC.dots(c.indices) for c in res)})
        except Exception as e:  # noqa
            mism.append({"op": line, "model": o, "real": "exception %r" % e})
    return mism


def entry_family(rng, k):
    """directed family for the entry of get_clusters: crystalline slabs / crystallites with a non-periodic axis, translated rigidly
    along it so that atoms lie below, above or across the box, optionally with a molecule that stays inside the box"""
    from ase import Atoms
    from ase.build import fcc100, bcc100, molecule
    s = [fcc100("Cu", (3, 3, 3), a=3.61, vacuum=6.0), bcc100("Fe", (3, 3, 4), a=2.87, vacuum=5.0), fcc100("Al", (4, 4, 3), a=4.05, vacuum=8.0)][k % 3]
    pbc = [(True, True, False), (False, False, False), (True, False, False), (False, True, False)][(k // 3) % 4]
    s.set_pbc(pbc)
    shift = [-20.0, -8.0, -3.0, 3.0, 8.0, 20.0][(k // 12) % 6] + float(rng.uniform(-0.5, 0.5))
    s.translate([0, 0, shift])
    if k % 2:
        m = molecule("CO")
        m.translate(np.array(s.get_cell()).sum(axis=0) / 2)
        s += m
    if rng.random() < 0.5:
        s = s[rng.permutation(len(s))]
    return s, "entry-shift(%+.0f)" % shift


import region_model
import assemble_model
REGION_REC = region_model.RegionRecorder(max_records=50, stride=5, max_atoms=400)
ASSEMBLE = []
SPAN = []
BEST = []
import bestbasis_model
import span_model


def recorded_runs(ctx, nrun, directed=False):
    """real get_clusters runs with the finder recorded: the recorded history replayed through the Lean pipeline must
    give the returned clusters; the invariants of the property are checked on the real output"""
    import matid.geometry as G
    from matid.clustering import SBC
    import crystals
    rng = np.random.default_rng(ctx.seed + 101)
    lines, runs, bad = [], [], []
    proto_records, entry_lines, entry_real = [], [], []
    adaptive_records = []
    shared = SBC()      # ONE object for all runs: a result must not depend on what the object did before
    prev_case = prev_case_next = None
    for k in range(nrun):
        prev_case = prev_case_next
        a, kind = entry_family(rng, k) if directed else SC.c01_family(rng, k, max_atoms=ctx.n(70, 160))
        params = {} if directed else SC.sbc_params(rng, k, kind)
        seed = int(rng.integers(0, 50))
        snap = SC.snapshot(a)
        ctx.count("run_" + kind)
        ctx.count("run_pbc_%d" % int(np.sum(a.get_pbc())))
        case = {"atoms": crystals.atoms_to_json(a), "params": params, "seed": seed, "kind": kind}
        zero_pbc = any((not np.array(a.get_cell())[i].any()) and a.get_pbc()[i] for i in range(3))
        try:
            with SC.FinderRecorder() as rec, SC.ProtoRecorder() as prec, REGION_REC:
                clusters = shared.get_clusters(a, seed=seed, **params)
            if len(ASSEMBLE) < 80:
                ASSEMBLE.extend(prec.assemble[:2])
            if len(BEST) < 24:
                BEST.extend(prec.best[:2])
            if len(SPAN) < 30:
                SPAN.extend(prec.span[:1])
            proto_records.extend(prec.records)
            if len(adaptive_records) < 600:
                adaptive_records.extend(prec.adaptive[:60])
            # entry fix-up: the structure the finder was given vs the model, per non-periodic axis (non-singular input cells)
            cell0 = np.array(a.get_cell())
            if rec.system is not None and abs(np.linalg.det(cell0)) > 1e-6 and not a.get_pbc().all():
                from fractions import Fraction as Fr
                f0 = np.linalg.solve(cell0.T, a.get_positions().T).T
                f1 = np.linalg.solve(np.array(rec.system.get_cell()).T, rec.system.get_positions().T).T
                nonper = [i for i in range(3) if not a.get_pbc()[i]]
                anys = any(f0[:, i].max() > 1 or f0[:, i].min() < 0 for i in nonper)
                # decisions within 1e-9 of the boundary are rounding questions, not logic
                if not any(min(abs(f0[:, i].max() - 1), abs(f0[:, i].min())) < 1e-9 for i in nonper):
                    for i in nonper:
                        pick = [int(j) for j in rng.choice(len(a), min(4, len(a)), replace=False)]
                        entry_lines.append("sbcentry %d %s %s %s" % (int(anys), fs(f0[:, i].min()), fs(f0[:, i].max()), ",".join(fs(f0[j, i]) for j in pick)))
                        s_real = np.linalg.norm(np.array(rec.system.get_cell())[i]) / np.linalg.norm(cell0[i])
                        entry_real.append((s_real, [float(f1[j, i]) for j in pick], kind))
        except ValueError as e:
            if not zero_pbc:
                bad.append({"case": case, "complaints": ["ValueError for a valid cell: %s" % e]})
            continue
        except Exception as e:  # noqa
            # does a fresh object behave? then the failure is a state leak of the re-used SBC object (history = previous + this input)
            msg = "exception %s: %s" % (type(e).__name__, str(e)[:200])
            try:
                SBC().get_clusters(a, seed=seed, **params)
                msg = "re-used SBC object fails where a fresh object succeeds (state kept between calls): " + msg
                case = dict(case, previous_call=prev_case)
            except Exception:  # noqa
                pass
            bad.append({"case": case, "complaints": [msg]})
            shared = SBC()
            continue
        finally:
            prev_case_next = {k2: v for k2, v in case.items() if k2 != "previous_call"}
        ctx.case(("run", k, kind, len(a), seed), nontrivial=len(a) > 1,
                 sample={"kind": kind, "natoms": len(a), "pbc": a.get_pbc().tolist(), "clusters": [len(c.indices) for c in clusters], "finder_calls": len(rec.calls)} if len(ctx.samples) < 6 else None)
        complaints = []
        if zero_pbc:
            complaints.append("no ValueError for a zero cell vector along a periodic direction")
        if not SC.unchanged(a, snap):
            complaints.append("the caller's structure was modified")
        complaints += SC.check_clusters(a, clusters, params)
        # determinism: a fresh object must give what the long-lived object gave
        try:
            again = SBC().get_clusters(a, seed=seed, **params)
            if sorted(sorted(int(i) for i in c.indices) for c in again) != sorted(sorted(int(i) for i in c.indices) for c in clusters):
                complaints.append("a second call with the same arguments (fresh SBC object vs re-used SBC object) returns other clusters")
                case = dict(case, previous_call=prev_case)
        except Exception as e:  # noqa
            complaints.append("second call raised %r" % e)
        if complaints:
            bad.append({"case": case, "complaints": complaints[:5]})
        # replay through the model
        thr = params.get("bond_threshold", 0.65)
        sys_copy = clusters[0]._system if clusters else None
        if sys_copy is None:
            continue
        dist = clusters[0]._distances.dist_matrix_radii_mic
        nums = a.get_atomic_numbers()
        hist = ";".join("%d/%s/%d/%s" % (c["seed"], "none" if c["basis"] is None else SC.dots(c["basis"]), (i + 1) if c["basis"] is not None else 0, SC.dots(c["mask"]))
                        for i, c in enumerate(rec.calls))
        lines.append("sbcrun %s %s %s %s %s" % (",".join(map(str, nums)), fs(params.get("merge_threshold", 0.5)), SC.matrix_str(dist < 1),
                                                SC.matrix_str(np.clip(dist, 0, None) <= thr), hist or "-"))
        runs.append((case, clusters))
    mism = []
    # acceptance tree of _find_proto_cell: every recorded call vs the Lean decision tree
    plines = [SC.proto_line(r) for r in proto_records]
    if plines:
        for r, o, pl in zip(proto_records, driver(plines), plines):
            want = "reject" if r["accepted"] is None else "accept %d %d %d" % r["accepted"]
            ctx.case(("proto", pl), nontrivial=r["accepted"] is not None)
            ctx.count("proto_" + want.split()[0])
            if o != want:
                mism.append({"what": "_find_proto_cell acceptance", "op": pl, "model": o, "real": want})
    if adaptive_records:
        alines = [SC.adaptive_line(r) for r in adaptive_records]
        from fractions import Fraction as Fr
        for r, o, al in zip(adaptive_records, driver(alines), alines):
            ctx.case(("adaptcell", al), nontrivial=r["add"] is not None or r["sub"] is not None)
            ctx.count("adaptive_" + ("plus" if r["add"] is not None else "minus" if r["sub"] is not None else "span"))
            try:
                v = [float(Fr(x)) for x in o.split(",")]
                ok = np.allclose(v, r["real"], atol=1e-9)
            except Exception:  # noqa
                ok = False
            if not ok:
                mism.append({"what": "adaptive cell vector of _find_proto_cell_3d", "op": al[:400], "model": o[:120], "real": [float(x) for x in r["real"]]})
    if entry_lines:
        for o, (s_real, f_real, kind_), el in zip(driver(entry_lines), entry_real, entry_lines):
            ctx.case(("sbcentry", el), nontrivial=True)
            ctx.count("entry_axes")
            try:
                sm, fm = o.split(" ")
                from fractions import Fraction as Fr
                ok = abs(float(Fr(sm)) - s_real) < 1e-8 * max(1, s_real) and all(abs(float(Fr(x)) - y) < 1e-8 for x, y in zip(fm.split(","), f_real))
            except Exception:  # noqa
                ok = False
            if not ok:
                mism.append({"what": "entry fix-up of get_clusters (cell scale / new fractional coordinates along a non-periodic axis)", "op": el, "model": o[:200],
                             "real": "%r %r" % (s_real, f_real), "kind": kind_})
    if lines:
        out = driver(lines)
        for (case, clusters), o, line in zip(runs, out, lines):
            head, body = o.split(" ", 1) if " " in o else (o, "-")
            model = [] if body == "-" else body.split(";")
            real = [SC.dots(c.indices) for c in clusters]
            ok = head == "rem=-" and len(model) == len(real) and all(r in m.split(":")[0].split("|") for r, m in zip(real, model))
            if not ok:
                mism.append({"case": {k: v for k, v in case.items() if k != "atoms"}, "model": o[:300], "real": ";".join(real)[:300], "op": line[:200]})
    return mism, bad


def run(ctx):
    common.install_matid()
    broken = []
    terr = common.regen(ctx, ("sbc_rule", "proto_rule"))
    if terr:
        for t in THEOREMS:
            ctx.obligations.append((t, False))
        broken.append(("translator", terr))
    else:
        ok, info = prove(ctx, "MatidProps.C01", THEOREMS, extra_imports=("MatidProps.Proto", "MatidProps.SbcEntryProps", "MatidProps.AdaptiveProps"), gen_targets=("MatidProps.Proto", "MatidProps.SbcEntryProps", "MatidProps.AdaptiveProps"))
        if not ok:
            broken.append(("proof", info))
    mism = []
    bad = []
    try:
        mism = direct_drive(ctx, ctx.n(900, 30000))
        m2, bad = recorded_runs(ctx, ctx.n(120, 3000))
        mism += m2
        if (mism or broken) and not bad:
            m3, bad = recorded_runs(ctx, ctx.n(72, 288), directed=True)
            mism += m3
    except common.DriverError as e:
        broken.append(("driver", {"error": str(e)[-1000:]}))
    if mism:
        broken.append(("correspondence", {"count": len(mism), "mismatches": mism[:5]}))
    region_model.check(ctx, broken, REGION_REC.records)
    assemble_model.check(ctx, broken, ASSEMBLE)
    span_model.check(ctx, broken, SPAN)
    bestbasis_model.check(ctx, broken, BEST)
    seen = set()
    for b in bad:
        key = "%s:%s" % (b["case"]["kind"], b["complaints"][0][:40])
        if key in seen:
            continue
        seen.add(key)
        ctx.finding("sbc:" + key, "%s: %s" % (b["case"]["kind"], b["complaints"][0]), {"kind": "failing-input", "case": b["case"], "complaints": b["complaints"],
                    "how": "SBC().get_clusters(atoms, seed=seed, **params)"})
    if broken and not ctx.unknown_findings():
        ctx.finding("unproved", "proof/correspondence broken, no failing input found", {"kind": "broken-obligation", "broken": broken}, found_input=False)
    ctx.coverage["broken"] = [{"what": k, "info": i} for k, i in broken]
    ctx.coverage["correspondence_mismatches"] = len(mism)
    ctx.assumptions += ["D1 (DBSCAN) and the finder's outputs are data of the model", "returns-normally / input-untouched / determinism are sampled on every run of the family"]
    return common.finish(ctx, "proof", "synthetic cluster lists (random / nested / chained overlaps, species conflicts, emptied clusters) through the three pipeline stages vs the Lean model; "
                         "real get_clusters runs on the C01 family with the finder recorded and replayed through the Lean pipeline; invariant oracle on every returned cluster list",
                         TRUSTED, "cd /verif/lean && lake build MatidProps.C01 (+ #print axioms)")


def replay(path):
    common.install_matid()
    import crystals
    from matid.clustering import SBC
    r = json.load(open(path))
    c = r.get("case", {})
    if "atoms" in c:
        a = crystals.atoms_from_json(c["atoms"])
        try:
            cl = SBC().get_clusters(a, seed=c["seed"], **c["params"])
            print("complaints now:", SC.check_clusters(a, cl, c["params"]))
        except Exception as e:  # noqa
            print("now raises", repr(e))
    print(r.get("what"))
    return 0
