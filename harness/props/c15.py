"""C15 — the chirality flag is true exactly for the 65 Sohncke space groups."""
import json

import numpy as np

import common
from common import prove, driver

P = "Matid.Props.C15."
THEOREMS = [P + t for t in ("isChiral_iff", "det_mul", "det_basis_invariant", "isChiral_basis_invariant", "chiral_iff_sohncke",
                            "sohncke_count", "chiral_iff_sohncke_any_basis")]
TRUSTED = ["Lean 4 kernel", "axioms: propext, Classical.choice, Quot.sound at most (audited per run)",
           "tools/gen_tables.py (reference operations from spglib's Hall database)",
           "correspondence harness: synthetic spglib datasets injected into SymmetryAnalyzer._symmetry_dataset"]
SOHNCKE = set([1] + list(range(3, 6)) + list(range(16, 25)) + list(range(75, 81)) + list(range(89, 99)) + list(range(143, 147))
              + list(range(149, 156)) + list(range(168, 174)) + list(range(177, 183)) + list(range(195, 200)) + list(range(207, 215)))


def big_unimodular(rng):
    M = np.eye(3, dtype=np.int64)
    for _ in range(int(rng.integers(2, 7))):
        i, j = rng.choice(3, 2, replace=False)
        E = np.eye(3, dtype=np.int64)
        E[i, j] = int(rng.integers(-4, 5))
        M = E @ M
    return M


def int_inverse(U):
    inv = np.rint(np.linalg.inv(U)).astype(np.int64)
    assert (inv @ U == np.eye(3, dtype=np.int64)).all()
    return inv


def analyzer_with_dataset(rots, hall, number):
    from ase import Atoms
    from matid.symmetry.symmetryanalyzer import SymmetryAnalyzer, AttrDict
    sa = SymmetryAnalyzer(Atoms("H", positions=[[0, 0, 0]], cell=[3, 3, 3], pbc=True))
    sa._symmetry_dataset = AttrDict(rotations=np.array(rots, dtype=np.intc), translations=np.zeros((len(rots), 3)),
                                    hall_number=int(hall), number=int(number))
    return sa


class DetRecorder:
    """records the matrices get_is_chiral hands to np.linalg.det — the operations the code really scans"""

    def __enter__(self):
        self.seen = []
        self.orig = np.linalg.det

        def det(a, *args, **kw):
            self.seen.append(np.array(a))
            return self.orig(a, *args, **kw)
        np.linalg.det = det
        return self

    def __exit__(self, *a):
        np.linalg.det = self.orig


def correspondence(ctx, n_cases):
    """synthetic spglib datasets (every Hall number 1..530 as the detected setting, rotations of the input cell given in
    a random unimodular basis): the operations the code scans -> Lean model `chiral`; result vs code vs Sohncke list"""
    import spglib
    import gen_tables as GT
    ref = GT.reference()
    rng = np.random.default_rng(ctx.seed + 15)
    cases = []
    halls = list(range(1, 531))
    for k in range(n_cases):
        hall = halls[k % 530] if k < 530 else int(rng.integers(1, 531))
        n = spglib.get_spacegroup_type(hall).number
        R = [np.array(o.R, dtype=np.int64) for o in ref[n]["ops"]]
        uniq = {}
        for r in R:
            uniq[r.tobytes()] = r
        R = list(uniq.values())
        U = big_unimodular(rng) if k % 5 else np.eye(3, dtype=np.int64)
        Ui = int_inverse(U)
        rots = [Ui @ r @ U for r in R]
        if max(abs(int(v)) for r in rots for v in r.flatten()) > 2 ** 30:
            continue
        cases.append((n, hall, U, rots))
    lines, meta = [], []
    for n, hall, U, rots in cases:
        sa = analyzer_with_dataset(rots, hall, n)
        with DetRecorder() as rec:
            try:
                got = bool(sa.get_is_chiral())
            except Exception as e:  # noqa
                got = "exception %r" % e
        scanned = [m for m in rec.seen if m.shape == (3, 3)]
        if not scanned or any(np.abs(m - np.rint(m)).max() > 0 for m in scanned):
            meta.append((n, hall, U, got, None))
            continue
        lines.append("chiral " + ";".join(",".join(str(int(v)) for v in m.flatten()) for m in scanned))
        meta.append((n, hall, U, got, len(lines) - 1))
        mx = max(abs(int(v)) for m in scanned for v in m.flatten())
        ctx.count("scanned_maxentry_%s" % ("<=1" if mx <= 1 else "<=20" if mx <= 20 else ">20"))
    out = driver(lines) if lines else []
    mism = []
    for n, hall, U, got, li in meta:
        want = n in SOHNCKE
        model = out[li] if li is not None else None
        ctx.case(("corr", hall, U.tobytes()), nontrivial=True,
                 sample={"hall": hall, "group": n, "U": U.tolist(), "model_on_scanned_ops": model, "real": got} if len(ctx.samples) < 3 else None)
        # a short-circuiting scan may stop at the first improper operation: the model is then fed a prefix, which has the same flag
        if got is not True and got is not False or model not in ("0", "1") or got != (model == "1") or got != want:
            mism.append({"group": n, "hall": hall, "U": U.tolist(), "model_on_scanned_ops": model, "real": got, "property_expects": want})
    return mism


def monitor(ctx, n_per_group_list):
    import crystals
    from matid.symmetry.symmetryanalyzer import SymmetryAnalyzer
    rng = np.random.default_rng(ctx.seed + 1515)
    bad = []
    for n in n_per_group_list:
        made = None
        for _ in range(10):
            made = crystals.ase_crystal(n, rng, max_atoms=100)
            if made:
                break
        if not made:
            ctx.count("e2e_no_crystal")
            continue
        atoms, meta = made
        a2, desc = crystals.present(atoms, rng)
        flag_as_built = None
        for label, a in (("as-built", atoms), ("presented", a2)):
            if len(a) > 400:
                continue
            try:
                sa = SymmetryAnalyzer(a, symmetry_tol=1e-3)
                num = sa.get_space_group_number()
                flag = bool(sa.get_is_chiral())
            except Exception as e:  # noqa
                bad.append({"group": n, "error": repr(e), "atoms": crystals.atoms_to_json(a), "presentation": desc})
                continue
            if num != n:
                # the as-built crystal was analysed as group n (exact coordinates, tolerance 1e-3): another description of the SAME crystal that
                # comes out with another flag violates "the answer does not depend on the lattice basis", whatever group was detected for it
                if label == "presented" and flag_as_built is not None and flag != flag_as_built:
                    ctx.count("e2e_presented_flag_differs")
                    bad.append({"group": n, "flag": flag, "expected": flag_as_built, "detected_group_of_this_description": int(num),
                                "atoms": crystals.atoms_to_json(a), "presentation": desc})
                    continue
                ctx.count("e2e_discarded_group_changed")   # ill-conditioned sample, not judged
                continue
            if label == "as-built":
                flag_as_built = flag
            ctx.case(("e2e", n, label, json.dumps(desc, sort_keys=True)[:200]), nontrivial=True)
            ctx.count("e2e_" + label)
            if flag != (n in SOHNCKE):
                bad.append({"group": n, "flag": flag, "expected": n in SOHNCKE, "atoms": crystals.atoms_to_json(a), "presentation": desc if label == "presented" else {}})
    # directed: non-centrosymmetric ACHIRAL groups described in a LEFT-handed basis whose third vector leans over the other two
    # (det = -1, c' = a + b - c): the flag must be what it is for the crystal as built
    from ase import Atoms
    for n in (7, 8, 31, 81, 99, 156, 186, 215, 25, 160):
        made = None
        for _ in range(10):
            made = crystals.ase_crystal(n, rng, max_atoms=60)
            if made:
                break
        if not made:
            continue
        atoms, meta = made
        U = np.array([[1, 0, 0], [0, 1, 0], [1, 1, -1]])
        a2 = Atoms(numbers=atoms.get_atomic_numbers(), positions=atoms.get_positions(), cell=U @ np.array(atoms.get_cell()), pbc=True)
        try:
            s1 = SymmetryAnalyzer(atoms, symmetry_tol=1e-3)
            s2 = SymmetryAnalyzer(a2, symmetry_tol=1e-3)
            n1, f1, n2, f2 = s1.get_space_group_number(), bool(s1.get_is_chiral()), s2.get_space_group_number(), bool(s2.get_is_chiral())
        except Exception as e:  # noqa
            bad.append({"group": n, "error": repr(e), "atoms": crystals.atoms_to_json(a2), "presentation": {"unimodular": U.tolist()}})
            continue
        if n1 != n:
            ctx.count("e2e_discarded_group_changed")
            continue
        ctx.case(("e2e", n, "left-handed-leaning", len(atoms)), nontrivial=True)
        ctx.count("e2e_left_handed_leaning")
        if f2 != f1 or f1 != (n in SOHNCKE):
            bad.append({"group": n, "flag": f2, "expected": n in SOHNCKE, "detected_group_of_this_description": int(n2),
                        "atoms": crystals.atoms_to_json(a2), "presentation": {"unimodular": U.tolist()}})
    return bad


def run(ctx):
    common.install_matid()
    import gen_tables
    broken = []
    terr = common.regen(ctx, ("tables",))
    if terr:
        for t in THEOREMS:
            ctx.obligations.append((t, False))
        broken.append(("translator", terr))
    else:
        ok, info = prove(ctx, "MatidProps.C15", THEOREMS)
        if not ok:
            broken.append(("proof", info))
    mism = []
    try:
        mism = correspondence(ctx, ctx.n(1200, 20000))
    except common.DriverError as e:
        broken.append(("driver", {"error": str(e)[-1000:]}))
    for m in mism[:5]:
        ctx.finding("synthetic-dataset:%d" % m["group"], "get_is_chiral() = %s for detected Hall number %d (group %d) with cell operations in basis U (model on the scanned operations: %s, Sohncke: %s)" % (
            m["real"], m["hall"], m["group"], m["model_on_scanned_ops"], m["property_expects"]), {"kind": "failing-input", "case": m,
            "how": "SymmetryAnalyzer with a synthetic _symmetry_dataset (rotations = U^-1 R U, hall_number, number); see harness/props/c15.py: analyzer_with_dataset"})
    rng = np.random.default_rng(ctx.seed)
    groups = list(range(1, 231)) if ctx.thorough() else sorted(rng.choice(np.arange(1, 231), 60, replace=False).tolist())
    reps = 4 if ctx.thorough() else 1
    bad = monitor(ctx, groups * reps)
    for b in bad[:5]:
        ctx.finding("crystal:%d" % b["group"], "get_is_chiral() wrong for a crystal of group %d" % b["group"], {"kind": "failing-input", "case": b})
    import analyzer_hist
    analyzer_hist.check(ctx, "C15", broken)
    if broken and not ctx.unknown_findings():
        ctx.finding("unproved", "proof/correspondence broken, no failing input found", {"kind": "broken-obligation", "broken": broken}, found_input=False)
    ctx.coverage["broken"] = [{"what": k, "info": i} for k, i in broken]
    ctx.coverage["correspondence_mismatches"] = len(mism)
    ctx.assumptions += ["S3: spglib returns all point operations as integer matrices in the input basis (monitored end to end)"]
    return common.finish(ctx, "proof", "synthetic spglib datasets for every Hall number 1..530 (cell operations conjugated by random unimodular matrices): the operations the code scans are recorded and fed to the Lean model; result vs code vs Sohncke list; end-to-end crystals with presentations",
                         TRUSTED, "cd /verif/lean && lake build MatidProps.C15 (+ #print axioms)")


def replay(path):
    common.install_matid()
    r = json.load(open(path))
    c = r.get("case", {})
    if "hall" in c:
        import gen_tables as GT
        U = np.array(c["U"]); Ui = int_inverse(U)
        rots = [Ui @ np.array(o.R) @ U for o in GT.reference()[c["group"]]["ops"]]
        print("get_is_chiral() now:", analyzer_with_dataset(rots, c["hall"], c["group"]).get_is_chiral(), "expected", c["property_expects"])
    if "atoms" in c:
        import crystals
        from matid.symmetry.symmetryanalyzer import SymmetryAnalyzer
        sa = SymmetryAnalyzer(crystals.atoms_from_json(c["atoms"]), symmetry_tol=1e-3)
        print("number", sa.get_space_group_number(), "is_chiral", sa.get_is_chiral(), "expected", c.get("expected"))
    print(json.dumps({k: v for k, v in r.items() if k != "case"}, indent=1)[:1500])
    return 0
