"""C17 — classifier output is consistent with dimensionality and with its own region."""
import json

import numpy as np

import common
import sbc_common as SC
from common import prove, driver

P = "Matid.Props.C17."
THEOREMS = [P + t for t in ("classify2D_cases", "classify_total", "refined_has_region", "crossValidate_mem", "basis_outliers_partition",
                            "repeated_calls_agree", "classifier_config_readonly")] + \
    ["Matid.Props.C09.dimension_in_range"]
TRUSTED = ["stage models of the finder (SbcEntry, SpanGraph, BestBasis, AdaptiveCell, WithinBasis, ProtoAssemble, ProtoDecision, Region) with their theorems as obligations; tied by recorded-call correspondence in THIS run: the answers of sub-functions modelled elsewhere (get_matches, get_matches_simple, get_positions_within_basis, _find_best_basis inside the span-graph replay) are recorded and handed to the model as oracle data (recorders in harness/sbc_common.py, harness/region_model.py)", "rule translators gen_sbc_rule / gen_proto_rule / gen_region_rule / gen_assemble_rule / gen_dim_rule (AST facts; a harmless refactoring can flip one)",
           "Lean 4 kernel", "axioms: propext, Classical.choice, Quot.sound at most (audited per run)",
           "hand-written model MatidModel/Classifier.lean tied by (a) the dispatch driven with a patched finder/dimensionality and (b) recorded real classifications replayed through the model",
           "dimensionality (C09) and the finder's regions are inputs of the model; crash-freedom, input-untouched and repeatability are sampled"]


class SynthRegion(SC.FakeRegion):
    def __init__(self, basis, rid, nconn, is2d):
        super().__init__(basis, rid)
        self._nconn = nconn
        self.is_2d = is2d
        self.cell = "cell-%d" % rid

    def get_connected_directions(self):
        d = np.array([False, False, False])
        d[: self._nconn] = True
        return d


def fs(x):
    from fractions import Fraction
    f = Fraction(float(x))
    return "%d/%d" % (f.numerator, f.denominator)


def synthetic_dispatch(ctx, ncase):
    """Classifier.classify with get_dimensionality and PeriodicFinder.get_region replaced by prepared answers"""
    import matid.geometry
    from ase import Atoms
    from matid.classification.classifier import Classifier
    from matid.core.periodicfinder import PeriodicFinder
    rng = np.random.default_rng(ctx.seed + 17)
    lines, cases = [], []
    for k in range(ncase):
        n = int(rng.integers(1, 25))
        nsp = int(rng.integers(1, 4))
        nums = rng.choice([6, 8, 29, 79][:nsp], n)
        a = Atoms(numbers=nums, positions=rng.random((n, 3)) * 6, cell=np.eye(3) * 7, pbc=True)
        dim = [None, 0, 1, 2, 2, 2, 3][int(rng.integers(0, 7))] if k % 50 else 4
        cov = float(rng.integers(1, 8)) / 8.0
        nseeds = len(set(nums.tolist()))
        ncalls = nseeds * 2          # default max_cell_size [12] x two position tolerances
        regs = []
        for j in range(ncalls):
            r = rng.random()
            if r < 0.3:
                regs.append(None)
            else:
                nb = n if r > 0.9 else int(rng.integers(1, n + 1))
                regs.append(SynthRegion(rng.choice(n, nb, replace=False), j + 1, int(rng.integers(0, 4)), bool(rng.integers(0, 2))))
        lines.append("classify %s %d %s %s" % ("None" if dim is None else dim, n, fs(cov),
                                               ";".join("none" if r is None else "%d.%d.%d.%d" % (len(r.get_basis_indices()), r._nconn, int(r.is_2d), r.rid) for r in regs) or "-"))
        cases.append((a, dim, cov, regs))
        ctx.count("synthetic_dim_%s" % dim)
    out = driver(lines)
    mism = []
    orig_dim = matid.geometry.get_dimensionality
    orig_region = PeriodicFinder.get_region
    try:
        for (a, dim, cov, regs), o, line in zip(cases, out, lines):
            calls = []

            def fake_region(self, system, seed_index, *args, **kw):
                calls.append(seed_index)
                return regs[len(calls) - 1] if len(calls) <= len(regs) else None
            matid.geometry.get_dimensionality = lambda *a_, **k_: dim
            PeriodicFinder.get_region = fake_region
            try:
                c = Classifier(min_coverage=cov).classify(a)
                real = type(c).__name__
                rid = c.region.rid if hasattr(c, "region") else 0
            except Exception as e:  # noqa
                real, rid = "exception %s" % type(e).__name__, 0
            ctx.case(("dispatch", line), nontrivial=dim == 2, sample={"op": line, "model": o, "real": real} if len(ctx.samples) < 3 else None)
            parts = o.split(" ")
            m_name, m_rid, m_calls = parts[0], int(parts[1].split("=")[1]), int(parts[2].split("=")[1])
            ok = m_name == real
            if real in ("Surface", "Material2D"):
                ok = ok and rid == m_rid
            if dim == 2:
                ok = ok and len(calls) == m_calls
            if not ok:
                mism.append({"op": line, "model": o, "real": "%s region=%d calls=%d" % (real, rid, len(calls))})
    finally:
        matid.geometry.get_dimensionality = orig_dim
        PeriodicFinder.get_region = orig_region
    return mism


CONFIG_KEYS = ("pos_tol", "max_cell_size", "pos_tol_mode", "angle_tol", "cluster_threshold", "radii", "bond_threshold", "min_coverage",
               "cell_size_tol", "max_2d_cell_height", "max_2d_single_cell_size", "symmetry_tol", "delaunay_threshold", "crystallinity_threshold")


def config_snapshot(clf):
    out = {}
    for k in CONFIG_KEYS:
        v = getattr(clf, k, None)
        out[k] = np.asarray(v, dtype=float).tolist() if isinstance(v, (list, tuple, np.ndarray)) else v
    return out


def coverage_edge_family(rng, k):
    """a crystalline slab under a disordered film whose size is the slab's size +-1, +2: the best region covers a fraction
    of the atoms right at min_coverage (used when the dispatch proof / correspondence is broken)"""
    from ase import Atoms
    from ase.build import bcc100, fcc100
    slab = [bcc100("Fe", (3, 3, 4), a=2.87, vacuum=8.0), fcc100("Cu", (3, 3, 4), a=3.61, vacuum=8.0), bcc100("Fe", (3, 3, 3), a=2.87, vacuum=8.0)][k % 3]
    slab.set_pbc(True)
    n_extra = len(slab) + (-1, 0, 1, 2)[(k // 3) % 4]
    cell = np.array(slab.get_cell())
    z_top = slab.positions[:, 2].max()
    shifts = [i * cell[0] + j * cell[1] for i in (-1, 0, 1) for j in (-1, 0, 1)]
    pts, tries = [], 0
    while len(pts) < n_extra and tries < 200000:
        tries += 1
        f = rng.random(3)
        p = f[0] * cell[0] + f[1] * cell[1]
        p[2] = z_top + 2.0 + 4.0 * f[2]
        if all(min(np.linalg.norm(p - q + s_) for s_ in shifts) >= 1.3 for q in pts):
            pts.append(p)
    a = slab + Atoms(symbols=["O"] * len(pts), positions=pts)
    return a, "slab+film(%d+%d)" % (len(slab), len(pts))


def real_runs(ctx, nrun, directed=False):
    """real classifications: oracle of the property + replay of the recorded finder outputs through the model"""
    import matid.geometry as G
    from matid.classification.classifier import Classifier
    from matid.classification.classifications import Surface, Material2D, Class2D, Class0D, Class1D, Class3D, Atom, Unknown
    import crystals
    rng = np.random.default_rng(ctx.seed + 171)
    lines, runs, bad = [], [], []
    for k in range(nrun):
        a, kind = coverage_edge_family(rng, k) if directed else SC.c01_family(rng, k, max_atoms=ctx.n(80, 150))
        cell = np.array(a.get_cell())
        full_rank = abs(np.linalg.det(cell)) > 1e-6
        if not full_rank:
            if a.get_pbc().any():
                continue
            a.set_cell(np.zeros((3, 3)))         # "no cell at all"
        kw = {} if k % 3 else {"cluster_threshold": float(rng.uniform(2.5, 4.0) if k % 2 else rng.uniform(3.6, 5.5)), "min_coverage": float(rng.uniform(0.3, 0.7))}
        if directed:
            kw = {}
        if k % 4 == 1 and not directed:      # tolerances / cell sizes handed over as numpy arrays (the documented "float or list" parameters)
            kw = dict(kw, pos_tol=np.array([float(rng.uniform(0.3, 0.7))]), max_cell_size=np.array([float(rng.uniform(6, 12))]))
        caller_arrays = {n_: np.array(v_) for n_, v_ in kw.items() if isinstance(v_, np.ndarray)}
        snap = SC.snapshot(a)
        case = {"atoms": crystals.atoms_to_json(a), "kwargs": {n_: (v_.tolist() if isinstance(v_, np.ndarray) else v_) for n_, v_ in kw.items()},
                "kwargs_as_ndarray": sorted(caller_arrays), "kind": kind}
        ctx.count("real_" + kind)
        try:
            clf = Classifier(**kw)
            cfg0 = config_snapshot(clf)
            with SC.FinderRecorder() as rec, REGION_REC:
                c = clf.classify(a)
        except Exception as e:  # noqa
            bad.append({"case": case, "complaints": ["exception %s: %s" % (type(e).__name__, str(e)[:200])]})
            continue
        name = type(c).__name__
        ctx.case(("real", k, kind, len(a)), nontrivial=len(a) > 1, sample={"kind": kind, "natoms": len(a), "pbc": a.get_pbc().tolist(), "class": name} if len(ctx.samples) < 6 else None)
        ctx.count("class_" + name)
        complaints = []
        if not SC.unchanged(a, snap):
            complaints.append("the input structure was modified")
        w = a.copy()
        w.wrap()
        try:
            dim = G.get_dimensionality(w, kw.get("cluster_threshold", 3.5))
        except Exception as e:  # noqa
            dim = "exception %r" % e
        allowed = {None: ("Unknown",), 0: ("Atom",) if len(a) == 1 else ("Class0D",), 1: ("Class1D",), 2: ("Class2D", "Surface", "Material2D"), 3: ("Class3D",)}.get(dim, ())
        if name not in allowed:
            complaints.append("class %s for dimensionality %s" % (name, dim))
        # second opinion that does not go through the library: rank of the bonding network of the wrapped structure (the oracle of C09)
        try:
            from props import c09
            import matid.geometry as G2
            rz, r2, _ = c09.oracle_dim(w.get_positions(), np.array(w.get_cell()), [bool(b) for b in w.get_pbc()],
                                       G2.get_radii("covalent", w.get_atomic_numbers()), kw.get("cluster_threshold", 3.5))
            if isinstance(rz, int) and rz == r2 and np.array(w.get_cell()).any() and abs(np.linalg.det(np.array(w.get_cell()))) > 1e-6:
                ctx.count("class_vs_rank_oracle")
                allowed2 = {0: ("Atom",) if len(a) == 1 else ("Class0D",), 1: ("Class1D",), 2: ("Class2D", "Surface", "Material2D"), 3: ("Class3D",)}[rz]
                if name not in allowed2:
                    complaints.append("class %s, but the bonding network of the wrapped structure at threshold %.3f has rank %d (independent oracle)" % (
                        name, kw.get("cluster_threshold", 3.5), rz))
        except Exception:  # noqa
            pass
        if isinstance(c, (Surface, Material2D)):
            basis = set(int(i) for i in c.basis_indices)
            outl = set(int(i) for i in c.outliers)
            if c.prototype_cell is None or c.region is None:
                complaints.append("refined class without prototype cell / region")
            if basis & outl or (basis | outl) != set(range(len(a))):
                complaints.append("basis atoms and outliers do not partition the atoms")
            if len(basis) < kw.get("min_coverage", 0.5) * len(a) - 1e-9:
                complaints.append("region covers %d of %d atoms, below min_coverage" % (len(basis), len(a)))
        try:
            # repeated calls on the SAME object, then a fresh object: all three must agree; the configuration of the object
            # and the caller's parameter arrays must be what they were
            again = [type(clf.classify(a)).__name__, type(clf.classify(a)).__name__, type(Classifier(**kw).classify(a)).__name__]
            if any(x != name for x in again):
                complaints.append("repeated calls give %s after %s (same object twice, then a fresh object)" % (again, name))
            if config_snapshot(clf) != cfg0:
                complaints.append("classify changed the configuration of the Classifier object: %s" % sorted(
                    k_ for k_ in cfg0 if config_snapshot(clf).get(k_) != cfg0[k_]))
            for n_, v_ in caller_arrays.items():
                if not np.array_equal(kw[n_], v_):
                    complaints.append("classify modified the caller's %s array" % n_)
        except Exception as e:  # noqa
            complaints.append("second call raised %r" % e)
        if complaints:
            bad.append({"case": case, "complaints": complaints})
        regs = ["none" if r["basis"] is None else "%d.%d.%d.%d" % (len(r["basis"]), int(np.sum(r["region"].get_connected_directions())), int(bool(r["region"].is_2d)), i + 1)
                for i, r in enumerate(rec.calls)]
        lines.append("classify %s %d %s %s" % ("None" if dim is None else dim, len(a), fs(kw.get("min_coverage", 0.5)), ";".join(regs) or "-"))
        runs.append((case, name))
    mism = []
    if lines:
        out = driver(lines)
        for (case, name), o, line in zip(runs, out, lines):
            if o.split(" ")[0] != name:
                mism.append({"case": {k: v for k, v in case.items() if k != "atoms"}, "op": line[:300], "model": o, "real": name})
    return mism, bad


import region_model
REGION_REC = region_model.RegionRecorder(max_records=40, stride=1)


def run(ctx):
    common.install_matid()
    broken = []
    terr = common.regen(ctx, ("classifier_rule", "region_rule", "dim_rule"))
    if terr:
        for t in THEOREMS:
            ctx.obligations.append((t, False))
        broken.append(("translator", terr))
    else:
        ok, info = prove(ctx, "MatidProps.C17", THEOREMS, extra_imports=("MatidProps.C09",), gen_targets=("MatidProps.C09",))
        if not ok:
            broken.append(("proof", info))
    mism, bad = [], []
    try:
        mism = synthetic_dispatch(ctx, ctx.n(600, 20000))
        m2, bad = real_runs(ctx, ctx.n(48, 1500))
        mism += m2
        if (mism or broken) and not bad:
            m3, bad = real_runs(ctx, ctx.n(12, 48), directed=True)
            mism += m3
    except common.DriverError as e:
        broken.append(("driver", {"error": str(e)[-1000:]}))
    if mism:
        broken.append(("correspondence", {"count": len(mism), "mismatches": mism[:5]}))
    region_model.check(ctx, broken, REGION_REC.records)
    seen = set()
    for b in bad:
        key = "%s:%s" % (b["case"]["kind"], b["complaints"][0][:40])
        if key in seen:
            continue
        seen.add(key)
        ctx.finding("classify:" + key, "%s: %s" % (b["case"]["kind"], b["complaints"][0]), {"kind": "failing-input", "case": b["case"], "complaints": b["complaints"],
                    "how": "Classifier(**kwargs).classify(atoms)"})
    if broken and not ctx.unknown_findings():
        ctx.finding("unproved", "proof/correspondence broken, no failing input found", {"kind": "broken-obligation", "broken": broken}, found_input=False)
    ctx.coverage["broken"] = [{"what": k, "info": i} for k, i in broken]
    ctx.coverage["correspondence_mismatches"] = len(mism)
    return common.finish(ctx, "proof", "dispatch with prepared dimensionalities and regions (incl. the impossible dimensionality 4) vs the Lean model; real classifications of the C01 family "
                         "(<=150 atoms, all pbc, no-cell systems, varied thresholds) checked against the property and replayed through the model",
                         TRUSTED, "cd /verif/lean && lake build MatidProps.C17 (+ #print axioms)")


def replay(path):
    common.install_matid()
    import crystals
    from matid.classification.classifier import Classifier
    r = json.load(open(path))
    c = r.get("case", {})
    if "atoms" in c:
        try:
            kw = {k_: (np.array(v_) if k_ in c.get("kwargs_as_ndarray", []) else v_) for k_, v_ in c["kwargs"].items()}
            clf = Classifier(**kw)
            at = crystals.atoms_from_json(c["atoms"])
            print("now (same object three times):", [type(clf.classify(at)).__name__ for _ in range(3)])
        except Exception as e:  # noqa
            print("now raises", repr(e))
    print(r.get("what"), r.get("complaints"))
    return 0
