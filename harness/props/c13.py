"""C13 — Cluster.get_dimensionality agrees with get_dimensionality of the cluster's atoms."""
import json

import numpy as np

import common
from common import prove, driver

P = "Matid.Props.C13."
THEOREMS = [P + t for t in ("fresh_init", "fresh_step", "getDim_fresh", "fresh_run", "getDim_correct", "stale_cache_witness",
                            "source_invalidates", "source_forwards_radii", "source_aligned_and_private", "constructors_forward_radii")]
TRUSTED = ["Lean 4 kernel", "axioms: propext, Classical.choice, Quot.sound at most (audited per run)",
           "tools/gen_cluster_rule.py (AST: cache fill, setter invalidation, radii forwarding)",
           "hand-written state machine MatidModel/ClusterCache.lean tied by operation histories on the real class",
           "the matrix path and the fresh path of get_dimensionality agree on the same atoms (sampled on every cluster, part of the end-to-end oracle)"]


def sbc_family(rng, k, thin_gap=False):
    """inputs on which merging / localisation / outlier removal really drop atoms"""
    from ase.build import bulk, fcc100
    from ase import Atoms
    kind = k % 9
    if kind == 8:        # crystalline rod: ONE periodic direction, bonded to its own image along it
        el, st, lat = [("Cu", "fcc", 3.6), ("NaCl", "rocksalt", 5.64), ("Fe", "bcc", 2.87)][int(rng.integers(0, 3))]
        ax = int(rng.integers(0, 3))
        rep = [2 if st == "rocksalt" else 3] * 3
        rep[ax] = 3 if st == "rocksalt" else 4
        a = bulk(el, st, a=lat, cubic=True) * tuple(rep)
        cell = np.array(a.get_cell())
        for j in range(3):
            if j != ax:
                cell[j, j] += float(rng.uniform(8, 12))
        a.set_cell(cell)
        pbc = [False] * 3
        pbc[ax] = True
        a.set_pbc(pbc)
        if rng.random() < 0.5:
            a = a[rng.permutation(len(a))]
        return a, "rod-1D"
    if kind >= 6:        # substituted / defective periodic crystals: overlapping regions that get MERGED
        from ase.build import bulk as _bulk
        el, st, lat, sub = [("Si", "diamond", 5.43, 32), ("Cu", "fcc", 3.6, 47), ("NaCl", "rocksalt", 5.64, 19), ("Al", "fcc", 4.05, 31)][int(rng.integers(0, 4))]
        a = _bulk(el, st, a=lat, cubic=True) * (3, 3, 2)
        z = a.get_atomic_numbers()
        z[rng.choice(len(a), max(2, int(len(a) * rng.uniform(0.05, 0.2))), replace=False)] = sub
        a.set_atomic_numbers(z)
        if kind == 7:    # slab: vacuum along c, still periodic
            c = np.array(a.get_cell()); c[2, 2] += float(rng.uniform(0.5, 4.0) if thin_gap else rng.uniform(3.0, 9.0)); a.set_cell(c)
        a.set_pbc([True, True, bool(rng.integers(0, 2)) or kind == 6 or thin_gap])
        if rng.random() < 0.5:
            a = a[rng.permutation(len(a))]
        return a, ("substituted-bulk", "substituted-slab")[kind - 6]
    if kind == 0:        # finite crystallite with a detached atom
        a = bulk("Cu", "fcc", a=3.6, cubic=True) * (3, 3, 3)
        a.set_pbc(False)
        a.center(vacuum=6)
        # an atom on a lattice site one lattice constant outside the crystallite: part of the periodic region found by the
        # finder, but not bonded to it (3.6 A - 2 x 1.32 A > threshold): removed by the outlier cleaning
        pos = a.get_positions()
        q = pos[np.argmax(pos[:, 0])]
        a += Atoms("Cu", positions=[q + [3.6, 0, 0]])
    elif kind == 1:      # slab whose periodic gap is bonded only with the larger (vdW) radii
        a = fcc100("Cu", (5, 5, 4), vacuum=2.0, a=3.6)
        if rng.random() < 0.5:
            top = a.get_positions()[:, 2].max()
            a += Atoms("H", positions=[[1.0, 1.0, top + 1.5]])
        a.set_pbc(True)
    elif kind == 2:      # two crystals in one cell
        a = fcc100("Cu", (4, 4, 3), vacuum=0, a=3.6)
        b = fcc100("Ag", (4, 4, 3), vacuum=0, a=3.6)
        b.translate([0, 0, a.get_positions()[:, 2].max() + 2.2])
        a += b
        a.set_cell([a.cell[0], a.cell[1], [0, 0, a.get_positions()[:, 2].max() + 8]])
        a.set_pbc(True)
    elif kind == 3:      # defective crystal
        a = bulk("NaCl", "rocksalt", a=5.64, cubic=True) * (3, 3, 3)
        del a[[int(i) for i in rng.choice(len(a), 6, replace=False)]]
    elif kind == 4:      # crystallite, periodic box, rattled
        a = bulk("Si", "diamond", a=5.43, cubic=True) * (2, 2, 2)
        a.set_pbc(False)
        a.center(vacuum=5)
        a.set_pbc(True)
        a.rattle(0.05, seed=int(rng.integers(0, 10 ** 6)))
    else:                # random gas
        n = int(rng.integers(5, 40))
        cell = np.diag(rng.uniform(6, 12, 3))
        a = Atoms(numbers=rng.choice([1, 6, 8, 29], n), positions=rng.random((n, 3)) @ cell, cell=cell, pbc=rng.random(3) < 0.7)
    if rng.random() < 0.5:
        a = a[rng.permutation(len(a))]
    return a, ("crystallite+atom", "thin-gap-slab", "two-crystals", "defective", "rattled-crystallite", "gas")[kind]


def histories(ctx, n_hist):
    """operation histories on real Cluster objects vs the Lean state machine"""
    import matid.geometry as G
    from matid.clustering.cluster import Cluster
    import gen_cluster_rule
    invalid, forwards = gen_cluster_rule.translate()
    rng = np.random.default_rng(ctx.seed + 13)
    lines, runs = [], []
    for h in range(n_hist):
        a, kind = sbc_family(rng, int(rng.integers(0, 9)))
        if len(a) > 70:
            a = a[[int(i) for i in rng.choice(len(a), 70, replace=False)]]
        preset = ["covalent", "vdw", None][h % 3]
        radii = G.get_radii(preset, a.get_atomic_numbers()) if preset else rng.uniform(0.4, 1.6, len(a))
        if np.isnan(radii).any():
            radii = G.get_radii("covalent", a.get_atomic_numbers())
        thr = float(rng.uniform(0.4, 1.0))
        a.wrap()
        dist = G.get_distances(a, radii)
        n0 = int(rng.integers(2, min(len(a), 25) + 1))
        idx0 = [int(i) for i in rng.choice(len(a), n0, replace=False)]      # NOT sorted: `indices` is list(set(...)) in the library, in table order
        ops, cur = [], list(idx0)
        for _ in range(int(rng.integers(2, 7))):
            r = rng.random()
            if r < 0.3:
                ops.append("M")
            elif r < 0.65:
                ops.append("D")
            else:
                keep = max(1, len(cur) - int(rng.integers(1, 4)))
                cur = [int(i) for i in rng.choice(cur, keep, replace=False)]
                ops.append("S:" + ".".join(map(str, cur)))
        if "D" not in ops:
            ops.append("D")
        lines.append("cluster %s %s" % (".".join(map(str, idx0)), ";".join(ops)))
        runs.append((a, radii, thr, dist, idx0, ops, kind))
        ctx.count("history_" + kind)
    out = driver(lines)
    mism = []
    for (a, radii, thr, dist, idx0, ops, kind), o, line in zip(runs, out, lines):
        cl = Cluster(list(idx0), set(a.get_atomic_numbers()[idx0].tolist()), None, system=a, distances=dist, radii=radii, bond_threshold=thr)
        model = o.split("|")
        ctx.case(("history", line), nontrivial=any(x.startswith("S") for x in ops), sample={"op": line, "model": o} if len(ctx.samples) < 3 else None)
        ok = True
        why = ""
        for op, mo in zip(ops, model):
            try:
                if op == "M":
                    real = np.array(cl._get_distance_matrix_radii_mic())
                    l = [int(v) for v in mo[2:].split(".")]
                    exp = dist.dist_matrix_radii_mic[np.ix_(l, l)]
                    if real.shape != exp.shape or not np.array_equal(np.clip(real, 0, 1.1 * thr), np.clip(exp, 0, 1.1 * thr)):
                        ok, why = False, "cached matrix is not the sub-matrix for %s" % mo
                elif op == "D":
                    m, at = mo[2:].split("/")
                    m = [int(v) for v in m.split(".")]
                    at = [int(v) for v in at.split(".")]
                    try:
                        exp = G.get_dimensionality(a[at], thr, dist_matrix_radii_mic_1x=np.array(dist.dist_matrix_radii_mic[np.ix_(m, m)]),
                                                   radii=(np.asarray(radii)[at] if forwards else "covalent"))
                    except Exception as e:  # noqa
                        exp = "exception " + type(e).__name__
                    try:
                        real = cl.get_dimensionality()
                    except Exception as e:  # noqa
                        real = "exception " + type(e).__name__
                    if real != exp:
                        ok, why = False, "get_dimensionality() = %s, model computation %s gives %s" % (real, mo, exp)
                else:
                    cl.indices = [int(v) for v in op[2:].split(".")]
            except Exception as e:  # noqa
                ok, why = False, "exception %r at %s" % (e, op)
            if not ok:
                break
        if not ok:
            mism.append({"history": line, "model": o, "why": why, "kind": kind})
    return mism


ARITH = []


def oracle_clusters(ctx, n_runs, directed=False):
    """the property on clusters returned by the real get_clusters; `directed`: only inputs whose clusters come out of a merge,
    with non-covalent radii and a periodic gap that is bonded with those radii only (used when the proof/correspondence is broken)"""
    import matid.geometry as G
    from matid.clustering import SBC
    import crystals
    rng = np.random.default_rng(ctx.seed + 1313)
    bad = []
    arith_bad = []
    dropped = merged = 0
    for k in range(n_runs):
        a, kind = sbc_family(rng, (7 if k % 4 else 6) if directed else k, thin_gap=directed)
        preset = ["vdw", "vdw", "custom"][k % 3] if directed else ["covalent", "vdw", "custom"][k % 3]
        thr = float(rng.uniform(0.4, 1.0))
        if preset == "custom":
            radii_arg = G.get_radii("covalent", a.get_atomic_numbers()) * float(rng.uniform(0.7, 0.95) if (directed or k % 2) else rng.uniform(0.95, 1.3))
            if radii_arg.max() < 1.0 and not directed:
                thr = float(rng.uniform(0.3, 0.6))      # small radii and a tight threshold: contacts that are bonds with covalent radii are not
        else:
            radii_arg = preset
            if np.isnan(G.get_radii(preset, a.get_atomic_numbers())).any():
                radii_arg = "covalent"
        radii_full = G.get_radii(radii_arg, a.get_atomic_numbers())
        # the shared matrix is, bit for bit, the minimum-image distance minus the SUM of the two radii — the arithmetic get_dimensionality
        # repeats on the cluster's own atoms (a re-ordered or lower-precision subtraction moves bonds that sit exactly on the threshold)
        try:
            aw_ = a.copy()
            aw_.wrap()
            D_ = G.get_distances(aw_, radii_full)
            rf_ = np.asarray(radii_full, dtype=float)
            ctx.count("shared_matrix_arithmetic_checked")
            if D_.dist_matrix_radii_mic.dtype != np.float64 or not np.array_equal(D_.dist_matrix_radii_mic, D_.dist_matrix_mic - (rf_[:, None] + rf_[None, :])):
                arith_bad.append({"kind": kind, "atoms": len(a)})
            elif k % 4 == 0:
                import finder_helpers
                why_ = finder_helpers.distances_agree(aw_, radii_full)
                if why_:
                    arith_bad.append({"kind": kind, "atoms": len(a), "what": why_})
        except Exception:  # noqa
            pass
        try:
            extra = {"merge_threshold": float(rng.uniform(0.1, 0.5))} if kind.startswith("substituted") else {}
            clusters = SBC().get_clusters(a, radii=radii_arg, bond_threshold=thr, seed=int(rng.integers(0, 100)), **extra)
        except ValueError:
            continue
        ctx.count("sbc_" + kind)
        for c in clusters:
            merged += bool(getattr(c, "_merged", False))
            ctx.case(("cluster", k, kind, tuple(sorted(c.indices))), nontrivial=len(c.indices) > 1)
            try:
                d1 = c.get_dimensionality()
                d2 = c.get_dimensionality()
                fresh = G.get_dimensionality(c.get_atoms(), thr, radii=np.asarray(radii_full)[c.indices])
                # the same, without the class: the atoms of the input in index order (dimensionality does not depend on the order)
                srt = sorted(int(i) for i in c.indices)
                aw = a.copy()
                fresh2 = G.get_dimensionality(aw[srt], thr, radii=np.asarray(radii_full)[srt])
            except Exception as e:  # noqa
                bad.append({"kind": kind, "complaint": "exception %s: %s" % (type(e).__name__, str(e)[:120]), "atoms": crystals.atoms_to_json(a),
                            "radii": str(radii_arg) if isinstance(radii_arg, str) else "custom", "bond_threshold": thr, "indices": [int(i) for i in c.indices]})
                continue
            if c._region is not None and len(c.indices) != len(set(c._region.get_basis_indices()) | set(c.indices)):
                dropped += 1
            if d1 != fresh or d1 != d2 or d1 != fresh2:
                bad.append({"kind": kind, "complaint": "shortcut %s (repeated %s), fresh evaluation %s, evaluation on the input's atoms in index order %s" % (d1, d2, fresh, fresh2), "atoms": crystals.atoms_to_json(a),
                            "radii": str(radii_arg) if isinstance(radii_arg, str) else np.asarray(radii_arg).tolist(), "bond_threshold": thr,
                            "indices": [int(i) for i in c.indices], "extra": extra, "merged": bool(getattr(c, "_merged", False))})
    ctx.coverage["clusters_that_lost_atoms_after_tracking"] = dropped
    ctx.coverage["clusters_produced_by_a_merge"] = merged
    if arith_bad:
        ARITH.extend(arith_bad)
    return bad


def run(ctx):
    common.install_matid()
    broken = []
    terr = common.regen(ctx, ("cluster_rule", "sbc_rule"))
    if terr:
        for t in THEOREMS:
            ctx.obligations.append((t, False))
        broken.append(("translator", terr))
    else:
        ok, info = prove(ctx, "MatidProps.C13", THEOREMS)
        if not ok:
            broken.append(("proof", info))
    mism = []
    try:
        mism = histories(ctx, ctx.n(250, 8000))
    except common.DriverError as e:
        broken.append(("driver", {"error": str(e)[-1000:]}))
    except Exception as e:  # noqa
        broken.append(("translator", {"error": repr(e)}))
    if mism:
        broken.append(("correspondence", {"count": len(mism), "mismatches": mism[:5]}))
    bad = oracle_clusters(ctx, ctx.n(64, 1600))
    if ARITH:
        broken.append(("correspondence", {"what": "Distances.dist_matrix_radii_mic is not, bit for bit, dist_matrix_mic - (r_i + r_j) in double precision "
                                          "(the arithmetic get_dimensionality repeats on the cluster's atoms)", "count": len(ARITH), "examples": ARITH[:3]}))
    if broken and not bad:
        bad = oracle_clusters(ctx, ctx.n(90, 900), directed=True)
    seen = set()
    for b in bad:
        key = "%s:%s" % (b["kind"], b["complaint"][:30])
        if key in seen:
            continue
        seen.add(key)
        ctx.finding("cluster:" + key, "%s: %s" % (b["kind"], b["complaint"]), {"kind": "failing-input", "case": b,
                    "how": "SBC().get_clusters(atoms, radii=…, bond_threshold=…); compare cluster.get_dimensionality() with matid.geometry.get_dimensionality(cluster.get_atoms(), bond_threshold, radii=radii[cluster.indices])"})
    if broken and not ctx.unknown_findings():
        ctx.finding("unproved", "proof/correspondence broken, no failing cluster found", {"kind": "broken-obligation", "broken": broken}, found_input=False)
    ctx.coverage["broken"] = [{"what": k, "info": i} for k, i in broken]
    ctx.coverage["correspondence_mismatches"] = len(mism)
    return common.finish(ctx, "proof", "random operation histories (matrix / dimensionality requests, index reassignments) on real Cluster objects vs the Lean state machine; "
                         "all clusters of real get_clusters runs on crystallites with detached atoms, slabs with adatoms, stacked crystals, defective and rattled crystals, gases "
                         "(radii covalent/vdw/custom, thresholds 0.4-1.0)", TRUSTED, "cd /verif/lean && lake build MatidProps.C13 (+ #print axioms)")


def replay(path):
    common.install_matid()
    import crystals
    import matid.geometry as G
    from matid.clustering import SBC
    r = json.load(open(path))
    c = r.get("case", {})
    if "atoms" in c:
        a = crystals.atoms_from_json(c["atoms"])
        rad = c["radii"] if isinstance(c["radii"], str) and c["radii"] != "custom" else np.array(c["radii"]) if not isinstance(c["radii"], str) else "covalent"
        for cl in SBC().get_clusters(a, radii=rad, bond_threshold=c["bond_threshold"], **c.get("extra", {})):
            full = G.get_radii(rad, a.get_atomic_numbers())
            print(len(cl.indices), "shortcut", cl.get_dimensionality(), "fresh", G.get_dimensionality(cl.get_atoms(), c["bond_threshold"], radii=np.asarray(full)[cl.indices]))
    print(r.get("what"))
    return 0
