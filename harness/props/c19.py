"""C19 — radii presets and custom radii are honoured uniformly."""
import json
import math

import numpy as np

import common
from common import prove, driver

THEOREMS = ["Matid.Props.C19." + t for t in (
    "ne_nanLit_always", "isnan_cond_is_spec", "spec_finitePos", "custom_unchanged", "consumer_equal",
    "preset_covalent_spec", "preset_vdw_spec", "preset_vdw_covalent_spec",
    "preset_vdw_covalent_finite_positive", "cov_defined", "preset_vdw_covalent_len_ok", "consumers_resolve_via_get_radii")]
TRUSTED = ["Lean 4 kernel", "axioms: propext, Classical.choice, Quot.sound at most (audited per run)",
           "tools/gen_radii.py (AST translator of get_radii; output compared with the real function for Z=0..103 x 3 presets)",
           "ASE radii tables as exact decimals (1e-4 A units)"]


def oracle(z, cov, vdw):
    """the property's own statement, independent of the model: expected radius per preset"""
    v = vdw[z]
    return {"covalent": cov[z], "vdw": v, "vdw_covalent": cov[z] if math.isnan(v) else v}


def search_real(ctx, directed=()):
    """exhaustive evaluation of the property's oracle on the real function (finite domain)"""
    import matid.geometry as G
    from ase.data import covalent_radii as cov
    from ase.data.vdw_alvarez import vdw_radii as vdw
    bad = []
    zs = list(directed) + [z for z in range(1, 104) if z not in directed]
    for z in zs:
        exp = oracle(z, cov, vdw)
        for preset in ("covalent", "vdw", "vdw_covalent"):
            try:
                got = float(G.get_radii(preset, np.array([z]))[0])
            except Exception as e:  # noqa
                bad.append((z, preset, "exception %s" % type(e).__name__, None))
                continue
            e = exp[preset]
            same = (math.isnan(got) and math.isnan(e)) or got == e
            ctx.case(("real", z, preset), nontrivial=True)
            if not same:
                bad.append((z, preset, got, e))
            elif preset == "vdw_covalent" and not (got > 0 and math.isfinite(got)):
                bad.append((z, preset, got, "finite positive"))
    # requests for several atoms at once (the whole range, and mixtures of elements with and without a van der Waals radius):
    # the result must be the per-element table value for every atom, whatever else is in the request
    rng = np.random.default_rng(ctx.seed + 191)
    requests = [np.arange(1, 104)] + [rng.choice(np.arange(1, 104), int(rng.integers(2, 12))) for _ in range(60)]
    requests += [np.array([z0, 8, 17, 29]) for z0 in (61, 84, 85, 86, 87, 88, 100, 101, 102, 103)]
    for req in requests:
        for preset in ("covalent", "vdw", "vdw_covalent"):
            try:
                got = np.asarray(G.get_radii(preset, req), dtype=float)
            except Exception as e:  # noqa
                bad.append((int(req[0]), preset, "exception %s for the request %s" % (type(e).__name__, req.tolist()[:8]), None))
                continue
            ctx.case(("request", preset, req.tobytes()), nontrivial=True)
            for z, g in zip(req.tolist(), got.tolist()):
                e = oracle(int(z), cov, vdw)[preset]
                if not ((math.isnan(g) and math.isnan(e)) or g == e):
                    bad.append((int(z), preset, "%r within the request %s" % (g, req.tolist()[:8]), e))
                    break
    # custom arrays are returned unchanged
    rng = np.random.default_rng(ctx.seed)
    for _ in range(50):
        arr = rng.random(int(rng.integers(1, 12)))
        out = G.get_radii(arr, np.arange(len(arr)) + 1)
        ctx.case(("custom", arr.tobytes()), nontrivial=True)
        if out is not arr and not np.array_equal(out, arr):
            bad.append((None, "custom", out.tolist(), arr.tolist()))
    return bad


def consumers(ctx, n, table_sized=False):
    """preset vs the same numbers as a custom array: get_dimensionality, get_distances, SBC"""
    import matid.geometry as G
    from matid.clustering import SBC
    from ase import Atoms
    rng = np.random.default_rng(ctx.seed + 19)
    bad = []
    with_vdw = [1, 6, 8, 14, 26, 29, 47, 79]
    without = [61, 84, 85, 86, 87, 88]
    for k in range(n):
        nat = int(rng.integers(2, 14))
        if table_sized:
            # structures whose atom count equals (or neighbours) the length of the element tables: a per-atom array of that
            # length must still be used per atom
            nat = len(G.covalent_radii) + int(rng.integers(-1, 2)) if hasattr(G, "covalent_radii") else 119 + int(rng.integers(-1, 2))
        pool = with_vdw + (without if k % 2 else [])
        nums = rng.choice(pool, nat)
        cell = np.diag(rng.uniform(3, 9, 3)) * (3.0 if table_sized else 1.0)
        pos = rng.random((nat, 3)) @ cell
        pbc = rng.random(3) < 0.6
        a = Atoms(numbers=nums, positions=pos, cell=cell, pbc=pbc)
        for preset in ("covalent", "vdw", "vdw_covalent"):
            arr = G.get_radii(preset, nums)
            ctx.case(("consumer", k, preset), nontrivial=True,
                     sample={"numbers": nums.tolist(), "preset": preset, "pbc": pbc.tolist()} if k < 2 else None)
            if np.isnan(arr).any():
                ctx.count("consumer_skipped_nan_radius")
                continue
            thr = float(rng.uniform(0.3, 2.0))
            try:
                d1 = G.get_dimensionality(a, thr, radii=preset, return_clusters=True)
                d2 = G.get_dimensionality(a, thr, radii=np.array(arr), return_clusters=True)
                m1 = G.get_distances(a, preset).dist_matrix_radii_mic
                m2 = G.get_distances(a, np.array(arr)).dist_matrix_radii_mic
                ok = (d1[0] == d2[0] and sorted(map(sorted, d1[1])) == sorted(map(sorted, d2[1])) and np.array_equal(m1, m2))
                if k % 5 == 0 and not table_sized:
                    c1 = SBC().get_clusters(a, radii=preset)
                    c2 = SBC().get_clusters(a, radii=np.array(arr))
                    ok = ok and sorted(sorted(c.indices) for c in c1) == sorted(sorted(c.indices) for c in c2)
            except Exception as e:  # noqa
                ok = False
                d1 = d2 = "exception %r" % e
            if not ok:
                bad.append({"numbers": nums.tolist(), "positions": pos.tolist(), "cell": cell.tolist(), "pbc": pbc.tolist(),
                            "preset": preset, "threshold": thr, "with_preset": str(d1), "with_array": str(d2)})
    return bad


def run(ctx):
    common.install_matid()
    import gen_radii
    broken = []
    # 1. translator + proof
    terr = common.regen(ctx, ("radii", "dim_rule", "sbc_rule"))
    if terr:
        for t in THEOREMS:
            ctx.obligations.append((t, False))
        broken.append(("translator", terr))
    else:
        ok, info = prove(ctx, "MatidProps.C19", THEOREMS + ["Matid.Props.C13.constructors_forward_radii"], extra_imports=("MatidProps.C13",), gen_targets=("MatidProps.C13",))
        if not ok:
            broken.append(("proof", info))
    # 2. correspondence: model (as generated) vs real function, exhaustive
    import matid.geometry as G
    if not any(k == "translator" for k, _ in broken):
        try:
            ops = ["radii %s %d" % (p, z) for z in range(0, 104) for p in ("covalent", "vdw", "vdw_covalent")]
            out = driver(ops)
            mism = []
            for op, o in zip(ops, out):
                _, p, z = op.split()
                got = float(G.get_radii(p, np.array([int(z)]))[0])
                model = float("nan") if o == "nan" else int(o) / 10000.0
                if not ((math.isnan(got) and math.isnan(model)) or got == model):
                    mism.append({"op": op, "model": o, "real": got})
            ctx.coverage["correspondence"] = {"cases": len(ops), "mismatches": len(mism), "exhaustive": True}
            if mism:
                broken.append(("correspondence", {"mismatches": mism[:10]}))
        except common.DriverError as e:
            broken.append(("driver", {"error": str(e)[-1500:]}))
    # 3. the property's oracle on the real code (exhaustive; doubles as the failing-input search)
    bad = search_real(ctx)
    bad_cons = consumers(ctx, ctx.n(40, 600))
    bad_cons += consumers(ctx, ctx.n(6, 60), table_sized=True)
    if bad:
        zs = sorted({b[0] for b in bad if b[0] is not None})
        ctx.finding("preset-mismatch", "get_radii deviates from the documented table for Z in %s" % zs,
                    {"kind": "failing-input", "failing": [{"z": b[0], "preset": b[1], "got": str(b[2]), "expected": str(b[3])} for b in bad[:40]],
                     "how": "matid.geometry.get_radii(preset, np.array([z]))", "broken": [b for b, _ in broken]})
    if bad_cons:
        ctx.finding("consumer-mismatch", "preset and equal custom array give different consumer results",
                    {"kind": "failing-input", "failing": bad_cons[:5]})
    if broken and not bad and not bad_cons:
        ctx.finding("unproved", "proof/correspondence broken but no failing input found",
                    {"kind": "broken-obligation", "broken": broken}, found_input=False)
    ctx.coverage["broken"] = [{"what": k, "info": i} for k, i in broken]
    ctx.assumptions += ["consumers (get_dimensionality, get_distances, SBC) use only the array returned by get_radii — sampled on random structures, not proved",
                        "IEEE comparison semantics of numpy scalars as modelled by R.ne / R.eq"]
    return common.finish(ctx, "proof", "Z=0..103 x 3 presets exhaustively on model and real code; consumer equality on random structures (distinct = distinct (kind, input) tuples)",
                         TRUSTED, "cd /verif/lean && lake build MatidProps.C19 && #print axioms (harness/common.py: prove)", exhaustive=True)


def replay(path):
    common.install_matid()
    import matid.geometry as G
    r = json.load(open(path))
    for f in r.get("failing", []):
        if "z" in f and f["z"] is not None:
            print("get_radii(%r, [%d]) = %r   expected %s" % (f["preset"], f["z"], float(G.get_radii(f["preset"], np.array([f["z"]]))[0]), f["expected"]))
    print(json.dumps({k: v for k, v in r.items() if k != "failing"}, indent=1)[:2000])
    return 0
