"""C14 — built-in space-group tables agree with the International Tables, all 230 groups."""
import json
import os
import re
import subprocess

import numpy as np

import common
from common import prove, LEAN

P = "Matid.Props.C14."
THEOREMS = [P + t for t in ("covers_all_230_groups", "info_agrees_with_reference", "centrings_agree_with_reference",
                            "wyckoff_positions_are_orbits", "wyckoff_positions_closed_pointwise", "expressions_equal_numeric",
                            "normalizers_ok")] + ["MatidGen.allGroups_ok", "Matid.Table.letterOk_sound", "Matid.Table.normOk_sound",
                                                  "Matid.Table.preserves_all_metrics", "Matid.Table.generatedOk_sound"]
TRUSTED = ["Lean 4 kernel (decide +kernel evaluation of the table checkers)", "axioms: propext, Classical.choice, Quot.sound at most (audited per run)",
           "tools/gen_tables.py as a copier of numbers/strings (round-trip checked by DumpTables.lean on every run); its certificates are untrusted",
           "spglib's Hall database as the reference for the standard setting (named by the property)",
           "the Lean-side spec definitions in MatidModel/Table.lean (expression parser, ITA number ranges, metric families)"]

CS = ["triclinic"] * 2 + ["monoclinic"] * 13 + ["orthorhombic"] * 59 + ["tetragonal"] * 68 + ["trigonal"] * 25 + ["hexagonal"] * 27 + ["cubic"] * 36
FAM = "a" * 2 + "m" * 13 + "o" * 59 + "t" * 68 + "h" * 52 + "c" * 36


def roundtrip(ctx):
    """DumpTables.lean output vs the Python objects: catches an encoder/decoder slip of the translator"""
    import gen_tables as GT
    from affine import from_expression_numeric, from_4x4, snap24, Aff
    rc, out = common.sh(["lake", "env", "lean", "--run", "DumpTables.lean"], cwd=LEAN, timeout=1200)
    if rc != 0:
        return ["DumpTables failed: " + out[-500:]]
    info, wy, norms = GT.load_tables()
    ref = GT.reference()
    errs = []
    groups = {}
    cur = None
    for line in out.split("\n"):
        if not line:
            continue
        tag, rest = line[0], line[2:]
        if tag == "G":
            n = int(rest.split()[0])
            cur = groups[n] = {"head": rest, "O": [], "C": [], "L": [], "N": []}
        elif tag in "OC":
            cur[tag].append(tuple(int(v) for v in rest.split()))
        elif tag == "L":
            cur["L"].append({"head": rest, "E": [], "S": []})
        elif tag in "ES":
            cur["L"][-1][tag].append(tuple(int(v) for v in rest.split()) if tag == "E" else rest)
        elif tag == "N":
            cur["N"].append(rest)

    def flat(a):
        return tuple(v for row in a.R for v in row) + tuple(v % 24 for v in a.t)
    n_items = 0
    for n in range(1, 231):
        g = groups.get(n)
        if g is None:
            errs.append("group %d missing" % n)
            continue
        i = info[n]
        exp_head = "%d sys=%s brav=%s pg=%s refpg=%s refc=%s" % (n, i["crystal_system"], i["bravais_lattice"], i["pointgroup"], ref[n]["pointgroup"], ref[n]["centring"])
        if g["head"] != exp_head:
            errs.append("group %d header %r != %r" % (n, g["head"], exp_head))
        if sorted(g["O"]) != sorted(flat(o) for o in ref[n]["ops"]):
            errs.append("group %d reference ops differ" % n)
        cents = [tuple([0] * 9 + [snap24(v) % 24 for v in t]) for t in np.asarray(wy[n]["translations"]).reshape(-1, 3)]
        if g["C"] != cents:
            errs.append("group %d centrings differ" % n)
        letters = [k for k in wy[n] if k != "translations"]
        if len(letters) != len(g["L"]):
            errs.append("group %d letter count" % n)
            continue
        for l, L in zip(letters, g["L"]):
            d = wy[n][l]
            vm = sum(b for v, b in (("x", 1), ("y", 2), ("z", 4)) if v in d["variables"])
            if not L["head"].startswith("%s vars=%d " % (l, vm)):
                errs.append("group %d letter %s header %r" % (n, l, L["head"]))
            ex = [flat(from_expression_numeric(M, C)) for M, C in zip(d["matrices"], d["constants"])]
            if L["E"] != ex:
                errs.append("group %d letter %s numeric differ" % (n, l))
            if L["S"] != [",".join(t) for t in d["expressions"]]:
                errs.append("group %d letter %s strings differ" % (n, l))
            n_items += len(ex)
        nl = norms.get(n, [])
        if len(nl) != len(g["N"]):
            errs.append("group %d normalizer count" % n)
            continue
        for e, N in zip(nl, g["N"]):
            want = " ".join(str(v) for v in flat(from_4x4(e["transformation"])))
            perm = " ".join("%s>%s" % kv for kv in e["permutations"].items())
            if not (N.startswith(want + " exact=") and N.endswith("perm=" + perm)):
                errs.append("group %d normalizer differs: %r" % (n, N[:80]))
            n_items += 1
    ctx.coverage["translator_roundtrip"] = {"items_compared": n_items, "errors": len(errs)}
    return errs


def monitor_labels(ctx, groups):
    """end to end on the real code: crystal system / Bravais lattice / point group of one crystal per group"""
    import crystals
    import gen_tables as GT
    from matid.symmetry.symmetryanalyzer import SymmetryAnalyzer
    ref = GT.reference()
    rng = np.random.default_rng(ctx.seed + 14)
    bad = []
    for n in groups:
        made = None
        for _ in range(12):
            made = crystals.ase_crystal(n, rng, n_orbits=2, max_atoms=400)
            if made:
                break
        if not made:
            ctx.count("label_monitor_no_crystal")
            continue
        atoms, meta = made
        sa = SymmetryAnalyzer(atoms, symmetry_tol=1e-3)
        try:
            got = (sa.get_space_group_number(), sa.get_crystal_system(), sa.get_bravais_lattice(), sa.get_point_group())
        except Exception as e:  # noqa
            bad.append({"group": n, "error": repr(e), "atoms": crystals.atoms_to_json(atoms)})
            continue
        cen = ref[n]["centring"]
        exp = (n, CS[n - 1], FAM[n - 1] + ("S" if cen in "ABC" else cen), ref[n]["pointgroup"])
        ctx.case(("labels", n), sample={"group": n, "labels": got} if n in (1, 225) else None)
        ctx.count("label_monitor_crystals")
        if got != exp:
            bad.append({"group": n, "got": got, "expected": exp, "atoms": crystals.atoms_to_json(atoms), "meta": meta})
    return bad


def monitor_letters(ctx, pairs):
    """probe crystals: a position built from MatID's table for (group, letter) must get that letter from spglib
    (or one of equal multiplicity and freedom when spglib chooses another origin)"""
    import crystals
    W = crystals.wyckoff_tables()
    rng = np.random.default_rng(ctx.seed + 1414)
    bad = []
    for n, letter in pairs:
        gen = crystals.general_letter(n)
        # a further general-position orbit of another species keeps the probe from gaining a supergroup symmetry
        occ = [(letter, 14, None), (gen, 8, None)]
        made = None
        for _ in range(4):
            made = crystals.table_crystal(n, occ, rng)
            if made:
                break
        if not made:
            ctx.count("letter_probe_collision")
            continue
        atoms, meta = made
        ds = crystals.spg_dataset(atoms, 1e-4)
        ctx.case(("letterprobe", n, letter), sample={"group": n, "letter": letter, "natoms": len(atoms)} if (n, letter) in ((62, "c"), (225, "e")) else None)
        if ds is None or ds.number != n:
            # the table position does not even produce the right group
            ctx.count("letter_probe_other_group")
            bad.append({"group": n, "letter": letter, "what": "probe crystal has space group %s" % (None if ds is None else ds.number), "meta": meta})
            continue
        tags = np.array(meta["tags"])
        got = set(np.array(ds.wyckoffs)[tags == 0])
        if got == {letter}:
            ctx.count("letter_probe_same")
            continue
        # another letter is acceptable only when spglib really works in another origin / setting than the tabulated one
        same_frame = np.abs(np.array(ds.origin_shift) - np.rint(ds.origin_shift)).max() < 1e-6 and np.allclose(ds.transformation_matrix, np.eye(3), atol=1e-6)
        ok = len(got) == 1 and not same_frame
        if ok:
            g = list(got)[0]
            ok = (g in W[n] and len(W[n][g]["expressions"]) == len(W[n][letter]["expressions"]) and len(W[n][g]["variables"]) == len(W[n][letter]["variables"]))
        if ok:
            ctx.count("letter_probe_equivalent_origin")
        else:
            bad.append({"group": n, "letter": letter, "what": "spglib assigns %s" % sorted(got), "meta": meta})
    return bad


def run(ctx):
    common.install_matid()
    import gen_tables
    broken = []
    problems = []
    common.regen(ctx)
    try:
        r = gen_tables.generate()
        problems = r["problems"]
        ctx.coverage["regenerated_files"] = r["changed_files"]
    except Exception as e:  # noqa
        broken.append(("translator", {"error": repr(e)}))
    if not broken:
        ok, info = prove(ctx, "MatidProps.C14", THEOREMS)
        if not ok:
            broken.append(("proof", info))
        errs = roundtrip(ctx)
        if errs:
            broken.append(("translator-roundtrip", {"errors": errs[:10]}))
    # generated per-entry obligations (for the evidence count)
    n_gen = 0
    for f in sorted(os.listdir(os.path.join(LEAN, "MatidGen", "SG"))):
        n_gen += len(re.findall(r"^theorem ", open(os.path.join(LEAN, "MatidGen", "SG", f)).read(), re.M))
    built = not any(k == "proof" for k, _ in broken)
    ctx.coverage["generated_table_theorems"] = n_gen
    ctx.obligations.append(("MatidGen.SG.* (%d kernel-evaluated table theorems)" % n_gen, built))
    # the tables themselves are an observation point: python twin of every kernel check
    if problems:
        by = {}
        for p in problems:
            key = "table:%s:%s:%s" % (p.get("group"), p.get("letter", "n%s" % p.get("normalizer", "")), p["what"])
            by.setdefault(key, []).append(p)
        for key, ps in by.items():
            ctx.finding(key, "%s (group %s)" % (ps[0]["what"], ps[0].get("group")),
                        {"kind": "failing-table-entry", "entries": ps[:20], "how": "matid.data.symmetry_data vs spglib Hall database; see tools/gen_tables.py"})
    # end-to-end monitors on the real code
    rng = np.random.default_rng(ctx.seed)
    groups = list(range(1, 231))
    bad = monitor_labels(ctx, groups)
    for b in bad:
        ctx.finding("labels:%d" % b["group"], "crystal of group %d reported with labels %s" % (b["group"], b.get("got", b.get("error"))),
                    {"kind": "failing-input", "case": b})
    import crystals
    W = crystals.wyckoff_tables()
    all_pairs = [(n, l) for n in range(1, 231) for l in W[n] if l != "translations"]
    if ctx.thorough():
        pairs = all_pairs
    else:
        # every position WITHOUT free parameters (two of them can be listed under each other's letter and leave the table self-consistent),
        # and a sample of the others
        fixed = [(n, l) for n, l in all_pairs if not W[n][l]["variables"]]
        rest = [q for q in all_pairs if q not in set(fixed)]
        idx = rng.choice(len(rest), 200, replace=False)
        pairs = sorted(fixed + [rest[i] for i in idx])
        ctx.coverage["letter_probes"] = "%d parameter-free positions (all) + %d of %d others" % (len(fixed), len(idx), len(rest))
    badl = monitor_letters(ctx, pairs)
    for b in badl:
        ctx.finding("letterprobe:%d:%s" % (b["group"], b["letter"]), "probe crystal for %d %s: %s" % (b["group"], b["letter"], b["what"]),
                    {"kind": "failing-input", "case": b})
    import analyzer_hist
    analyzer_hist.check(ctx, "C14", broken)
    if broken and not ctx.unknown_findings():
        ctx.finding("unproved", "proof/translator broken but no failing table entry or crystal found",
                    {"kind": "broken-obligation", "broken": broken}, found_input=False)
    ctx.coverage["broken"] = [{"what": k, "info": i} for k, i in broken]
    ctx.assumptions += ["spglib's Hall database equals the printed International Tables (reference named by the property)",
                        "spglib standardises into the first Hall setting (monitored by the letter probes)"]
    return common.finish(ctx, "proof",
                         "exhaustive over the tables: 230 groups, every Wyckoff position and normalizer is one kernel-evaluated theorem; "
                         "monitors: one ASE crystal per group for the labels, table-built probe crystals for the letters "
                         "(distinct = distinct (kind, group, letter))",
                         TRUSTED, "cd /verif/lean && lake build MatidProps.C14 (+ #print axioms, harness/common.py: prove)", exhaustive=True)


def replay(path):
    common.install_matid()
    r = json.load(open(path))
    print(json.dumps(r, indent=1)[:3000])
    if r.get("kind") == "failing-input" and "atoms" in r.get("case", {}):
        import crystals
        from matid.symmetry.symmetryanalyzer import SymmetryAnalyzer
        a = crystals.atoms_from_json(r["case"]["atoms"])
        sa = SymmetryAnalyzer(a, symmetry_tol=1e-3)
        print("now:", sa.get_space_group_number(), sa.get_crystal_system(), sa.get_bravais_lattice(), sa.get_point_group())
    return 0
