"""C11 — 2D materials get a vacuum-, orientation- and labelling-independent normal form."""
import json
from fractions import Fraction

import numpy as np

import common
from common import prove, driver

P = "Matid.Props.C11."
THEOREMS = [P + t for t in ("detectAxis_sound", "detectAxis_spec", "vacuum_at_least_five", "extent_shift_invariant", "restrictTranslation_spec",
                            "second_char_not_D", "id_2d_ne_3d")] + ["Matid.Props.C20.minimized_inside", "Matid.Props.C20.minimized_only_axis", "Matid.Props.C06.select_normalizer_invariant"]
TRUSTED = ["Lean 4 kernel", "axioms: propext, Classical.choice, Quot.sound at most (audited per run)",
           "hand-written model MatidModel/TwoD.lean (vacuum rule, axis detection) tied by a recorded correspondence on real 2D inputs; shape clauses reuse C20's model, invariance reuses C06",
           "spglib on the vacuum-padded cell and the periodic centre of mass (arctan2) are not modelled: the invariance clauses are sampled end to end"]
# symmorphic space groups compatible with a layer normal to c (triclinic … hexagonal)
LAYER_GROUPS = [1, 2, 3, 6, 10, 16, 25, 47, 21, 35, 65, 75, 81, 83, 89, 99, 111, 115, 123, 143, 147, 149, 150, 156, 157, 162, 164, 168, 174, 175, 177, 183, 187, 189, 191]


def fs(x):
    f = Fraction(float(x))
    return "%d/%d" % (f.numerator, f.denominator)


def make_layer(rng, n):
    """a flat or buckled (thickness <= 3 A) layer of plane-compatible symmetry; returns Atoms with pbc (T,T,F) or None"""
    import crystals
    from ase.spacegroup import crystal
    a = float(rng.uniform(3.2, 4.6))
    if rng.random() < 0.3:
        a = float(rng.uniform(5.4, 6.6))      # in-plane parameters longer than the symmetry-breaking vacuum of a thin layer:
                                              # the standardised cell then has the layer normal on its first or second axis
    b = a * float(rng.uniform(1.15, 1.35))
    s = crystals.system_of(n)
    cpar = 20.0
    if s == 0:
        cellpar = [a, b, cpar, 90, 90, float(rng.uniform(65, 80))]
    elif s == 1:        # unique axis b in-plane; keep the cell orthogonal to c
        cellpar = [a, b, cpar, 90, 90, 90]
    elif s == 2:
        cellpar = [a, b, cpar, 90, 90, 90]
    elif s == 3:
        cellpar = [a, a, cpar, 90, 90, 90]
    else:
        cellpar = [a, a, cpar, 90, 90, 120]
    norb = int(rng.integers(1, 4))
    flat = rng.random() < 0.4
    basis, syms = [], []
    els = list(rng.choice(crystals.ELEMENTS, norb, replace=False))
    for k in range(norb):
        x, y = rng.uniform(0.05, 0.45, 2) + 1 / 331.0 * (k + 1)
        z = 0.0 if flat else float(rng.uniform(0.01, 1.4)) / cpar
        basis.append((x, y, z))
        syms.append(int(els[k]))
    try:
        at = crystal(syms, basis=basis, spacegroup=n, cellpar=cellpar, symprec=1e-4, onduplicates="replace")
    except Exception:
        return None
    pos = at.get_scaled_positions()
    z = pos[:, 2]
    z = (z + 0.5) % 1.0 - 0.5           # layer around z = 0
    if (z.max() - z.min()) * cpar > 3.0 or len(at) > 60:
        return None
    pos[:, 2] = z + 0.5
    at.set_scaled_positions(pos)
    d = at.get_all_distances(mic=True)
    np.fill_diagonal(d, 9)
    if d.min() < 0.9:
        return None
    at.set_pbc([True, True, False])
    return at


def present2d(at, rng):
    """another description: vacuum, which cell vector is non-periodic, in-plane supercell, rigid motion incl. flip, order"""
    from ase import Atoms
    import crystals
    a = at.copy()
    desc = {}
    # vacuum: rescale the non-periodic vector keeping Cartesian positions
    cell = np.array(a.get_cell())
    thick = np.ptp(a.get_positions() @ (cell[2] / np.linalg.norm(cell[2])))
    newlen = max(thick + 1.0, float(rng.uniform(0.6, 2.0)) * 10.0)
    cell[2] = cell[2] / np.linalg.norm(cell[2]) * newlen
    a.set_cell(cell, scale_atoms=False)
    desc["vacuum_len"] = round(newlen, 3)
    # in-plane supercell
    if rng.random() < 0.5:
        rep = [int(rng.integers(1, 3)), int(rng.integers(1, 3)), 1]
        a = a.repeat(rep)
        desc["supercell"] = rep
    # axis relabelling
    perm = [int(i) for i in rng.permutation(3)]
    cell = np.array(a.get_cell())[perm]
    pbc = np.array(a.get_pbc())[perm]
    a = Atoms(numbers=a.get_atomic_numbers(), positions=a.get_positions(), cell=cell, pbc=pbc)
    desc["axes"] = perm
    # rigid motion (proper rotation; a flip of the sheet is a proper rotation by pi about an in-plane axis)
    R = crystals.random_rotation(rng)
    if rng.random() < 0.3:
        R = R @ np.diag([1.0, -1.0, -1.0])
        desc["flip"] = True
    a = Atoms(numbers=a.get_atomic_numbers(), positions=a.get_positions() @ R.T, cell=np.array(a.get_cell()) @ R.T, pbc=a.get_pbc())
    a.set_positions(a.get_positions() + rng.uniform(-4, 4, 3))
    a = a[rng.permutation(len(a))]
    return a, desc


def observe(a, min_t, tol=1e-3):
    from matid.symmetry.symmetryanalyzer import SymmetryAnalyzer
    sa = SymmetryAnalyzer(a, symmetry_tol=tol, min_2d_thickness=min_t)
    conv = sa.get_conventional_system()
    sets = sa.get_wyckoff_sets_conventional(False)
    cellpar = conv.cell.cellpar()
    return sa, conv, {"id": sa.get_material_id(), "number": sa.get_space_group_number(),
                      "multiset": sorted((s.wyckoff_letter, s.element, len(s.indices)) for s in sets),
                      "inplane": [round(float(v), 4) for v in (cellpar[0], cellpar[1], cellpar[5])]}


def shape_complaints(a, conv, min_t):
    out = []
    if list(conv.get_pbc()) != [True, True, False]:
        out.append("conventional system pbc %s" % conv.get_pbc().tolist())
    f = conv.get_scaled_positions(wrap=False)[:, 2]
    if f.min() < -1e-6 or f.max() > 1 + 1e-6:
        out.append("atoms outside the cell along c")
    cell = np.array(conv.get_cell())
    # extent of the layer in the input along its non-periodic direction
    ip = int(np.flatnonzero(~np.array(a.get_pbc()))[0])
    c_in = np.array(a.get_cell())[ip]
    ext = np.ptp(a.get_positions() @ (c_in / np.linalg.norm(c_in)))
    if abs(np.linalg.norm(cell[2]) - max(ext, min_t)) > 2e-3 + 1e-3 * ext:
        out.append("thickness %.4f, expected max(extent %.4f, min_2d_thickness %.2f)" % (np.linalg.norm(cell[2]), ext, min_t))
    return out


def id_3d(a, tol=1e-3):
    from matid.symmetry.symmetryanalyzer import SymmetryAnalyzer
    b = a.copy()
    b.set_pbc(True)
    return SymmetryAnalyzer(b, symmetry_tol=tol).get_material_id()


def run(ctx):
    common.install_matid()
    import crystals
    import matid.geometry
    from ase.build import graphene, mx2
    broken = []
    ok, info = prove(ctx, "MatidProps.C11", THEOREMS, extra_imports=("MatidProps.C20", "MatidProps.C06"))
    if not ok:
        broken.append(("proof", info))
    rng = np.random.default_rng(ctx.seed + 11)
    bad, lines, expected = [], [], []
    n_layers = ctx.n(40, 1200)
    skipped_degenerate = 0
    made = k = 0
    while made < n_layers and k < n_layers * 6:
        k += 1
        if k % 9 == 0:
            at = [graphene(a=2.46, vacuum=8.0), graphene("BN", a=2.5, vacuum=8.0), mx2("MoS2", a=3.18, thickness=3.19, vacuum=8.0), mx2("TiS2", kind="1T", a=3.41, thickness=2.85, vacuum=8.0)][int(rng.integers(0, 4))]
            at.set_pbc([True, True, False])
            grp = "named"
        else:
            grp = int(rng.choice(LAYER_GROUPS))
            at = make_layer(rng, grp)
        if at is None:
            ctx.count("layer_generation_failed")
            continue
        min_t = [0.5, 1.0, 3.0][int(rng.integers(0, 3))]
        cp = at.cell.cellpar()
        ext = np.ptp(at.get_positions()[:, 2])
        vac = max(5.0, 3 * ext)
        if min(abs(cp[0] - vac), abs(cp[1] - vac)) < 0.05:
            skipped_degenerate += 1       # an in-plane parameter equal to the symmetry-breaking vacuum: ill-conditioned by construction
            continue
        made += 1
        try:
            # record which axis the code detects (argument of swap_basis) and the transformation matrix it looked at
            rec = {}
            orig_swap = matid.geometry.swap_basis

            def spy(atoms, i, j, rec=rec):
                rec["swap"] = (int(i), int(j))
                return orig_swap(atoms, i, j)
            matid.geometry.swap_basis = spy
            try:
                sa, conv, obs = observe(at, min_t)
            finally:
                matid.geometry.swap_basis = orig_swap
            T = np.array(sa.get_symmetry_dataset().transformation_matrix)
            T[np.abs(T) < 1e-8] = 0.0
            lines.append("detectaxis 2 " + ",".join(fs(v) for v in T.flatten()))
            expected.append((rec.get("swap", (2, 2))[0], grp))
            comp = shape_complaints(at, conv, min_t)
            a2, desc = present2d(at, rng)
            sa2, conv2, obs2 = observe(a2, min_t)
            comp += ["(second description) " + c for c in shape_complaints(a2, conv2, min_t)]
            for key in obs:
                if key == "inplane":
                    if not np.allclose(obs[key], obs2[key], atol=2e-3):
                        comp.append("in-plane lattice parameters differ: %s vs %s" % (obs[key], obs2[key]))
                elif obs[key] != obs2[key]:
                    comp.append("%s differs between two descriptions: %s vs %s" % (key, str(obs[key])[:60], str(obs2[key])[:60]))
            if id_3d(at) == obs["id"]:
                comp.append("2D id equals the id of the same cell treated as a 3D crystal")
            ctx.case(("layer", grp, len(at), json.dumps(desc, sort_keys=True, default=str)), nontrivial=True,
                     sample={"group": grp, "natoms": len(at), "min_2d_thickness": min_t, "presentation": desc, "id": obs["id"]} if len(ctx.samples) < 4 else None)
            ctx.count("layers_judged")
            if comp:
                bad.append({"group": grp, "complaints": comp[:4], "atoms": crystals.atoms_to_json(at), "other": crystals.atoms_to_json(a2), "presentation": desc, "min_2d_thickness": min_t})
        except Exception as e:  # noqa
            bad.append({"group": grp, "complaints": ["exception %s: %s" % (type(e).__name__, str(e)[:200])], "atoms": crystals.atoms_to_json(at), "min_2d_thickness": min_t})
    ctx.coverage["skipped_inplane_parameter_equals_vacuum"] = skipped_degenerate
    mism = []
    try:
        out = driver(lines) if lines else []
        for o, (axis, grp), l in zip(out, expected, lines):
            if o != str(axis):
                mism.append({"op": l, "model": o, "real_axis": axis, "group": grp})
        # vacuum rule: |non-periodic vector| of the analysed system vs the model
        from matid.symmetry.symmetryanalyzer import SymmetryAnalyzer
        vl, vexp = [], []
        for _ in range(ctx.n(40, 2000)):
            from ase import Atoms
            n = int(rng.integers(1, 8))
            c = np.round(rng.uniform(4, 14) * 64) / 64
            z = rng.integers(0, 64, n) / 64.0 * float(rng.uniform(0.05, 0.5))
            z = np.round(z * 256) / 256
            a = Atoms(numbers=[6] * n, scaled_positions=np.c_[rng.random(n), rng.random(n), z], cell=[4.1, 4.7, c], pbc=[True, True, False])
            sa = SymmetryAnalyzer(a)
            got = np.linalg.norm(np.array(sa._analyzed_system.get_cell())[2]) ** 2
            ext = (z.max() - z.min())
            vl.append("vacuum2 " + fs(Fraction(float(ext)) ** 2 * Fraction(float(c)) ** 2))
            vexp.append(got)
        for o, g, l in zip(driver(vl), vexp, vl):
            ctx.case(("vacuum", l), nontrivial=True)
            if abs(float(Fraction(o)) - g) > 1e-9 * max(1, g):
                mism.append({"op": l, "model": o, "real": g})
    except common.DriverError as e:
        broken.append(("driver", {"error": str(e)[-1000:]}))
    if mism:
        broken.append(("correspondence", {"count": len(mism), "mismatches": mism[:5]}))
    seen = set()
    for b in bad:
        key = "%s:%s" % (b["group"], b["complaints"][0][:40])
        if key in seen:
            continue
        seen.add(key)
        ctx.finding("layer:" + key, "layer of group %s: %s" % (b["group"], b["complaints"][0]), {"kind": "failing-input", "case": b})
    if broken and not ctx.unknown_findings():
        # directed search: the same layer given once with a non-periodic vector as long as an in-plane lattice parameter (a cell
        # spglib could mistake for a more symmetric 3D lattice if the vacuum were not normalised) and once with 15 A
        drng = np.random.default_rng(ctx.seed + 1111)
        tried = 0
        for k2 in range(ctx.n(60, 400)):
            grp = [123, 47, 83, 99, 25, 10, 65, 89, 111, 115][k2 % 10]
            at = make_layer(drng, grp)
            if at is None or at.cell.cellpar()[0] < 5.0:
                continue
            cp = at.cell.cellpar()
            ext = np.ptp(at.get_positions()[:, 2])
            if min(abs(cp[0] - max(5.0, 3 * ext)), abs(cp[1] - max(5.0, 3 * ext))) < 0.05:
                continue
            tried += 1
            res = []
            for clen in (cp[int(drng.integers(0, 2))] + float(drng.uniform(-0.2, 0.2)), 15.0):
                b = at.copy()
                cell = np.array(b.get_cell())
                cell[2] = cell[2] / np.linalg.norm(cell[2]) * max(clen, ext + 1.0)
                b.set_cell(cell, scale_atoms=False)
                try:
                    res.append((b, observe(b, 1.0)[2]))
                except Exception as e:  # noqa
                    res.append((b, {"exception": "%s: %s" % (type(e).__name__, str(e)[:100])}))
            (b1, o1), (b2, o2) = res
            diff = [k_ for k_ in o1 if k_ != "inplane" and o1.get(k_) != o2.get(k_)]
            if "inplane" in o1 and "inplane" in o2 and not np.allclose(o1["inplane"], o2["inplane"], atol=2e-3):
                diff.append("inplane")
            if diff:
                ctx.finding("layer:%s:vacuum-dependent %s" % (grp, diff[0]), "layer of group %s: %s depends on the amount of vacuum (%s vs %s)" % (grp, diff[0], str(o1.get(diff[0]))[:50], str(o2.get(diff[0]))[:50]),
                            {"kind": "failing-input", "case": {"group": grp, "complaints": ["%s differs" % d for d in diff], "atoms": crystals.atoms_to_json(b1), "other": crystals.atoms_to_json(b2)}})
                break
        ctx.coverage["directed_vacuum_pairs"] = tried
    if broken and not ctx.unknown_findings():
        ctx.finding("unproved", "proof/correspondence broken, no failing layer found", {"kind": "broken-obligation", "broken": broken}, found_input=False)
    ctx.coverage["broken"] = [{"what": k_, "info": i} for k_, i in broken]
    ctx.coverage["correspondence_mismatches"] = len(mism)
    ctx.assumptions += ["spglib applied to the vacuum-padded cell; arctan2-based centring", "layers whose in-plane lattice parameter equals the symmetry-breaking vacuum are ill-conditioned and skipped (counted)"]
    return common.finish(ctx, "proof", "flat and buckled layers in 35 plane-compatible symmorphic groups plus graphene/BN/MX2, each in two descriptions (vacuum, axis relabelling, in-plane supercell, "
                         "rotation/flip, translation, order), min_2d_thickness 0.5/1/3; axis detection recorded and compared with the model; vacuum rule on dyadic inputs",
                         TRUSTED, "cd /verif/lean && lake build MatidProps.C11 (+ #print axioms)")


def replay(path):
    common.install_matid()
    import crystals
    r = json.load(open(path))
    c = r["case"]
    at = crystals.atoms_from_json(c["atoms"])
    _, conv, obs = observe(at, c["min_2d_thickness"])
    print("shape:", shape_complaints(at, conv, c["min_2d_thickness"]), obs)
    if "other" in c:
        print("other:", observe(crystals.atoms_from_json(c["other"]), c["min_2d_thickness"])[2])
    return 0
