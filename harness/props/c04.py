"""C04 — a cluster's prototype cell identifies the material it was cut from."""
import json
from collections import Counter
from functools import reduce
from math import gcd

import numpy as np

import common
import families as F
import sbc_common as SC
from common import prove
from props import c02

THEOREMS = ["Matid.Props.C04.same_id_of_same_analysis", "Matid.Props.C06.id_string_canonical",
            "Matid.Props.Proto.accepted_periodicity", "Matid.Props.Proto.span_rule_ok", "Matid.Props.Proto.best_span_valid"]
TRUSTED = ["stage models of the finder (SbcEntry, SpanGraph, BestBasis, AdaptiveCell, WithinBasis, ProtoAssemble, ProtoDecision, Region) with their theorems as obligations; tied by recorded-call correspondence in THIS run: the answers of sub-functions modelled elsewhere (get_matches, get_matches_simple, get_positions_within_basis, _find_best_basis inside the span-graph replay) are recorded and handed to the model as oracle data (recorders in harness/sbc_common.py, harness/region_model.py)", "rule translators gen_sbc_rule / gen_proto_rule / gen_region_rule / gen_assemble_rule / gen_dim_rule (AST facts; a harmless refactoring can flip one)",
           "Lean 4 kernel", "axioms: propext, Classical.choice, Quot.sound at most",
           "contract P (the prototype cell found by the periodic finder is a description of the source crystal related by basis change, proper motion and permutation): SAMPLED, not proved",
           "the symmetry analysis of both cells is C05-C08's subject"]
EXPL = ("Lean carries only the last step (equal space-group number and equal multiset of set strings give equal ids: C06.id_string_canonical). That the "
        "heuristic finder's averaged prototype cell is a faithful unit cell of the source crystal is a geometric statement about tolerance-laden float code; it "
        "is sampled on the C02 families and on monolayers: same id, space group and Wyckoff occupation as the source cell, 3 (bulk, slabs) or exactly 2 "
        "(monolayers) periodic directions, whole number of formula units.")


def analysis(cell_atoms, tol):
    from matid.symmetry.symmetryanalyzer import SymmetryAnalyzer
    sa = SymmetryAnalyzer(cell_atoms, symmetry_tol=tol)
    sets = sa.get_wyckoff_sets_conventional(return_parameters=False)
    prim = sa.get_primitive_system() if int(np.sum(cell_atoms.get_pbc())) == 3 else None
    ms = Counter((s.wyckoff_letter, s.element, len(s.indices)) for s in sets)
    # occupation per primitive cell so that cells of different size are comparable
    n = sum(len(s.indices) for s in sets)
    g = reduce(gcd, [len(s.indices) for s in sets])
    occ = sorted((l, e, c // g) for (l, e, c), m in ms.items() for _ in range(m))
    return sa.get_material_id(), sa.get_space_group_number(), occ


def run(ctx):
    common.install_matid()
    from matid.clustering import SBC
    import crystals
    broken = []
    terr = common.regen(ctx, ("proto_rule",))
    if terr:
        for t in THEOREMS:
            ctx.obligations.append((t, False))
        broken.append(("translator", terr))
    else:
        ok, info = prove(ctx, "MatidProps.C04", THEOREMS, extra_imports=("MatidProps.Proto", "MatidProps.C06"), gen_targets=("MatidProps.Proto",))
        if not ok:
            broken.append(("proof", info))
    rng = np.random.default_rng(common.sample_seed(ctx) + 4)
    target = ctx.n(44, 800)
    done = k = 0
    bad = []
    monos = F.monolayers()
    adaptive_records = []
    assemble_records, assemble_errors = [], []
    span_records = []
    best_records = []
    import bestbasis_model
    import span_model
    import assemble_model
    # the listed known findings are re-examined first, on their recorded inputs (a finding that still fails prints its
    # KNOWN-FINDING line on every run; one that no longer fails is only noted)
    extra_inputs = []
    for e in common.known_findings().get("known", []):
        if e.get("property") == "C04" and "repro" in e:
            r = e["repro"]
            from ase.build import mx2, graphene
            if r.get("builder") == "graphene":
                src = graphene(a=r["a"], vacuum=r["vacuum"])
            else:
                src = mx2(r["formula"], kind=r["kind"], a=r["a"], thickness=r["thickness"], vacuum=r["vacuum"])
            src.set_pbc([True, True, False])
            extra_inputs.append((src.repeat((r["repeat"][0], r["repeat"][1], 1)), {"crystal": r["crystal"], "kind": "monolayer", "repeat": r["repeat"], "known_finding_input": True}, src, r["seed"]))
    # systematic part: every monolayer material as 3x3 and 3x4 supercell, started from seeds 0..5 (small and cheap)
    for name, make, _ in monos:
        src = make()
        src.set_pbc([True, True, False])
        for rep in ((3, 3), (3, 4)):
            for sd in range(ctx.n(6, 16)):
                extra_inputs.append((src.repeat((rep[0], rep[1], 1)), {"crystal": name, "kind": "monolayer", "repeat": list(rep), "systematic": True, "reseeded": True}, src, sd))
    # anisotropic supercells: a long cell vector BEFORE a short one and the other way round (the short periodic vector is itself a candidate
    # span; its image index must be the index of the cell axis)
    for name, make, _ in monos:
        src = make()
        src.set_pbc([True, True, False])
        for rep in ((5, 1), (1, 5)):
            for sd in range(ctx.n(2, 6)):
                extra_inputs.append((src.repeat((rep[0], rep[1], 1)), {"crystal": name, "kind": "monolayer", "repeat": list(rep), "systematic": True, "anisotropic": True}, src, sd))
    target += len(extra_inputs)
    # slabs of crystals with several atoms per primitive cell and low-symmetry cuts (where the construction of the prototype cell
    # from "- span" neighbours and across in-plane cell boundaries is exercised), each in a seeded presentation
    hard = [("ZnO", (1, 1, 1)), ("ZnO", (1, 0, 0)), ("CaF2", (1, 1, 0)), ("CaF2", (1, 1, 1)), ("Mg-hcp", (1, 1, 1)), ("Mg-hcp", (1, 0, 0)),
            ("ZnS", (1, 1, 0)), ("Fe-bcc", (1, 1, 1)), ("TiO2", (1, 0, 0)), ("NaCl", (1, 1, 0)), ("Si-diamond", (1, 1, 1)), ("Ti-hcp", (1, 1, 0))]
    hard_queue = [(n_, h_, 3, bool(j % 2)) for j, (n_, h_) in enumerate(hard)] * ctx.n(2, 6)
    target += len(hard_queue)
    while done < target and k < target * 8:
        k += 1
        forced_seed = None
        if extra_inputs:
            s, desc, conv, forced_seed = extra_inputs.pop(0)
            exp_pbc, why = 2, None
            k -= 1
        elif hard_queue:
            s, desc, _, why = c02.gen(rng, 1, force=hard_queue.pop(0))
            exp_pbc, conv = 3, None
            k -= 1
            if why is None:
                conv = [m for n_, m, _ in F.compounds() if n_ == desc["crystal"]]
                if conv:
                    conv = conv[0]()
                else:
                    el, st = desc["crystal"].split("-")
                    conv = F.conventional(el, st, [p for n_, s_, p in F.reference_elements() if n_ == el and s_ == st][0])
            else:
                done += 1
        elif k % 2 == 0:
            # monolayer supercells n x m, 3 <= n, m <= 7 (the property names no lateral size for monolayers; C18 uses 3x3-6x6),
            # cycling through the materials so that every run sees each of them
            name, make, _ = monos[(k // 2) % len(monos)]
            src = make()
            src.set_pbc([True, True, False])
            rep = tuple(int(rng.integers(3, 5)) if rng.random() < 0.5 else int(rng.integers(3, 8)) for _ in range(2))
            s = src.repeat((rep[0], rep[1], 1))
            desc, exp_pbc, why = {"crystal": name, "kind": "monolayer", "repeat": list(rep)}, 2, None
            conv = src
        else:
            s, desc, _, why = c02.gen(rng, k // 2)
            exp_pbc = 3
            conv = None
            if why is None:
                # the source crystal's own unit cell
                if "-" in desc["crystal"] and desc["crystal"].split("-")[1] in ("fcc", "bcc", "hcp", "diamond", "sc"):
                    el, st = desc["crystal"].split("-")
                    par = [p for n_, s_, p in F.reference_elements() if n_ == el and s_ == st][0]
                    conv = F.conventional(el, st, par)
                else:
                    conv = [m for n_, m, _ in F.compounds() if n_ == desc["crystal"]][0]()
        if why is not None:
            ctx.count("skipped: " + why)
            continue
        noise = [0.0, 0.02][int(rng.integers(0, 2))]
        tol = 0.1 if noise == 0 else 0.5
        a = F.present(s, rng, noise=noise)
        seed = int(rng.integers(0, 1000))
        if forced_seed is not None:
            a, seed, noise, tol = s.copy(), forced_seed, 0.0, 0.1
        desc.update({"noise": noise, "seed": seed, "natoms": len(a), "symmetry_tol": tol})
        done += 1
        ctx.count("kind_" + desc["kind"])
        if desc["kind"] == "monolayer" and forced_seed is None and len(a) <= 80 and not desc.get("reseeded"):
            # small monolayer supercells are cheap: the same structure is also started from three more seeds
            for extra_seed in (int(rng.integers(0, 12)), int(rng.integers(0, 12)), int(rng.integers(12, 1000))):
                extra_inputs.append((a.copy(), dict({k_: v_ for k_, v_ in desc.items() if k_ not in ("seed",)}, reseeded=True), conv, extra_seed))
        try:
            with SC.ProtoRecorder() as prec:
                clusters = SBC().get_clusters(a, seed=seed)
            if len(adaptive_records) < 500:
                adaptive_records.extend(prec.adaptive[:30])
            if len(best_records) < ctx.n(24, 300):
                best_records.extend(prec.best[:3])
            if len(span_records) < ctx.n(24, 200):
                span_records.extend(prec.span[:2])
            for r_ in prec.assemble[:4]:      # at most half of the budget to each of the 2D and the 3D routine
                if sum(1 for q in assemble_records if q["two"] == r_["two"]) < ctx.n(40, 300):
                    assemble_records.append(r_)
            if False:
                pass
                assemble_errors.extend(prec.assemble_errors)
            if not clusters:
                bad.append({"desc": desc, "complaint": "get_clusters returned no cluster at all", "all": ["no cluster"],
                            "signature": "no-cluster;repeat=%s" % "x".join(str(v) for v in desc.get("repeat", [])), "atoms": crystals.atoms_to_json(a)})
                continue
            big = max(clusters, key=lambda c: len(c.indices))
            cell = big.get_cell()
            got = analysis(cell, tol)
            want = analysis(conv, tol)
        except Exception as e:  # noqa
            bad.append({"desc": desc, "complaint": "exception %s: %s" % (type(e).__name__, str(e)[:150]), "atoms": crystals.atoms_to_json(a)})
            continue
        ctx.case(("c04", json.dumps(desc, sort_keys=True, default=str)), nontrivial=True, sample=dict(desc, id=got[0], number=got[1]) if len(ctx.samples) < 5 else None)
        complaints = []
        if got[1] != want[1]:
            complaints.append("space group %s, source cell %s" % (got[1], want[1]))
        elif got[2] != want[2]:
            complaints.append("Wyckoff occupation %s, source cell %s" % (got[2], want[2]))
        elif got[0] != want[0] and len(cell) == len(conv):
            complaints.append("material id differs from the source cell's")
        if int(np.sum(cell.get_pbc())) != exp_pbc:
            complaints.append("prototype cell periodic in %d directions, expected %d" % (int(np.sum(cell.get_pbc())), exp_pbc))
        comp_c = Counter(cell.get_atomic_numbers().tolist())
        comp_s = Counter(conv.get_atomic_numbers().tolist())
        g = reduce(gcd, comp_s.values())
        unit = {z: c // g for z, c in comp_s.items()}
        if set(comp_c) != set(unit) or len({comp_c[z] / unit[z] for z in unit}) != 1 or (comp_c[next(iter(unit))] % unit[next(iter(unit))]):
            complaints.append("prototype cell does not hold a whole number of formula units: %s" % dict(comp_c))
        if complaints:
            # failure signature (part of the finding key, so that a known finding covers one failure mode of one material only)
            form = "".join("%d:%d," % (z, c_) for z, c_ in sorted(comp_c.items()))
            sig = "sg%s-vs-%s;cell=%s;pbc=%d;clusters=%d" % (got[1], want[1], form, int(np.sum(cell.get_pbc())), len(clusters))
            bad.append({"desc": desc, "complaint": complaints[0], "all": complaints, "signature": sig, "atoms": crystals.atoms_to_json(a)})
    seen_keys = set()
    for b in bad:
        key = "proto:%s:%s:%s" % (b["desc"]["crystal"], b["desc"]["kind"], b.get("signature", b["complaint"][:40]))
        if key in seen_keys or len(seen_keys) >= 8:
            continue
        seen_keys.add(key)
        ctx.finding(key, "%s %s: %s" % (b["desc"]["crystal"], b["desc"]["kind"], b["complaint"]),
                    {"kind": "failing-input", "case": b, "how": "SBC().get_clusters(atoms, seed=seed)[largest].get_cell() -> SymmetryAnalyzer(cell, symmetry_tol)"})
    import finder_helpers
    finder_helpers.check(ctx, broken, adaptive_records)
    assemble_model.check(ctx, broken, assemble_records, assemble_errors)
    span_model.check(ctx, broken, span_records)
    bestbasis_model.check(ctx, broken, best_records)
    if broken and not ctx.unknown_findings():
        ctx.finding("unproved", "theorem no longer checks, no failing crystal found", {"kind": "broken-obligation", "broken": broken}, found_input=False)
    ctx.coverage["broken"] = [{"what": k_, "info": i} for k_, i in broken]
    return common.finish(ctx, "other", "C02 family (noise <= 0.02) and monolayer supercells: prototype cell vs the source crystal's own unit cell at the same symmetry tolerance",
                         TRUSTED, "cd /verif/lean && lake build MatidProps.C04 (+ #print axioms)", explanation=EXPL)


def replay(path):
    r = json.load(open(path))
    print(json.dumps({k: v for k, v in r["case"].items() if k != "atoms"}, indent=1))
    return 0
