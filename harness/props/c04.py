"""C04 — a cluster's prototype cell identifies the material it was cut from."""
import json
from collections import Counter
from functools import reduce
from math import gcd

import numpy as np

import common
import families as F
from common import prove
from props import c02

THEOREMS = ["Matid.Props.C04.same_id_of_same_analysis", "Matid.Props.C06.id_string_canonical"]
TRUSTED = ["Lean 4 kernel", "axioms: propext, Classical.choice, Quot.sound at most",
           "contract P (the prototype cell found by the periodic finder is a description of the source crystal related by basis change, proper motion and permutation): SAMPLED, not proved",
           "the symmetry analysis of both cells is C05-C08's subject"]
EXPL = ("Lean carries only the last step (equal space-group number and equal multiset of set strings give equal ids: C06.id_string_canonical). That the "
        "heuristic finder's averaged prototype cell is a faithful unit cell of the source crystal is a geometric statement about tolerance-laden float code; it "
        "is sampled on the C02 families and on monolayers: same id, space group and Wyckoff occupation as the source cell, 3 (bulk, slabs) or exactly 2 "
        "(monolayers) periodic directions, whole number of formula units.")


def analysis(cell_atoms, tol):
    from matid.symmetry.symmetryanalyzer import SymmetryAnalyzer
    sa = SymmetryAnalyzer(cell_atoms, symmetry_tol=tol)
    sets = sa.get_wyckoff_sets_conventional(return_parameters=False)
    prim = sa.get_primitive_system() if int(np.sum(cell_atoms.get_pbc())) == 3 else None
    ms = Counter((s.wyckoff_letter, s.element, len(s.indices)) for s in sets)
    # occupation per primitive cell so that cells of different size are comparable
    n = sum(len(s.indices) for s in sets)
    g = reduce(gcd, [len(s.indices) for s in sets])
    occ = sorted((l, e, c // g) for (l, e, c), m in ms.items() for _ in range(m))
    return sa.get_material_id(), sa.get_space_group_number(), occ


def run(ctx):
    common.install_matid()
    from matid.clustering import SBC
    import crystals
    broken = []
    ok, info = prove(ctx, "MatidProps.C04", THEOREMS)
    if not ok:
        broken.append(("proof", info))
    rng = np.random.default_rng(ctx.seed + 4)
    target = ctx.n(14, 400)
    done = k = 0
    bad = []
    monos = F.monolayers()
    while done < target and k < target * 8:
        k += 1
        if k % 4 == 0:
            name, make, _ = monos[int(rng.integers(0, len(monos)))]
            src = make()
            src.set_pbc([True, True, False])
            rep = int(rng.integers(5, 8))
            s = src.repeat((rep, rep, 1))
            desc, exp_pbc, why = {"crystal": name, "kind": "monolayer", "repeat": rep}, 2, None
            if F.heights(s.get_cell())[:2].min() < 2 * F.MAX_CELL + 0.5:
                why = "lateral height below 2*max_cell_size"
            conv = src
        else:
            s, desc, _, why = c02.gen(rng, k)
            exp_pbc = 3
            conv = None
            if why is None:
                # the source crystal's own unit cell
                if "-" in desc["crystal"] and desc["crystal"].split("-")[1] in ("fcc", "bcc", "hcp", "diamond", "sc"):
                    el, st = desc["crystal"].split("-")
                    par = [p for n_, s_, p in F.reference_elements() if n_ == el and s_ == st][0]
                    conv = F.conventional(el, st, par)
                else:
                    conv = [m for n_, m, _ in F.compounds() if n_ == desc["crystal"]][0]()
        if why is not None:
            ctx.count("skipped: " + why)
            continue
        noise = [0.0, 0.02][int(rng.integers(0, 2))]
        tol = 0.1 if noise == 0 else 0.5
        a = F.present(s, rng, noise=noise)
        seed = int(rng.integers(0, 1000))
        desc.update({"noise": noise, "seed": seed, "natoms": len(a), "symmetry_tol": tol})
        done += 1
        ctx.count("kind_" + desc["kind"])
        try:
            clusters = SBC().get_clusters(a, seed=seed)
            big = max(clusters, key=lambda c: len(c.indices))
            cell = big.get_cell()
            got = analysis(cell, tol)
            want = analysis(conv, tol)
        except Exception as e:  # noqa
            bad.append({"desc": desc, "complaint": "exception %s: %s" % (type(e).__name__, str(e)[:150]), "atoms": crystals.atoms_to_json(a)})
            continue
        ctx.case(("c04", json.dumps(desc, sort_keys=True, default=str)), nontrivial=True, sample=dict(desc, id=got[0], number=got[1]) if len(ctx.samples) < 5 else None)
        complaints = []
        if got[1] != want[1]:
            complaints.append("space group %s, source cell %s" % (got[1], want[1]))
        elif got[2] != want[2]:
            complaints.append("Wyckoff occupation %s, source cell %s" % (got[2], want[2]))
        elif got[0] != want[0] and len(cell) == len(conv):
            complaints.append("material id differs from the source cell's")
        if int(np.sum(cell.get_pbc())) != exp_pbc:
            complaints.append("prototype cell periodic in %d directions, expected %d" % (int(np.sum(cell.get_pbc())), exp_pbc))
        comp_c = Counter(cell.get_atomic_numbers().tolist())
        comp_s = Counter(conv.get_atomic_numbers().tolist())
        g = reduce(gcd, comp_s.values())
        unit = {z: c // g for z, c in comp_s.items()}
        if set(comp_c) != set(unit) or len({comp_c[z] / unit[z] for z in unit}) != 1 or (comp_c[next(iter(unit))] % unit[next(iter(unit))]):
            complaints.append("prototype cell does not hold a whole number of formula units: %s" % dict(comp_c))
        if complaints:
            bad.append({"desc": desc, "complaint": complaints[0], "all": complaints, "atoms": crystals.atoms_to_json(a)})
    for b in bad[:5]:
        ctx.finding("proto:%s:%s" % (b["desc"]["crystal"], b["desc"]["kind"]), "%s %s: %s" % (b["desc"]["crystal"], b["desc"]["kind"], b["complaint"]),
                    {"kind": "failing-input", "case": b, "how": "SBC().get_clusters(atoms, seed=seed)[largest].get_cell() -> SymmetryAnalyzer(cell, symmetry_tol)"})
    if broken and not ctx.findings:
        ctx.finding("unproved", "theorem no longer checks, no failing crystal found", {"kind": "broken-obligation", "broken": broken}, found_input=False)
    ctx.coverage["broken"] = [{"what": k_, "info": i} for k_, i in broken]
    return common.finish(ctx, "other", "C02 family (noise <= 0.02) and monolayer supercells: prototype cell vs the source crystal's own unit cell at the same symmetry tolerance",
                         TRUSTED, "cd /verif/lean && lake build MatidProps.C04 (+ #print axioms)", explanation=EXPL)


def replay(path):
    r = json.load(open(path))
    print(json.dumps({k: v for k, v in r["case"].items() if k != "atoms"}, indent=1))
    return 0
