"""C10 — the displacement tensor is a sound and, within range, exact minimum-image table."""
import json

import numpy as np

import common
import geom_common as GC
from common import prove, driver

P = "Matid.Props.C10."
THEOREMS = [P + t for t in ("ceilSqrt_spec", "copies_bound", "extend_complete_axis", "bin_neighbour", "query_exact", "pairEntry_sound", "pairEntry_is_min", "pairEntry_none_iff",
                            "tensor_entry_exact_finite", "tensor_entry_exact_infinite")]
TRUSTED = ["Lean 4 kernel", "axioms: propext, Classical.choice, Quot.sound at most (audited per run)",
           "hand-written model MatidModel/Geom.lean of geometry.cpp / celllist.cpp, tied by the correspondence below (C++ rebuilt from /repo through /verif/shim)",
           "exact arithmetic on the rational inputs: rounding inside ceil(cutoff/h), sqrt and bin indices is not modelled"]


def gen_case(rng, k):
    cell, kind = GC.rand_cell(rng)
    n = int(rng.integers(1, 11))
    pos, _ = GC.rand_positions_inside(rng, cell, n)
    pbc = [bool(b) for b in ((k >> 0) & 1, (k >> 1) & 1, (k >> 2) & 1)]
    r = rng.random()
    if r < 0.15:
        cutoff = None
    elif r < 0.3:
        cutoff = float("inf")
    else:
        cutoff = float(GC.dy(rng.uniform(0.5, 10.0)))
        if kind in ("needle", "plate"):
            cutoff = min(cutoff, 4.0)
    return cell, kind, pos, pbc, cutoff


def real_tensor(pos, cell, pbc, cutoff):
    import matid.geometry as G
    return G.get_displacement_tensor(np.array(pos), np.array(cell), np.array(pbc), cutoff, return_factors=True, return_distances=True)


def oracle(pos, cell, pbc, cutoff, D, F, M):
    """the property itself on the real output; returns complaints"""
    out = []
    n = len(pos)
    fin = np.isfinite(M)
    if not np.allclose(np.diag(M), 0) or np.abs(D[np.arange(n), np.arange(n)]).max() > 0:
        out.append("diagonal not zero")
    if not np.array_equal(fin, fin.T) or (fin & ~np.isclose(M, M.T, rtol=0, atol=0)).any():
        out.append("distance table not symmetric")
    for i in range(n):
        for j in range(n):
            if i == j or not fin[i, j]:
                continue
            f = F[i, j]
            if np.abs(f - np.rint(f)).max() > 0 or any(f[k] != 0 and not pbc[k] for k in range(3)):
                out.append("factor (%d,%d)=%s not an integer vector vanishing on non-periodic axes" % (i, j, f))
                continue
            want = pos[i] - pos[j] - f @ cell
            if np.abs(D[i, j] - want).max() > 1e-12:
                out.append("displacement (%d,%d) is not r_i - r_j - factor.cell" % (i, j))
            if abs(M[i, j] ** 2 - (D[i, j] ** 2).sum()) > 1e-9 * max(1, M[i, j] ** 2):
                out.append("distance (%d,%d) is not the norm of the displacement" % (i, j))
            if np.abs(D[i, j] + D[j, i]).max() > 0 or np.abs(F[i, j] + F[j, i]).max() > 0:
                out.append("tables not antisymmetric at (%d,%d)" % (i, j))
    lens = [np.linalg.norm(cell[k]) for k in range(3) if pbc[k]]
    inf_cut = cutoff is None or not np.isfinite(cutoff)
    reach = (max(lens) if lens else 0.0) if inf_cut else cutoff
    mic2 = GC.true_mic2(np.array(pos), np.array(cell), pbc, reach + 1.0)
    for i in range(n):
        for j in range(n):
            if i == j:
                continue
            if fin[i, j] and M[i, j] ** 2 < mic2[i, j] * (1 - 1e-9) - 1e-12:
                out.append("entry (%d,%d) shorter than the true minimum-image distance" % (i, j))
            within = mic2[i, j] <= reach * reach
            if within:
                if not fin[i, j]:
                    out.append("pair (%d,%d) within the cutoff (mic %.6f) reported infinite" % (i, j, mic2[i, j] ** 0.5))
                elif abs(M[i, j] ** 2 - mic2[i, j]) > 1e-9 * max(1, mic2[i, j]):
                    out.append("pair (%d,%d): reported %.9f, true minimum image %.9f" % (i, j, M[i, j], mic2[i, j] ** 0.5))
            if not inf_cut and mic2[i, j] > cutoff * cutoff and fin[i, j]:
                out.append("pair (%d,%d) beyond the cutoff reported finite" % (i, j))
            if inf_cut and not fin[i, j]:
                out.append("unbounded cutoff but pair (%d,%d) infinite" % (i, j))
    return out


def compare(o, pos, cell, pbc, D, F, M):
    """model line vs real tensor"""
    n = len(pos)
    if o in ("ValueError", "degenerate", "bad-op"):
        return "model says " + o
    if n < 2:
        return None
    for ent in o.split(";"):
        parts = ent.split(":")
        i, j = (int(v) for v in parts[0].split(","))
        if parts[1] == "inf":
            if np.isfinite(M[i, j]) or np.isfinite(M[j, i]):
                return "model inf, real finite at (%d,%d)" % (i, j)
            continue
        from fractions import Fraction
        d2 = float(Fraction(parts[1]))
        if not np.isfinite(M[i, j]):
            return "model finite, real inf at (%d,%d)" % (i, j)
        if abs(M[i, j] ** 2 - d2) > 1e-9 * max(1.0, d2):
            return "distance differs at (%d,%d): model d2=%r real d=%r" % (i, j, d2, M[i, j])
        facs = {tuple(int(v) for v in f.split(",")) for f in parts[2].split("|")}
        if tuple(int(v) for v in F[i, j]) not in facs:
            return "factor at (%d,%d) %s not among the model's minimisers %s" % (i, j, F[i, j], sorted(facs))
    return None


def run(ctx):
    common.install_matid()
    broken = []
    ok, info = prove(ctx, "MatidProps.C10", THEOREMS)
    if not ok:
        broken.append(("proof", info))
    rng = np.random.default_rng(ctx.seed + 10)
    ncase = ctx.n(700, 30000)
    cases, lines = [], []
    for k in range(ncase):
        cell, kind, pos, pbc, cutoff = gen_case(rng, k % 8)
        cases.append((cell, kind, pos, pbc, cutoff))
        lines.append("disp %s %s %s %s" % (GC.fmt_vecs(cell), GC.fmt_pbc(pbc), "inf" if cutoff is None or not np.isfinite(cutoff) else GC.fs(cutoff), GC.fmt_vecs(pos)))
        ctx.count("cell_" + kind)
        ctx.count("pbc_" + GC.fmt_pbc(pbc))
        ctx.count("cutoff_" + ("none" if cutoff is None else "inf" if not np.isfinite(cutoff) else "finite"))
    # malformed stream: non-positive cutoffs
    for c in (0.0, -1.0):
        cell, kind, pos, pbc, _ = gen_case(rng, 7)
        cases.append((cell, "bad-cutoff", pos, pbc, c))
        lines.append("disp %s %s %s %s" % (GC.fmt_vecs(cell), GC.fmt_pbc(pbc), GC.fs(c), GC.fmt_vecs(pos)))
    mism, bad = [], []
    try:
        out = driver(lines)
    except common.DriverError as e:
        broken.append(("driver", {"error": str(e)[-1000:]}))
        out = [None] * len(lines)
    for (cell, kind, pos, pbc, cutoff), o, line in zip(cases, out, lines):
        case = {"cell": cell.tolist(), "positions": np.asarray(pos).tolist(), "pbc": pbc, "cutoff": None if cutoff is None else (cutoff if np.isfinite(cutoff) else "inf")}
        try:
            D, F, M = real_tensor(pos, cell, pbc, cutoff)
            err = None
        except ValueError:
            err = "ValueError"
        except Exception as e:  # noqa
            err = "exception %r" % e
        ctx.case(("disp", line), nontrivial=len(pos) > 1 and any(pbc), sample={"op": line[:200], "model": (o or "")[:120]} if len(ctx.samples) < 3 else None)
        if err is not None:
            if o is not None and o != err:
                mism.append({"case": case, "model": o[:200], "real": err})
            if kind != "bad-cutoff":
                bad.append({"case": case, "complaints": ["raised " + err]})
            continue
        if o is not None:
            why = compare(o, pos, cell, pbc, D, F, M)
            if why:
                mism.append({"case": case, "why": why})
        res = oracle(pos, cell, pbc, cutoff, D, F, M)
        if res:
            bad.append({"case": case, "complaints": res[:5]})
    if mism:
        broken.append(("correspondence", {"count": len(mism), "mismatches": mism[:5]}))
    for b in bad[:5]:
        ctx.finding("tensor:" + b["complaints"][0][:60], b["complaints"][0], {"kind": "failing-input", "case": b["case"], "complaints": b["complaints"],
                    "how": "matid.geometry.get_displacement_tensor(positions, cell, pbc, cutoff, return_factors=True, return_distances=True)"})
    if broken and not ctx.unknown_findings():
        ctx.finding("unproved", "proof/correspondence broken, no failing input found", {"kind": "broken-obligation", "broken": broken}, found_input=False)
    ctx.coverage["broken"] = [{"what": k, "info": i} for k, i in broken]
    ctx.coverage["correspondence_mismatches"] = len(mism)
    ctx.assumptions += ["inputs on the dyadic grid: the decisions d² ≤ cutoff² are exact in binary64; rounding of ceil(cutoff/h) at exactly-integer ratios and of bin indices is not modelled"]
    return common.finish(ctx, "proof", "1-10 atoms inside orthogonal/triclinic/sheared/needle/plate/rotated dyadic cells, all 8 pbc combinations, cutoff None/inf/0.5-10: "
                         "Lean model vs the C++ rebuilt from /repo, plus the brute-force lattice-sum oracle on the real output (non-trivial = ≥2 atoms and some periodic axis)",
                         TRUSTED, "cd /verif/lean && lake build MatidProps.C10 (+ #print axioms)")


def replay(path):
    common.install_matid()
    r = json.load(open(path))
    c = r["case"]
    cutoff = c["cutoff"]
    cutoff = float("inf") if cutoff == "inf" else cutoff
    D, F, M = real_tensor(np.array(c["positions"]), np.array(c["cell"]), c["pbc"], cutoff)
    print("complaints now:", oracle(np.array(c["positions"]), np.array(c["cell"]), c["pbc"], cutoff, D, F, M))
    return 0
