"""C02 — SBC groups a single crystal (bulk or slab) into exactly one complete cluster."""
import json

import numpy as np

import common
import families as F
import sbc_common as SC
from common import prove

THEOREMS = ["Matid.Props.C02.sbc_single_cluster", "Matid.SBC.driver_single_crystal", "Matid.SBC.localize_id_of_disjoint", "Matid.SBC.clean_connected"]
TRUSTED = ["stage models of the finder (SbcEntry, SpanGraph, BestBasis, AdaptiveCell, WithinBasis, ProtoAssemble, ProtoDecision, Region) with their theorems as obligations; tied by recorded-call correspondence in THIS run: the answers of sub-functions modelled elsewhere (get_matches, get_matches_simple, get_positions_within_basis, _find_best_basis inside the span-graph replay) are recorded and handed to the model as oracle data (recorders in harness/sbc_common.py, harness/region_model.py)", "rule translators gen_sbc_rule / gen_proto_rule / gen_region_rule / gen_assemble_rule / gen_dim_rule (AST facts; a harmless refactoring can flip one)",
           "Lean 4 kernel", "axioms: propext, Classical.choice, Quot.sound at most",
           "the pipeline model of C01 (tied there by correspondence)", "contract F on the periodic finder: SAMPLED on the family, not proved"]
EXPL = ("Conditional Lean theorem (sbc_single_cluster): for every seed, RNG stream, merge threshold and merge radius, IF the finder returns all atoms as "
        "basis atoms (contract F) and the bonding graph is connected, the pipeline returns exactly one complete cluster. Each stage of the finder has its own model and theorems "
        "(entry glue, span loop and atom networks, basis choice, per-copy cells, cell search, basis assembly, acceptance tree, region tracking), tied by recorded-call "
        "correspondence in this run; no theorem about the interplay of the stages on a real crystal is attempted: contract F and the property itself are sampled on members of the stated family that pass the independent "
        "bonding/overlap precondition. A sample where F fails but the property holds is counted, not alarmed.")


def gen(rng, k, force=None):
    """`force` = (crystal name, hkl, layers, pbc_z): a slab of that compound / element instead of a drawn one"""
    els = F.reference_elements()
    comps = F.compounds()
    if force is not None:
        name = force[0]
        hit = [m for n_, m, _ in comps if n_ == name]
        if hit:
            conv = hit[0]()
        else:
            el, st = name.split("-")
            par = [p for n_, s_, p in els if n_ == el and s_ == st][0]
            conv = F.conventional(el, st, par)
        try:
            s = F.slab(conv, force[1], force[2], pbc_z=force[3])
        except Exception:
            return None, {"crystal": name, "kind": "slab"}, None, "slab construction failed"
        desc = {"crystal": name, "kind": "slab", "hkl": tuple(force[1]), "layers": force[2], "pbc_z": force[3]}
        if len(s) > 420:
            return None, desc, 2, "too many atoms"
        why = F.precondition(conv, 3) or F.precondition(conv, 2, structure=s)
        return s, desc, 2, why
    if k % 3 == 2:
        name, make, _ = comps[int(rng.integers(0, len(comps)))]
        conv = make()
    else:
        name, st, par = els[int(rng.integers(0, len(els)))]
        conv = F.conventional(name, st, par)
        name = "%s-%s" % (name, st)
    bulk_case = (k % 2 == 0)
    if bulk_case:
        s = F.bulk_supercell(conv)
        desc = {"crystal": name, "kind": "bulk"}
        exp = 3
    else:
        hkl = [(1, 0, 0), (1, 1, 0), (1, 1, 1), (0, 0, 1)][int(rng.integers(0, 4))]
        layers = int(rng.integers(3, 5))
        pz = bool(rng.integers(0, 2))
        try:
            s = F.slab(conv, hkl, layers, pbc_z=pz)
        except Exception:
            return None, {"crystal": name, "kind": "slab"}, None, "slab construction failed"
        desc = {"crystal": name, "kind": "slab", "hkl": hkl, "layers": layers, "pbc_z": pz}
        exp = 2
    if len(s) > 420:
        return None, desc, exp, "too many atoms"
    why = F.precondition(conv, 3)
    if why is None and not bulk_case:
        why = F.precondition(conv, 2, structure=s)
    return s, desc, exp, why


def run(ctx):
    common.install_matid()
    from matid.clustering import SBC
    import crystals
    broken = []
    ok, info = prove(ctx, "MatidProps.C02", THEOREMS)
    if not ok:
        broken.append(("proof", info))
    # a FIXED stratified sample in both tiers (validated on the unchanged tree; see DESIGN §10); VERIF_EXPLORE=1: seeded by VERIF_SEED
    rng = np.random.default_rng(common.sample_seed(ctx) + 2)
    target = ctx.n(48, 800)
    done = k = 0
    adaptive_records = []
    assemble_records, assemble_errors = [], []
    span_records = []
    best_records = []
    import bestbasis_model
    import span_model
    import assemble_model
    entry_list = []
    pipeline_items = []
    pick_rng = np.random.default_rng(20202)     # separate stream: the fixed sample below must stay the validated one
    shifted_left = ctx.n(6, 60)
    pending = []
    import finder_helpers
    import region_model
    region_rec = region_model.RegionRecorder(max_records=ctx.n(40, 300), stride=4)
    shared = SBC()          # one long-lived object: results must not depend on what it did before
    recorded = [e["repro"] for e in common.known_findings().get("known", []) if e.get("property") == "C02" and "repro" in e]
    contract_ok = contract_fail = 0
    bad = []
    while done < target and k < target * 8:
        if recorded:
            r = recorded.pop(0)
            a, desc, exp = crystals.atoms_from_json(r["atoms"]), dict(r["desc"], known_finding_input=True), r["expected_dim"]
            seed = desc["seed"]
        elif pending:
            a, desc, exp, seed = pending.pop(0)
        else:
            s, desc, exp, why = gen(rng, k)
            k += 1
            if why is not None:
                ctx.count("skipped: " + why)
                continue
            noise = [0.0, 0.02, 0.05][int(rng.integers(0, 3))]
            a = F.present(s, rng, noise=noise)
            seed = int(rng.integers(0, 1000))
            desc.update({"noise": noise, "seed": seed, "natoms": len(a)})
            done += 1
            # directed: the same slab moved rigidly OUT of its box along the non-periodic direction (not wrapped): below, above, across
            if shifted_left > 0 and desc["kind"] == "slab" and not a.get_pbc().all():
                ax = [i for i in range(3) if not a.get_pbc()[i]][0]
                t = [-0.45, 0.6, 1.3, -1.2, 0.25, -0.8][shifted_left % 6]
                a2 = a.copy()
                a2.set_positions(a2.get_positions() + t * np.array(a2.get_cell())[ax])
                pending.append((a2, dict(desc, shifted_out_of_box=t), exp, seed))
                shifted_left -= 1
        ctx.count("kind_" + desc["kind"])
        try:
            with SC.FinderRecorder() as rec, SC.ProtoRecorder() as prec, region_rec:
                clusters = shared.get_clusters(a, seed=seed)
            if len(adaptive_records) < 500:
                adaptive_records.extend(prec.adaptive[:30])
            if len(best_records) < ctx.n(24, 300):
                best_records.extend(prec.best[:3])
            if len(span_records) < ctx.n(20, 200):
                span_records.extend(prec.span[:2])
            if len(assemble_records) < ctx.n(60, 400):
                assemble_records.extend(prec.assemble[:3])
                assemble_errors.extend(prec.assemble_errors)
            n_regions = sum(1 for c_ in rec.calls if c_["basis"] is not None)
            if len(a) <= 300 and ((n_regions >= 2 and len(pipeline_items) < ctx.n(14, 120)) or len(pipeline_items) < 4):
                pipeline_items.append((SC.sbcrun_line(a, clusters, rec), clusters, {k_: v_ for k_, v_ in desc.items()}))
            if len(entry_list) < 200:
                entry_list.extend(finder_helpers.entry_items(a, rec.system, pick_rng, desc["kind"]))
            dims = [c.get_dimensionality() for c in clusters]
        except Exception as e:  # noqa
            bad.append({"desc": desc, "signature": "exception", "expected_dim": exp, "complaint": "exception %s: %s (SBC object re-used over the samples of this run)" % (type(e).__name__, str(e)[:150]), "atoms": crystals.atoms_to_json(a)})
            shared = SBC()
            continue
        if done % 4 == 0:
            fresh = SBC().get_clusters(a, seed=seed)
            if sorted(sorted(int(i) for i in c.indices) for c in fresh) != sorted(sorted(int(i) for i in c.indices) for c in clusters):
                bad.append({"desc": desc, "signature": "state", "expected_dim": exp, "complaint": "a re-used SBC object and a fresh SBC object return different clusters for the same arguments", "atoms": crystals.atoms_to_json(a)})
        ctx.case(("c02", json.dumps(desc, sort_keys=True, default=str)), nontrivial=True, sample=desc if len(ctx.samples) < 5 else None)
        f_holds = all(c["basis"] is not None and set(c["basis"]) | {c["seed"]} == set(range(len(a))) for c in rec.calls)
        contract_ok += f_holds
        contract_fail += (not f_holds)
        sizes = sorted(len(c.indices) for c in clusters)
        if len(clusters) != 1 or sizes != [len(a)]:
            sig = "no-cluster" if not clusters else "incomplete" if len(clusters) == 1 else "split"
            bad.append({"desc": desc, "signature": sig, "expected_dim": exp, "complaint": "%d clusters with sizes %s for a single crystal of %d atoms" % (len(clusters), sizes[-5:], len(a)), "atoms": crystals.atoms_to_json(a)})
        elif dims[0] != exp:
            bad.append({"desc": desc, "signature": "dimensionality", "expected_dim": exp, "complaint": "cluster dimensionality %s, expected %d" % (dims[0], exp), "atoms": crystals.atoms_to_json(a)})
        elif not f_holds and False:
            pass
    ctx.coverage["contract_F_held"] = contract_ok
    ctx.coverage["contract_F_failed_but_property_judged_separately"] = contract_fail
    seen = set()
    for b in bad:
        d = b["desc"]
        key = "crystal:%s:%s:%s:L%s:pz%s:%s" % (d["crystal"], d["kind"], "".join(map(str, d.get("hkl", ""))) or "-", d.get("layers", "-"),
                                                  int(bool(d.get("pbc_z", True))), b.get("signature", "?"))
        if key in seen or len(seen) >= 8:
            continue
        seen.add(key)
        ctx.finding(key, "%s %s: %s" % (b["desc"]["crystal"], b["desc"]["kind"], b["complaint"]),
                    {"kind": "failing-input", "case": b, "how": "SBC().get_clusters(atoms, seed=seed) with default parameters"})
    finder_helpers.check(ctx, broken, adaptive_records, entry_list)
    region_model.check(ctx, broken, region_rec.records)
    assemble_model.check(ctx, broken, assemble_records, assemble_errors)
    span_model.check(ctx, broken, span_records)
    bestbasis_model.check(ctx, broken, best_records)
    finder_helpers.pipeline_corr(ctx, broken, pipeline_items)
    if broken and not ctx.unknown_findings():
        ctx.finding("unproved", "conditional theorem no longer checks, no failing crystal found", {"kind": "broken-obligation", "broken": broken}, found_input=False)
    ctx.coverage["broken"] = [{"what": k_, "info": i} for k_, i in broken]
    return common.finish(ctx, "other", "members of the C02 family passing the independent precondition (distinct = distinct (crystal, kind, facet, layers, pbc, noise, seed))",
                         TRUSTED, "cd /verif/lean && lake build MatidProps.C02 (+ #print axioms)", explanation=EXPL)


def replay(path):
    common.install_matid()
    import crystals
    from matid.clustering import SBC
    r = json.load(open(path))
    c = r["case"]
    cl = SBC().get_clusters(crystals.atoms_from_json(c["atoms"]), seed=c["desc"]["seed"])
    print("now:", [len(x.indices) for x in cl], [x.get_dimensionality() for x in cl], "|", c["complaint"])
    return 0
