"""C06 — symmetry results are a normal form: independent of how the crystal is presented."""
import json

import numpy as np

import common
import sym_common as S
from common import prove, driver

P = "Matid.Props.C06."
THEOREMS = [P + t for t in ("coded_loops_eq_fold", "ranking_total", "counts_atom_order_invariant", "chosen_dictionary_setwise",
                            "letter_perms_form_groups", "select_normalizer_invariant", "id_string_canonical")]
TRUSTED = ["Lean 4 kernel", "axioms: propext, Classical.choice, Quot.sound at most (audited per run)", "tools/gen_tables.py",
           "correspondence: _find_wyckoff_ground_state driven directly; id string captured at hashlib.sha512",
           "contract S5 (two descriptions standardise to structures related by a tabulated normalizer and a permutation) — monitored on pairs",
           "H1: sha512/base64 truncation is treated as a function of the pre-hash string"]


def corr_idstring(ctx, n_cases):
    import crystals
    rng = np.random.default_rng(ctx.seed + 66)
    lines, real = [], []
    for n, atoms, meta in S.sample_crystals(ctx, rng.integers(1, 231, n_cases), rng, max_atoms=60):
        mid, pre, num, sets = S.capture_id_string(atoms)
        strs = ["%s %s %d" % (s.element, s.wyckoff_letter, len(s.indices)) for s in sets]
        rng.shuffle(strs)
        lines.append("idstring %d 0 %s" % (num, "|".join(s.replace(" ", "_") for s in strs)))
        real.append(pre)
    out = driver(lines)
    mism = []
    for l, o, r in zip(lines, out, real):
        ctx.case(("idstring", l), sample={"op": l, "model": o} if len(ctx.samples) < 3 else None)
        if o != r:
            mism.append({"what": "id string", "op": l, "model": o, "real": r})
    return mism


def relabel_pairs(ctx, n_cases):
    """property-level check on the real ranking: letters L and q∘L (q tabulated) give the same chosen dictionary"""
    from matid.symmetry.symmetryanalyzer import SymmetryAnalyzer
    from collections import Counter
    N = S.norm_tables()
    rng = np.random.default_rng(ctx.seed + 606)
    groups_with = [n for n in range(1, 231) if N.get(n)]
    bad = []
    for _ in range(n_cases):
        n = int(groups_with[int(rng.integers(0, len(groups_with)))])
        occ = S.random_occupancy(n, rng, max_atoms=48)
        if not occ:
            continue
        atoms, fr, letters = S.rational_crystal(n, occ, rng)
        q = N[n][int(rng.integers(0, len(N[n])))]["permutations"]
        letters2 = [q[c] for c in letters]
        res = []
        for L in (letters, letters2):
            sa = SymmetryAnalyzer(atoms, symmetry_tol=1e-3)
            try:
                _, newl = sa._find_wyckoff_ground_state(n, np.array(L), atoms)
                res.append(Counter(zip([str(x) for x in newl], atoms.get_atomic_numbers().tolist())))
            except Exception as e:  # noqa
                res.append("exception %r" % e)
        ctx.case(("relabel", n, tuple(letters), tuple(sorted(q.items()))))
        if res[0] != res[1]:
            bad.append({"group": n, "letters": letters, "relabelled": letters2, "numbers": atoms.get_atomic_numbers().tolist(),
                        "chosen": str(res[0])[:300], "chosen_relabelled": str(res[1])[:300]})
    return bad


def run(ctx):
    common.install_matid()
    import crystals
    broken = []
    terr = common.regen(ctx, ("tables",))
    if terr:
        for t in THEOREMS:
            ctx.obligations.append((t, False))
        broken.append(("translator", terr))
    else:
        ok, info = prove(ctx, "MatidProps.C06", THEOREMS)
        if not ok:
            broken.append(("proof", info))
    mism = []
    try:
        mism = S.corr_select(ctx, ctx.n(500, 20000)) + corr_idstring(ctx, ctx.n(60, 1500))
    except common.DriverError as e:
        broken.append(("driver", {"error": str(e)[-1000:]}))
    if mism:
        broken.append(("correspondence", {"count": len(mism), "mismatches": mism[:5]}))
    for b in relabel_pairs(ctx, ctx.n(300, 10000))[:4]:
        ctx.finding("relabel:%d" % b["group"], "group %d: ranking gives different dictionaries for L and q∘L" % b["group"],
                    {"kind": "failing-input", "case": b, "how": "SymmetryAnalyzer._find_wyckoff_ground_state(group, letters, any system with these numbers)"})
    rng = np.random.default_rng(ctx.seed + 6)
    groups = list(range(1, 231)) * (4 if ctx.thorough() else 1)
    if not ctx.thorough():
        groups = sorted(set(rng.choice(np.arange(1, 231), 60, replace=False).tolist() + [225, 221, 227, 216, 229, 62, 194, 166, 12, 2]))
    bad = []
    cell_judged = 0
    for n, atoms, meta in S.sample_crystals(ctx, groups, rng, max_atoms=90):
        a2, desc = crystals.present(atoms, rng)
        if len(a2) > 300:
            continue
        try:
            res, info = S.check_pair(atoms, a2, n)
        except Exception as e:  # noqa
            res, info = ["exception %s: %s" % (type(e).__name__, str(e)[:200])], {}
        if res is None:
            ctx.count("e2e_discarded_group_changed")
            continue
        ctx.case(("pair", n, len(atoms), json.dumps(desc, sort_keys=True)[:150]), sample={"group": n, "presentation": {k: (v if k != "permutation" else "...") for k, v in desc.items()}} if len(ctx.samples) < 5 else None)
        ctx.count("e2e_pairs")
        cell_judged += bool(info.get("cell_judged"))
        if res:
            bad.append({"group": n, "complaints": res, "atoms": crystals.atoms_to_json(atoms), "other": crystals.atoms_to_json(a2), "presentation": desc, "meta": meta})
    # crystals without free parameters in a metrically fixed (cubic) lattice: the conventional cell itself must be identical,
    # including under an origin shift that swaps equivalent Wyckoff sites (the two rock-salt sublattices)
    from ase.spacegroup import crystal as ase_xtal
    fixed = [(225, ["Na", "Cl"], [(0, 0, 0), (.5, .5, .5)], 5.64), (221, ["Cs", "Cl"], [(0, 0, 0), (.5, .5, .5)], 4.12),
             (227, ["Si"], [(0, 0, 0)], 5.43), (216, ["Zn", "S"], [(0, 0, 0), (.25, .25, .25)], 5.41),
             (225, ["Ca", "F"], [(0, 0, 0), (.25, .25, .25)], 5.46), (221, ["Sr", "Ti", "O"], [(0, 0, 0), (.5, .5, .5), (.5, .5, 0)], 3.9),
             (229, ["W"], [(0, 0, 0)], 3.16), (225, ["Cu"], [(0, 0, 0)], 3.61), (223, ["Cr", "Si"], [(.25, 0, .5), (0, 0, 0)], 4.56)]
    for rep in range(ctx.n(2, 30)):
        for n, syms, basis, a0 in fixed:
            try:
                base = ase_xtal(syms, basis=basis, spacegroup=n, cellpar=[a0, a0, a0, 90, 90, 90])
            except Exception:
                continue
            a2, desc = crystals.present(base, rng)
            if rep % 2:
                a2.translate(np.array(base.get_cell()).sum(axis=0) / 2.0)     # origin moved by (1/2,1/2,1/2)
                desc["origin_shift"] = "half body diagonal"
            try:
                res, info = S.check_pair(base, a2, n)
            except Exception as e:  # noqa
                res, info = ["exception %s: %s" % (type(e).__name__, str(e)[:200])], {}
            if res is None:
                ctx.count("e2e_discarded_group_changed")
                continue
            ctx.case(("fixedpair", n, tuple(syms), json.dumps(desc, sort_keys=True)[:150]))
            ctx.count("e2e_fixed_pairs")
            cell_judged += bool(info.get("cell_judged"))
            if res:
                bad.append({"group": n, "complaints": res, "atoms": crystals.atoms_to_json(base), "other": crystals.atoms_to_json(a2), "presentation": desc, "meta": {"symbols": syms}})
    ctx.coverage["conventional_cell_identity_judged"] = cell_judged
    for b in bad[:6]:
        ctx.finding("pair:%d:%s" % (b["group"], b["complaints"][0][:40]), "group %d: %s" % (b["group"], b["complaints"][0]), {"kind": "failing-input", "case": b})
    import analyzer_hist
    analyzer_hist.check(ctx, "C06", broken)
    if broken and not ctx.unknown_findings():
        drng = np.random.default_rng(ctx.seed + 60606)
        nd = 0
        for n, a1, a2, meta in S.directed_crystals(ctx, S.broken_groups(broken)[:6], drng):
            try:
                res, _ = S.check_pair(a1, a2, n)
            except Exception as e:  # noqa
                res = ["exception %s: %s" % (type(e).__name__, str(e)[:200])]
            ctx.count("directed_pairs")
            if res and nd < 3:
                nd += 1
                ctx.finding("pair:%d:%s" % (n, res[0][:40]), "group %d (directed, letter %s): %s" % (n, meta["letter"], res[0]),
                            {"kind": "failing-input", "case": {"group": n, "complaints": res, "atoms": crystals.atoms_to_json(a1), "other": crystals.atoms_to_json(a2), "presentation": meta}})
    if broken and not ctx.unknown_findings():
        ctx.finding("unproved", "proof/correspondence broken, no failing pair found", {"kind": "broken-obligation", "broken": broken}, found_input=False)
    ctx.coverage["broken"] = [{"what": k, "info": i} for k, i in broken]
    ctx.coverage["correspondence_mismatches"] = len(mism)
    ctx.assumptions += ["S5: spglib standardises equivalent descriptions to structures related by a tabulated normalizer and an atom permutation (hypothesis of select_normalizer_invariant; sampled on pairs)",
                        "completeness of the table as THE chirality-preserving Euclidean normalizer is not provable without an independent reference (only its group closure is proved)"]
    return common.finish(ctx, "proof", "ranking driven directly on rational crystals (model vs code), relabelled pairs L / q∘L on the real ranking, id strings captured at hashlib, "
                         "end-to-end pairs of descriptions (supercell, shear, rotation, translation, permutation, wrapping)",
                         TRUSTED, "cd /verif/lean && lake build MatidProps.C06 (+ #print axioms)")


def replay(path):
    common.install_matid()
    import crystals
    r = json.load(open(path))
    c = r.get("case", {})
    if "other" in c:
        print("complaints now:", S.check_pair(crystals.atoms_from_json(c["atoms"]), crystals.atoms_from_json(c["other"]), c["group"]))
    print(json.dumps({k: v for k, v in r.items() if k != "case"}, indent=1)[:1500])
    return 0
