"""C16 — periodic neighbour search and position matching are complete and exact."""
import json
from fractions import Fraction

import numpy as np

import common
import geom_common as GC
from common import prove, driver

P = "Matid.Props.C16."
THEOREMS = [P + t for t in ("extended_entries", "extended_contains_all", "multipliers_once_originals_first", "copies_suffice", "query_exact", "match_spec", "match_exact")]
TRUSTED = ["Lean 4 kernel", "axioms: propext, Classical.choice, Quot.sound at most (audited per run)",
           "hand-written model MatidModel/Geom.lean of geometry.cpp / celllist.cpp / get_matches, tied by the correspondence (C++ rebuilt from /repo through /verif/shim)",
           "exact arithmetic on the rational inputs: rounding inside ceil(extension/h), sqrt and bin indices is not modelled"]


def degenerate_cell(rng):
    cell, kind = GC.rand_cell(rng, "triclinic")
    k = int(rng.integers(1, 4))
    zero = rng.choice(3, k, replace=False)
    cell[zero] = 0
    return cell, "degenerate%d" % k, [i not in zero and rng.random() < 0.7 for i in range(3)]


def run(ctx):
    common.install_matid()
    import matid.geometry as G
    from ase import Atoms
    broken = []
    ok, info = prove(ctx, "MatidProps.C16Exact", THEOREMS)
    if not ok:
        broken.append(("proof", info))
    rng = np.random.default_rng(ctx.seed + 16)
    ncase = ctx.n(500, 20000)
    lines, cases = [], []
    for k in range(ncase):
        op = ("extend", "query", "match")[k % 3]
        if op == "extend" and k % 4 == 0:
            cell, kind, pbc = degenerate_cell(rng)
            n = int(rng.integers(1, 8))
            pos = GC.dy(rng.uniform(0, 3, (n, 3)))
        else:
            cell, kind = GC.rand_cell(rng)
            pbc = [bool((k >> i) & 1) for i in range(3, 6)]
            n = int(rng.integers(1, 13))
            pos, _ = GC.rand_positions_inside(rng, cell, n)
        ext = float(GC.dy(rng.uniform(0.2, 4.0)))
        cut = float(GC.dy(rng.uniform(0.2, 4.0)))
        if kind in ("needle", "plate"):
            ext, cut = min(ext, 2.5), min(cut, 2.5)
        nums = rng.choice([6, 8, 14], n)
        ctx.count("op_" + op)
        ctx.count("cell_" + kind)
        base = "%s %s" % (GC.fmt_vecs(cell), GC.fmt_pbc(pbc))
        if op == "extend":
            lines.append("extend %s %s %s" % (base, GC.fs(ext), GC.fmt_vecs(pos)))
            cases.append((op, cell, pbc, pos, nums, ext, cut, None, None, None))
        else:
            qf = rng.integers(0, 64, 3) / 64.0
            q = qf @ cell
            if op == "query":
                lines.append("query %s %s %s %s %s" % (base, GC.fs(ext), GC.fs(cut), GC.fmt_vecs(pos), GC.fmt_vecs(q)))
                cases.append((op, cell, pbc, pos, nums, ext, cut, q, None, None))
            else:
                tol = float(GC.dy(rng.uniform(0.1, min(ext, cut))))
                # half of the queries aim at an atom image so that matches / substitutions really occur
                if rng.random() < 0.6:
                    j = int(rng.integers(0, n))
                    shift = np.array([int(rng.integers(-1, 2)) if pbc[i] else 0 for i in range(3)])
                    target = pos[j] + shift @ cell + GC.dy(rng.uniform(-0.05, 0.05, 3))
                    fr = np.linalg.solve(cell.T, target)
                    if ((fr >= 0) & (fr < 1)).all():
                        q = target
                z = int(nums[int(rng.integers(0, n))]) if rng.random() < 0.7 else 79
                lines.append("match %s %s %s %s %s %s %s %d" % (base, GC.fs(ext), GC.fs(cut), GC.fs(tol), GC.fmt_vecs(pos), ",".join(map(str, nums)), GC.fmt_vecs(q), z))
                cases.append((op, cell, pbc, pos, nums, ext, cut, q, tol, z))
    mism, bad = [], []
    try:
        out = driver(lines)
    except common.DriverError as e:
        broken.append(("driver", {"error": str(e)[-1000:]}))
        out = [None] * len(lines)
    for (op, cell, pbc, pos, nums, ext, cut, q, tol, z), o, line in zip(cases, out, lines):
        case = {"op": op, "cell": cell.tolist(), "pbc": [bool(b) for b in pbc], "positions": np.asarray(pos).tolist(), "numbers": [int(v) for v in nums],
                "extension": ext, "cutoff": cut, "query": None if q is None else np.asarray(q).tolist(), "tolerance": tol, "z": z}
        ctx.case((op, line), nontrivial=any(pbc), sample={"op": line[:160], "model": (o or "")[:100]} if len(ctx.samples) < 3 else None)
        atoms = Atoms(numbers=nums, positions=pos, cell=cell, pbc=pbc)
        try:
            if op == "extend":
                es = G.get_extended_system(atoms, ext)
                real = ";".join("%d:%d,%d,%d:%s" % (i, f[0], f[1], f[2], ",".join(GC.fs(v) for v in p)) for i, f, p in zip(es.indices, es.factors.astype(int), es.positions))
                if o is not None and real != o:
                    # a copy count that differs only because extension/height is an integer up to rounding is not a model error
                    mism.append({"case": case, "why": "extended system differs", "real_n": len(es.indices), "model_n": o.count(";") + 1})
                complaints = oracle_extend(cell, pbc, pos, nums, ext, es)
            elif op == "query":
                cl = G.get_cell_list(np.array(pos), cell, np.array(pbc), ext, cut)
                r = cl.get_neighbours_for_position(*q)
                got = sorted(zip(r.indices, r.indices_original, r.distances_squared, [tuple(d) for d in r.displacements], [tuple(int(v) for v in f) for f in r.factors]))
                if o is not None:
                    why = compare_query(o, got)
                    if why:
                        mism.append({"case": case, "why": why})
                complaints = oracle_query(cell, pbc, pos, ext, cut, q, got)
            else:
                cl = G.get_cell_list(np.array(pos), cell, np.array(pbc), ext, cut)
                matches, subs, vac, copies = G.get_matches(atoms, cl, np.array([q]), [z], tol)
                kind = "match" if matches[0] is not None else "substitution" if subs[0] is not None else "vacancy"
                idx = matches[0] if matches[0] is not None else (subs[0].index if subs[0] is not None else 0)
                fac = tuple(int(v) for v in copies[0])
                if o is not None:
                    mk, ans = o.split(":")
                    answers = {(int(a.split("/")[0]), tuple(int(v) for v in a.split("/")[1].split(","))) for a in ans.split("|") if a}
                    if mk != kind or (idx, fac) not in answers:
                        # a vacancy's copy index is floor(to_scaled(query)): a query ON a cell face (scaled coordinate an integer in exact
                        # arithmetic) may come out as -1e-17 in floating point — a rounding boundary, not a disagreement of the logic
                        fr = np.linalg.solve(np.array(cell).T, np.array(q))
                        if mk == kind == "vacancy" and np.abs(fr - np.rint(fr)).min() < 1e-9:
                            ctx.count("match_skipped_query_on_cell_face")
                        else:
                            mism.append({"case": case, "why": "match differs", "model": o, "real": "%s %d %s" % (kind, idx, fac)})
                complaints = oracle_match(cell, pbc, pos, nums, q, z, tol, kind, idx, fac)
        except Exception as e:  # noqa
            complaints = ["exception %r" % e]
        if complaints:
            bad.append({"case": case, "complaints": complaints[:4]})
    try:
        seq_mism = match_sequences(ctx, ctx.n(150, 3000))
    except common.DriverError as e:
        broken.append(("driver", {"error": str(e)[-1000:]}))
        seq_mism = []
    for m_ in seq_mism[:3]:
        # the model answers position by position; a position whose answer changes with its neighbours in the call is a failing input
        bad.append({"case": m_["case"], "complaints": [m_["why"]]})
    mism += seq_mism
    if mism:
        broken.append(("correspondence", {"count": len(mism), "mismatches": mism[:5]}))
    for b in bad[:5]:
        ctx.finding("%s:%s" % (b["case"]["op"], b["complaints"][0][:50]), b["complaints"][0], {"kind": "failing-input", "case": b["case"], "complaints": b["complaints"]})
    if broken and not ctx.unknown_findings():
        ctx.finding("unproved", "proof/correspondence broken, no failing input found", {"kind": "broken-obligation", "broken": broken}, found_input=False)
    ctx.coverage["broken"] = [{"what": k, "info": i} for k, i in broken]
    ctx.coverage["correspondence_mismatches"] = len(mism)
    ctx.assumptions += ["inputs on the dyadic grid: distance comparisons are exact in binary64; rounding of ceil(extension/h) at integer ratios and of bin indices is not modelled"]
    return common.finish(ctx, "proof", "extend / query / match on 1-12 atoms in dyadic cells of six shapes (extend also on cells with 1-3 zero vectors), all pbc combinations, "
                         "extension and cutoff 0.2-4 A: Lean model vs the real code and a brute-force image enumeration on the real output",
                         TRUSTED, "cd /verif/lean && lake build MatidProps.C16 (+ #print axioms)")


def match_sequences(ctx, nseq):
    """ONE call of get_matches / get_matches_simple with several query positions of mixed outcome (match, substitution, vacancy in every
    order) against the model asked position by position: the answer for a position must not depend on its neighbours in the call"""
    import matid.geometry as G
    from ase import Atoms
    rng = np.random.default_rng(ctx.seed + 1616)
    lines, seqs = [], []
    for s_ in range(nseq):
        cell, kind = GC.rand_cell(rng)
        pbc = [bool((s_ >> i) & 1) for i in range(0, 3)]
        n = int(rng.integers(2, 10))
        pos, _ = GC.rand_positions_inside(rng, cell, n)
        nums = rng.choice([6, 8, 14], n)
        ext = float(GC.dy(rng.uniform(0.5, 2.5)))
        cut = float(GC.dy(rng.uniform(0.5, 2.5)))
        tol = float(GC.dy(rng.uniform(0.1, min(ext, cut))))
        base = "%s %s" % (GC.fmt_vecs(cell), GC.fmt_pbc(pbc))
        nq = int(rng.integers(2, 6))
        plan = [("match", "substitution", "vacancy")[int(rng.integers(0, 3))] for _ in range(nq)]
        if s_ % 3 == 0:
            plan = (["substitution", "vacancy"] * 3)[:max(2, nq)]
        qs, zs = [], []
        for want in plan:
            j = int(rng.integers(0, n))
            if want == "vacancy":
                q = (rng.integers(0, 64, 3) / 64.0) @ cell
                z = int(nums[j])
            else:
                q = pos[j] + GC.dy(rng.uniform(-0.03, 0.03, 3))
                fr = np.linalg.solve(cell.T, q)
                if not ((fr >= 0) & (fr < 1)).all():
                    q = pos[j]
                z = int(nums[j]) if want == "match" else 79
            qs.append(q)
            zs.append(z)
        first = len(lines)
        for q, z in zip(qs, zs):
            lines.append("match %s %s %s %s %s %s %s %d" % (base, GC.fs(ext), GC.fs(cut), GC.fs(tol), GC.fmt_vecs(pos), ",".join(map(str, nums)), GC.fmt_vecs(q), z))
        seqs.append((cell, pbc, pos, nums, ext, cut, tol, qs, zs, first))
    out = driver(lines)
    mism = []
    for cell, pbc, pos, nums, ext, cut, tol, qs, zs, first in seqs:
        atoms = Atoms(numbers=nums, positions=pos, cell=cell, pbc=pbc)
        cl = G.get_cell_list(np.array(pos), cell, np.array(pbc), ext, cut)
        matches, subs, vac, copies = G.get_matches(atoms, cl, np.array(qs), zs, tol)
        kinds = []
        for i, (q, z) in enumerate(zip(qs, zs)):
            o = out[first + i]
            mk, ans = o.split(":")
            answers = {(int(a.split("/")[0]), tuple(int(v) for v in a.split("/")[1].split(","))) for a in ans.split("|") if a}
            kind = "match" if matches[i] is not None else "substitution" if subs[i] is not None else "vacancy"
            kinds.append(kind)
            idx = matches[i] if matches[i] is not None else (subs[i].index if subs[i] is not None else 0)
            ctx.case(("matchseq", lines[first + i]), nontrivial=True)
            ctx.count("matchseq_" + mk)
            fr = np.linalg.solve(np.array(cell).T, np.array(q))
            on_face = np.abs(fr - np.rint(fr)).min() < 1e-9
            bad_copy = np.isnan(np.asarray(copies[i], dtype=float)).any()
            fac = None if bad_copy else tuple(int(v) for v in copies[i])
            if mk != kind or bad_copy or ((idx, fac) not in answers and not (mk == "vacancy" and on_face)):
                mism.append({"why": "position %d of %d in ONE get_matches call: model %s, code %s %s %s (outcomes of the call so far: %s)" % (i, len(qs), o, kind, idx, fac, kinds),
                             "case": {"op": "match-sequence", "cell": np.asarray(cell).tolist(), "pbc": [bool(b) for b in pbc], "positions": np.asarray(pos).tolist(),
                                      "numbers": [int(v) for v in nums], "extension": ext, "cutoff": cut, "tolerance": tol,
                                      "queries": np.asarray(qs).tolist(), "z": [int(v) for v in zs]}})
                break
        if len(vac) != sum(1 for k_ in kinds if k_ == "vacancy") and not mism:
            mism.append({"why": "%d vacancies returned for %d vacant positions" % (len(vac), sum(1 for k_ in kinds if k_ == "vacancy")), "case": {"op": "match-sequence"}})
    return mism


def oracle_extend(cell, pbc, pos, nums, ext, es):
    out = []
    n = len(pos)
    idx, fac, p = np.array(es.indices), np.array(es.factors), np.array(es.positions)
    if list(idx[:n]) != list(range(n)) or np.abs(fac[:n]).max() > 0:
        out.append("the original atoms do not come first")
    if np.abs(p - (np.array(pos)[idx] + fac @ cell)).max() > 1e-12:
        out.append("position != original + offset.cell")
    if any(np.abs(fac[:, k]).max() > 0 for k in range(3) if not pbc[k]):
        out.append("offset along a non-periodic axis")
    keys = set(zip(idx.tolist(), map(tuple, fac.astype(int).tolist())))
    if len(keys) != len(idx):
        out.append("an image is listed twice")
    if list(np.array(es.atomic_numbers)) != list(np.array(nums)[idx]):
        out.append("atomic numbers do not follow the indices")
    # completeness: every image within the extension of a point of the cell (non-singular cells, atoms inside)
    if abs(np.linalg.det(cell)) > 1e-9:
        rng = np.random.default_rng(len(pos))
        ns, shifts = GC.brute_images(cell, pbc, ext)
        for _ in range(6):
            q = (rng.integers(0, 64, 3) / 64.0) @ cell
            for j in range(n):
                d2 = ((q - pos[j] - shifts) ** 2).sum(axis=1)
                for nv in ns[d2 <= ext * ext]:
                    if (j, tuple(int(v) for v in nv)) not in keys:
                        out.append("image %s of atom %d within the extension of a cell point is missing" % (nv, j))
                        return out
    return out


def compare_query(o, got):
    model = []
    if o.startswith("BINS-DIFFER-FROM-SPEC"):
        return "model: bin search differs from the specification"
    if o in ("ValueError", "degenerate", "bad-op"):
        return "model says " + o
    for ent in (o.split(";") if o else []):
        e, i, d2, disp, f = ent.split(":")
        model.append((int(e), int(i), float(Fraction(d2)), tuple(float(Fraction(v)) for v in disp.split(",")), tuple(int(v) for v in f.split(","))))
    if len(model) != len(got):
        return "model returns %d neighbours, real %d" % (len(model), len(got))
    for m, g in zip(model, got):
        if m[0] != g[0] or m[1] != g[1] or m[4] != g[4] or abs(m[2] - g[2]) > 1e-12 or max(abs(a - b) for a, b in zip(m[3], g[3])) > 1e-12:
            return "neighbour differs: model %s real %s" % (m, g)
    return None


def oracle_query(cell, pbc, pos, ext, cut, q, got):
    out = []
    ns, shifts = GC.brute_images(cell, pbc, max(ext, cut))
    seen = {(g[1], g[4]) for g in got}
    if len(seen) != len(got):
        out.append("an image is returned twice")
    for g in got:
        img = pos[g[1]] + np.array(g[4]) @ cell
        d = q - img
        if abs((d * d).sum() - g[2]) > 1e-12 or np.abs(np.array(g[3]) - d).max() > 1e-12:
            out.append("distance / displacement of a returned neighbour is not exact")
        if g[2] > cut * cut:
            out.append("a neighbour beyond the cutoff is returned")
    for j in range(len(pos)):
        d2 = ((q - pos[j] - shifts) ** 2).sum(axis=1)
        for nv in ns[(d2 <= cut * cut) & (d2 <= ext * ext)]:
            if (j, tuple(int(v) for v in nv)) not in seen:
                out.append("image %s of atom %d within cutoff and extension is not returned" % (nv, j))
                return out
    return out


def oracle_match(cell, pbc, pos, nums, q, z, tol, kind, idx, fac):
    ns, shifts = GC.brute_images(cell, pbc, tol + 1e-9)
    best, ties = None, []
    for j in range(len(pos)):
        d2 = ((q - pos[j] - shifts) ** 2).sum(axis=1)
        for nv, v in zip(ns, d2):
            if best is None or v < best - 1e-15:
                best, ties = v, [(j, tuple(int(x) for x in nv))]
            elif abs(v - best) <= 1e-15:
                ties.append((j, tuple(int(x) for x in nv)))
    if best is None or best > tol * tol:
        exp_kind = "vacancy"
    else:
        kinds = {"match" if nums[j] == z else "substitution" for j, _ in ties}
        if len(kinds) > 1:
            return []      # equidistant images of different species: either answer is admissible
        exp_kind = kinds.pop()
    if kind != exp_kind:
        return ["reported %s, nearest image within tolerance says %s" % (kind, exp_kind)]
    if kind != "vacancy" and (idx, fac) not in ties:
        return ["reported image (%d, %s) is not a nearest image %s" % (idx, fac, ties[:4])]
    if kind == "vacancy":
        fr = np.floor(np.linalg.solve(cell.T, q) + 0)
        if tuple(int(v) for v in fr) != fac:
            return ["vacancy cell offset %s, expected %s" % (fac, fr)]
    return []


def replay(path):
    r = json.load(open(path))
    print(json.dumps(r, indent=1)[:3000])
    return 0
