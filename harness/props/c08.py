"""C08 — reported free Wyckoff parameters regenerate the atoms of their set."""
import json
from fractions import Fraction

import numpy as np

import common
from common import prove, driver

P = "Matid.Props.C08."
THEOREMS = [P + t for t in ("repSolvable_all", "params_sound", "representative_hits_an_atom", "act_add_int", "wrapParam_range", "flag_iff", "params_complete")]
TRUSTED = ["Lean 4 kernel", "axioms: propext, Classical.choice, Quot.sound at most (audited per run)",
           "tools/gen_tables.py, tools/gen_wyckoff_rule.py (AST translator of the reading rule and first tolerance)",
           "correspondence harness driving SymmetryAnalyzer._get_wyckoff_sets with synthetic sets (no spglib involved)"]


def fs(x):
    f = Fraction(x)
    return "%d/%d" % (f.numerator, f.denominator)


def table_affs(n, letter):
    import crystals
    from affine import from_expression_numeric, Aff, snap24
    W = crystals.wyckoff_tables()[n]
    d = W[letter]
    ex = [from_expression_numeric(M, C) for M, C in zip(d["matrices"], d["constants"])]
    ce = [Aff.translation([snap24(v) for v in t]) for t in np.asarray(W["translations"]).reshape(-1, 3)]
    mask = sum(b for v, b in (("x", 1), ("y", 2), ("z", 4)) if v in d["variables"])
    return ex, ce, mask


def correspondence(ctx, pairs):
    import crystals
    from ase import Atoms
    from ase.geometry.cell import cellpar_to_cell
    from matid.symmetry.symmetryanalyzer import SymmetryAnalyzer
    from affine import Aff
    rng = np.random.default_rng(ctx.seed + 8)
    lines, cases = [], []
    for (n, letter) in pairs:
        ex, ce, mask = table_affs(n, letter)
        if mask == 0:
            continue
        w = tuple(Fraction(int(rng.integers(3, 125)), 128) + Fraction(i + 1, 997) for i in range(3))
        T = [Aff.translation((0, 0, 0))] + ce
        pos = [e.addT(t).act(w) for t in T for e in ex]
        pos = [tuple(x - (x.numerator // x.denominator) for x in p) for p in pos]      # wrap into [0,1)
        kind = "exact"
        r = rng.random()
        if r < 0.15:
            i = int(rng.integers(0, len(pos)))
            pos[i] = tuple((x + Fraction(1, 16)) % 1 for x in pos[i])                  # one atom displaced: must fail
            kind = "displaced"
        elif r < 0.3 and len(pos) > 1:
            pos.pop(int(rng.integers(0, len(pos))))                                     # one atom missing
            kind = "missing"
        order = rng.permutation(len(pos))
        pos = [pos[i] for i in order]
        cell = np.array(cellpar_to_cell(crystals.cellpar_for_group(n, rng)))
        cell = np.round(cell * 4096) / 4096
        fpos = np.array([[float(x) for x in p] for p in pos])
        atoms = Atoms(numbers=[14] * len(pos), scaled_positions=fpos, cell=cell, pbc=True)
        lines.append("wparams %s %s %d %s %s %s" % (",".join(str(e.pack()) for e in ex), ",".join(str(c.pack()) for c in ce) or "-", mask,
                                                    ",".join(fs(v) for v in cell.flatten()), "1/1000",
                                                    ",".join(fs(x) for p in pos for x in p)))
        cases.append((n, letter, kind, atoms, mask))
        ctx.count("corr_" + kind)
    out = driver(lines)
    mism = []
    for (n, letter, kind, atoms, mask), o, line in zip(cases, out, lines):
        sa = SymmetryAnalyzer(atoms, symmetry_tol=1e-3)
        N = len(atoms)
        try:
            sets = sa._get_wyckoff_sets(atoms, n, np.array([letter] * N), np.zeros(N, dtype=int), 1e-3, True)
            got = {v: getattr(sets[0], v) for v in "xyz" if getattr(sets[0], v) is not None}
            real = "ok"
        except ValueError:
            got, real = {}, "ValueError"
        except Exception as e:  # noqa
            got, real = {}, "exception %r" % e
        ctx.case(("corr", n, letter, kind), nontrivial=True, sample={"group": n, "letter": letter, "kind": kind, "model": o[:80], "real": str(got)[:80]} if len(ctx.samples) < 3 else None)
        ok = True
        if o == "ValueError" or real != "ok":
            ok = (o == real)
        else:
            try:
                mv = {kv.split("=")[0]: float(Fraction(kv.split("=")[1])) for kv in o.split(";")}
            except Exception:
                mv = None
            if mv is None or set(mv) != set(got):
                ok = False
            else:
                for k in mv:
                    d = abs(mv[k] - got[k])
                    if min(d, 1 - d) > 1e-6:
                        ok = False
        if not ok:
            mism.append({"group": n, "letter": letter, "kind": kind, "model": o, "real": real, "real_values": {k: float(v) for k, v in got.items()},
                         "atoms": crystals.atoms_to_json(atoms)})
    return mism


def oracle_sets(sa, atoms_conv, n, tol):
    """the property on one analysed crystal: returns complaints"""
    import crystals
    from affine import from_expression_strings
    W = crystals.wyckoff_tables()[n]
    out = []
    sets = sa.get_wyckoff_sets_conventional(return_parameters=True)
    pos = atoms_conv.get_scaled_positions()
    cell = np.array(atoms_conv.get_cell())
    any_param = False
    for ws in sets:
        free = set(W[ws.wyckoff_letter]["variables"])
        reported = {v for v in "xyz" if getattr(ws, v) is not None}
        any_param = any_param or bool(reported)
        if reported != free:
            out.append("set %s %s reports %s, free variables are %s" % (ws.element, ws.wyckoff_letter, sorted(reported), sorted(free)))
            continue
        vals = [getattr(ws, v) if v in reported else 0.0 for v in "xyz"]
        if any(not (0 <= v < 1) for v in vals):
            out.append("parameter outside [0,1): %s" % vals)
        rep = ws.representative
        e = from_expression_strings(rep if isinstance(rep, (list, tuple)) else rep.split(","))
        if e is None:
            out.append("unparsable representative %r" % (rep,))
            continue
        p = np.array([sum(e.R[c][k] * vals[k] for k in range(3)) + e.t[c] / 24.0 for c in range(3)])
        d = pos[ws.indices] - p
        d -= np.rint(d)
        dist = np.linalg.norm(d @ cell, axis=1).min()
        if dist > max(tol, 1e-3) * 1.5 + 1e-6:
            out.append("representative %s at %s is %.4f A from the nearest atom of its set" % (rep, vals, dist))
    flag = sa.get_has_free_wyckoff_parameters()
    if bool(flag) != any_param:
        out.append("has_free_wyckoff_parameters=%s but sets carry parameters: %s" % (flag, any_param))
    return out


def monitor(ctx, pairs):
    import crystals
    from matid.symmetry.symmetryanalyzer import SymmetryAnalyzer
    rng = np.random.default_rng(ctx.seed + 88)
    bad = []
    for (n, letter) in pairs:
        gen = crystals.general_letter(n)
        made = None
        for _ in range(4):
            made = crystals.table_crystal(n, [(letter, 14, None), (gen, 8, None)], rng)
            if made:
                break
        if not made:
            ctx.count("e2e_collision")
            continue
        atoms, meta = made
        if rng.random() < 0.3:
            atoms = atoms[rng.permutation(len(atoms))]
        try:
            sa = SymmetryAnalyzer(atoms, symmetry_tol=1e-3)
            if sa.get_space_group_number() != n:
                ctx.count("e2e_discarded_group_changed")
                continue
            res = oracle_sets(sa, sa.get_conventional_system(), n, 1e-3)
        except Exception as e:  # noqa
            res = ["exception %s: %s" % (type(e).__name__, str(e)[:150])]
        ctx.case(("e2e", n, letter))
        ctx.count("e2e_crystals")
        if res:
            bad.append({"group": n, "letter": letter, "complaints": res, "atoms": crystals.atoms_to_json(atoms), "meta": meta})
    return bad


def oracle_sets_2d(sa, conv, num, tol):
    """C08 on a two-dimensionally periodic input, clause by clause.  Returns a list of (signature, text): the signature is the
    failure mode (used in the finding key, so that the two recorded known failure modes of 2D inputs — the parameter solver
    raising ValueError, and representatives that are displaced along the non-periodic axis because the returned cell was
    re-centred and cut to the layer — do not hide any other deviation)."""
    import crystals
    from affine import from_expression_strings
    W = crystals.wyckoff_tables()[num]
    out = []
    try:
        sets = sa.get_wyckoff_sets_conventional(return_parameters=True)
    except ValueError as e:
        if "Could not resolve the free Wyckoff parameters" in str(e):
            return [("cannot-resolve", "get_wyckoff_sets_conventional(return_parameters=True) raises: %s" % str(e)[:120])]
        return [("exception", "ValueError: %s" % str(e)[:150])]
    pos = conv.get_scaled_positions()
    cell = np.array(conv.get_cell())
    any_param = False
    for ws in sets:
        free = set(W[ws.wyckoff_letter]["variables"])
        reported = {v for v in "xyz" if getattr(ws, v) is not None}
        any_param = any_param or bool(reported)
        if reported != free:
            out.append(("variables", "set %s %s reports %s, free variables are %s" % (ws.element, ws.wyckoff_letter, sorted(reported), sorted(free))))
            continue
        vals = [getattr(ws, v) if v in reported else 0.0 for v in "xyz"]
        if any(not (0 <= v < 1) for v in vals):
            out.append(("range", "parameter outside [0,1): %s" % vals))
        e = from_expression_strings(ws.representative)
        if e is None:
            out.append(("representative", "unparsable representative %r" % (ws.representative,)))
            continue
        p = np.array([sum(e.R[c][k] * vals[k] for k in range(3)) + e.t[c] / 24.0 for c in range(3)])
        d = pos[ws.indices] - p
        d[:, :2] -= np.rint(d[:, :2])            # lattice translations exist in the plane only
        inplane = np.linalg.norm(d[:, :2] @ cell[:2, :], axis=1)
        full = np.linalg.norm(d @ cell, axis=1)
        lim = max(tol, 1e-3) * 1.5 + 1e-6
        if inplane.min() > lim:
            out.append(("inplane", "representative %s at %s misses every atom of its set in the plane by %.4f A" % (ws.representative, vals, inplane.min())))
        elif full.min() > lim:
            out.append(("offset-along-c", "representative %s at %s matches an atom of its set in the plane but is %.4f A away along the non-periodic axis"
                        % (ws.representative, vals, full[np.argmin(inplane)])))
    flag = sa.get_has_free_wyckoff_parameters()
    if bool(flag) != any_param:
        out.append(("flag", "has_free_wyckoff_parameters=%s but sets carry parameters: %s" % (flag, any_param)))
    return out


def monitor_2d(ctx, n_cases, extra=()):
    """two-dimensionally periodic inputs of the property: layers in the layer-compatible space groups and the MX2 / graphene /
    BN monolayers; `extra` = recorded inputs of the known findings (examined first)"""
    import crystals
    import families as F
    from props import c11
    from matid.symmetry.symmetryanalyzer import SymmetryAnalyzer
    rng = np.random.default_rng(ctx.seed + 808)
    bad = []
    todo = [(crystals.atoms_from_json(x["atoms"]), dict(x.get("meta", {}), known_finding_input=True)) for x in extra]
    monos = F.monolayers()
    k = 0
    while len(todo) < len(extra) + n_cases and k < n_cases * 12:
        k += 1
        if k % 6 == 0:
            name, make, _ = monos[(k // 6) % len(monos)]
            at = make()
            at.set_pbc([True, True, False])
            todo.append((at, {"layer": name}))
        else:
            g = c11.LAYER_GROUPS[k % len(c11.LAYER_GROUPS)]
            at = c11.make_layer(rng, g)
            if at is not None:
                todo.append((at, {"layer_group": g}))
    for at, meta in todo:
        try:
            sa = SymmetryAnalyzer(at, symmetry_tol=1e-3)
            conv = sa.get_conventional_system()
            num = sa.get_space_group_number()
            res = oracle_sets_2d(sa, conv, num, 1e-3)
        except Exception as e:  # noqa
            res = [("exception", "%s: %s" % (type(e).__name__, str(e)[:150]))]
            num = None
        ctx.case(("2d", json.dumps(meta, sort_keys=True), len(at)))
        ctx.count("e2e_2d_inputs")
        for sig, text in res:
            ctx.count("2d_" + sig)
            bad.append({"signature": sig, "text": text, "group": num, "atoms": crystals.atoms_to_json(at), "meta": meta})
    return bad


def run(ctx):
    common.install_matid()
    import gen_tables
    import gen_wyckoff_rule
    import crystals
    broken = []
    terr = common.regen(ctx, ("tables", "wyckoff_rule"))
    if terr:
        for t in THEOREMS:
            ctx.obligations.append((t, False))
        broken.append(("translator", terr))
    else:
        ok, info = prove(ctx, "MatidProps.C08", THEOREMS)
        if not ok:
            broken.append(("proof", info))
    W = crystals.wyckoff_tables()
    rng = np.random.default_rng(ctx.seed)
    all_pairs = [(n, l) for n in range(1, 231) for l in W[n] if l != "translations"]
    size = {(n, l): len(W[n][l]["expressions"]) * (len(np.asarray(W[n]["translations"]).reshape(-1, 3)) + 1) for n, l in all_pairs}
    small = [p for p in all_pairs if size[p] <= (96 if ctx.thorough() else 32) and W[p[0]][p[1]]["variables"]]
    corr_pairs = small if ctx.thorough() else [small[i] for i in sorted(rng.choice(len(small), 500, replace=False))]
    # always include the historically bad entries
    for must in ((98, "e"), (178, "b"), (179, "b")):
        if must not in corr_pairs:
            corr_pairs.append(must)
    mism = []
    try:
        mism = correspondence(ctx, corr_pairs)
    except common.DriverError as e:
        broken.append(("driver", {"error": str(e)[-1000:]}))
    if mism:
        broken.append(("correspondence", {"count": len(mism), "mismatches": [{k: v for k, v in m.items() if k != "atoms"} for m in mism[:5]]}))
        # a synthetic complete orbit that raises ValueError is itself a failing input of the property
        for m in mism:
            if m["kind"] == "exact" and m["real"] != "ok":
                ctx.finding("orbit:%d:%s" % (m["group"], m["letter"]), "complete orbit of %d %s: _get_wyckoff_sets -> %s" % (m["group"], m["letter"], m["real"]),
                            {"kind": "failing-input", "case": m, "how": "SymmetryAnalyzer._get_wyckoff_sets on the stored atoms, all atoms letter %s, precision 1e-3" % m["letter"]})
    e2e_pairs = all_pairs * 3 if ctx.thorough() else [all_pairs[i] for i in sorted(rng.choice(len(all_pairs), 350, replace=False))] + [(98, "e"), (178, "b"), (179, "b")]
    bad = monitor(ctx, e2e_pairs)
    for b in bad[:8]:
        ctx.finding("crystal:%d:%s" % (b["group"], b["letter"]), "group %d letter %s: %s" % (b["group"], b["letter"], b["complaints"][0]), {"kind": "failing-input", "case": b})
    # two-dimensionally periodic inputs (the recorded inputs of the known findings first)
    extra = [e["repro"] for e in common.known_findings().get("known", []) if e.get("property") == "C08" and "repro" in e]
    seen2d = set()
    for b in monitor_2d(ctx, ctx.n(40, 900), extra):
        if b["signature"] in seen2d:
            continue
        seen2d.add(b["signature"])
        ctx.finding("2d:" + b["signature"], "2D input (group %s): %s" % (b["group"], b["text"]), {"kind": "failing-input", "case": b,
                    "how": "SymmetryAnalyzer(atoms with pbc TTF, symmetry_tol=1e-3).get_wyckoff_sets_conventional(return_parameters=True)"})
    import analyzer_hist
    analyzer_hist.check(ctx, "C08", broken)
    if broken and not ctx.unknown_findings():
        ctx.finding("unproved", "proof/correspondence broken, no failing input found", {"kind": "broken-obligation", "broken": broken}, found_input=False)
    ctx.coverage["broken"] = [{"what": k, "info": i} for k, i in broken]
    ctx.coverage["correspondence_mismatches"] = len(mism)
    ctx.assumptions += ["floating-point evaluation of W·M + C and of the distances agrees with exact arithmetic away from the tolerance boundary (generic parameters are used)",
                        "S2: spglib's letters/orbits for the conventional cell (end-to-end monitor)"]
    return common.finish(ctx, "proof", "(group, letter) pairs from the 1 731 tabulated positions: synthetic complete / displaced / incomplete orbits through _get_wyckoff_sets vs the Lean model; "
                         "end-to-end table-built crystals through SymmetryAnalyzer (distinct = distinct (kind, group, letter))",
                         TRUSTED, "cd /verif/lean && lake build MatidProps.C08 (+ #print axioms)")


def replay(path):
    common.install_matid()
    import crystals
    from matid.symmetry.symmetryanalyzer import SymmetryAnalyzer
    r = json.load(open(path))
    c = r.get("case", {})
    a = crystals.atoms_from_json(c["atoms"])
    if r["key"].startswith("orbit"):
        sa = SymmetryAnalyzer(a, symmetry_tol=1e-3)
        try:
            s = sa._get_wyckoff_sets(a, c["group"], np.array([c["letter"]] * len(a)), np.zeros(len(a), dtype=int), 1e-3, True)
            print("now ok:", s[0])
        except Exception as e:  # noqa
            print("now:", repr(e))
    else:
        sa = SymmetryAnalyzer(a, symmetry_tol=1e-3)
        try:
            print("complaints now:", oracle_sets(sa, sa.get_conventional_system(), c["group"], 1e-3))
        except Exception as e:  # noqa
            print("now:", repr(e))
    return 0
