"""C07 — Wyckoff sets are exactly the symmetry orbits of the conventional cell."""
import json

import numpy as np

import common
import sym_common as S
from common import prove

P = "Matid.Props.C07."
THEOREMS = [P + t for t in ("sets_partition_atoms", "sets_homogeneous", "orbit_transport", "letters_follow_permutation")] + \
    ["Matid.Select.sets_partition", "Matid.Props.C14.wyckoff_positions_are_orbits"]
TRUSTED = ["Lean 4 kernel", "axioms: propext, Classical.choice, Quot.sound at most (audited per run)", "tools/gen_tables.py",
           "correspondence: _get_wyckoff_sets(return_parameters=False) with synthetic label arrays vs Select.wyckoffSets/sortSets; ranking as in C05/C06",
           "contract S2 (spglib: equal orbit label => equal element and letter) — monitored end to end"]


def run(ctx):
    common.install_matid()
    import crystals
    broken = []
    terr = common.regen(ctx, ("tables",))
    if terr:
        for t in THEOREMS:
            ctx.obligations.append((t, False))
        broken.append(("translator", terr))
    else:
        ok, info = prove(ctx, "MatidProps.C07", THEOREMS)
        if not ok:
            broken.append(("proof", info))
    mism = []
    try:
        mism = S.corr_sets(ctx, ctx.n(1000, 20000)) + S.corr_select(ctx, ctx.n(200, 3000))
    except common.DriverError as e:
        broken.append(("driver", {"error": str(e)[-1000:]}))
    if mism:
        broken.append(("correspondence", {"count": len(mism), "mismatches": mism[:5]}))
    rng = np.random.default_rng(ctx.seed + 77)
    groups = list(range(1, 231)) * (3 if ctx.thorough() else 1)
    if not ctx.thorough():
        groups = sorted(set(rng.choice(np.arange(1, 231), 70, replace=False).tolist() + [225, 227, 62, 194, 166, 88, 98, 214]))
    bad = []
    letters_judged = 0
    for n, atoms, meta in S.sample_crystals(ctx, groups, rng, max_atoms=100):
        variants = [("as-built", atoms, {})]
        if rng.random() < 0.6:
            a2, desc = crystals.present(atoms, rng)
            if len(a2) <= 240:
                variants.append(("presented", a2, desc))
        for label, a, desc in variants:
            try:
                res, info = S.check_orbits(a, n)
            except Exception as e:  # noqa
                res, info = ["exception %s: %s" % (type(e).__name__, str(e)[:200])], {}
            if res is None:
                ctx.count("e2e_discarded_group_changed")
                continue
            ctx.case(("orbits", n, label, len(a), json.dumps(desc, sort_keys=True)[:120]))
            ctx.count("e2e_" + label)
            letters_judged += bool(info.get("letters_judged"))
            if res:
                bad.append({"group": n, "complaints": res, "atoms": crystals.atoms_to_json(a), "presentation": desc, "meta": meta})
    # directed: the only upper-case Wyckoff letter of the tables (47 A, the general position of Pmmm) occupied together with special positions
    for occ in ([("A", 6), ("a", 8)], [("A", 8), ("h", 14), ("i", 6)], [("A", 14)]):
        try:
            a47, _, _ = S.rational_crystal(47, occ, rng)
            res, info = S.check_orbits(a47, 47)
        except Exception as e:  # noqa
            res, info = ["exception %s: %s" % (type(e).__name__, str(e)[:200])], {}
        if res is None:
            ctx.count("e2e_discarded_group_changed")
            continue
        ctx.case(("orbits", 47, "directed-upper-case-letter", str(occ)))
        ctx.count("e2e_group47_general_position")
        letters_judged += bool(info.get("letters_judged"))
        if res:
            bad.append({"group": 47, "complaints": res, "atoms": crystals.atoms_to_json(a47), "presentation": {"directed": "47 A occupied"}, "meta": {"occupation": str(occ)}})
    ctx.coverage["letters_compared_with_independent_assignment"] = letters_judged
    for b in bad[:6]:
        ctx.finding("crystal:%d:%s" % (b["group"], b["complaints"][0][:40]), "group %d: %s" % (b["group"], b["complaints"][0]), {"kind": "failing-input", "case": b})
    import analyzer_hist
    analyzer_hist.check(ctx, "C07", broken)
    if broken and not ctx.unknown_findings():
        import crystals
        drng = np.random.default_rng(ctx.seed + 70707)
        nd = 0
        for n, a1, a2, meta in S.directed_crystals(ctx, S.broken_groups(broken)[:6], drng):
            try:
                res, _ = S.check_orbits(a2, n)
            except Exception as e:  # noqa
                res = ["exception %s: %s" % (type(e).__name__, str(e)[:200])]
            ctx.count("directed_orbit_checks")
            if res and nd < 3:
                nd += 1
                ctx.finding("orbits:%d:%s" % (n, res[0][:40]), "group %d (directed, letter %s): %s" % (n, meta["letter"], res[0]),
                            {"kind": "failing-input", "case": {"group": n, "complaints": res, "atoms": crystals.atoms_to_json(a2), "presentation": meta}})
    if broken and not ctx.unknown_findings():
        ctx.finding("unproved", "proof/correspondence broken, no failing crystal found", {"kind": "broken-obligation", "broken": broken}, found_input=False)
    ctx.coverage["broken"] = [{"what": k, "info": i} for k, i in broken]
    ctx.coverage["correspondence_mismatches"] = len(mism)
    ctx.assumptions += ["S2: spglib's crystallographic_orbits / wyckoffs / mappings are mutually consistent (hypothesis of sets_homogeneous)",
                        "letters are compared with spglib's own assignment only when its standardisation of the returned cell is the identity (counted)"]
    return common.finish(ctx, "proof", "synthetic label arrays through _get_wyckoff_sets vs the Lean model; end-to-end: sets of the conventional system vs orbits under the operations "
                         "an independent spglib run finds for the returned structure, letters vs spglib's assignment",
                         TRUSTED, "cd /verif/lean && lake build MatidProps.C07 (+ #print axioms)")


def replay(path):
    common.install_matid()
    import crystals
    r = json.load(open(path))
    c = r.get("case", {})
    if "atoms" in c:
        print("complaints now:", S.check_orbits(crystals.atoms_from_json(c["atoms"]), c["group"]))
    print(json.dumps({k: v for k, v in r.items() if k != "case"}, indent=1)[:1500])
    return 0
